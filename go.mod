module verifharness

go 1.22

require (
	github.com/anishathalye/porcupine v1.3.0
	github.com/yuin/goldmark v1.4.13
	src.elv.sh v0.0.0
)

replace src.elv.sh => /repo
