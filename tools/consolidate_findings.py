#!/usr/bin/env python3
"""Rebuild /verif/known_findings.json: open findings (from the per-check staging files
checks/cNN/findings.json and the existing file) + one 'fixed' entry per fix: commit in /repo.
Run by the coordinator only; checks never write this file."""
import json, glob, subprocess, os, re
root = os.path.dirname(os.path.dirname(os.path.abspath(__file__)))
PROPS = {  # subject keyword -> properties
 'defer callback that succeeds': ['C15','C21'], 'conj $nil': ['C15','C17'], 'parse node text of a redirection': ['C01'],
 'SubVector on a sub-vector': ['C06'], 'sub-vector Assoc bound': ['C06'], '0.0 and -0.0': ['C08'],
 'string indices at a literal U+FFFD': ['C13'], 'compare &total treats a sliced list': ['C09','C04'],
 'math:pow of exact 0': ['C11','C17'], 'edit:complex-candidate': ['C08','C09'], 'peach re-tests': ['C20'],
 'peach stops feeding': ['C19'], 'only-values/only-bytes': ['C18'], 'wildcard modifiers': ['C23'],
 'several **': ['C23'], 'glob matching backtracks': ['C23'], 'daemon does not unlink': ['C27'],
 'getopt': ['C38'], 'LSP position': ['C44'], 'completion of a new word': ['C43'], 'variable-name completion': ['C43'],
 'negative or huge file descriptor': ['C17','C42'], 'read-bytes': ['C17'], 'randint': ['C17'], 'str:repeat': ['C17'], 'is on values of uncomparable': ['C17'],
 'run-parallel wraps': ['C17'], 'redirects its own stdin': ['C17'], 'port without a value channel': ['C17'],
 'Frame.Port': ['C17'], 'HasSubseq': ['C17'], 'styledown Render': ['C17'], 'duplicating a port onto itself': ['C42'],
 'TrimWcwidth': ['C33'], 'Segment.Concat': ['C33'], 'Text.Clone': ['C33'], 'StyleRegions': ['C33'], 'ParseSGREscapedText': ['C33'],
 'vertical list box': ['C34'], 'list box rendering clamps': ['C34'], 'TextView.ScrollBy': ['C34'],
 'guard Evaler.modules': ['C39'], 'top-level del': ['C39'], 'key binding interrupts': ['C28'], 'Markdown formatter': ['C36'], 'Markdown': ['C35'],
}
log = subprocess.run(['git','-C','/repo','log','--reverse','--format=%h\t%s'],capture_output=True,text=True).stdout.splitlines()
fixed = []
for line in log:
    h, s = line.split('\t',1)
    if not s.startswith('fix:'): continue
    props = next((v for k,v in PROPS.items() if k in s), ['?'])
    for p in props:
        fixed.append({"property": p, "status": "fixed", "commit": h, "what": s[5:],
                      "line": f"fixed: property={p} {h} {s[5:]}"})
openf, seen = [], set()
srcs = sorted(glob.glob(os.path.join(root,'checks','*','findings.json')))
kf = os.path.join(root,'known_findings.json')
if os.path.exists(kf): srcs = [kf] + srcs
for f in srcs:
    for x in json.load(open(f))['findings']:
        if x.get('status') != 'open': continue
        k = (x['property'], x.get('key',''), x.get('match',''))
        if k in seen: continue
        seen.add(k); openf.append(x)
json.dump({"_comment": "open = genuine defects still present in /repo, matched by violation signature (key = exact, match = regexp); a check prints KNOWN-FINDING for them and exits 0. fixed = defects repaired by a fix: commit in /repo; fixed entries suppress nothing. Never written at run time.",
           "findings": openf + fixed}, open(os.path.join(root,'known_findings.json'),'w'), indent=1, ensure_ascii=False)
print(len(openf),'open,',len(fixed),'fixed;', [f['line'] for f in fixed if f['property']=='?'])
