#!/bin/bash
# Usage: tools/verify_seed.sh <dir-with-patch.diff+demo.sh+meta.json> [skip-suite]
# Confirms a seeded change independently: applies it in a scratch worktree of /repo (outside /repo
# and /verif), builds, runs the repository's own test suite, runs the demonstration on a clean and
# on the changed tree, then runs the property's quick check against the changed tree.
# Prints one summary line; leaves nothing behind.
set -u
export GOFLAGS=-mod=mod GOPROXY=off GOSUMDB=off GOTOOLCHAIN=local
D="$(cd "$1" && pwd)"; NAME=$(basename "$D")
PROP=$(python3 -c "import json,sys;print(json.load(open('$D/meta.json'))['property'])")
WT=/tmp/vseed-$NAME-$$; CLEAN=/tmp/vseed-clean-$NAME-$$
git -C /repo worktree add -q "$WT" HEAD || exit 2
git -C /repo worktree add -q "$CLEAN" HEAD || exit 2
trap 'git -C /repo worktree remove --force "$WT" >/dev/null 2>&1; git -C /repo worktree remove --force "$CLEAN" >/dev/null 2>&1' EXIT
applies=ok; builds=ok; suite=skipped; demo_clean=?; demo_changed=?; check=?
git -C "$WT" apply "$D/patch.diff" 2>/tmp/vseed-$$.err || applies=FAIL
if [ $applies = ok ]; then
  (cd "$WT" && go build ./... ) >/dev/null 2>&1 || builds=FAIL
  if [ "${2:-}" != skip-suite ] && [ $builds = ok ]; then
    if (cd "$WT" && go test -vet=off -count=1 ./... 2>&1 | grep -E "^(FAIL|---|panic)" | head -5 | grep -q .); then suite=FAIL; else suite=pass; fi
  fi
  if timeout 600 bash "$D/demo.sh" "$CLEAN" >/dev/null 2>&1; then demo_clean=pass; else demo_clean=FAIL; fi
  if timeout 600 bash "$D/demo.sh" "$WT" >/dev/null 2>&1; then demo_changed=PASS-unexpected; else demo_changed=fails-as-expected; fi
  git -C "$WT" status --porcelain | grep -v '^ M' | head -3
  out=$(cd /verif && VERIF_REPO="$WT" timeout 1200 ./check "$PROP" quick 2>&1); rc=$?
  if [ $rc = 1 ] && echo "$out" | grep -q "^VIOLATION property=$PROP"; then check=DETECTED; else check="missed(rc=$rc)"; fi
  echo "$out" | grep -E "^(VIOLATION|KNOWN|INCONCL)" | cut -c1-300 | head -4
fi
rm -f /tmp/vseed-$$.err
echo "SEED $NAME prop=$PROP applies=$applies builds=$builds suite=$suite demo_clean=$demo_clean demo_changed=$demo_changed check=$check"
