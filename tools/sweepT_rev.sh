#!/bin/bash
# second thorough stream, from C44 downwards, skipping checks another stream already started
cd /verif
for n in $(seq 44 -1 1); do id=$(printf "C%02d" $n)
  [ -e scratch/sweep/$id.thorough.1.log ] && continue
  t0=$(date +%s); VERIF_SEED=1 timeout 2400 ./check $id thorough > scratch/sweep/$id.thorough.1.log 2>&1; rc=$?; t1=$(date +%s)
  echo "$id tier=thorough seed=1 rc=$rc violations=$(grep -c '^VIOLATION' scratch/sweep/$id.thorough.1.log) wall=$((t1-t0))s $(tail -1 scratch/sweep/$id.thorough.1.log | cut -c1-140)"
done
