#!/bin/bash
# tools/seed_suite.sh <seed dir>: confirm the repository's own suite passes with the seeded change applied.
# Only packages whose (test) dependency closure contains a changed package are re-run: every other
# package builds the identical test binary as on the unchanged tree, where the suite passes.
export GOFLAGS=-mod=mod GOPROXY=off GOSUMDB=off GOTOOLCHAIN=local ELVISH_TEST_TIME_SCALE=20
D="$(cd "$1" && pwd)"; NAME=$(basename "$D"); WT=/tmp/vsuite-$NAME-$$
git -C /repo worktree add -q "$WT" HEAD || exit 2
trap 'git -C /repo worktree remove --force "$WT" >/dev/null 2>&1' EXIT
git -C "$WT" apply "$D/patch.diff" || { echo "SUITE $NAME applies=FAIL"; exit 1; }
cd "$WT" || exit 2
changed=$(git diff --name-only | xargs -n1 dirname | sort -u | sed 's|^|src.elv.sh/|' | tr '\n' ' ')
pkgs=$(go list -test -f '{{.ImportPath}} {{join .Deps " "}}' ./... 2>/dev/null | python3 -c "
import sys
ch=set('$changed'.split())
out=set()
for line in sys.stdin:
    f=line.split()
    if not f: continue
    base=f[0]
    if len(f)>1 and f[1].startswith('[') and f[1].endswith('.test]'): base=f[1][1:-6]; f=[f[0]]+f[2:]
    if base.endswith('.test'): base=base[:-5]
    names=set(x.split('[')[0].strip() for x in f[1:])|{base}
    if names & ch: out.add(base)
print(' '.join(sorted(out)))")
n=$(echo $pkgs | wc -w)
[ "$n" -gt 0 ] || { echo "SUITE $NAME FAIL: no affected package found (changed: $changed)"; exit 1; }
out=$(go test -trimpath -p 6 -vet=off -count=1 -timeout 40m $pkgs 2>&1); rc=$?
fails=$(echo "$out" | grep -E "^(FAIL|panic:)" | grep -v "^FAIL$" | awk '{print $2}' | sort -u | tr '\n' ' ')
if [ $rc -ne 0 ] && [ -z "$fails" ]; then echo "SUITE $NAME FAIL: go test exit $rc: $(echo "$out" | tail -2 | tr '\n' ' ')"; exit 1; fi
if [ -n "$fails" ]; then
  still=""
  for p in $fails; do case "$p" in src.elv.sh*) go test -trimpath -vet=off -count=1 "$p" >/dev/null 2>&1 || still="$still $p";; esac; done
  if [ -n "$still" ]; then echo "SUITE $NAME FAIL:$still"; else echo "SUITE $NAME pass ($n affected packages re-run of 62; re-run alone after load flake: $fails)"; fi
else echo "SUITE $NAME pass ($n affected packages re-run of 62)"; fi
