#!/bin/bash
# tools/seed_suite.sh <seed dir>: confirm the repository's own suite passes with the seeded change applied.
export GOFLAGS=-mod=mod GOPROXY=off GOSUMDB=off GOTOOLCHAIN=local ELVISH_TEST_TIME_SCALE=20
D="$(cd "$1" && pwd)"; NAME=$(basename "$D"); WT=/tmp/vsuite-$NAME-$$
git -C /repo worktree add -q "$WT" HEAD || exit 2
trap 'git -C /repo worktree remove --force "$WT" >/dev/null 2>&1' EXIT
git -C "$WT" apply "$D/patch.diff" || { echo "SUITE $NAME applies=FAIL"; exit 1; }
out=$(cd "$WT" && go test -trimpath -p 4 -vet=off -count=1 -timeout 40m ./... 2>&1)
fails=$(echo "$out" | grep -E "^(FAIL|panic:)" | grep -v "^FAIL$" | awk '{print $2}' | sort -u | tr '\n' ' ')
if [ -n "$fails" ]; then
  # re-run failing packages alone (timing tests flake under load)
  still=""
  for p in $fails; do case "$p" in src.elv.sh*) (cd "$WT" && go test -trimpath -vet=off -count=1 "${p/src.elv.sh/.}" >/dev/null 2>&1) || still="$still $p";; esac; done
  if [ -n "$still" ]; then echo "SUITE $NAME FAIL:$still"; else echo "SUITE $NAME pass (after solo re-run of: $fails)"; fi
else echo "SUITE $NAME pass"; fi
