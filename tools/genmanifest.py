#!/usr/bin/env python3
"""Assemble /verif/MANIFEST.json from checks/cNN/meta.json files.
A property is claimed iff its meta.json has "claimed": true; every other
property in properties.jsonl is listed under not_applicable with the reason
given in meta.json ("reason") or a default."""
import json, os, subprocess, sys
root = os.path.dirname(os.path.dirname(os.path.abspath(__file__)))
props = [json.loads(l) for l in open(os.path.join(root, 'properties.jsonl'))]
hook_commits = subprocess.run(['git', '-C', '/repo', 'log', '--format=%H %s', '--grep=^verif hook'],
                              capture_output=True, text=True).stdout.strip().splitlines()
baseline = json.load(open('/root/.vp/BASELINE.json'))['cmd'] if os.path.exists('/root/.vp/BASELINE.json') else ''
baseline_off = "cd /repo && go test -json -vet=off -count=1 -timeout 25m ./..."
checks, na = [], []
for p in props:
    pid = p['id']
    d = os.path.join(root, 'checks', pid.lower())
    mp = os.path.join(d, 'meta.json')
    meta = json.load(open(mp)) if os.path.exists(mp) else {}
    if meta.get('claimed'):
        checks.append({
            "property_id": pid,
            "quick_cmd": f"./check {pid} quick",
            "thorough_cmd": f"./check {pid} thorough",
            "evidence_file": f"/verif/evidence/{pid}.json",
            "replay_cmd_template": f"./check {pid} --replay {{path}}",
            "engine": "vcheck",
            "level_claimed": {"category": meta.get("category", "exploration"), "text": meta["text"],
                              "design_ref": meta.get("design_ref", f"DESIGN.md section 4, {pid}")},
            "level_note": meta["note"],
            "technique": meta["technique"],
        })
    else:
        na.append({"property_id": pid, "reason": meta.get("reason", "check not built yet in this session (designed in DESIGN.md; no technique switch)")})
man = {
    "version": 1,
    "setup_cmd": "./check --setup",
    "hooks": {
        "guard": "verif",
        "enable": "go build -tags verif (the check driver passes -tags verif to every build; harness module replaces src.elv.sh => /repo)",
        "baseline_off_cmd": baseline_off,
        "source_commits": [c.split()[0] for c in hook_commits],
        "add_only": True,
    },
    "engines": [{"name": "vcheck", "path": "/verif/check", "serves_properties": [c["property_id"] for c in checks],
                 "kind_free_text": "Go runtime-monitoring harness (internal/mon): generated workloads run against the real packages in journalled child processes, reference-model / invariant / history oracles, Go race detector for the concurrent properties"}],
    "checks": checks,
    "not_applicable": na,
    "notes": "Technique family: runtime monitoring and sanitizers. See DESIGN.md. Known findings: known_findings.json.",
}
json.dump(man, open(os.path.join(root, 'MANIFEST.json'), 'w'), indent=1)
print(f"claimed {len(checks)}, not_applicable {len(na)}")
