#!/bin/bash
# Usage: tools/sweep.sh <tier> <seeds...> [-- ids...]   runs checks sequentially, prints one line per run.
# Exit 1 if any run exited non-zero or printed VIOLATION.
cd "$(dirname "$0")/.." || exit 2
TIER="$1"; shift
SEEDS=(); IDS=()
while [ $# -gt 0 ] && [ "$1" != "--" ]; do SEEDS+=("$1"); shift; done
[ "${1:-}" = "--" ] && shift
IDS=("$@")
if [ ${#IDS[@]} -eq 0 ]; then
  IDS=($(python3 -c "import json;print(' '.join(c['property_id'] for c in json.load(open('MANIFEST.json'))['checks']))"))
fi
mkdir -p scratch/sweep
bad=0
for id in "${IDS[@]}"; do for s in "${SEEDS[@]}"; do
  if [ -n "${SKIP_EXISTING:-}" ] && [ -e "scratch/sweep/$id.$TIER.$s.log" ]; then continue; fi
  t0=$(date +%s)
  VERIF_SEED=$s timeout ${SWEEP_TIMEOUT:-3600} ./check "$id" "$TIER" > "scratch/sweep/$id.$TIER.$s.log" 2>&1; rc=$?
  t1=$(date +%s)
  v=$(grep -c '^VIOLATION' "scratch/sweep/$id.$TIER.$s.log")
  k=$(grep -c '^KNOWN-FINDING' "scratch/sweep/$id.$TIER.$s.log")
  echo "$id tier=$TIER seed=$s rc=$rc violations=$v known=$k wall=$((t1-t0))s $(tail -1 scratch/sweep/$id.$TIER.$s.log | cut -c1-160)"
  if [ $rc -ne 0 ] || [ "$v" -ne 0 ]; then bad=1; fi
done; done
exit $bad
