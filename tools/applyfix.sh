#!/bin/bash
# tools/applyfix.sh <patch> "<commit message starting with fix:>"  — applies the non-test hunks of a
# reviewed repair to /repo, builds the touched packages, commits.
export GOFLAGS=-mod=mod GOPROXY=off GOSUMDB=off GOTOOLCHAIN=local
cd /repo || exit 2
[ -z "$(git status --porcelain)" ] || { echo "repo dirty"; git status --short; exit 2; }
git apply --exclude='*_test.go' --exclude='*.elvts' "$1" || { echo "APPLY FAILED $1"; exit 1; }
pkgs=$(git status --porcelain | awk '{print $2}' | xargs -n1 dirname | sort -u | sed 's|^|./|')
if ! go build $pkgs; then echo "BUILD FAILED"; git checkout -- .; exit 1; fi
git commit -qam "$2" && echo "applied: $2"
