#!/usr/bin/env python3
"""Copy independently written, coordinator-confirmed seeded changes from /tmp/seedout into
/verif/seeded/<ID><variant>/ (patch.diff, demonstration files, meta.json) and emit the DESIGN table.
A seed is kept only if: the patch applies to /repo HEAD and builds, the repository's suite passes with
it (scratch/suitelogs), its demonstration passes on a clean tree and fails on the changed tree
(scratch/seedlogs)."""
import json, os, re, shutil, glob, sys
root='/verif'; out=os.path.join(root,'seeded'); os.makedirs(out,exist_ok=True)
rows=[]
for d in sorted(glob.glob('/tmp/seedout/C???')):
    n=os.path.basename(d)
    mp=os.path.join(d,'meta.json')
    if not os.path.exists(mp): continue
    meta=json.load(open(mp))
    sl=os.path.join(root,'scratch/seedlogs',n+'.log'); ul=os.path.join(root,'scratch/suitelogs',n+'.log')
    det=open(sl,errors='replace').read() if os.path.exists(sl) else ''
    suite=open(ul,errors='replace').read() if os.path.exists(ul) else ''
    m=re.search(r'SEED \S+ prop=(\S+) applies=(\S+) builds=(\S+) suite=\S+ demo_clean=(\S+) demo_changed=(\S+) check=(\S+)',det)
    if not m: print('no detection result for',n); continue
    prop,applies,builds,dc,dch,chk=m.groups()
    sm=re.search(r'SUITE \S+ (pass[^\n]*|FAIL[^\n]*|applies=FAIL)',suite)
    suite_res=sm.group(1) if sm else 'not-run'
    ok = applies=='ok' and builds=='ok' and dc=='pass' and dch=='fails-as-expected' and suite_res.startswith('pass')
    sigs=re.findall(r'^VIOLATION property=\S+ replay=\S+ sig=("(?:[^"\\]|\\.)*")',det,re.M)
    rows.append((n,prop,chk,suite_res,ok,meta,sigs))
    if not ok: print('NOT KEPT',n,applies,builds,dc,dch,suite_res); continue
    dst=os.path.join(out,n); shutil.rmtree(dst,ignore_errors=True); os.makedirs(dst)
    for f in os.listdir(d):
        if f=='meta.json' or f.endswith('.log'): continue
        src=os.path.join(d,f)
        if os.path.isfile(src): shutil.copy(src,os.path.join(dst,f))
    newmeta={"property":prop,"variant":meta.get('variant',n[-1]),"files":meta.get('files'),
      "what":meta.get('what'),"needs_to_manifest":meta.get('needs'),
      "author":"independent sub-agent given only the property text and a scratch worktree (no access to /verif)",
      "author_ran":meta.get('ran'),
      "ported_to_current_head": os.path.exists(os.path.join(d,'patch.orig.diff')),
      "coordinator_confirmed":{"applies_to_repo_head":True,"go_build":"ok","repository_suite_with_change":suite_res,
         "demo_on_clean_tree":"passes","demo_on_changed_tree":"fails",
         "commands":["tools/verify_seed.sh <dir> skip-suite   (scratch worktree, git apply, go build ./..., demo.sh on clean and changed tree, VERIF_REPO=<worktree> ./check %s quick)"%prop,
                     "tools/seed_suite.sh <dir>   (scratch worktree, git apply, ELVISH_TEST_TIME_SCALE=20 go test -trimpath -p 4 -vet=off -count=1 ./..., failing timing-sensitive packages re-run alone)"]},
      "check_quick_result": "DETECTED" if chk=='DETECTED' else chk,
      "violation_signatures": sigs[:6]}
    json.dump(newmeta,open(os.path.join(dst,'meta.json'),'w'),indent=1,ensure_ascii=False)
kept=[r for r in rows if r[4]]
print(len(kept),'kept of',len(rows),'; detected',sum(1 for r in kept if r[2]=='DETECTED'))
with open(os.path.join(root,'seeded','TABLE.md'),'w') as f:
    f.write('| seed | property | files | needs to manifest | quick check |\n|---|---|---|---|---|\n')
    for n,prop,chk,suite_res,ok,meta,sigs in kept:
        needs=(meta.get('needs') or '').replace('\n',' ').replace('|','\\|')
        if len(needs)>150: needs=needs[:147]+'…'
        files=', '.join(os.path.basename(x) for x in (meta.get('files') or []))
        s=('caught: '+', '.join(x.strip('"') for x in sigs[:2])) if chk=='DETECTED' else '**missed** ('+chk+')'
        cell = s.replace("|", "\\|")[:200]
        f.write('| %s | %s | %s | %s | %s |\n' % (n, prop, files, needs, cell))
