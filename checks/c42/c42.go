// Package c42 monitors redirections against a reference model of the port
// table (property C42): generated forms with 1..4 redirections (files, file
// objects, pipe maps, fd duplication, closing, invalid fds), possibly nested,
// whose bodies write bytes and values to, and read from, every port; file
// contents, captured outputs, per-operation success/failure, data read and
// the set of open file descriptors are compared with the model.
//
// The model is written from website/ref/language.md § Redirection plus POSIX
// open-file-description semantics (one offset per open, shared by duplicated
// ports; O_APPEND writes at the end; O_TRUNC empties at open time).
package c42

import (
	"fmt"
	"math/rand"
	"os"
	"path/filepath"
	"sort"
	"strconv"
	"strings"
	"sync"
	"time"

	"src.elv.sh/pkg/eval"
	"src.elv.sh/pkg/eval/vals"
	"src.elv.sh/pkg/eval/vars"
	"src.elv.sh/pkg/mods"
	"verifharness/internal/evalrun"
	"verifharness/internal/mon"
)

// ---------------------------------------------------------------------------
// the reference model

// ofd is an open file description.
type ofd struct {
	path    string // "" for captures/pipes
	pos     int
	rd, wr  bool
	app     bool
	capture int     // 1 or 2: bytes go to the outer capture port
	pipe    *[]byte // non-nil: a pipe buffer shared by both ends
	closed  bool
	owned   bool // opened by a redirection (must be closed at form end)
}

// mport is one entry of the port table. Duplicated entries share the pointer.
type mport struct {
	file *ofd // nil: closed port (no byte side)
	// value output: "cap1", "cap2", "ch3", "ch5" deliver; "raise" raises;
	// "undoc" = documentation is silent (input ports) -> not exercised.
	valOut string
	// value input: "in0" = the two preloaded values then end; "empty" = no
	// values; "block" = would wait for a writer (not exercised); "nochan" =
	// closed / output-file port (blocks today: C17 finding; not exercised here).
	valIn string
}

type model struct {
	files map[string][]byte // regular files by name (relative to the case dir)
	dirs  map[string]bool
	cap   [3][]byte
	capV  [3][]string
	chV   map[string][]string
	// paths of files that were opened by a redirection at some point
	redirOpened map[string]bool
	// after a failed form the truncation/creation side effects of its
	// earlier redirections are not specified by the documentation: both the
	// old and the new state of these files are accepted.
	tolerate map[string][][]byte
}

func (m *model) cloneFile(p string) []byte { return append([]byte(nil), m.files[p]...) }

// write performs a byte write through a port; returns false if it must fail.
func (m *model) write(p *mport, data string) bool {
	f := p.file
	if f == nil || f.closed || !f.wr {
		return false
	}
	switch {
	case f.capture != 0:
		m.cap[f.capture] = append(m.cap[f.capture], data...)
	case f.pipe != nil:
		*f.pipe = append(*f.pipe, data...)
	default:
		c := m.files[f.path]
		pos := f.pos
		if f.app {
			pos = len(c)
		}
		for len(c) < pos {
			c = append(c, 0)
		}
		end := pos + len(data)
		if end > len(c) {
			c = append(c, make([]byte, end-len(c))...)
		}
		copy(c[pos:end], data)
		m.files[f.path] = c
		f.pos = end
	}
	return true
}

// read reads up to n bytes; ok=false if the read must fail.
func (m *model) read(p *mport, n int) (string, bool) {
	f := p.file
	if f == nil || f.closed || !f.rd {
		return "", false
	}
	if f.pipe != nil {
		b := *f.pipe
		if n > len(b) {
			n = len(b)
		}
		*f.pipe = b[n:]
		return string(b[:n]), true
	}
	c := m.files[f.path]
	if f.pos >= len(c) {
		return "", true
	}
	end := f.pos + n
	if end > len(c) {
		end = len(c)
	}
	s := string(c[f.pos:end])
	f.pos = end
	return s, true
}

// ---------------------------------------------------------------------------
// events recorded by the harness builtins

type event struct {
	ID       int
	Err      string // "" = ok
	NoValOut bool   // the error is "port does not support value output"
	Data     string
	Kind     string
}

var (
	logMu sync.Mutex
	evlog []event
)

func record(e event) {
	logMu.Lock()
	evlog = append(evlog, e)
	logMu.Unlock()
}

func vTry(fm *eval.Frame, id int, f eval.Callable) {
	err := f.Call(fm.Fork(), eval.NoArgs, eval.NoOpts)
	e := event{ID: id, Kind: "try"}
	if err != nil {
		e.Err = err.Error()
		if exc, ok := err.(eval.Exception); ok && exc.Reason() == eval.ErrPortDoesNotSupportValueOutput {
			e.NoValOut = true
		}
	}
	record(e)
}

// vRead reads up to n bytes from the frame's port 0 file with one read call
// per chunk until n bytes or end of file.
func vRead(fm *eval.Frame, id, n int) {
	f := fm.InputFile()
	buf := make([]byte, n)
	got := 0
	var rerr error
	for got < n {
		k, err := f.Read(buf[got:])
		got += k
		if err != nil {
			if err.Error() != "EOF" {
				rerr = err
			}
			break
		}
		if k == 0 {
			break
		}
		if fi, err := f.Stat(); err == nil && fi.Mode()&os.ModeNamedPipe != 0 {
			break // never wait for more on a pipe
		}
	}
	e := event{ID: id, Kind: "read", Data: string(buf[:got])}
	if rerr != nil && got == 0 {
		e.Err = rerr.Error()
	}
	record(e)
}

// vVals drains the value input of the frame (only generated where the model
// says the channel ends).
func vVals(fm *eval.Frame, id int) {
	var got []string
	for v := range fm.InputChan() {
		got = append(got, vals.ToString(v))
	}
	record(event{ID: id, Kind: "vals", Data: strings.Join(got, ",")})
}

// vFwrite writes through a file object directly (is the caller's file still
// open after the form?).
func vFwrite(id int, f vals.File, s string) {
	_, err := f.WriteString(s)
	e := event{ID: id, Kind: "fwrite"}
	if err != nil {
		e.Err = err.Error()
	}
	record(e)
}

func newEvaler() *eval.Evaler {
	ev := eval.NewEvaler()
	mods.AddTo(ev)
	ev.ExtendBuiltin(eval.BuildNs().
		AddGoFn("v-try", vTry).AddGoFn("v-read", vRead).AddGoFn("v-vals", vVals).AddGoFn("v-fwrite", vFwrite))
	return ev
}

// ---------------------------------------------------------------------------
// generation + simulation in one pass

type expect struct {
	Err      bool
	NoValOut bool // must be the "no value output" error
	Data     string
	Kind     string
	Note     string
	Class    string // for failing forms: why the redirection must raise
}

func failClassOf(note string) string {
	switch {
	case strings.HasPrefix(note, "invalid source fd -"):
		return "negative-src"
	case strings.HasPrefix(note, "invalid source fd"):
		return "garbage-src"
	case strings.Contains(note, "is not open"):
		return "unopened-src"
	case strings.Contains(note, "parent directory"):
		return "missing-parent"
	case strings.Contains(note, "directory"):
		return "directory"
	case strings.Contains(note, "does not exist"):
		return "missing-file"
	case strings.Contains(note, "maps"):
		return "map-operator"
	}
	return "other"
}

type gen struct {
	r      *rand.Rand
	m      *model
	sb     strings.Builder
	nextID int
	exp    map[int]expect
	// classes of things generated (counters / floors) and of known-defect
	// inputs present in the program
	classes map[string]int
	defect  string // class of a generated input that is a known crash class
	depth   int
	dry     bool            // emit text only (body of a form whose redirections must fail)
	tainted map[string]bool // files whose state is unspecified after a failed form
	quirk   map[string]bool // doc-model vs. port-pointer aliasing classes present in the program
	fileObj map[string]*ofd // variable name -> description
	pipeBuf *[]byte
}

func (g *gen) id() int { g.nextID++; return g.nextID }

func (g *gen) count(c string) { g.classes[c]++ }

var probePorts = []int{0, 1, 2, 3, 4, 5, 7}

// genOps emits 2..6 operations in the scope with table tbl.
func (g *gen) genOps(tbl []*mport, n int) {
	for i := 0; i < n; i++ {
		g.genOp(tbl)
		g.sb.WriteString("\n")
	}
}

func portAt(tbl []*mport, p int) *mport {
	if p < len(tbl) {
		return tbl[p]
	}
	return nil
}

func (g *gen) genOp(tbl []*mport) {
	r := g.r
	k := r.Intn(100)
	if g.depth < 2 && k < 22 && !g.dry {
		g.genForm(tbl)
		return
	}
	p := probePorts[r.Intn(len(probePorts))]
	mp := portAt(tbl, p)
	id := g.id()
	if g.dry {
		// never executed: no model interaction, no expectation
		if k < 75 {
			fmt.Fprintf(&g.sb, "v-try %d { print '<dry%d>' >&%d }", id, id, p)
		} else {
			fmt.Fprintf(&g.sb, "v-try %d { echo dry%d >&%d }", id, id, p)
		}
		return
	}
	switch {
	case k < 60: // byte write
		text := fmt.Sprintf("<b%d>", id)
		fmt.Fprintf(&g.sb, "v-try %d { print '%s' >&%d }", id, text, p)
		g.count("op-byte-write")
		switch {
		case mp == nil:
			g.exp[id] = expect{Err: true, Kind: "try", Note: fmt.Sprintf("port %d is not open", p)}
			g.count("op-on-unopened-port")
		case !g.m.write(mp, text):
			g.exp[id] = expect{Err: true, Kind: "try", Note: fmt.Sprintf("byte write to port %d must fail", p)}
			g.count("op-byte-write-fails")
		default:
			g.exp[id] = expect{Kind: "try"}
		}
	case k < 80: // value write
		if mp != nil && mp.valOut == "undoc" {
			// input ports: the documentation does not say; fall back to bytes
			fmt.Fprintf(&g.sb, "v-try %d { nop }", id)
			g.exp[id] = expect{Kind: "try"}
			return
		}
		val := fmt.Sprintf("v%d", id)
		fmt.Fprintf(&g.sb, "v-try %d { put %s >&%d }", id, val, p)
		g.count("op-value-write")
		switch {
		case mp == nil:
			g.exp[id] = expect{Err: true, Kind: "try", Note: fmt.Sprintf("port %d is not open", p)}
		case mp.valOut == "raise":
			g.exp[id] = expect{Err: true, NoValOut: true, Kind: "try", Note: fmt.Sprintf("port %d has no value output", p)}
			g.count("op-value-write-raises")
		default:
			switch mp.valOut {
			case "cap1":
				g.m.capV[1] = append(g.m.capV[1], val)
			case "cap2":
				g.m.capV[2] = append(g.m.capV[2], val)
			default:
				g.m.chV[mp.valOut] = append(g.m.chV[mp.valOut], val)
			}
			g.exp[id] = expect{Kind: "try"}
			g.count("op-value-write-delivered")
		}
	case k < 93: // byte read
		n := 1 + r.Intn(6)
		if mp != nil && mp.file != nil && mp.file.pipe != nil && mp.file.rd && len(*mp.file.pipe) == 0 {
			// reading an empty pipe waits for a writer
			fmt.Fprintf(&g.sb, "v-try %d { nop }", id)
			g.exp[id] = expect{Kind: "try"}
			return
		}
		rid := g.id()
		fmt.Fprintf(&g.sb, "v-try %d { v-read %d %d <&%d }", id, rid, n, p)
		g.count("op-byte-read")
		if mp == nil {
			g.exp[id] = expect{Err: true, Kind: "try", Note: fmt.Sprintf("port %d is not open", p)}
			return
		}
		g.exp[id] = expect{Kind: "try"}
		data, ok := g.m.read(mp, n)
		if !ok {
			g.exp[rid] = expect{Err: true, Kind: "read", Note: fmt.Sprintf("reading port %d must fail", p)}
			g.count("op-byte-read-fails")
		} else {
			g.exp[rid] = expect{Kind: "read", Data: data}
			if data != "" {
				g.count("op-byte-read-data")
			}
		}
	default: // value read
		if mp == nil || (mp.valIn != "in0" && mp.valIn != "empty") {
			fmt.Fprintf(&g.sb, "v-try %d { nop }", id)
			g.exp[id] = expect{Kind: "try"}
			return
		}
		rid := g.id()
		fmt.Fprintf(&g.sb, "v-try %d { v-vals %d <&%d }", id, rid, p)
		g.count("op-value-read")
		g.exp[id] = expect{Kind: "try"}
		if mp.valIn == "in0" {
			g.exp[rid] = expect{Kind: "vals", Data: "in-a,in-b"}
			mp.valIn = "empty" // drained; every alias shares this entry
		} else {
			g.exp[rid] = expect{Kind: "vals", Data: ""}
		}
	}
}

var fileNames = []string{"fa", "fb", "fc", "fnew1", "fnew2"}

// release is called when the entry at dst is about to be replaced. A file that
// this form opened for dst is closed, unless another port still refers to it
// (n>&m made an independent duplicate: "duplicating the src port to the
// destination port").
func (g *gen) release(tbl []*mport, owned map[int]*ofd, dst int) {
	f, ok := owned[dst]
	if !ok {
		return
	}
	delete(owned, dst)
	g.count("redir-replaces-own-file")
	for i, p := range tbl {
		if i != dst && p != nil && p.file == f {
			g.quirk["alias-outlives-redirected-source"] = true
			return // still referenced through a duplicate: stays open until the form ends
		}
	}
	f.closed = true
}

// genForm emits `v-try ID { { ops } redirs }` and simulates it.
func (g *gen) genForm(outer []*mport) {
	r := g.r
	g.depth++
	defer func() { g.depth-- }()
	formID := g.id()
	tbl := append([]*mport(nil), outer...)
	var opened []*ofd
	// pre-state for tolerance after failure
	pre := map[string][]byte{}
	preExists := map[string]bool{}
	for _, f := range fileNames {
		if c, ok := g.m.files[f]; ok {
			pre[f] = append([]byte(nil), c...)
			preExists[f] = true
		}
	}
	nred := 1 + r.Intn(4)
	var reds []string
	failed := false
	failNote := ""
	failClass := ""
	touched := map[string]bool{}
	grow := func(i int) {
		for len(tbl) <= i {
			tbl = append(tbl, nil)
		}
	}
	owned := map[int]*ofd{} // dst -> description owned by this form at that index
	pendingRelease := -1
	_ = pendingRelease
	for j := 0; j < nred; j++ {
		// ---- destination
		op := []string{"<", ">", ">>", "<>"}[r.Intn(4)]
		dst := 1
		if op == "<" {
			dst = 0
		}
		dstText := ""
		dstBad := ""
		switch k := r.Intn(100); {
		case k < 40:
		case k < 93:
			dst = []int{0, 1, 2, 3, 4, 5, 7}[r.Intn(7)]
			dstText = strconv.Itoa(dst)
			if r.Intn(6) == 0 && dst <= 2 {
				dstText = []string{"stdin", "stdout", "stderr"}[dst]
			}
		case k < 96:
			dstText = []string{"-1", "-3", "-9223372036854775808"}[r.Intn(3)]
			dstBad = "negative-dst"
		case k < 98:
			dstText = []string{"9223372036854775807", "4611686018427387904"}[r.Intn(2)]
			dstBad = "huge-dst"
		default:
			dstText = []string{"1.5", "x", "18446744073709551616", "''", "stdfoo"}[r.Intn(5)]
			dstBad = "garbage-dst"
		}
		// ---- source
		var srcText string
		type srcKind int
		var apply func() (ok bool, note string)
		switch k := r.Intn(100); {
		case k < 45: // file name
			name := fileNames[r.Intn(len(fileNames))]
			for tries := 0; g.tainted[name] && tries < 8; tries++ {
				name = fileNames[r.Intn(len(fileNames))]
			}
			if g.tainted[name] {
				name = "nodir/x"
			}
			special := r.Intn(100)
			switch {
			case special < 3:
				name = "d1" // a directory
			case special < 5:
				name = "nodir/x"
			}
			srcText = " " + name
			g.count("redir-file-" + map[string]string{"<": "read", ">": "write", ">>": "append", "<>": "readwrite"}[op])
			apply = func() (bool, string) {
				if name == "nodir/x" {
					return false, "parent directory does not exist"
				}
				if g.m.dirs[name] {
					if op == "<" {
						// opening a directory read-only works; not exercised further
						return false, "SKIPDIR"
					}
					return false, "cannot open a directory for writing"
				}
				_, exists := g.m.files[name]
				f := &ofd{path: name, owned: true}
				switch op {
				case "<":
					if !exists {
						return false, "file does not exist"
					}
					f.rd = true
				case ">":
					g.m.files[name] = nil
					f.wr = true
				case ">>":
					if !exists {
						g.m.files[name] = nil
					}
					f.wr, f.app = true, true
				case "<>":
					if !exists {
						g.m.files[name] = nil
					}
					f.rd, f.wr = true, true
				}
				touched[name] = true
				g.m.redirOpened[name] = true
				opened = append(opened, f)
				grow(dst)
				p := &mport{file: f, valOut: "raise", valIn: "nochan"}
				if op == "<" {
					p.valOut, p.valIn = "undoc", "empty"
				}
				g.release(tbl, owned, dst)
				tbl[dst] = p
				owned[dst] = f
				return true, ""
			}
		case k < 72: // &fd
			src := []int{0, 1, 2, 3, 4, 5, 7, 1, 2, 3, 5, 1, 2}[r.Intn(13)]
			st := strconv.Itoa(src)
			if r.Intn(6) == 0 && src <= 2 {
				st = []string{"stdin", "stdout", "stderr"}[src]
			}
			srcText = "&" + st
			g.count("redir-dup")
			apply = func() (bool, string) {
				sp := portAt(tbl, src)
				if sp == nil {
					g.count("redir-dup-unopened")
					return false, fmt.Sprintf("port %d is not open", src)
				}
				grow(dst)
				if src == dst {
					g.count("redir-self-dup")
					return true, "" // duplicating a port onto itself changes nothing
				}
				g.release(tbl, owned, dst)
				tbl[dst] = sp
				return true, ""
			}
		case k < 82: // close
			srcText = "&-"
			g.count("redir-close")
			apply = func() (bool, string) {
				grow(dst)
				g.release(tbl, owned, dst)
				tbl[dst] = &mport{valOut: "raise", valIn: "nochan"}
				return true, ""
			}
		case k < 85: // bad fd source
			bad := []string{"-1", "-3", "-9223372036854775808", "x", "1.5", "99999999999", "18446744073709551616"}[r.Intn(7)]
			srcText = "&" + bad
			cls := "garbage-src"
			if strings.HasPrefix(bad, "-") {
				cls = "negative-src"
			}
			if bad == "99999999999" {
				cls = "unopened-big-src"
			}
			g.count("redir-bad-src")
			apply = func() (bool, string) {
				if cls == "negative-src" {
					if g.defect == "" {
						g.defect = cls
					}
					// &-1 is taken for &- today, so the rest of the form runs
					// on: everything such a program shows is classed apart
					g.quirk["negative-src"] = true
				}
				return false, "invalid source fd " + bad
			}
		case k < 94: // file object
			names := []string{"$fo-r", "$fo-w", "$fo-rw"}
			nm := names[r.Intn(len(names))]
			srcText = " " + nm
			g.count("redir-file-object")
			apply = func() (bool, string) {
				f := g.fileObj[nm]
				grow(dst)
				p := &mport{file: f, valOut: "raise", valIn: "nochan"}
				if op == "<" {
					p.valOut, p.valIn = "undoc", "empty"
				}
				g.release(tbl, owned, dst)
				tbl[dst] = p
				return true, ""
			}
		default: // pipe map
			srcText = " $pm"
			g.count("redir-pipe-map")
			apply = func() (bool, string) {
				var f *ofd
				switch op {
				case "<":
					f = g.fileObj["$pm-r"]
				case ">":
					f = g.fileObj["$pm-w"]
				default:
					return false, "only < and > work with maps"
				}
				grow(dst)
				p := &mport{file: f, valOut: "raise", valIn: "nochan"}
				if op == "<" {
					p.valOut, p.valIn = "undoc", "empty"
				}
				g.release(tbl, owned, dst)
				tbl[dst] = p
				return true, ""
			}
		}
		reds = append(reds, dstText+op+srcText)
		if failed {
			continue // text only; never evaluated
		}
		if dstBad != "" {
			failed, failNote, failClass = true, "invalid destination fd "+dstText, dstBad
			if dstBad != "garbage-dst" && g.defect == "" {
				g.defect = dstBad
			}
			g.count("redir-bad-dst")
			continue
		}
		selfDup := strings.HasPrefix(srcText, "&") && (srcText == "&"+strconv.Itoa(dst) || dst <= 2 && srcText == "&"+[]string{"stdin", "stdout", "stderr"}[dst])
		_ = selfDup // a self-duplication is a no-op (repaired in /repo); it gets no class tag, so a regression is an unlisted violation
		pendingRelease = dst
		ok, note := apply()
		if note == "SKIPDIR" {
			// replace by a plain close to stay in the specified subset
			reds[len(reds)-1] = dstText + op + "&-"
			grow(dst)
			g.release(tbl, owned, dst) // same bookkeeping as the ordinary close branch
			tbl[dst] = &mport{valOut: "raise", valIn: "nochan"}
			continue
		}
		if !ok {
			failed, failNote = true, note
			failClass = failClassOf(note)
		}
	}
	fmt.Fprintf(&g.sb, "v-try %d { {\n", formID)
	if failed {
		g.count("form-fails")
		// body text without expectations: it must not run
		g.dry = true
		g.genOps(tbl, 1+r.Intn(3))
		g.dry = false
		g.exp[formID] = expect{Err: true, Kind: "try", Note: "redirection must raise: " + failNote, Class: failClass}
		// Truncation/creation done by the redirections before the failing
		// one: the documentation is silent on whether it happens. Files whose
		// state would differ are not used or compared any further.
		for name := range touched {
			if !preExists[name] || string(pre[name]) != string(g.m.files[name]) {
				g.tainted[name] = true
				g.count("file-state-unspecified-after-failed-form")
			}
		}
	} else {
		g.count("form-runs")
		if g.depth == 2 {
			g.count("form-nested-runs")
		}
		g.genOps(tbl, 2+r.Intn(4))
		g.exp[formID] = expect{Kind: "try"}
	}
	for _, f := range opened {
		f.closed = true
	}
	fmt.Fprintf(&g.sb, "} %s }", strings.Join(reds, " "))
}

// ---------------------------------------------------------------------------

type harness struct {
	run  *evalrun.Runner
	root string
	seq  int
}

var h *harness

func childSetup(e *mon.Env) {
	root := e.Scratch
	if root == "" {
		root, _ = os.MkdirTemp("", "c42-")
	}
	h = &harness{root: root}
	h.run = &evalrun.Runner{New: newEvaler, Limits: evalrun.Limits{MaxValues: 1000, MaxBytes: 1 << 16, Deadline: 15 * time.Second, Grace: 2 * time.Second}}
}

// fdsUnder lists the open descriptors whose target is below dir.
func fdsUnder(dir string) map[string]int {
	out := map[string]int{}
	ents, err := os.ReadDir("/proc/self/fd")
	if err != nil {
		return out
	}
	for _, e := range ents {
		t, err := os.Readlink("/proc/self/fd/" + e.Name())
		if err != nil {
			continue
		}
		t = strings.TrimSuffix(t, " (deleted)")
		if strings.HasPrefix(t, dir+"/") {
			out[strings.TrimPrefix(t, dir+"/")]++
		}
	}
	return out
}

func randContent(r *rand.Rand, tag string) []byte {
	n := r.Intn(14)
	b := make([]byte, 0, n)
	for i := 0; len(b) < n; i++ {
		b = append(b, tag[i%len(tag)])
	}
	return b
}

func runCase(c *mon.Case) {
	r := c.Rand
	h.seq++
	dir := filepath.Join(h.root, fmt.Sprintf("c%d", h.seq))
	os.MkdirAll(filepath.Join(dir, "d1"), 0o755)
	defer os.RemoveAll(dir)
	os.Chdir(dir)
	defer os.Chdir(h.root)

	m := &model{files: map[string][]byte{}, dirs: map[string]bool{"d1": true}, chV: map[string][]string{}, redirOpened: map[string]bool{}, tolerate: map[string][][]byte{}}
	write := func(name string, b []byte) {
		m.files[name] = b
		os.WriteFile(filepath.Join(dir, name), b, 0o644)
	}
	write("fa", randContent(r, "AaAA"))
	write("fb", randContent(r, "Bbb"))
	if r.Intn(2) == 0 {
		write("fc", randContent(r, "cC"))
	}
	write("in0", []byte("0123456789abcdef"))
	write("out3", nil)
	write("out5", []byte("55555"))
	write("fo1", randContent(r, "Rr"))
	write("fo2", nil)
	write("fo3", randContent(r, "Ww"))

	// outer ports
	in0, _ := os.Open(filepath.Join(dir, "in0"))
	out3, _ := os.OpenFile(filepath.Join(dir, "out3"), os.O_WRONLY, 0)
	out5, _ := os.OpenFile(filepath.Join(dir, "out5"), os.O_RDWR, 0)
	foR, _ := os.Open(filepath.Join(dir, "fo1"))
	foW, _ := os.OpenFile(filepath.Join(dir, "fo2"), os.O_WRONLY|os.O_APPEND, 0)
	foRW, _ := os.OpenFile(filepath.Join(dir, "fo3"), os.O_RDWR, 0)
	pr, pw, _ := os.Pipe()
	mine := []*os.File{in0, out3, out5, foR, foW, foRW, pr, pw}
	defer func() {
		for _, f := range mine {
			f.Close()
		}
	}()
	ch0 := make(chan any, 2)
	ch0 <- "in-a"
	ch0 <- "in-b"
	close(ch0)
	ch3 := make(chan any, 256)
	ch5 := make(chan any, 256)

	f0 := &ofd{path: "in0", rd: true}
	f3 := &ofd{path: "out3", wr: true}
	f5 := &ofd{path: "out5", rd: true, wr: true}
	p0 := &mport{file: f0, valOut: "undoc", valIn: "in0"}
	base := []*mport{
		p0,
		{file: &ofd{capture: 1, wr: true}, valOut: "cap1", valIn: "block"},
		{file: &ofd{capture: 2, wr: true}, valOut: "cap2", valIn: "block"},
		{file: f3, valOut: "ch3", valIn: "block"},
		nil,
		{file: f5, valOut: "ch5", valIn: "block"},
	}
	pipeBuf := &[]byte{}
	g := &gen{r: r, m: m, exp: map[int]expect{}, classes: map[string]int{}, pipeBuf: pipeBuf, tainted: map[string]bool{}, quirk: map[string]bool{}, fileObj: map[string]*ofd{
		"$fo-r":  {path: "fo1", rd: true},
		"$fo-w":  {path: "fo2", wr: true, app: true},
		"$fo-rw": {path: "fo3", rd: true, wr: true},
		"$pm-r":  {pipe: pipeBuf, rd: true},
		"$pm-w":  {pipe: pipeBuf, wr: true},
	}}
	if r.Intn(4) == 0 {
		g.genOps(base, 1)
	}
	g.genForm(base)
	g.sb.WriteString("\n")
	g.genOps(base, 1+r.Intn(3))
	// afterwards: the caller's file objects must still be usable, and the
	// outer ports untouched
	for _, nm := range []string{"$fo-w", "$fo-rw"} {
		id := g.id()
		text := fmt.Sprintf("<post%d>", id)
		fmt.Fprintf(&g.sb, "v-fwrite %d %s '%s'\n", id, nm, text)
		mp := &mport{file: g.fileObj[nm]}
		if m.write(mp, text) {
			g.exp[id] = expect{Kind: "fwrite"}
		} else {
			g.exp[id] = expect{Kind: "fwrite", Err: true}
		}
	}
	for _, p := range []int{1, 2, 3, 5} {
		id := g.id()
		text := fmt.Sprintf("<end%d>", id)
		fmt.Fprintf(&g.sb, "v-try %d { print '%s' >&%d }\n", id, text, p)
		m.write(base[p], text)
		g.exp[id] = expect{Kind: "try"}
	}
	code := g.sb.String()

	// pipe map value: a struct map with r and w, like file:pipe gives
	pm := vals.MakeMap("r", pr, "w", pw)
	ns := eval.BuildNs().
		AddVar("fo-r", vars.FromInit(foR)).AddVar("fo-w", vars.FromInit(foW)).AddVar("fo-rw", vars.FromInit(foRW)).
		AddVar("pm", vars.FromInit(pm)).Ns()

	logMu.Lock()
	evlog = nil
	logMu.Unlock()
	cfg := evalrun.Cfg{
		Stdin:      &eval.Port{File: in0, Chan: ch0},
		ExtraPorts: []*eval.Port{{File: out3, Chan: ch3}, nil, {File: out5, Chan: ch5}},
		Global:     ns,
	}
	o := h.run.Run(code, cfg)
	for cl, n := range g.classes {
		c.Count(cl, n)
	}
	wit := map[string]any{"program": code}
	bad := func(sig, what string, extra map[string]any) {
		for k, v := range extra {
			wit[k] = v
		}
		// programs that contain a construct where "a duplicate is an
		// independent reference" (the documented reading) and "a duplicate is
		// the same port object" differ get their own signature class
		var qs []string
		for q := range g.quirk {
			qs = append(qs, q)
		}
		sort.Strings(qs)
		if len(qs) > 0 {
			sig += "+" + strings.Join(qs, "+")
			wit["aliasing_constructs"] = qs
		}
		c.Violation(sig, what, wit)
	}
	if c.Env.Verbose {
		fmt.Printf("program:\n%s\nerr=%v panic=%v hang=%q\n", code, o.Err, o.Panic, o.HangSig)
	}
	switch {
	case o.Panic != nil:
		cls := g.defect
		if cls == "" {
			cls = "other"
		}
		bad("redir-panic:"+cls+"@"+evalrun.InnermostFrame(o.Stack), fmt.Sprintf("evaluating a form with redirections panicked instead of raising an exception: %v", o.Panic),
			map[string]any{"stack": o.Stack})
		return
	case o.HangSig != "":
		bad("redir-"+o.HangSig, "evaluation blocked for good", map[string]any{"goroutines": o.HangDump})
		return
	case o.Abandoned:
		c.Inconclusive("evaluation-did-not-return")
		return
	case o.TimedOut || o.Capped:
		c.Inconclusive("deadline-or-output-cap")
		return
	case o.Err != nil:
		bad("unexpected-error", "the program as a whole failed although every operation is wrapped: "+o.Err.Error(), nil)
		return
	}
	if g.defect != "" {
		// a known crash class was present and did not crash (fixed tree)
		c.Count("invalid-fd-raised-cleanly", 1)
	}

	// ---- compare events
	logMu.Lock()
	log := append([]event(nil), evlog...)
	logMu.Unlock()
	seen := map[int]event{}
	for _, e := range log {
		seen[e.ID] = e
	}
	var ids []int
	for id := range g.exp {
		ids = append(ids, id)
	}
	sort.Ints(ids)
	for _, id := range ids {
		ex := g.exp[id]
		e, ok := seen[id]
		if !ok {
			bad("op-not-executed", fmt.Sprintf("operation %d (%s) did not run but the model says it runs", id, ex.Kind), map[string]any{"op": id})
			return
		}
		switch {
		case ex.Err && e.Err == "":
			sig := "op-should-fail"
			if ex.NoValOut {
				sig = "value-write-to-closed-or-file-port-succeeds"
			} else if strings.HasPrefix(ex.Note, "redirection must raise") {
				sig = "redirection-should-raise:" + ex.Class
			}
			bad(sig, fmt.Sprintf("operation %d succeeded but must raise: %s", id, ex.Note), map[string]any{"op": id})
			return
		case !ex.Err && e.Err != "":
			bad("op-should-succeed:"+ex.Kind, fmt.Sprintf("operation %d failed with %q but the model says it succeeds", id, e.Err), map[string]any{"op": id, "error": e.Err})
			return
		case !ex.Err && ex.Kind != "try" && ex.Kind != "fwrite" && e.Data != ex.Data:
			bad("read-data-differs:"+ex.Kind, fmt.Sprintf("operation %d read %q, model %q", id, e.Data, ex.Data), map[string]any{"op": id, "got": e.Data, "want": ex.Data})
			return
		}
	}
	for _, e := range log {
		if _, ok := g.exp[e.ID]; !ok {
			bad("op-executed-unexpectedly", fmt.Sprintf("operation %d ran although the redirections of its form must fail", e.ID), map[string]any{"op": e.ID})
			return
		}
	}

	// ---- outputs
	if string(o.Bytes) != string(m.cap[1]) {
		bad("stdout-bytes-differ", fmt.Sprintf("bytes on the outer port 1: got %q want %q", o.Bytes, m.cap[1]), nil)
		return
	}
	if string(o.Bytes2) != string(m.cap[2]) {
		bad("stderr-bytes-differ", fmt.Sprintf("bytes on the outer port 2: got %q want %q", o.Bytes2, m.cap[2]), nil)
		return
	}
	strs := func(vs []any) string {
		var ss []string
		for _, v := range vs {
			ss = append(ss, vals.ToString(v))
		}
		return strings.Join(ss, ",")
	}
	drain := func(ch chan any) string {
		var vs []any
		for {
			select {
			case v := <-ch:
				vs = append(vs, v)
			default:
				return strs(vs)
			}
		}
	}
	for _, chk := range []struct{ name, got, want string }{
		{"port1", strs(o.Values), strings.Join(m.capV[1], ",")},
		{"port2", strs(o.Values2), strings.Join(m.capV[2], ",")},
		{"port3", drain(ch3), strings.Join(m.chV["ch3"], ",")},
		{"port5", drain(ch5), strings.Join(m.chV["ch5"], ",")},
	} {
		if chk.got != chk.want {
			bad("values-differ:"+chk.name, fmt.Sprintf("values delivered to outer %s: got [%s] want [%s]", chk.name, chk.got, chk.want), nil)
			return
		}
	}

	// ---- files
	var names []string
	for n := range m.files {
		names = append(names, n)
	}
	sort.Strings(names)
	for _, n := range names {
		got, err := os.ReadFile(filepath.Join(dir, n))
		want := m.files[n]
		if err == nil && string(got) == string(want) {
			continue
		}
		if g.tainted[n] {
			continue
		}
		if err != nil {
			bad("file-missing", fmt.Sprintf("file %s should exist with %q: %v", n, want, err), nil)
			return
		}
		bad("file-content-differs", fmt.Sprintf("file %s: got %q want %q", n, got, want), map[string]any{"file": n, "got": string(got), "want": string(want)})
		return
	}
	ents, _ := os.ReadDir(dir)
	for _, e := range ents {
		if _, ok := m.files[e.Name()]; !ok && e.Name() != "d1" {
			bad("unexpected-file", "file created that no redirection names: "+e.Name(), nil)
			return
		}
	}

	// ---- descriptors: everything a redirection opened is closed again
	open := fdsUnder(dir)
	mineCount := map[string]int{"in0": 1, "out3": 1, "out5": 1, "fo1": 1, "fo2": 1, "fo3": 1}
	for n, k := range open {
		if k > mineCount[n] {
			bad("redirection-file-left-open", fmt.Sprintf("%d descriptor(s) on %s still open after the form finished", k-mineCount[n], n), map[string]any{"open": open})
			return
		}
	}
	for n, k := range mineCount {
		if open[n] < k {
			bad("caller-file-closed", fmt.Sprintf("the caller's descriptor on %s was closed by the form", n), map[string]any{"open": open})
			return
		}
	}
	c.Nontrivial(code)
	if c.I%331 == 0 {
		c.Sample("form", map[string]any{"program": code, "files": func() map[string]string {
			o := map[string]string{}
			for k, v := range m.files {
				o[k] = string(v)
			}
			return o
		}()})
	}
}

// Spec returns the C42 check.
func Spec() *mon.Spec {
	return &mon.Spec{
		ID:    "C42",
		Level: "exploration",
		Rule: "Each case is a generated program of 2..4 top-level operations, where an operation is a byte write, value write, byte read or value read on one of the ports {0,1,2,3,4,5,7} " +
			"or a (possibly nested, depth<=2) form `{ ops } r1..rk` with k=1..4 redirections over {<,>,>>,<>} x {file names (existing, new, directory, missing parent), &n, &-, invalid fds (negative, huge, garbage), caller-owned file objects, a pipe map}. " +
			"Outer ports: 0 = read-only file with two preloaded values, 1/2 = capture ports, 3/5 = caller files with value channels, 4 = unopened. Every operation is wrapped so that its success/failure and data are recorded. " +
			"The reference model (written from language.md § Redirection + POSIX open-file-description rules) predicts every operation's outcome, all file contents, the outer outputs and which descriptors remain open. " +
			"Non-trivial = a distinct program whose every observation was compared.",
		Assumptions: []string{
			"Writing *values* to an input port (port 0, or a port redirected with <) is not exercised: language.md only says what such a port produces when read; that it crashes today is recorded under C17.",
			"Reading *values* from a port without value channel (closed, or redirected to a file for output) is not exercised here: it blocks for good today, recorded under C17. Reading values from a live output channel and reading bytes from an empty pipe wait for a writer and are not generated.",
			"After a form whose j-th redirection raises, files named by redirections 1..j-1 may have been created/truncated or not (documentation silent): both states are accepted. The body must not run.",
			"Opening a directory with < is not exercised. Error *messages* are not compared, only whether an operation raises (for value writes to closed/file ports: that the reason is eval.ErrPortDoesNotSupportValueOutput).",
			"File objects and the pipe map are Go *os.File values injected as variables (what file:open / file:pipe return).",
		},
		ChildSetup: childSetup,
		Phases: []mon.Phase{
			{Name: "forms", Quick: 27000, Thorough: 200000, Run: runCase, Timeout: 60 * time.Second},
		},
		Floors: map[string]int{
			"distinct_nontrivial": 1500, "form-runs": 2500, "form-nested-runs": 400, "form-fails": 800,
			"redir-file-write": 1200, "redir-file-append": 1200, "redir-file-read": 1200, "redir-file-readwrite": 1200,
			"redir-dup": 2500, "redir-close": 1000, "redir-file-object": 800, "redir-pipe-map": 500, "redir-replaces-own-file": 300,
			"redir-bad-dst": 300, "redir-bad-src": 200, "redir-dup-unopened": 200,
			"op-byte-write": 5000, "op-byte-write-fails": 700, "op-byte-read-data": 400, "op-byte-read-fails": 500,
			"op-value-write-delivered": 1200, "op-value-write-raises": 250, "op-value-read": 100,
		},
	}
}
