// Package c26 monitors concurrent clients of one storage daemon
// (daemon.Serve in-process, daemon.NewClient) and decides linearizability of
// the recorded history against the refstore model with porcupine
// (property C26). Built with the race detector.
package c26

import (
	"fmt"
	"hash/fnv"
	"io"
	"math"
	"net"
	"os"
	"path/filepath"
	"runtime"
	"sort"
	"strings"
	"sync"
	"sync/atomic"
	"time"

	"github.com/anishathalye/porcupine"
	"src.elv.sh/pkg/daemon"
	"src.elv.sh/pkg/daemon/daemondefs"
	"verifharness/internal/mon"
	"verifharness/internal/refstore"
)

// ---------------------------------------------------------------------------
// daemon handle

type server struct {
	sock, db string
	sig      chan os.Signal
	done     chan int
}

func startServer(sock, db string) (*server, bool) {
	s := &server{sock: sock, db: db, sig: make(chan os.Signal, 1), done: make(chan int, 1)}
	ready := make(chan struct{})
	go func() { s.done <- daemon.Serve(sock, db, daemon.ServeOpts{Ready: ready, Signals: s.sig}) }()
	select {
	case <-ready:
		return s, true
	case <-s.done:
		return s, false
	case <-time.After(60 * time.Second):
		return s, false
	}
}

// wait waits for Serve to return by itself (all clients gone); if it does
// not, it is told to stop. Returns false if it never returned (watchdog).
func (s *server) wait() bool {
	select {
	case <-s.done:
		return true
	case <-time.After(20 * time.Second):
	}
	s.stop()
	select {
	case <-s.done:
		return true
	case <-time.After(40 * time.Second):
		return false
	}
}

func (s *server) stop() {
	select {
	case s.sig <- os.Interrupt:
	default:
	}
}

// waitClients waits for the client goroutines. If they do not finish (a
// call never returns), the case is inconclusive: the daemon is told to stop,
// which closes every connection and releases the blocked calls.
func waitClients(c *mon.Case, wg *sync.WaitGroup, srv *server, d time.Duration) bool {
	done := make(chan struct{})
	go func() { wg.Wait(); close(done) }()
	select {
	case <-done:
		return true
	case <-time.After(d):
	}
	c.Inconclusive("clients-stuck")
	srv.stop()
	select {
	case <-done:
	case <-time.After(60 * time.Second):
	}
	return false
}

// ---------------------------------------------------------------------------
// recorded history

type rec struct {
	Client int
	Op     refstore.Op
	Call   int64
	Ret    int64
	Res    refstore.Result
	Open   bool // returned a transport/server error: may or may not have taken effect
}

func (r rec) String() string {
	s := fmt.Sprintf("client %d [%d,%d] %v -> %v", r.Client, r.Call, r.Ret, r.Op, r.Res)
	if r.Open {
		s += " (open)"
	}
	return s
}

type recorder struct {
	clock atomic.Int64
	mu    sync.Mutex
	recs  []rec
}

func (h *recorder) do(client int, cl daemondefs.Client, o refstore.Op) rec {
	call := h.clock.Add(1)
	res := refstore.Exec(cl, o)
	ret := h.clock.Add(1)
	rc := rec{Client: client, Op: o, Call: call, Ret: ret, Res: res}
	if res.Err != "" && res.Err != refstore.NoMatch {
		rc.Open = true
	}
	h.mu.Lock()
	h.recs = append(h.recs, rc)
	h.mu.Unlock()
	return rc
}

func dump(recs []rec, max int) []string {
	s := append([]rec(nil), recs...)
	sort.Slice(s, func(i, j int) bool { return s[i].Call < s[j].Call })
	var out []string
	for i, r := range s {
		if i >= max {
			out = append(out, fmt.Sprintf("... %d more", len(s)-max))
			break
		}
		out = append(out, r.String())
	}
	return out
}

// ---------------------------------------------------------------------------
// porcupine model

type pstate struct {
	s   *refstore.Store
	enc string
}

func mk(s *refstore.Store) pstate { return pstate{s, s.EncodeCmds()} }

type pout struct {
	res  refstore.Result
	open bool
}

func stepAll(state, input, output any) []any {
	st := state.(pstate)
	op := input.(refstore.Op)
	out := output.(pout)
	if out.open {
		if !op.Mutates() {
			return []any{st}
		}
		m := st.s.Clone()
		m.Apply(op)
		return []any{st, mk(m)}
	}
	m := st.s
	if op.Mutates() {
		m = m.Clone()
	}
	if cl, _ := m.Check(op, out.res); cl != "" {
		return nil
	}
	if op.Mutates() {
		return []any{mk(m)}
	}
	return []any{st}
}

func pEqual(a, b any) bool { return a.(pstate).enc == b.(pstate).enc }
func pHash(a any) uint64 {
	h := fnv.New64a()
	h.Write([]byte(a.(pstate).enc))
	return h.Sum64()
}

func model(init *refstore.Store, nondet bool) porcupine.Model {
	if nondet {
		nm := porcupine.NondeterministicModel{
			Init:  func() []any { return []any{mk(init)} },
			Step:  stepAll,
			Equal: pEqual,
		}
		return nm.ToModel()
	}
	return porcupine.Model{
		Init: func() any { return mk(init) },
		Step: func(state, input, output any) (bool, any) {
			n := stepAll(state, input, output)
			if len(n) == 0 {
				return false, state
			}
			return true, n[0]
		},
		Equal: pEqual,
		Hash:  pHash,
	}
}

// ---------------------------------------------------------------------------
// cheap global checks, valid for every linearizable history

type globalFacts struct {
	addSeq   map[string]int // unique text -> acknowledged seq
	seqText  map[int]string
	openAdds map[string]bool
}

// checkGlobal verifies: acknowledged AddCmd seqs are unique; every command
// returned by any read carries the text that was added under that seq;
// per-client: acknowledged seqs increase and NextCmdSeq never goes backwards.
func checkGlobal(c *mon.Case, phase string, recs []rec, initial *refstore.Store) (*globalFacts, bool) {
	g := &globalFacts{addSeq: map[string]int{}, seqText: map[int]string{}, openAdds: map[string]bool{}}
	for _, cm := range initial.AllCmds() {
		g.seqText[cm.Seq] = cm.Text
		g.addSeq[cm.Text] = cm.Seq
	}
	bad := func(sig, what string) (*globalFacts, bool) {
		c.Violation(phase+":"+sig, what, map[string]any{"history": dump(recs, 200)})
		return g, false
	}
	for _, r := range recs {
		if r.Op.K != refstore.OpAdd {
			continue
		}
		if r.Open {
			g.openAdds[r.Op.S] = true
			continue
		}
		if t, dup := g.seqText[r.Res.Seq]; dup {
			return bad("duplicate-seq", fmt.Sprintf("sequence number %d was returned for two commands: %s and %s", r.Res.Seq, mon.Q(t), mon.Q(r.Op.S)))
		}
		g.seqText[r.Res.Seq] = r.Op.S
		g.addSeq[r.Op.S] = r.Res.Seq
	}
	checkCmd := func(r rec, seq int, text string) string {
		if want, ok := g.seqText[seq]; ok {
			if want != text {
				return fmt.Sprintf("%v shows seq %d with text %s, but that number was acknowledged for %s", r.Op, seq, mon.Q(text), mon.Q(want))
			}
			return ""
		}
		if g.openAdds[text] {
			return ""
		}
		if s2, ok := g.addSeq[text]; ok {
			return fmt.Sprintf("%v shows text %s under seq %d, but its AddCmd was acknowledged with seq %d", r.Op, mon.Q(text), seq, s2)
		}
		return fmt.Sprintf("%v shows (%d, %s), which no client ever added", r.Op, seq, mon.Q(text))
	}
	// per client order
	byClient := map[int][]rec{}
	for _, r := range recs {
		byClient[r.Client] = append(byClient[r.Client], r)
	}
	for _, rs := range byClient {
		sort.Slice(rs, func(i, j int) bool { return rs[i].Call < rs[j].Call })
		low := 0 // every later AddCmd/NextCmdSeq of this client must return >= low
		for _, r := range rs {
			if r.Open || r.Res.Err != "" {
				continue
			}
			switch r.Op.K {
			case refstore.OpAdd:
				if r.Res.Seq < low {
					return bad("client-order", fmt.Sprintf("client %d: %v returned seq %d after the same client had already seen %d", r.Client, r.Op, r.Res.Seq, low))
				}
				low = r.Res.Seq + 1
			case refstore.OpNextSeq:
				if r.Res.Seq < low {
					return bad("client-order", fmt.Sprintf("client %d: NextCmdSeq returned %d after the same client had already seen %d", r.Client, r.Res.Seq, low))
				}
				low = r.Res.Seq
			case refstore.OpCmd:
				if msg := checkCmd(r, r.Op.A, r.Res.Text); msg != "" {
					return bad("read-unknown-write", msg)
				}
			case refstore.OpNext, refstore.OpPrev:
				if msg := checkCmd(r, r.Res.Seq, r.Res.Text); msg != "" {
					return bad("read-unknown-write", msg)
				}
				if !strings.HasPrefix(r.Res.Text, r.Op.S) {
					return bad("search-prefix", fmt.Sprintf("%v returned %s", r.Op, mon.Q(r.Res.Text)))
				}
			case refstore.OpList:
				prev := math.MinInt64
				for _, cm := range r.Res.Cmds {
					if cm.Seq <= prev {
						return bad("listing-order", fmt.Sprintf("%v is not in ascending sequence order (%d after %d)", r.Op, cm.Seq, prev))
					}
					prev = cm.Seq
					if msg := checkCmd(r, cm.Seq, cm.Text); msg != "" {
						return bad("read-unknown-write", msg)
					}
				}
			}
		}
	}
	return g, true
}

// ---------------------------------------------------------------------------
// short histories: porcupine

var stems = []string{"", "e", "ec", "echo ", "p", "put "}

func shortOp(c *mon.Case, client, n, maxSeq int, localSeqs []int) refstore.Op {
	r := c.Rand
	seq := func() int {
		if len(localSeqs) > 0 && r.Intn(2) == 0 {
			return localSeqs[r.Intn(len(localSeqs))] + r.Intn(3) - 1
		}
		return r.Intn(maxSeq + 3)
	}
	switch k := r.Intn(100); {
	case k < 40:
		return refstore.Op{K: refstore.OpAdd, S: fmt.Sprintf("%sc%d-%d", stems[r.Intn(len(stems))], client, n)}
	case k < 50:
		return refstore.Op{K: refstore.OpDel, A: seq()}
	case k < 58:
		return refstore.Op{K: refstore.OpCmd, A: seq()}
	case k < 68:
		o := refstore.Op{K: refstore.OpList, A: seq(), B: seq()}
		if r.Intn(2) == 0 {
			o.B = -1
		}
		if r.Intn(3) == 0 {
			o.A = 0
		}
		return o
	case k < 78:
		return refstore.Op{K: refstore.OpNext, A: seq(), S: stems[r.Intn(len(stems))]}
	case k < 90:
		return refstore.Op{K: refstore.OpPrev, A: seq(), S: stems[r.Intn(len(stems))]}
	}
	return refstore.Op{K: refstore.OpNextSeq}
}

func paths(c *mon.Case) (sock, db string) {
	base := filepath.Join(c.Dir, fmt.Sprintf("%s%d", c.Phase[:1], c.I))
	return base + ".sock", base + ".db"
}

func jitter(k int) {
	for i := 0; i < k; i++ {
		runtime.Gosched()
	}
}

func runShort(c *mon.Case) {
	r := c.Rand
	procs := []int{1, 2, 2, 4, 8, 16}[r.Intn(6)]
	defer runtime.GOMAXPROCS(runtime.GOMAXPROCS(procs))
	sock, db := paths(c)
	defer os.Remove(db)
	defer os.Remove(sock)
	srv, ok := startServer(sock, db)
	if !ok {
		c.Inconclusive("daemon-did-not-start")
		return
	}
	h := &recorder{}
	keeper := daemon.NewClient(sock)
	if _, err := keeper.Version(); err != nil {
		c.Inconclusive("keeper-cannot-connect")
		srv.stop()
		srv.wait()
		return
	}
	// sequential prefix: a few commands already in the store
	ninit := r.Intn(5)
	for i := 0; i < ninit; i++ {
		h.do(0, keeper, refstore.Op{K: refstore.OpAdd, S: fmt.Sprintf("%sinit-%d", stems[r.Intn(len(stems))], i)})
	}
	nlog := 2 + r.Intn(7)
	total := 20 + r.Intn(50)
	per := total / nlog
	if per < 2 {
		per = 2
	}
	nshare := r.Intn(nlog + 1) // the first nshare logical clients share one connection
	if nshare == 1 {
		nshare = 0
	}
	var shared daemondefs.Client
	if nshare > 0 {
		shared = daemon.NewClient(sock)
		if _, err := shared.Version(); err != nil { // first successful request before sharing
			c.Inconclusive("shared-cannot-connect")
			keeper.Close()
			srv.wait()
			return
		}
	}
	// pre-generate every client's script (all randomness from c.Rand, before the goroutines start)
	type script struct {
		ops    []refstore.Op
		yields []int
	}
	scripts := make([]script, nlog)
	maxSeq := ninit + total
	for i := range scripts {
		var local []int
		for j := 0; j < per; j++ {
			o := shortOp(c, i+1, j, maxSeq, local)
			if o.K == refstore.OpAdd {
				local = append(local, ninit+1+r.Intn(maxSeq)) // a guess near where it may land
			}
			scripts[i].ops = append(scripts[i].ops, o)
			scripts[i].yields = append(scripts[i].yields, r.Intn(4)*r.Intn(4))
		}
	}
	var wg sync.WaitGroup
	start := make(chan struct{})
	var sharedWg sync.WaitGroup
	for i := 0; i < nlog; i++ {
		wg.Add(1)
		var cl daemondefs.Client
		own := i >= nshare
		if own {
			cl = daemon.NewClient(sock)
		} else {
			cl = shared
			sharedWg.Add(1)
		}
		go func(id int, cl daemondefs.Client, sc script, own bool) {
			defer wg.Done()
			<-start
			for j, o := range sc.ops {
				jitter(sc.yields[j])
				h.do(id, cl, o)
			}
			if own {
				cl.Close()
			} else {
				sharedWg.Done()
			}
		}(i+1, cl, scripts[i], own)
	}
	close(start)
	if !waitClients(c, &wg, srv, 90*time.Second) {
		srv.wait()
		return
	}
	if shared != nil {
		sharedWg.Wait()
		shared.Close()
	}
	// sequential suffix: the final state
	h.do(0, keeper, refstore.Op{K: refstore.OpList, A: 0, B: -1})
	h.do(0, keeper, refstore.Op{K: refstore.OpNextSeq})
	keeper.Close()
	if !srv.wait() {
		c.Inconclusive("daemon-did-not-exit")
	}

	recs := h.recs
	nopen := 0
	overlap := 0
	for _, rc := range recs {
		if rc.Open {
			nopen++
		}
	}
	// count pairs of mutating operations that overlapped in time
	for i := range recs {
		for j := i + 1; j < len(recs); j++ {
			a, b := recs[i], recs[j]
			if a.Client != b.Client && a.Op.Mutates() && b.Op.Mutates() && a.Call < b.Ret && b.Call < a.Ret {
				overlap++
			}
		}
	}
	c.Count("short_ops", len(recs))
	c.Count("short_open_ops", nopen)
	c.Count("short_overlapping_mutation_pairs", overlap)
	c.Count(fmt.Sprintf("short_gomaxprocs_%d", procs), 1)
	if nshare > 0 {
		c.Count("short_histories_with_shared_client", 1)
	}
	c.Max("short_clients", nlog)
	c.Evals(len(recs))

	if _, ok := checkGlobal(c, "short", recs, refstore.New()); !ok {
		return
	}
	var ops []porcupine.Operation
	for _, rc := range recs {
		ret := rc.Ret
		if rc.Open {
			ret = math.MaxInt64 / 2
		}
		ops = append(ops, porcupine.Operation{ClientId: rc.Client, Input: rc.Op, Call: rc.Call, Output: pout{rc.Res, rc.Open}, Return: ret})
	}
	res, _ := porcupine.CheckOperationsVerbose(model(refstore.New(), nopen > 0), ops, 60*time.Second)
	switch res {
	case porcupine.Ok:
		c.Count("short_linearizable", 1)
		if overlap > 0 {
			c.Nontrivial("short", c.I, len(recs), overlap, nlog, nshare)
		}
	case porcupine.Unknown:
		c.Inconclusive("porcupine-timeout")
	case porcupine.Illegal:
		c.Violation("short:not-linearizable", fmt.Sprintf("history of %d operations by %d clients (%d sharing a connection, GOMAXPROCS %d) has no linearization", len(recs), nlog, nshare, procs),
			map[string]any{"history": dump(recs, 200)})
	}
	c.Sample("short", map[string]any{"clients": nlog, "sharing": nshare, "gomaxprocs": procs, "history_head": dump(recs, 8)})
}

// ---------------------------------------------------------------------------
// long histories: global checks only

type longClient struct {
	id    int
	cl    daemondefs.Client
	own   bool
	acked []int // own acknowledged, not yet deleted seqs
}

// proxy forwards unix-socket connections to the daemon and can lose a reply:
// when armed, the next bytes travelling from the daemon to a client are
// dropped and that connection is closed on both sides, i.e. the request was
// executed but its reply never arrives (a broken connection).
type proxy struct {
	ln     net.Listener
	target string
	armed  atomic.Int32
	cuts   atomic.Int64
}

func startProxy(path, target string) (*proxy, error) {
	ln, err := net.Listen("unix", path)
	if err != nil {
		return nil, err
	}
	p := &proxy{ln: ln, target: target}
	go func() {
		for {
			cl, err := ln.Accept()
			if err != nil {
				return
			}
			go p.handle(cl)
		}
	}()
	return p, nil
}

func (p *proxy) handle(cl net.Conn) {
	sv, err := net.Dial("unix", p.target)
	if err != nil {
		cl.Close()
		return
	}
	go func() {
		io.Copy(sv, cl)
		sv.Close()
		cl.Close()
	}()
	buf := make([]byte, 64<<10)
	for {
		n, err := sv.Read(buf)
		if n > 0 {
			if p.armed.CompareAndSwap(1, 0) {
				p.cuts.Add(1)
				break
			}
			if _, werr := cl.Write(buf[:n]); werr != nil {
				break
			}
		}
		if err != nil {
			break
		}
	}
	cl.Close()
	sv.Close()
}

// runLong: mode is "long", "restart" (daemon interrupted and restarted) or
// "cut" (replies lost on the way back).
func runLong(c *mon.Case, mode string) {
	restart := mode == "restart"
	cut := mode == "cut"
	r := c.Rand
	procs := []int{2, 4, 8, 16}[r.Intn(4)]
	defer runtime.GOMAXPROCS(runtime.GOMAXPROCS(procs))
	sock, db := paths(c)
	defer os.Remove(db)
	defer os.Remove(sock)
	srv, ok := startServer(sock, db)
	if !ok {
		c.Inconclusive("daemon-did-not-start")
		return
	}
	h := &recorder{}
	keeper := daemon.NewClient(sock)
	if _, err := keeper.Version(); err != nil {
		c.Inconclusive("keeper-cannot-connect")
		srv.stop()
		srv.wait()
		return
	}
	clientSock := sock
	var px *proxy
	if cut {
		clientSock = sock + "p"
		defer os.Remove(clientSock)
		var err error
		px, err = startProxy(clientSock, sock)
		if err != nil {
			c.Inconclusive("proxy-cannot-listen")
			keeper.Close()
			srv.wait()
			return
		}
		defer px.ln.Close()
	}
	nlog := 4 + r.Intn(5)
	total := c.Env.Pick(4000, 6000)
	if restart || cut {
		total = 1500
	}
	per := total / nlog
	nshare := 0
	if !restart && !cut { // a restarted daemon makes the client re-dial, which is documented as not goroutine-safe
		nshare = r.Intn(nlog)
		if nshare == 1 {
			nshare = 2
		}
	}
	var shared daemondefs.Client
	if nshare > 0 {
		shared = daemon.NewClient(sock)
		if _, err := shared.Version(); err != nil {
			c.Inconclusive("shared-cannot-connect")
			keeper.Close()
			srv.wait()
			return
		}
	}
	type planned struct {
		kind  int // 0 add, 1 del-own, 2 cmd-own, 3 list, 4 nextseq, 5 adddir, 6 prev, 7 next
		pick  int
		yield int
		stem  string
		cut   bool // mode cut: lose the next reply that travels back
	}
	plans := make([][]planned, nlog)
	for i := range plans {
		for j := 0; j < per; j++ {
			p := planned{pick: r.Intn(1 << 20), yield: r.Intn(3), stem: stems[r.Intn(len(stems))], cut: cut && r.Intn(30) == 0}
			switch k := r.Intn(100); {
			case k < 50:
				p.kind = 0
			case k < 60:
				p.kind = 1
			case k < 70:
				p.kind = 2
			case k < 74:
				p.kind = 3
			case k < 80:
				p.kind = 4
			case k < 90:
				p.kind = 5
			case k < 95:
				p.kind = 6
			default:
				p.kind = 7
			}
			plans[i] = append(plans[i], p)
		}
	}
	var wg, sharedWg sync.WaitGroup
	start := make(chan struct{})
	var stale atomic.Int64 // read-your-writes failures are reported after the run
	var staleMsg atomic.Value
	var progress atomic.Int64
	for i := 0; i < nlog; i++ {
		lc := &longClient{id: i + 1, own: i >= nshare}
		if lc.own {
			lc.cl = daemon.NewClient(clientSock)
		} else {
			lc.cl = shared
			sharedWg.Add(1)
		}
		wg.Add(1)
		go func(lc *longClient, plan []planned) {
			defer wg.Done()
			<-start
			deleted := map[int]bool{}
			texts := map[int]string{}
			failed := false
			do := func(o refstore.Op) rec {
				rc := h.do(lc.id, lc.cl, o)
				failed = rc.Open
				return rc
			}
			for j, p := range plan {
				jitter(p.yield)
				progress.Add(1)
				if failed && restart { // daemon is down: do not burn through the script
					time.Sleep(2 * time.Millisecond)
				}
				failed = false
				if p.cut {
					px.armed.Store(1)
				}
				switch p.kind {
				case 0:
					t := fmt.Sprintf("%sL%d-%d", p.stem, lc.id, j)
					rc := do(refstore.Op{K: refstore.OpAdd, S: t})
					if !rc.Open {
						lc.acked = append(lc.acked, rc.Res.Seq)
						texts[rc.Res.Seq] = t
					}
				case 1:
					if len(lc.acked) == 0 {
						continue
					}
					k := p.pick % len(lc.acked)
					seq := lc.acked[k]
					rc := do(refstore.Op{K: refstore.OpDel, A: seq})
					if !rc.Open {
						deleted[seq] = true
					}
					// after an unacknowledged delete the entry may or may not be there: stop reading it
					lc.acked = append(lc.acked[:k], lc.acked[k+1:]...)
				case 2: // read own write: must still be there (only this client deletes its own entries)
					if len(lc.acked) == 0 {
						continue
					}
					seq := lc.acked[p.pick%len(lc.acked)]
					rc := do(refstore.Op{K: refstore.OpCmd, A: seq})
					if !rc.Open && (rc.Res.Err != "" || rc.Res.Text != texts[seq]) {
						if stale.Add(1) == 1 {
							staleMsg.Store(fmt.Sprintf("client %d: Cmd(%d) returned (%s, err %q) although the same client added %s under that number and nobody deleted it", lc.id, seq, mon.Q(rc.Res.Text), rc.Res.Err, mon.Q(texts[seq])))
						}
					}
				case 3:
					from := 0
					if len(lc.acked) > 0 {
						from = lc.acked[p.pick%len(lc.acked)]
					}
					do(refstore.Op{K: refstore.OpList, A: from, B: from + 1 + p.pick%50})
				case 4:
					do(refstore.Op{K: refstore.OpNextSeq})
				case 5:
					do(refstore.Op{K: refstore.OpAddDir, S: fmt.Sprintf("/d%d", p.pick%12), F: 1})
				case 6, 7:
					at := 1 + p.pick%(j+nlog)
					k := refstore.OpPrev
					if p.kind == 7 {
						k = refstore.OpNext
					}
					do(refstore.Op{K: k, A: at, S: p.stem})
				}
			}
			if lc.own {
				lc.cl.Close()
			} else {
				sharedWg.Done()
			}
		}(lc, plans[i])
	}
	close(start)
	restarts := 0
	if restart {
		// Interrupt the daemon while requests are in flight (it closes every
		// connection) and start a new one on the same database; progress
		// counts decide when, not the clock.
		nrestart := 2 + r.Intn(3)
		for k := 1; k <= nrestart; k++ {
			target := int64(k * total / (nrestart + 1))
			for progress.Load() < target {
				runtime.Gosched()
				time.Sleep(200 * time.Microsecond)
			}
			srv.stop()
			select {
			case <-srv.done:
			case <-time.After(60 * time.Second):
				c.Inconclusive("daemon-did-not-exit")
				return
			}
			srv, ok = startServer(sock, db)
			if !ok {
				c.Inconclusive("daemon-did-not-restart")
				return
			}
			restarts++
			keeper.Version() // reconnect the keeper so that the new daemon stays up
		}
	}
	if !waitClients(c, &wg, srv, 300*time.Second) {
		srv.wait()
		return
	}
	if shared != nil {
		sharedWg.Wait()
		shared.Close()
	}
	if restart {
		keeper.Version()
	}
	final := h.do(0, keeper, refstore.Op{K: refstore.OpList, A: 0, B: -1})
	finalNext := h.do(0, keeper, refstore.Op{K: refstore.OpNextSeq})
	finalDirs := h.do(0, keeper, refstore.Op{K: refstore.OpDirs})
	keeper.Close()
	if !srv.wait() {
		c.Inconclusive("daemon-did-not-exit")
	}
	if final.Open || finalNext.Open || finalDirs.Open {
		c.Inconclusive("final-read-failed")
		return
	}
	recs := h.recs
	ph := mode
	if px != nil {
		c.Count("cut_replies_lost", int(px.cuts.Load()))
	}
	c.Evals(len(recs))
	c.Count(ph+"_ops", len(recs))
	c.Count(ph+"_restarts", restarts)
	if nshare > 0 {
		c.Count("long_histories_with_shared_client", 1)
	}
	if stale.Load() > 0 {
		c.Violation(ph+":lost-own-write", staleMsg.Load().(string), nil)
		return
	}
	g, ok := checkGlobal(c, ph, recs, refstore.New())
	if !ok {
		return
	}
	// final listing = acknowledged adds - acknowledged deletes, +- open operations
	mustHave := map[int]string{}
	for t, s := range g.addSeq {
		mustHave[s] = t
	}
	maybeGone := map[int]bool{}
	nopen, nadds, ndirAdds, ndirOpen := 0, 0, 0, 0
	for _, rc := range recs {
		if rc.Open {
			nopen++
		}
		switch rc.Op.K {
		case refstore.OpAdd:
			if !rc.Open {
				nadds++
			}
		case refstore.OpDel:
			if rc.Open {
				maybeGone[rc.Op.A] = true
			} else {
				delete(mustHave, rc.Op.A)
				maybeGone[rc.Op.A] = true
			}
		case refstore.OpAddDir:
			if rc.Open {
				ndirOpen++
			} else {
				ndirAdds++
			}
		}
	}
	c.Count(ph+"_open_ops", nopen)
	c.Count(ph+"_acked_adds", nadds)
	wit := map[string]any{"history_tail": lastN(dump(recs, 1<<30), 60)}
	inFinal := map[int]string{}
	seenText := map[string]int{}
	for _, cm := range final.Res.Cmds {
		inFinal[cm.Seq] = cm.Text
		if s0, dup := seenText[cm.Text]; dup {
			c.Violation(ph+":duplicate-command", fmt.Sprintf("final listing holds the unique command %s twice (seq %d and %d): an add was executed twice", mon.Q(cm.Text), s0, cm.Seq), wit)
			return
		}
		seenText[cm.Text] = cm.Seq
	}
	for s, t := range mustHave {
		if _, gone := maybeGone[s]; gone {
			continue // an open delete may have removed it
		}
		if got, ok := inFinal[s]; !ok {
			c.Violation(ph+":lost-command", fmt.Sprintf("AddCmd(%s) was acknowledged with seq %d and never deleted, but the final listing does not contain it", mon.Q(t), s), wit)
			return
		} else if got != t {
			c.Violation(ph+":changed-command", fmt.Sprintf("seq %d holds %s at the end, but was acknowledged for %s", s, mon.Q(got), mon.Q(t)), wit)
			return
		}
	}
	for _, rc := range recs { // acknowledged deletes took effect
		if rc.Op.K == refstore.OpDel && !rc.Open {
			if _, still := inFinal[rc.Op.A]; still {
				c.Violation(ph+":undeleted-command", fmt.Sprintf("DelCmd(%d) was acknowledged but the entry is in the final listing", rc.Op.A), wit)
				return
			}
		}
	}
	// the counter: exactly one number per executed add
	openAdds := len(g.openAdds)
	if finalNext.Res.Seq < refstore.FirstSeq+nadds || finalNext.Res.Seq > refstore.FirstSeq+nadds+openAdds {
		c.Violation(ph+":counter", fmt.Sprintf("final NextCmdSeq is %d after %d acknowledged and %d unacknowledged adds (expected %d..%d)", finalNext.Res.Seq, nadds, openAdds, refstore.FirstSeq+nadds, refstore.FirstSeq+nadds+openAdds), wit)
		return
	}
	for s := range g.seqText {
		if s >= finalNext.Res.Seq || s < refstore.FirstSeq {
			c.Violation(ph+":counter", fmt.Sprintf("seq %d was acknowledged but the final NextCmdSeq is %d", s, finalNext.Res.Seq), wit)
			return
		}
	}
	// directory scores: with factor 1 the sum of all scores after n atomic
	// visits is 10*(1-d^n)/(1-d), whatever the order of the visits
	if ndirOpen == 0 {
		sum := 0.0
		for _, d := range finalDirs.Res.Dirs {
			sum += d.Score
		}
		want := refstore.DirScoreIncrement * (1 - math.Pow(refstore.DirScoreDecay, float64(ndirAdds))) / (1 - refstore.DirScoreDecay)
		if math.Abs(sum-want) > 1e-6*float64(ndirAdds+1)*want+1e-9 {
			c.Violation(ph+":dir-score-sum", fmt.Sprintf("sum of directory scores after %d concurrent visits (factor 1) is %v, expected %v for atomic visits", ndirAdds, sum, want), nil)
			return
		}
		c.Count(ph+"_dir_visits", ndirAdds)
	}
	c.Nontrivial(ph, c.I, len(recs), nadds, nopen)
	c.Sample(ph, map[string]any{"clients": nlog, "sharing": nshare, "gomaxprocs": procs, "ops": len(recs), "acked_adds": nadds, "open_ops": nopen, "restarts": restarts})
}

func lastN(s []string, n int) []string {
	if len(s) > n {
		return s[len(s)-n:]
	}
	return s
}

func Spec() *mon.Spec {
	return &mon.Spec{
		ID: "C26", Level: "exploration", Race: true,
		Rule: "phase short: one real daemon.Serve (in-process, race detector on) with a fresh database; 2..8 logical clients (the first k share one daemon.NewClient after its first successful request, the others own a connection) run pre-generated scripts of command-history operations (unique AddCmd texts with shared prefixes, DelCmd/Cmd/CmdsWithSeq/NextCmd/PrevCmd with sequence arguments around the live range, NextCmdSeq) with random yields, GOMAXPROCS from {1,2,4,8,16}; every call is recorded with call/return stamps from one atomic logical clock, a sequential prefix and a sequential final listing are part of the history; the <= 80-operation history is decided by porcupine against refstore (operations with transport errors stay open; checker timeout = inconclusive). Phase long: 4..8 clients, 4000 operations, cheap global checks (unique acknowledged seqs, every read shows only acknowledged writes with the right text, per-client monotonic seqs, read-own-write, final listing = acknowledged adds - acknowledged deletes, final counter = 1 + executed adds, sum of directory scores after n concurrent factor-1 visits). Phase restart: the same global checks while the daemon is interrupted and restarted on the same database 2..4 times with requests in flight (own connections only). Phase cut: the same global checks with the clients connected through a forwarding proxy that, at PRNG-chosen operations, drops the next reply travelling back and closes that connection (request executed, reply lost): no command may appear twice. Non-trivial = short history with at least one pair of time-overlapping mutations by different clients, or a completed long/restart history.",
		Assumptions: []string{
			"daemon.NewClient is shared between goroutines only after its first successful request (connection creation is documented as deferred and the client is not synchronised); with a restarting daemon no client is shared",
			"an operation that returns any error other than 'no matching command line' is treated as open (may or may not have taken effect)",
			"directory operations are not part of the porcupine histories (scores are compared with a tolerance, which does not fit an exact state equality); concurrent AddDir is checked through the order-independent score sum in phase long",
			"first sequence number of a fresh store is 1 (pkg/store/storetest)",
		},
		Phases: []mon.Phase{
			{Name: "short", Quick: 300, Thorough: 5000, Run: runShort, GoMaxProcs: 4, Timeout: 300 * time.Second},
			{Name: "long", Quick: 4, Thorough: 60, Run: func(c *mon.Case) { runLong(c, "long") }, GoMaxProcs: 8, Batch: 1, Timeout: 600 * time.Second},
			{Name: "cut", Quick: 4, Thorough: 40, Run: func(c *mon.Case) { runLong(c, "cut") }, GoMaxProcs: 8, Batch: 1, Timeout: 600 * time.Second},
			{Name: "restart", Quick: 4, Thorough: 40, Run: func(c *mon.Case) { runLong(c, "restart") }, GoMaxProcs: 8, Batch: 1, Timeout: 600 * time.Second},
		},
		Floors: map[string]int{
			"short_linearizable": 100, "short_overlapping_mutation_pairs": 300, "short_histories_with_shared_client": 60,
			"long_ops": 5000, "long_acked_adds": 2500, "long_dir_visits": 400, "long_histories_with_shared_client": 1,
			"restart_restarts": 3, "restart_open_ops": 1, "cut_replies_lost": 30, "cut_acked_adds": 500, "distinct_nontrivial": 80,
		},
	}
}
