// Package c01 monitors parse.Parse on arbitrary byte strings: it must return
// (no panic, no endless loop) a tree plus parse errors positioned inside the
// source, and the tree must be lossless (property C01).
package c01

import (
	"fmt"
	"regexp"
	"runtime/debug"
	"strings"
	"sync/atomic"
	"time"

	"src.elv.sh/pkg/parse"
	"verifharness/internal/gen"
	"verifharness/internal/mon"
)

// Problem is one way in which a parse result breaks the property.
type Problem struct {
	Sig, What string
}

// Stats is what was observed on one input.
type Stats struct {
	Nodes, Leaves, Errors int
	ASTLinks              int // nodes reached through exported fields and looked up among Children
	NodeTypes             map[string]bool
	RedirLeft             int
	Trailing              bool // the tree stops before the end of the source
	MaxDepth              int
}

func typeName(n parse.Node) string {
	if p, ok := n.(*parse.Primary); ok {
		return "Primary/" + p.Type.String()
	}
	return strings.TrimPrefix(fmt.Sprintf("%T", n), "*parse.")
}

// astKids lists the nodes a node refers to through its exported (AST) fields.
// The package documentation calls every node an "AST/parse tree hybrid" whose
// exported fields give the semantic view and whose Children give *all* its
// children, so each of these must also be one of Children(n).
func astKids(n parse.Node) []parse.Node {
	var out []parse.Node
	addC := func(cs []*parse.Compound) {
		for _, c := range cs {
			out = append(out, c)
		}
	}
	addM := func(ms []*parse.MapPair) {
		for _, m := range ms {
			out = append(out, m)
		}
	}
	switch n := n.(type) {
	case *parse.Chunk:
		for _, p := range n.Pipelines {
			out = append(out, p)
		}
	case *parse.Pipeline:
		for _, f := range n.Forms {
			out = append(out, f)
		}
	case *parse.Form:
		if n.Head != nil {
			out = append(out, n.Head)
		}
		addC(n.Args)
		addM(n.Opts)
		for _, r := range n.Redirs {
			out = append(out, r)
		}
	case *parse.Redir:
		if n.Left != nil {
			out = append(out, n.Left)
		}
		if n.Right != nil {
			out = append(out, n.Right)
		}
	case *parse.Filter:
		addC(n.Args)
		addM(n.Opts)
	case *parse.Compound:
		for _, in := range n.Indexings {
			out = append(out, in)
		}
	case *parse.Indexing:
		if n.Head != nil {
			out = append(out, n.Head)
		}
		for _, a := range n.Indices {
			out = append(out, a)
		}
	case *parse.Array:
		addC(n.Compounds)
	case *parse.Primary:
		addC(n.Elements)
		if n.Chunk != nil {
			out = append(out, n.Chunk)
		}
		addM(n.MapPairs)
		addC(n.Braced)
	case *parse.MapPair:
		if n.Key != nil {
			out = append(out, n.Key)
		}
		if n.Value != nil {
			out = append(out, n.Value)
		}
	}
	return out
}

// CheckTree walks the tree returned for src and reports every breach of the
// losslessness invariants. errs are the unpacked parse errors.
func CheckTree(src string, root parse.Node, errs []*parse.Error) (Stats, []Problem) {
	st := Stats{NodeTypes: map[string]bool{}}
	var probs []Problem
	add := func(sig, format string, a ...any) {
		if len(probs) < 8 {
			probs = append(probs, Problem{sig, fmt.Sprintf(format, a...)})
		}
	}
	if root == nil {
		add("tree:nil-root", "Parse returned a nil root")
		return st, probs
	}
	if parse.Parent(root) != nil {
		add("tree:root-has-parent", "the root node has a parent")
	}
	n := len(src)
	var leaves strings.Builder
	var walk func(nd parse.Node, depth int)
	walk = func(nd parse.Node, depth int) {
		st.Nodes++
		if depth > st.MaxDepth {
			st.MaxDepth = depth
		}
		tn := typeName(nd)
		st.NodeTypes[tn] = true
		rg := nd.Range()
		if rg.From < 0 || rg.From > rg.To || rg.To > n {
			add("range:out-of-source:"+tn, "%s node has range [%d,%d) in a source of %d bytes", tn, rg.From, rg.To, n)
			return
		}
		want := src[rg.From:rg.To]
		if got := parse.SourceText(nd); got != want {
			sig := "sourcetext:" + tn
			if rd, ok := nd.(*parse.Redir); ok && rd.Left != nil && rd.Left.Range().From == rg.From &&
				got == src[rd.Left.Range().To:rg.To] {
				// exactly the text of the node minus its explicit destination part
				sig = "sourcetext:redir-with-left"
			}
			add(sig, "%s node with range [%d,%d): SourceText %s, source slice %s", tn, rg.From, rg.To, mon.Q(got), mon.Q(want))
		}
		if rd, ok := nd.(*parse.Redir); ok && rd.Left != nil {
			st.RedirLeft++
		}
		ch := parse.Children(nd)
		if ak := astKids(nd); len(ak) > 0 {
			st.ASTLinks += len(ak)
			var set map[parse.Node]bool
			if len(ch) > 12 {
				set = make(map[parse.Node]bool, len(ch))
				for _, c := range ch {
					set[c] = true
				}
			}
			for _, k := range ak {
				found := false
				if set != nil {
					found = set[k]
				} else {
					for _, c := range ch {
						if c == k {
							found = true
							break
						}
					}
				}
				if !found {
					add("ast:field-node-not-in-tree:"+tn, "%s node [%d,%d): the %s node [%d,%d) held in one of its exported fields is not among its Children",
						tn, rg.From, rg.To, typeName(k), k.Range().From, k.Range().To)
					break
				}
			}
		}
		if len(ch) == 0 {
			st.Leaves++
			leaves.WriteString(want)
			return
		}
		if f := ch[0].Range().From; f != rg.From {
			add("tiling:first-child:"+tn, "%s node [%d,%d): first child starts at %d", tn, rg.From, rg.To, f)
		}
		if t := ch[len(ch)-1].Range().To; t != rg.To {
			add("tiling:last-child:"+tn, "%s node [%d,%d): last child ends at %d", tn, rg.From, rg.To, t)
		}
		for i, c := range ch {
			if c == nil {
				add("tree:nil-child:"+tn, "%s node has a nil child", tn)
				continue
			}
			if i > 0 && ch[i-1] != nil && ch[i-1].Range().To != c.Range().From {
				add("tiling:gap-or-overlap:"+tn, "%s node [%d,%d): child %d ends at %d, child %d (%s) starts at %d",
					tn, rg.From, rg.To, i-1, ch[i-1].Range().To, i, typeName(c), c.Range().From)
			}
			if parse.Parent(c) != nd {
				add("tree:parent-link:"+typeName(c), "child %d (%s) of %s node [%d,%d) has a different Parent", i, typeName(c), tn, rg.From, rg.To)
			}
			walk(c, depth+1)
		}
	}
	walk(root, 0)
	rr := root.Range()
	if rr.From != 0 {
		add("root:from", "root range starts at %d", rr.From)
	}
	if rr.To >= 0 && rr.To <= n && rr.From == 0 && leaves.String() != src[:rr.To] {
		add("leaves:concat", "leaves concatenate to %s, the root covers %s", mon.Q(leaves.String()), mon.Q(src[:rr.To]))
	}
	if rr.To != n {
		// Text the parser could not consume. The tree then covers a prefix, and
		// the rest must be reported (mechanism "trailing unparsed text is
		// reported"): some error has to start exactly where the tree ends.
		st.Trailing = true
		reported := false
		for _, e := range errs {
			if e.Context.From == rr.To {
				reported = true
			}
		}
		if !reported {
			add("root:unreported-trailing-text", "root covers [0,%d) of %d bytes and no parse error starts at %d", rr.To, n, rr.To)
		}
	}
	for _, e := range errs {
		st.Errors++
		if e.Context.From < 0 || e.Context.From > e.Context.To || e.Context.To > n {
			add("error:range-out-of-source", "parse error %q has range [%d,%d) in a source of %d bytes", e.Message, e.Context.From, e.Context.To, n)
		}
		if e.Message == "" {
			add("error:empty-message", "parse error without message at [%d,%d)", e.Context.From, e.Context.To)
		}
	}
	return st, probs
}

var numRe = regexp.MustCompile(`0x[0-9a-f]+|\d+`)
var frameRe = regexp.MustCompile(`(?m)^(src\.elv\.sh/[^\s(]+(?:\([^)]*\))?[^\s(]*)\(`)

// parseRecover runs the parser and converts a panic into a report that
// carries the input.
func parseRecover(src string, root parse.Node) (tree parse.Tree, rootNode parse.Node, err error, pmsg, pstack string) {
	defer func() {
		if p := recover(); p != nil {
			pmsg, pstack = "panic: "+fmt.Sprint(p), string(debug.Stack())
		}
	}()
	if root != nil {
		// the low-level entry point: parse the text as the given kind of node
		err = parse.ParseAs(parse.Source{Name: "[c01]", Code: src}, root, parse.Config{})
		return parse.Tree{Source: parse.Source{Code: src}}, root, err, "", ""
	}
	tree, err = parse.Parse(parse.Source{Name: "[c01]", Code: src}, parse.Config{})
	return tree, tree.Root, err, "", ""
}

// Roots for parse.ParseAs: every exported node type that can stand alone.
var asRoots = []struct {
	name string
	mk   func() parse.Node
}{
	{"Filter", func() parse.Node { return &parse.Filter{} }},
	{"Pipeline", func() parse.Node { return &parse.Pipeline{} }},
	{"Form", func() parse.Node { return &parse.Form{} }},
	{"Compound", func() parse.Node { return &parse.Compound{} }},
	{"CompoundCmd", func() parse.Node { return &parse.Compound{ExprCtx: parse.CmdExpr} }},
	{"CompoundLHS", func() parse.Node { return &parse.Compound{ExprCtx: parse.LHSExpr} }},
	{"CompoundBraced", func() parse.Node { return &parse.Compound{ExprCtx: parse.BracedElemExpr} }},
	{"Indexing", func() parse.Node { return &parse.Indexing{} }},
	{"Primary", func() parse.Node { return &parse.Primary{} }},
	{"Array", func() parse.Node { return &parse.Array{} }},
	{"MapPair", func() parse.Node { return &parse.MapPair{} }},
	{"Redir", func() parse.Node { return &parse.Redir{} }},
	{"Chunk", func() parse.Node { return &parse.Chunk{} }},
}

// runInputs feeds the inputs to the parser on a worker goroutine while the
// case goroutine watches its progress, so that an endless loop is reported
// with the input as witness and can be told apart from a slow machine.
func runInputs(c *mon.Case, kind string, inputs []string) {
	var progress atomic.Int64
	done := make(chan struct{})
	go func() {
		defer close(done)
		for i := range inputs {
			checkInput(c, kind, inputs[i])
			progress.Add(1)
		}
	}()
	tick := time.NewTicker(time.Second)
	defer tick.Stop()
	last, stalled, slowNoted := int64(-1), 0, false
	for {
		select {
		case <-done:
			if len(inputs) > 1 {
				c.Evals(len(inputs) - 1)
			}
			return
		case <-tick.C:
			p := progress.Load()
			if p != last {
				last, stalled = p, 0
				continue
			}
			stalled++
			if stalled >= 10 && !slowNoted {
				slowNoted = true
				c.Inconclusive("slow-parse")
			}
			if stalled >= 110 && p < int64(len(inputs)) {
				src := inputs[p]
				c.Violation("nontermination", fmt.Sprintf("parse.Parse did not return within 110 s on a %d-byte input", len(src)), map[string]any{"input": mon.Q(src), "generator": kind})
				return
			}
		}
	}
}

// checkInput parses one input and reports to the case. kind names the
// generator for counters.
func checkInput(c *mon.Case, kind, src string) (valid bool) {
	var root parse.Node
	if strings.HasPrefix(kind, "as:") {
		// the root kind is a function of the input text, so that a replay
		// and a re-run see the same pairing
		h := 0
		for i := 0; i < len(src); i++ {
			h = h*31 + int(src[i])
		}
		if h < 0 {
			h = -h
		}
		ar := asRoots[(h+len(src))%len(asRoots)]
		root = ar.mk()
		kind = "as:" + ar.name
	}
	tree, rootNode, err, pmsg, pstack := parseRecover(src, root)
	if pmsg != "" {
		st := pstack
		if k := strings.Index(st, "panic("); k >= 0 {
			st = st[k:]
		}
		frame := "?"
		if m := frameRe.FindStringSubmatch(st); m != nil {
			frame = m[1]
		}
		msg := numRe.ReplaceAllString(strings.SplitN(pmsg, "\n", 2)[0], "N")
		c.Violation(msg+"@"+frame, "parse.Parse panicked: "+pmsg, map[string]any{"input": mon.Q(src), "generator": kind, "stack": st})
		return false
	}
	errs := parse.UnpackErrors(err)
	if err != nil && len(errs) == 0 {
		c.Violation("error:not-a-parse-error", "Parse returned an error that holds no parse errors: "+err.Error(), map[string]any{"input": mon.Q(src)})
	}
	st, probs := CheckTree(src, rootNode, errs)
	if tree.Source.Code != src {
		probs = append(probs, Problem{"tree:source-field", "Tree.Source.Code differs from the input"})
	}
	for _, p := range probs {
		c.Violation(p.Sig, p.What, map[string]any{"input": mon.Q(src), "generator": kind, "errors": errStrings(errs)})
	}
	c.Count("inputs", 1)
	c.Count("inputs_"+kind, 1)
	if root != nil {
		c.Count("inputs_parse_as", 1)
		c.Distinct("parse_as_roots", kind)
	}
	c.Count("nodes_checked", st.Nodes)
	c.Count("leaves_checked", st.Leaves)
	c.Count("ast_field_links_checked", st.ASTLinks)
	c.Count("errors_checked", st.Errors)
	c.Count("redir_with_destination_nodes", st.RedirLeft)
	c.Max("input_bytes", len(src))
	c.Max("tree_depth", st.MaxDepth)
	if st.Trailing {
		c.Count("inputs_with_unconsumed_tail", 1)
	}
	if len(errs) == 0 {
		c.Count("inputs_without_error", 1)
		if src != "" {
			c.Count("valid_nonempty_"+kind, 1)
		}
	} else {
		c.Count("inputs_with_error", 1)
	}
	for t := range st.NodeTypes {
		c.Distinct("node_types", t)
		if strings.HasPrefix(t, "Primary/") {
			c.Distinct("primary_types", t)
		}
	}
	for _, e := range errs {
		c.Distinct("error_messages", e.Message)
	}
	if src != "" && (len(st.NodeTypes) >= 3 || len(errs) > 0) {
		c.Nontrivial(src)
	}
	if len(errs) > 0 && len(src) > 6 {
		c.Sample("with-errors:"+kind, map[string]any{"input": mon.Q(src), "errors": errStrings(errs), "nodes": st.Nodes})
	} else if len(errs) == 0 && len(src) > 12 {
		c.Sample("valid:"+kind, map[string]any{"input": mon.Q(src), "nodes": st.Nodes, "node_types": len(st.NodeTypes)})
	}
	return len(errs) == 0
}

func errStrings(errs []*parse.Error) []string {
	var out []string
	for i, e := range errs {
		if i == 6 {
			out = append(out, "...")
			break
		}
		out = append(out, fmt.Sprintf("[%d,%d) %s", e.Context.From, e.Context.To, e.Message))
	}
	return out
}

const perCase = 200

func runRandom(c *mon.Case) {
	var in []string
	for i := 0; i < perCase; i++ {
		max := 64
		if i%4 == 0 {
			max = 8
		}
		in = append(in, gen.RandomBytes(c.Rand, max))
	}
	runInputs(c, "random", in)
}

func runAdv(c *mon.Case) {
	var in []string
	for i := 0; i < perCase; i++ {
		max := 48
		if i%3 == 0 {
			max = 6
		}
		in = append(in, gen.BytesAdv(c.Rand, max))
	}
	runInputs(c, "adversarial", in)
}

func program(c *mon.Case) string {
	r := c.Rand
	o := gen.SyntaxOpt{MaxForms: 1 + r.Intn(4), InvalidUTF8: r.Intn(4) == 0}
	if r.Intn(5) == 0 {
		o.Budget = 8
	}
	return gen.ElvProgramTree(r, o).Source()
}

func runSyntax(c *mon.Case) {
	const n = 50
	var in []string
	for i := 0; i < n; i++ {
		in = append(in, program(c))
	}
	runInputs(c, "grammar", in)
}

func runMutated(c *mon.Case) {
	const n = 25
	r := c.Rand
	var in []string
	for i := 0; i < n; i++ {
		src := program(c)
		for k := 0; k < 4; k++ {
			m := src
			for j := 1 + r.Intn(3); j > 0; j-- {
				if r.Intn(3) == 0 {
					m = gen.Mutate(r, m)
				} else {
					m = gen.ElvMutate(r, m)
				}
			}
			in = append(in, m)
		}
	}
	runInputs(c, "mutated", in)
}

// runParseAs feeds a mix of inputs to parse.ParseAs with every kind of root
// node (Filter is what the editor's filter DSL uses).
func runParseAs(c *mon.Case) {
	r := c.Rand
	var in []string
	for i := 0; i < perCase; i++ {
		var s string
		switch i % 5 {
		case 0:
			s = gen.BytesAdv(r, 12)
		case 1:
			s = gen.ElvExpr(r)
		case 2:
			s = gen.ElvMutate(r, gen.ElvExpr(r))
		case 3:
			s = gen.ElvProgramTree(r, gen.SyntaxOpt{MaxForms: 1, Budget: 6, InvalidUTF8: r.Intn(4) == 0}).Source()
		default:
			s = gen.RandomBytes(r, 16)
		}
		in = append(in, s)
	}
	runInputs(c, "as:", in)
}

// ---- exhaustive short strings -----------------------------------------------------

var exhaustAlphabet = []string{
	"$", "*", "?", "(", ")", "[", "]", "{", "}", "<", ">", ";", "|", "&", "~", "=", ",", "^", "#", "'", "\"", "\\",
	" ", "\t", "\r", "\n", "a", "1", "-", "@", ":", "x", "c", "\xff", "\xe4\xb8", "好", "\u0085", "\x00", "%", ".",
}

// nthString decodes index k into the k-th string over the alphabet in
// length-then-lexicographic order.
func nthString(k int64, maxLen int) (string, bool) {
	a := int64(len(exhaustAlphabet))
	block := int64(1)
	for l := 0; l <= maxLen; l++ {
		if k < block {
			parts := make([]string, l)
			for i := l - 1; i >= 0; i-- {
				parts[i] = exhaustAlphabet[k%a]
				k /= a
			}
			return strings.Join(parts, ""), true
		}
		k -= block
		block *= a
	}
	return "", false
}

func exhaustTotal(maxLen int) int64 {
	a := int64(len(exhaustAlphabet))
	var total, block int64 = 0, 1
	for l := 0; l <= maxLen; l++ {
		total += block
		block *= a
	}
	return total
}

const exhaustCases = 256

func runExhaustive(c *mon.Case) {
	maxLen := c.Env.Pick(3, 4)
	total := exhaustTotal(maxLen)
	per := (total + exhaustCases - 1) / exhaustCases
	from := int64(c.I) * per
	var in []string
	for k := from; k < from+per && k < total; k++ {
		s, ok := nthString(k, maxLen)
		if !ok {
			break
		}
		in = append(in, s)
	}
	runInputs(c, "exhaustive", in)
	c.Max("exhaustive_string_symbols", maxLen)
}

// ---- deep / long inputs ---------------------------------------------------------

var deepOpeners = []string{"(", "[", "{ ", "{|a| ", "?(", "a[", "$x[", "[&k=", "{a,", "{", "echo (", "if $x { ", "e | ", "a;", "a\n", "&k=", "2>", "x=", "'", "\"\\", "$", "~", "*?", "^\n ", "#\n"}
var deepClosers = map[string]string{"(": ")", "[": "]", "{ ": " }", "{|a| ": " }", "?(": ")", "a[": "]", "$x[": "]", "[&k=": "]", "{a,": "}", "{": "}", "echo (": ")", "if $x { ": " }"}

func runDeep(c *mon.Case) {
	r := c.Rand
	depth := 1 + r.Intn(c.Env.Pick(1500, 10000))
	if r.Intn(3) == 0 {
		depth = 1 + r.Intn(200)
	}
	mode := r.Intn(4)
	var open, close []string
	pick := deepOpeners[r.Intn(len(deepOpeners))]
	for i := 0; i < depth; i++ {
		o := pick
		if mode == 1 {
			o = deepOpeners[r.Intn(len(deepOpeners))]
		}
		open = append(open, o)
		close = append(close, deepClosers[o])
	}
	var sb strings.Builder
	for _, o := range open {
		sb.WriteString(o)
	}
	if mode != 2 { // mode 2: never closed
		sb.WriteString("x")
		nclose := len(close)
		if mode == 3 {
			nclose = r.Intn(len(close) + 1)
		}
		for i := len(close) - 1; i >= len(close)-nclose; i-- {
			sb.WriteString(close[i])
		}
	}
	runInputs(c, "deep", []string{sb.String()})
	c.Count("deep_inputs", 1)
	c.Max("deep_nesting", depth)
}

func Spec() *mon.Spec {
	return &mon.Spec{
		ID: "C01", Level: "exploration",
		Rule: "case = batch of inputs fed to parse.Parse: uniformly random bytes (0..64), strings over the adversarial alphabet (0..48 pieces: metacharacters, whitespace, invalid UTF-8, controls, wide/astral runes), grammar-generated programs (gen.ElvProgramTree, one in four with invalid UTF-8 inside strings/comments/barewords), 1..3 token-/byte-level mutations of such programs, every string of <= 3 (thorough: 4) symbols over a 40-symbol alphabet, deeply nested / long inputs, and (phase parse-as) expressions / fragments fed to the low-level entry parse.ParseAs with each of 13 kinds of root node (Filter, Pipeline, Form, Compound in every expression context, Indexing, Primary, Array, MapPair, Redir, Chunk). For every input: the call returns (panic and non-return are violations), every node has 0<=From<=To<=len, SourceText==src[From:To], children tile the node in order, Parent links are right, every node held in an exported (AST) field is one of its holder's Children, the leaves concatenate to the text the root covers, and every error range lies inside the source. Non-trivial = non-empty input whose tree has >= 3 node types or that has >= 1 parse error; distinct by input text.",
		Assumptions: []string{
			"nodes reachable through exported fields (Form.Args, Primary.Chunk, ...) are required to be parse-tree children of their holder, from the package documentation (each node is an AST/parse-tree hybrid; Children returns all children); without this a tree can stay 'lossless' while the semantic nodes are detached from it",
			"when the parser cannot consume a trailing part of the input, the root covers the consumed prefix only; the check then demands that a parse error starts exactly where the tree ends (anchor mechanism 'trailing unparsed text is reported') and that the leaves concatenate to the covered prefix; the whole source is demanded whenever the root reaches the end",
			"termination is decided with a generous watchdog: a parse of a <= 100 KB input that has not returned after 110 s is reported as non-termination, one that needs between 10 s and 110 s as inconclusive",
			"Go native coverage-guided fuzzing is not part of the tiers; the count-bounded generators and the exhaustive short-string enumeration stand in for it",
		},
		Phases: []mon.Phase{
			{Name: "exhaustive", Quick: exhaustCases, Thorough: exhaustCases, Run: runExhaustive},
			{Name: "random", Quick: 400, Thorough: 4000, Run: runRandom},
			{Name: "adversarial", Quick: 500, Thorough: 5000, Run: runAdv},
			{Name: "grammar", Quick: 800, Thorough: 8000, Run: runSyntax},
			{Name: "mutated", Quick: 800, Thorough: 8000, Run: runMutated},
			{Name: "parse-as", Quick: 250, Thorough: 2500, Run: runParseAs},
			{Name: "deep", Quick: 160, Thorough: 800, Run: runDeep, Timeout: 300 * time.Second, Batch: 10},
		},
		Floors: map[string]int{
			"distinct_nontrivial": 100000, "inputs": 120000, "nodes_checked": 3000000, "ast_field_links_checked": 2000000, "errors_checked": 100000,
			"inputs_without_error": 20000, "valid_nonempty_grammar": 12000, "inputs_mutated": 25000, "inputs_exhaustive": 20000,
			"redir_with_destination_nodes": 2000, "primary_types": 13, "inputs_parse_as": 15000, "parse_as_roots": 13, "node_types": 20, "inputs_with_unconsumed_tail": 10000, "error_messages": 15,
		},
	}
}
