// Package c18 monitors pipelines (property C18): every stage receives what
// the previous stage wrote exactly once and in order on each of the two
// bands, a stage that reads to the end sees everything, the pipeline
// terminates, early-exiting readers never hang their writers and "reader
// gone" is not reported, and all other stage exceptions are reported.
package c18

import (
	"fmt"
	"math/rand"
	"os"
	"path/filepath"
	"runtime"
	"strings"
	"time"

	"src.elv.sh/pkg/eval"
	"src.elv.sh/pkg/eval/errs"
	"src.elv.sh/pkg/eval/vals"
	"verifharness/internal/elv"
	"verifharness/internal/mon"
	"verifharness/internal/sched"
)

// ---------------------------------------------------------------------------
// program model

type seg struct {
	Kind string   `json:"kind"` // loop (one write per item, bands from the ids), bulkv (put $@l), bulkb (to-lines $l), blob (one print of all lines), throw, yield
	IDs  []string `json:"ids,omitempty"`
	Y    int      `json:"yield,omitempty"`
	Pad  int      `json:"pad,omitempty"`
	Name string   `json:"list_var,omitempty"`
}

type stage struct {
	I      int    `json:"i"`
	Native string `json:"native,omitempty"` // all, take, to-lines, from-lines, only-values, only-bytes, count
	K      int    `json:"k,omitempty"`
	// instrumented stages
	Reader  string `json:"reader,omitempty"` // none, each, collect, readn, readlines, readboth
	ReadV   int    `json:"read_values,omitempty"`
	ReadB   int    `json:"read_lines,omitempty"`
	Policy  string `json:"policy,omitempty"` // v, b, keep, sink: what a filter re-emits
	ThrowAt int    `json:"throw_at_recv,omitempty"`
	Mode    string `json:"mode,omitempty"` // ev: native put/echo bracketed by v-try/v-ok; w: harness write through the Frame API
	Segs    []seg  `json:"producer,omitempty"`
	YR      int    `json:"yield_in_reader,omitempty"`
	FPad    int    `json:"filter_pad,omitempty"`
	// the stage redirects its OWN stdin: file (`< $f`), dup (`3< $f 0<&3`),
	// closed (`0<&-`). It then reads nothing from the pipe.
	Redir     string   `json:"stdin_redirection,omitempty"`
	FileLines []string `json:"file_lines,omitempty"`
	// static upper bounds of what the stage can emit
	maxV, maxLines, maxBytes, maxLen int
	prodPad                          int
}

func (s *stage) complete() bool { return s.Reader == "each" || s.Reader == "collect" }
func (s *stage) early() bool {
	return s.Native == "" && !s.complete()
}

type program struct {
	Stages []*stage `json:"stages"`
	Gmp    int      `json:"gomaxprocs"`
	lists  map[string][]string
	pads   map[int]bool
}

func yieldChoice(r *rand.Rand) int {
	switch a := r.Intn(100); {
	case a < 45:
		return 0
	case a < 75:
		return 1 + r.Intn(3)
	case a < 93:
		return 3 + r.Intn(12)
	default:
		return 100 + r.Intn(60)
	}
}

func countChoice(r *rand.Rand) int {
	switch a := r.Intn(100); {
	case a < 15:
		return 0
	case a < 45:
		return 1 + r.Intn(8)
	case a < 70:
		return 9 + r.Intn(30)
	case a < 92:
		return 33 + r.Intn(50) // beyond the 32-slot channel buffer
	default:
		return 83 + r.Intn(218) // up to 300
	}
}

// genProducer builds the producer part of stage i.
func genProducer(r *rand.Rand, p *program, s *stage, limitV, limitBytes int, allowBig bool) {
	nv, nb := countChoice(r), countChoice(r)
	switch r.Intn(5) {
	case 0:
		nv = 0
	case 1:
		nb = 0
	}
	if limitV >= 0 && nv > limitV {
		nv = r.Intn(limitV + 1)
	}
	pad := 0
	switch a := r.Intn(10); {
	case a < 4:
		pad = 0
	case a < 7:
		pad = 20 + r.Intn(200)
	default:
		pad = 1000 + r.Intn(3000) // a few dozen such lines overflow the 64 KiB pipe buffer
		if r.Intn(3) == 0 {
			// single lines around and beyond the 4096-byte buffers of line readers
			pad = []int{4060, 4075, 4080, 4090, 4100, 8170, 8190, 12300, 20000}[r.Intn(9)] + r.Intn(12)
		}
		if nb > 0 && nb < 40 && r.Intn(2) == 0 {
			nb = 40 + r.Intn(40)
		}
	}
	if !allowBig && pad > 150 {
		pad = r.Intn(100)
	}
	if limitBytes >= 0 {
		for nb*(pad+14) > limitBytes {
			if pad > 0 {
				pad /= 2
			} else {
				nb /= 2
			}
		}
	}
	vi, bi := 0, 0
	nextID := func(band byte) string {
		if band == 'v' {
			vi++
			return fmt.Sprintf("s%dv%d", s.I, vi-1)
		}
		bi++
		return fmt.Sprintf("s%db%d", s.I, bi-1)
	}
	nseg := 0
	addList := func(ids []string) string {
		name := fmt.Sprintf("l%d_%d", s.I, nseg)
		nseg++
		p.lists[name] = ids
		return name
	}
	for vi < nv || bi < nb {
		remV, remB := nv-vi, nb-bi
		k := r.Intn(10)
		switch {
		case k < 5: // mixed loop
			n := 1 + r.Intn(remV+remB)
			var ids []string
			for j := 0; j < n; j++ {
				rv, rb := nv-vi, nb-bi
				if rv+rb == 0 {
					break
				}
				if r.Intn(rv+rb) < rv {
					ids = append(ids, nextID('v'))
				} else {
					ids = append(ids, nextID('b'))
				}
			}
			s.Segs = append(s.Segs, seg{Kind: "loop", IDs: ids, Y: yieldChoice(r), Pad: pad, Name: addList(ids)})
		case k < 7 && remV > 0: // bulk values
			n := 1 + r.Intn(remV)
			var ids []string
			for j := 0; j < n; j++ {
				ids = append(ids, nextID('v'))
			}
			s.Segs = append(s.Segs, seg{Kind: "bulkv", IDs: ids, Name: addList(ids)})
		case k < 9 && remB > 0: // bulk lines
			n := 1 + r.Intn(remB)
			var ids []string
			for j := 0; j < n; j++ {
				ids = append(ids, nextID('b'))
			}
			kind := "bulkb"
			if r.Intn(2) == 0 {
				kind = "blob"
			}
			s.Segs = append(s.Segs, seg{Kind: kind, IDs: ids, Pad: pad, Name: addList(ids)})
		default:
			s.Segs = append(s.Segs, seg{Kind: "yield", Y: yieldChoice(r)})
		}
		if r.Intn(60) == 0 {
			s.Segs = append(s.Segs, seg{Kind: "throw"})
			break
		}
	}
	if r.Intn(12) == 0 && (len(s.Segs) == 0 || s.Segs[len(s.Segs)-1].Kind != "throw") {
		s.Segs = append(s.Segs, seg{Kind: "throw"})
	}
	s.maxV += vi
	s.maxLines += bi
	s.maxBytes += bi * (pad + 16)
	if pad+16 > s.maxLen {
		s.maxLen = pad + 16
	}
	if pad > 0 {
		p.pads[pad] = true
	}
	s.prodPad = pad
}

func genProgram(r *rand.Rand) *program {
	p := &program{lists: map[string][]string{}, pads: map[int]bool{}}
	p.Gmp = []int{1, 2, 4, 16}[r.Intn(4)]
	n := 2 + r.Intn(5) // 2..6 stages
	prev := &stage{}   // bounds of the previous stage's output
	for i := 0; i < n; i++ {
		s := &stage{I: i}
		last := i == n-1
		prevNative := i > 0 && p.Stages[i-1].Native != ""
		if i > 0 && r.Intn(6) == 0 {
			// a stage that redirects its own stdin away from the pipe
			s.Redir = []string{"file", "file", "dup", "closed"}[r.Intn(4)]
			for j, nl := 0, r.Intn(6); j < nl && s.Redir != "closed"; j++ {
				s.FileLines = append(s.FileLines, fmt.Sprintf("s%dv%d", i, 5000+j))
			}
			if r.Intn(2) == 0 {
				s.Native = []string{"nop", "count", "all", "take"}[r.Intn(4)]
				if s.Redir == "closed" {
					s.Native = "nop" // nothing can be read from a closed port
				}
				if s.Redir == "dup" {
					s.Redir = "file"
				}
				switch s.Native {
				case "count":
					s.maxV = 1
				case "all":
					s.maxV = len(s.FileLines)
				case "take":
					s.K = r.Intn(len(s.FileLines) + 2)
					s.maxV = s.K
				}
				s.maxLen = 8
			} else {
				s.Mode = []string{"ev", "w"}[r.Intn(2)]
				s.Reader = "none"
				if r.Intn(2) == 0 {
					genProducer(r, p, s, -1, -1, true)
				}
			}
			// make the writer in front of it exceed the channel buffer most of the time
			if pv := p.Stages[i-1]; pv.Native == "" && r.Intn(4) > 0 {
				var ids []string
				for j, nx := 0, 40+r.Intn(50); j < nx; j++ {
					ids = append(ids, fmt.Sprintf("s%dv%d", pv.I, 1000+j))
				}
				name := fmt.Sprintf("l%d_x", pv.I)
				p.lists[name] = ids
				pv.Segs = append([]seg{{Kind: "loop", IDs: ids, Y: yieldChoice(r), Name: name}}, pv.Segs...)
				pv.maxV += len(ids)
			}
			p.Stages = append(p.Stages, s)
			prev = s
			continue
		}
		if i > 0 && !prevNative && r.Intn(5) == 0 {
			// native builtin stage
			var opts []string
			opts = append(opts, "all", "all", "take", "to-lines", "only-values", "only-bytes", "count")
			if prev.maxV <= 24 {
				opts = append(opts, "from-lines", "from-lines")
			}
			s.Native = opts[r.Intn(len(opts))]
			switch s.Native {
			case "all":
				s.maxV, s.maxLen = prev.maxV+prev.maxLines, prev.maxLen
			case "take":
				s.K = r.Intn(prev.maxV + prev.maxLines + 3)
				s.maxV, s.maxLen = s.K, prev.maxLen
			case "to-lines":
				s.maxLines = prev.maxV + prev.maxLines
				s.maxLen = prev.maxLen
				s.maxBytes = s.maxLines * (prev.maxLen + 1)
			case "from-lines":
				s.maxV, s.maxLen = prev.maxLines, prev.maxLen
			case "only-values":
				s.maxV, s.maxLen = prev.maxV, prev.maxLen
			case "only-bytes":
				s.maxLines, s.maxBytes, s.maxLen = prev.maxLines, prev.maxBytes, prev.maxLen
			case "count":
				s.maxV, s.maxLen = 1, 8
			}
			p.Stages = append(p.Stages, s)
			prev = s
			continue
		}
		s.Mode = "ev"
		if r.Intn(2) == 0 {
			s.Mode = "w"
		}
		s.YR = yieldChoice(r)
		if i == 0 {
			s.Reader = "none"
		} else {
			opts := []string{"each", "each", "each", "each", "collect", "none"}
			if prev.maxBytes <= 16000 {
				opts = append(opts, "readn", "readn")
			}
			if prev.maxV <= 24 && prev.maxLen <= 200 {
				opts = append(opts, "readlines")
				if prev.maxBytes <= 16000 {
					opts = append(opts, "readboth")
				}
			}
			s.Reader = opts[r.Intn(len(opts))]
		}
		recvMax := prev.maxV + prev.maxLines
		switch s.Reader {
		case "each", "collect":
			s.Policy = []string{"v", "b", "keep", "keep", "sink"}[r.Intn(5)]
			if prevNative && p.Stages[i-1].Native == "count" && s.Policy == "keep" {
				s.Policy = "v" // count's output is a bare number, not an id with a band letter
			}
			if last && r.Intn(2) == 0 {
				s.Policy = "sink"
			}
			if r.Intn(8) == 0 && recvMax > 0 {
				s.ThrowAt = 1 + r.Intn(recvMax)
			}
			if s.Mode == "w" && r.Intn(3) == 0 {
				s.FPad = 20 + r.Intn(400)
			}
			ilen := prev.maxLen + 5
			switch s.Policy {
			case "v":
				s.maxV = recvMax
			case "b":
				s.maxLines = recvMax
			case "keep":
				// "keep" follows the band letter of the id, i.e. the band the last
				// INSTRUMENTED sender used; after a band-changing builtin (all,
				// to-lines, from-lines) that is not the arrival band, so either
				// band may carry everything
				s.maxV, s.maxLines = recvMax, recvMax
			}
			s.maxLen = ilen + s.FPad + 1
			s.maxBytes = s.maxLines * (s.maxLen + 1)
		case "readn":
			s.ReadV = r.Intn(6)
		case "readlines":
			s.ReadB = 1 + r.Intn(4)
		case "readboth":
			s.ReadV = r.Intn(4)
			s.ReadB = 1 + r.Intn(3)
		}
		// producer part: always for stage 0 and pure producers; sometimes after a reader
		if s.Reader == "none" || r.Intn(3) == 0 {
			if !(s.Reader == "none" && i > 0 && r.Intn(3) == 0) { // `nop`-like stage: reads nothing, writes nothing
				genProducer(r, p, s, -1, -1, true)
			}
		}
		p.Stages = append(p.Stages, s)
		prev = s
	}
	return p
}

func (p *program) text() string {
	var parts []string
	for _, s := range p.Stages {
		parts = append(parts, s.text())
	}
	return strings.Join(parts, " |\n")
}

func (s *stage) redirText() string {
	switch s.Redir {
	case "file":
		return fmt.Sprintf(" < $rfile%d", s.I)
	case "dup":
		return fmt.Sprintf(" 3< $rfile%d 0<&3", s.I)
	case "closed":
		return " 0<&-"
	}
	return ""
}

func (s *stage) text() string {
	if s.Native != "" {
		if s.Native == "take" {
			return fmt.Sprintf("take %d", s.K) + s.redirText()
		}
		return s.Native + s.redirText()
	}
	var b strings.Builder
	b.WriteString("{\n")
	I := s.I
	emit := func(ind string) {
		// body of a filter callback; $x is the received item
		fmt.Fprintf(&b, "%sv-recv %d $x\n", ind, I)
		if s.YR > 0 {
			fmt.Fprintf(&b, "%sv-yield %d\n", ind, s.YR)
		}
		if s.Policy == "sink" {
			return
		}
		if s.Mode == "w" {
			fmt.Fprintf(&b, "%sv-fw %d %s $x %d\n", ind, I, s.Policy, s.FPad)
			return
		}
		v := fmt.Sprintf("var y = s%dv/$x; v-try %d $y; put $y; v-ok %d $y", I, I, I)
		bb := fmt.Sprintf("var y = s%db/$x; v-try %d $y; echo $y; v-ok %d $y", I, I, I)
		switch s.Policy {
		case "v":
			fmt.Fprintf(&b, "%s%s\n", ind, v)
		case "b":
			fmt.Fprintf(&b, "%s%s\n", ind, bb)
		default:
			fmt.Fprintf(&b, "%sif (eq $x[2] v) { %s } else { %s }\n", ind, v, bb)
		}
	}
	if s.Redir == "file" || s.Redir == "dup" {
		// reads the file it redirected its stdin to
		fmt.Fprintf(&b, "  each {|x| v-recv %d $x }\n  v-eof %d\n", I, I)
	}
	switch s.Reader {
	case "each":
		b.WriteString("  each {|x|\n")
		emit("    ")
		fmt.Fprintf(&b, "  }\n  v-eof %d\n", I)
	case "collect":
		b.WriteString("  for x [(all)] {\n")
		emit("    ")
		fmt.Fprintf(&b, "  }\n  v-eof %d\n", I)
	case "readn":
		fmt.Fprintf(&b, "  v-readn %d %d\n", I, s.ReadV)
	case "readlines", "readboth":
		if s.Reader == "readboth" {
			fmt.Fprintf(&b, "  v-readn %d %d\n", I, s.ReadV)
		}
		// read-line returns an empty string at the end of input; our lines are never empty
		fmt.Fprintf(&b, "  for _ [(range %d)] { var l = (read-line); if (eq $l '') { v-eof %d; break }; v-recv %d $l }\n", s.ReadB, I, I)
	}
	for _, g := range s.Segs {
		switch g.Kind {
		case "yield":
			fmt.Fprintf(&b, "  v-yield %d\n", g.Y)
		case "throw":
			fmt.Fprintf(&b, "  v-throw %d; fail X%d\n", I, I)
		case "loop":
			y := ""
			if g.Y > 0 {
				y = fmt.Sprintf("; v-yield %d", g.Y)
			}
			if s.Mode == "w" {
				fmt.Fprintf(&b, "  for id $%s { v-w %d $id[2] $id %d%s }\n", g.Name, I, g.Pad, y)
			} else {
				pad := ""
				if g.Pad > 0 {
					pad = fmt.Sprintf("'#'$pad%d", g.Pad)
				}
				fmt.Fprintf(&b, "  for id $%s { v-try %d $id; if (eq $id[2] v) { put $id } else { echo $id%s }; v-ok %d $id%s }\n", g.Name, I, pad, I, y)
			}
		case "bulkv":
			fmt.Fprintf(&b, "  v-ev trybulk %d %s; put $@%s; v-ev okbulk %d %s\n", I, g.Name, g.Name, I, g.Name)
		case "bulkb":
			fmt.Fprintf(&b, "  v-ev trybulk %d %s; to-lines $%s; v-ev okbulk %d %s\n", I, g.Name, g.Name, I, g.Name)
		case "blob":
			fmt.Fprintf(&b, "  v-ev trybulk %d %s; print $%s-blob; v-ev okbulk %d %s\n", I, g.Name, g.Name, I, g.Name)
		}
	}
	b.WriteString("}" + s.redirText())
	return b.String()
}

// ---------------------------------------------------------------------------
// observation

type stageLog struct {
	tried  map[byte][]string // per band, in order
	status map[string]string // id -> "ok" | error text | "" (unknown)
	failed []string          // error texts of failed writes (w mode), or "?" for an ev-mode try without ok
	recv   []string
	eof    bool
	threw  bool
}

func buildLogs(p *program, events []sched.Event) map[int]*stageLog {
	logs := map[int]*stageLog{}
	for _, s := range p.Stages {
		logs[s.I] = &stageLog{tried: map[byte][]string{}, status: map[string]string{}}
	}
	pendingTry := map[int]string{}
	pendingBulk := map[int]string{}
	for _, e := range events {
		var i int
		if _, err := fmt.Sscan(e.Thread, &i); err != nil {
			continue
		}
		l := logs[i]
		if l == nil {
			continue
		}
		add := func(id string) {
			if len(id) > 2 {
				l.tried[id[2]] = append(l.tried[id[2]], id)
			}
		}
		switch e.Kind {
		case "try":
			add(e.Arg)
			pendingTry[i] = e.Arg
		case "ok":
			l.status[e.Arg] = "ok"
			delete(pendingTry, i)
		case "w":
			add(e.Arg)
			if e.Err == "" {
				l.status[e.Arg] = "ok"
			} else {
				l.status[e.Arg] = e.Err
				l.failed = append(l.failed, e.Err)
			}
		case "trybulk":
			for _, id := range p.lists[e.Arg] {
				add(id)
			}
			pendingBulk[i] = e.Arg
		case "okbulk":
			for _, id := range p.lists[e.Arg] {
				l.status[id] = "ok"
			}
			delete(pendingBulk, i)
		case "recv":
			l.recv = append(l.recv, e.Arg)
		case "eof":
			l.eof = true
		case "throw":
			l.threw = true
		}
	}
	for i := range pendingTry {
		logs[i].failed = append(logs[i].failed, "?")
	}
	for i := range pendingBulk {
		logs[i].failed = append(logs[i].failed, "?")
	}
	return logs
}

// reader is what the downstream end of a pair observed.
type reader struct {
	name       string
	bandKnown  bool
	v, b       []string // when bandKnown
	merged     []string // otherwise
	eofV, eofB bool     // a band-specific reader saw the end of that band
	complete   bool     // reads both bands to the end by construction
	eof        bool     // and got there
	early      bool     // may exit before the end of input by construction
}

var readerGoneText = errs.ReaderGone{}.Error()

type checker struct {
	c    *mon.Case
	p    *program
	code string
	ok   bool
	wit  map[string]any
}

func (k *checker) fail(sig, what string) {
	k.ok = false
	k.c.Violation(sig, what, k.wit)
}

// checkPair checks writer stage a (log la), optional native n, reader rd.
func (k *checker) checkPair(a *stage, la *stageLog, n *stage, rd *reader) {
	pair := fmt.Sprintf("stage %d -> %s", a.I, rd.name)
	nat := ""
	if n != nil {
		nat = n.Native
		pair = fmt.Sprintf("stage %d -> %s -> %s", a.I, nat, rd.name)
	}
	// which origin band arrives on which band
	mapBand := func(o byte) byte {
		switch nat {
		case "":
			return o
		case "all", "take":
			return 'v'
		case "to-lines":
			return 'b'
		case "from-lines":
			if o == 'b' {
				return 'v'
			}
			return 0
		case "only-values":
			if o == 'v' {
				return 'v'
			}
			return 0
		case "only-bytes":
			if o == 'b' {
				return 'b'
			}
			return 0
		}
		return 0
	}
	if a.Native == "count" && a.Redir != "" {
		// `count < file` writes the number of lines of the file
		got := rd.merged
		if rd.bandKnown {
			got = append(append([]string{}, rd.v...), rd.b...)
		}
		want := fmt.Sprint(len(a.FileLines))
		if n != nil {
			// passed through another builtin: only the simplest are decided
			if n.Native != "all" && n.Native != "only-values" {
				return
			}
		}
		if len(got) > 1 || (len(got) == 1 && got[0] != want) || (len(got) == 0 && rd.complete && rd.eof) {
			k.fail("redir:count", fmt.Sprintf("%s: `count < file` with %s lines, the reader received %v", pair, want, got))
		}
		return
	}
	if nat == "count" {
		total := len(la.tried['v']) + len(la.tried['b'])
		var got []string
		if rd.bandKnown {
			got = rd.v
			if len(rd.b) > 0 {
				k.fail("count:bytes", pair+": count wrote byte output "+mon.Q(strings.Join(rd.b, ",")))
			}
		} else {
			got = rd.merged
		}
		if len(got) > 1 || (len(got) == 1 && got[0] != fmt.Sprint(total)) || (len(got) == 0 && rd.complete && rd.eof) {
			k.fail("count:wrong", fmt.Sprintf("%s: previous stage wrote %d items, count's reader received %v", pair, total, got))
		}
		k.checkWriterErrors(a, la, n, rd, pair)
		return
	}
	sub := map[byte][]string{}
	seen := map[string]bool{}
	handle := func(id string, arrival byte) {
		if len(id) < 3 || id[0] != 's' || int(id[1]-'0') != a.I {
			k.fail("recv:foreign", pair+": received item "+mon.Q(id)+" that the previous stage never wrote")
			return
		}
		o := id[2]
		m := mapBand(o)
		if m == 0 {
			k.fail("recv:wrong-band", pair+": item "+mon.Q(id)+" of a band that must not pass arrived")
			return
		}
		if arrival != 0 && arrival != m {
			k.fail("recv:wrong-band", fmt.Sprintf("%s: item %s arrived on band %c, expected %c", pair, mon.Q(id), arrival, m))
			return
		}
		if seen[id] {
			k.fail("recv:duplicate", pair+": item "+mon.Q(id)+" was received twice")
			return
		}
		seen[id] = true
		sub[o] = append(sub[o], id)
	}
	if rd.bandKnown {
		for _, id := range rd.v {
			handle(id, 'v')
		}
		for _, id := range rd.b {
			handle(id, 'b')
		}
		// the order across rd.v and rd.b is unknown, but when both origin bands
		// map to the same arrival band the order inside that band was kept above
	} else {
		for _, id := range rd.merged {
			handle(id, 0)
		}
	}
	if !k.ok {
		return
	}
	for _, o := range []byte{'v', 'b'} {
		t := la.tried[o]
		got := sub[o]
		if len(got) > len(t) {
			k.fail("recv:more-than-written", fmt.Sprintf("%s: band %c: %d items received, %d written", pair, o, len(got), len(t)))
			return
		}
		for j := range got {
			if got[j] != t[j] {
				sig := "recv:out-of-order"
				if !contains(t, got[j]) {
					sig = "recv:foreign"
				} else if !contains(got, t[j]) {
					sig = "recv:lost-in-the-middle"
				}
				k.fail(sig, fmt.Sprintf("%s: band %c: item #%d received is %s, but the writer's item #%d is %s (received must be a prefix of written)", pair, o, j, mon.Q(got[j]), j, mon.Q(t[j])))
				return
			}
		}
		// values that were received must have been written successfully
		if o == 'v' {
			for _, id := range got {
				if st := la.status[id]; st != "" && st != "ok" {
					k.fail("recv:delivered-but-write-failed", fmt.Sprintf("%s: value %s was received although its Put returned %q", pair, mon.Q(id), st))
					return
				}
			}
		}
	}
	// completeness
	for _, o := range []byte{'v', 'b'} {
		m := mapBand(o)
		if nat != "take" && ((m == 'v' && rd.eofV) || (m == 'b' && rd.eofB)) && len(sub[o]) != len(la.tried[o]) {
			k.fail("recv:lost-at-end", fmt.Sprintf("%s: band %c: the reader saw the end of the band after only %d of the %d items written", pair, o, len(sub[o]), len(la.tried[o])))
			return
		}
	}
	if rd.complete && rd.eof {
		switch nat {
		case "take":
			total := len(la.tried['v']) + len(la.tried['b'])
			want := n.K
			if total < want {
				want = total
			}
			if got := len(sub['v']) + len(sub['b']); got != want {
				k.fail("take:count", fmt.Sprintf("%s: %d items written, take %d passed %d", pair, total, n.K, got))
			}
		default:
			for _, o := range []byte{'v', 'b'} {
				if mapBand(o) == 0 {
					continue
				}
				if len(sub[o]) != len(la.tried[o]) {
					k.fail("recv:lost-at-end", fmt.Sprintf("%s: band %c: the reader read to the end but saw only %d of the %d items written (first missing: %s)",
						pair, o, len(sub[o]), len(la.tried[o]), mon.Q(la.tried[o][len(sub[o])])))
					return
				}
			}
		}
	}
	k.checkWriterErrors(a, la, n, rd, pair)
}

// checkWriterErrors: a failed write is legal only as "reader gone", and only
// when the reading side can really have exited early.
func (k *checker) checkWriterErrors(a *stage, la *stageLog, n *stage, rd *reader, pair string) {
	if len(la.failed) == 0 {
		return
	}
	k.c.Count("writers_that_saw_reader_gone", 1)
	for _, f := range la.failed {
		if f != "?" && f != readerGoneText {
			k.fail("write:unexpected-error", fmt.Sprintf("%s: a write failed with %q", pair, f))
			return
		}
	}
	mayExitEarly := rd.early
	if n != nil {
		switch n.Native {
		case "from-lines", "only-values", "only-bytes":
			// these stop when their own output fails
		default:
			mayExitEarly = false // all/take/to-lines/count consume their whole input
		}
	}
	if !mayExitEarly {
		k.fail("write:failed-though-reader-reads-to-end", pair+": a write failed although the reader consumes its whole input")
	}
}

func contains(ss []string, s string) bool {
	for _, x := range ss {
		if x == s {
			return true
		}
	}
	return false
}

// ---------------------------------------------------------------------------

func runPipeline(c *mon.Case) {
	p := genProgram(c.Rand)
	code := p.text()
	old := runtime.GOMAXPROCS(p.Gmp)
	defer runtime.GOMAXPROCS(old)
	reps := 2
	for rep := 0; rep < reps; rep++ {
		if rep == 1 {
			// second run of the same program under another GOMAXPROCS
			g := []int{1, 2, 4, 16}[c.Rand.Intn(4)]
			runtime.GOMAXPROCS(g)
			c.Evals(1)
		}
		if !runOnce(c, p, code) {
			return
		}
	}
}

func runOnce(c *mon.Case, p *program, code string) bool {
	ev := eval.NewEvaler()
	rec := sched.NewRec(nil)
	sched.Install(ev, rec)
	for name, ids := range p.lists {
		elv.SetVar(ev, name, vals.MakeListSlice(ids))
	}
	// blobs and paddings
	for _, s := range p.Stages {
		for _, g := range s.Segs {
			if g.Kind == "blob" {
				var sb strings.Builder
				for _, id := range g.IDs {
					sb.WriteString(id)
					if g.Pad > 0 {
						sb.WriteString("#" + strings.Repeat("x", g.Pad))
					}
					sb.WriteByte('\n')
				}
				elv.SetVar(ev, g.Name+"-blob", sb.String())
			}
		}
		if s.ThrowAt > 0 {
			rec.ThrowAt[fmt.Sprint(s.I)] = s.ThrowAt
		}
	}
	for pad := range p.pads {
		elv.SetVar(ev, fmt.Sprintf("pad%d", pad), strings.Repeat("x", pad))
	}
	for _, s := range p.Stages {
		if s.Redir == "file" || s.Redir == "dup" {
			path := filepath.Join(c.Dir, fmt.Sprintf("c18-stdin-%d-%d.txt", c.I, s.I))
			content := ""
			for _, l := range s.FileLines {
				content += l + "\n"
			}
			if err := os.WriteFile(path, []byte(content), 0o644); err != nil {
				c.Inconclusive("cannot-write-scratch-file")
				return false
			}
			defer os.Remove(path)
			elv.SetVar(ev, fmt.Sprintf("rfile%d", s.I), path)
		}
	}
	var res elv.Result
	baseline := sched.Baseline()
	out := sched.RunP(func() { res = elv.Eval(ev, code) }, baseline, 3*time.Second, 90*time.Second, rec.N)
	wit := map[string]any{"program": code, "model": p}
	if out.Deadlock != nil {
		c.Violation("deadlock:"+out.Deadlock.Sig(), "the pipeline can never finish: every goroutine of the evaluation is blocked ("+out.Deadlock.Sig()+")",
			map[string]any{"program": code, "model": p, "goroutines": out.Deadlock.Dump})
		return false
	}
	if out.Undecided {
		c.Inconclusive("evaluation-did-not-finish-but-not-all-blocked")
		return false
	}
	events := rec.Events()
	c.Count("events", len(events))
	c.Distinct("interleavings", len(p.Stages), sched.Projection(events))
	logs := buildLogs(p, events)
	k := &checker{c: c, p: p, code: code, ok: true, wit: wit}
	if res.Err != nil {
		wit["error"] = res.Err.Error()
	}

	// endpoints: instrumented stages, then the capture sink
	var prevInst *stage
	var pendingNative *stage
	for _, s := range p.Stages {
		if s.Native != "" && s.Redir == "" {
			pendingNative = s
			continue
		}
		if s.Redir != "" {
			c.Count("stages_with_own_stdin_redirection", 1)
			// (on the unchanged tree the writer usually notices the reader's exit
			// long before it has tried 33 values, so this is counted statically)
			if prevInst.Native == "" && prevInst.maxV > 32 {
				c.Count("stdin_redirections_after_writer_beyond_channel_buffer", 1)
			}
		}
		if s.Native != "" {
			// a builtin with its own stdin: it reads nothing from the pipe, and
			// what it writes is determined by the file
			rd := &reader{name: fmt.Sprintf("stage %d (%s%s)", s.I, s.Native, s.redirText()), bandKnown: true, early: true}
			k.checkPair(prevInst, logs[prevInst.I], pendingNative, rd)
			c.Count("early_exit_readers", 1)
			if len(logs[prevInst.I].failed) > 0 {
				c.Count("early_exits_noticed_by_writer", 1)
			}
			l := logs[s.I]
			switch s.Native {
			case "all":
				l.tried['v'] = s.FileLines
			case "take":
				n := s.K
				if n > len(s.FileLines) {
					n = len(s.FileLines)
				}
				l.tried['v'] = s.FileLines[:n]
			}
			prevInst, pendingNative = s, nil
			continue
		}
		if prevInst != nil {
			l := logs[s.I]
			rd := &reader{name: fmt.Sprintf("stage %d (%s)", s.I, s.Reader), complete: s.complete(), eof: l.eof && !l.threw, early: s.early()}
			switch s.Reader {
			case "readn":
				rd.bandKnown, rd.v, rd.eofV = true, l.recv, l.eof
			case "readlines":
				rd.bandKnown, rd.b, rd.eofB = true, l.recv, l.eof
			case "none":
				rd.bandKnown = true
				if s.Redir == "file" || s.Redir == "dup" {
					// it read its file instead: exactly the file's lines
					if strings.Join(l.recv, ",") != strings.Join(s.FileLines, ",") || !l.eof {
						k.fail("redir:file-content", fmt.Sprintf("stage %d redirected its stdin to a file with lines %v but read %v (eof=%v)", s.I, s.FileLines, l.recv, l.eof))
					}
				} else if len(l.recv) > 0 {
					k.fail("recv:by-non-reader", "a stage that does not read recorded a receive")
				}
			default:
				rd.merged = l.recv
			}
			if s.Reader == "readboth" {
				// values first (v-readn), then lines
				rd.bandKnown = false
			}
			k.checkPair(prevInst, logs[prevInst.I], pendingNative, rd)
			if rd.early {
				c.Count("early_exit_readers", 1)
				if len(logs[prevInst.I].failed) > 0 {
					c.Count("early_exits_noticed_by_writer", 1)
				}
			}
			if rd.complete && rd.eof {
				c.Count("complete_reads", 1)
			}
		}
		prevInst, pendingNative = s, nil
	}
	// the captured output of the whole pipeline
	{
		rd := &reader{name: "captured output", bandKnown: true, complete: true, eof: true}
		for _, v := range res.Values {
			rd.v = append(rd.v, sched.StripPad(vals.ToString(v)))
		}
		bs := string(res.Bytes)
		if bs != "" {
			if !strings.HasSuffix(bs, "\n") {
				k.fail("capture:torn", "captured bytes do not end in a newline")
			}
			for _, l := range strings.Split(strings.TrimSuffix(bs, "\n"), "\n") {
				rd.b = append(rd.b, sched.StripPad(l))
			}
		}
		k.checkPair(prevInst, logs[prevInst.I], pendingNative, rd)
	}

	// exceptions
	var throwers []int
	for _, s := range p.Stages {
		if s.Native == "" && logs[s.I].threw {
			throwers = append(throwers, s.I)
		}
	}
	leaves := sched.Leaves(res.Err)
	got := map[string]string{}
	describe := func(e error) string {
		switch e := e.(type) {
		case sched.Thrown:
			return "X" + e.Stage
		case eval.FailError:
			return vals.ToString(e.Content)
		case errs.ReaderGone:
			return "READER-GONE"
		}
		return fmt.Sprintf("%T:%s", e, e.Error())
	}
	for _, l := range leaves {
		got[l.Path] = describe(l.Err)
		if _, isRG := l.Err.(errs.ReaderGone); isRG {
			k.fail("exception:reader-gone-reported", "the pipeline's exception contains 'reader gone' (at "+mon.Q(l.Path)+")")
		}
	}
	want := map[string]string{}
	switch len(throwers) {
	case 0:
	case 1:
		want[""] = fmt.Sprintf("X%d", throwers[0])
	default:
		for _, i := range throwers {
			want[fmt.Sprintf("p%d", i)] = fmt.Sprintf("X%d", i)
		}
	}
	if k.ok && fmt.Sprint(want) != fmt.Sprint(got) {
		sig := "exception:wrong"
		switch {
		case len(got) < len(want):
			sig = "exception:lost"
		case len(got) > len(want):
			sig = "exception:spurious"
		}
		k.fail(sig, fmt.Sprintf("stages that threw: %v (expected exception %v), pipeline reported %v", throwers, want, got))
	}
	if len(throwers) > 1 {
		if pe, isPE := elv.Reason(res.Err).(eval.PipelineError); isPE && len(pe.Errors) != len(p.Stages) {
			k.fail("exception:composite-length", fmt.Sprintf("composite exception has %d entries for %d stages", len(pe.Errors), len(p.Stages)))
		}
		c.Count("pipelines_with_several_exceptions", 1)
	}
	if len(throwers) > 0 {
		c.Count("pipelines_with_exception", 1)
	}
	if !k.ok {
		return false
	}
	// evidence
	items := 0
	big, bigBytes := false, false
	for _, s := range p.Stages {
		if s.Native != "" {
			c.Count("native_stage_"+s.Native, 1)
			continue
		}
		l := logs[s.I]
		items += len(l.recv)
		if len(l.tried['v']) > 32 {
			big = true
		}
		written := 0
		for _, id := range l.tried['b'] {
			written += len(id) + 2
			if strings.Count(id, "/") == 0 {
				written += s.prodPad
			} else {
				written += s.FPad
			}
		}
		if written > 65536 {
			bigBytes = true
		}
		if s.prodPad > 4050 && len(l.tried['b']) > 0 {
			c.Count("stages_writing_lines_over_4k", 1)
		}
	}
	c.Count("items_received", items)
	if big {
		c.Count("pipelines_beyond_channel_buffer", 1)
	}
	if bigBytes {
		c.Count("pipelines_beyond_pipe_buffer", 1)
	}
	if items > 0 {
		c.Nontrivial(code)
	}
	c.Sample(fmt.Sprintf("pipeline-%d-stages", len(p.Stages)), map[string]any{"program": code, "gomaxprocs": p.Gmp, "events": len(events)})
	return true
}

func Spec() *mon.Spec {
	return &mon.Spec{
		ID: "C18", Level: "exploration", Race: true,
		Rule: "case = random pipeline of 2..6 stages, run twice (GOMAXPROCS from {1,2,4,16}) on fresh interpreters under the race detector. Instrumented stages are Elvish lambdas: producers (0..300 values and 0..300 byte lines with unique ids, written one by one with put/echo or through the Frame API, or in bulk with put $@l / to-lines / one big print; padding up to 4 KB per line so that totals exceed the 32-slot channel and the 64 KiB pipe), filters (each / for x [(all)]) that record every item and re-emit it under their own id on the value band, the byte band or the band it came on, early-exit readers (read k values straight from the channel, read k lines with read-line, or read nothing), stages at positions 2..n that redirect their OWN stdin (`< file`, `3< file 0<&3`, `0<&-`; instrumented lambdas and the builtins nop/count/all/take) placed after writers that exceed the channel buffer, throwers (fail after k items / at the end); native stages all, take k, to-lines, from-lines, only-values, only-bytes, count sit between instrumented ones. PRNG-chosen v-yield calls (Gosched / microsecond sleeps) between operations. Every read/write is an event on one logical clock. Non-trivial = pipeline in which at least one item was received by an instrumented stage; distinct by program text.",
		Assumptions: []string{
			"a program-level deadlock is not a violation and is not generated: a reader that waits for the end of ONE band while never reading the other (from-lines, read-line loops, value-only readers) is only placed after a stage that can write at most 24 values / 16 KB to the unread band",
			"the relative order of the value band and the byte band is not constrained (each merges them); only the per-band order is",
			"for byte lines only delivery order/exactly-once is checked, not that a failed write delivered nothing (a large write may be partially delivered)",
			"a deadlock verdict is taken inside the case when the evaluation has not returned and every goroutine in pkg/eval code is blocked on a channel/semaphore/pipe in four consecutive censuses one second apart with identical stacks and no new harness event in between (the programs contain no timers)",
		},
		Phases: []mon.Phase{
			{Name: "pipelines", Quick: 240, Thorough: 3000, Run: runPipeline, GoMaxProcs: 16, Timeout: 150 * time.Second},
		},
		HangViolation: true,
		Floors: map[string]int{"stages_writing_lines_over_4k": 5, "distinct_nontrivial": 60, "complete_reads": 100, "early_exit_readers": 80, "early_exits_noticed_by_writer": 30,
			"items_received": 5000, "pipelines_beyond_channel_buffer": 35, "pipelines_beyond_pipe_buffer": 2, "pipelines_with_exception": 35,
			"pipelines_with_several_exceptions": 5, "interleavings": 80,
			"stages_with_own_stdin_redirection": 60, "stdin_redirections_after_writer_beyond_channel_buffer": 20},
	}
}
