package c37

import (
	"fmt"
	"math/rand"
	"strings"
)

// span is the byte range the generator knows for an emitted node. The end is
// a tolerance interval: Elvish form nodes swallow trailing inline whitespace
// and a trailing comment, which no document fixes, so any end between the
// last byte of the last argument and the statement terminator is accepted.
type span struct {
	Src          int // 0 = main program, 1 = the eval'd code
	From         int
	ToMin, ToMax int
	What         string
}

// prog prints a multi-line Elvish program and tracks byte offsets.
type prog struct {
	r   *rand.Rand
	sb  strings.Builder
	src int // id of the source being printed
	uid *int
	// open spans whose ToMax is fixed when the next terminator is written
	pending []*span
	// > 0 while printing inside a single-line block (no comments, no newline terminators)
	inlineDepth int
}

func (p *prog) pos() int       { return p.sb.Len() }
func (p *prog) w(s string)     { p.sb.WriteString(s) }
func (p *prog) pick(n int) int { return p.r.Intn(n) }
func (p *prog) id() int        { *p.uid++; return *p.uid }

var indents = []string{"", "", "  ", "\t", "    ", " \t"}

func (p *prog) indent(depth int) string {
	s := ""
	for i := 0; i < depth; i++ {
		s += indents[1+p.pick(len(indents)-1)]
	}
	if depth == 0 && p.pick(4) == 0 {
		s = indents[p.pick(len(indents))]
	}
	return s
}

var words = []string{"a", "bc", "好", "世界x", "é", "😀", "'q s'", "'好 ;'", `"d\tq"`, "1", "0x10", "a/b", "x=y", "~", "[]", "[k v]", "[&k=v]", "{ }", "$nil", "$true", "(put x)", "x'y'z"}

func (p *prog) word() string { return words[p.pick(len(words))] }

// trailing writes optional inline whitespace and (when allowed) a comment,
// then the statement terminator. It closes all pending spans.
func (p *prog) terminate(inline bool) {
	ws := true
	switch p.pick(5) {
	case 0:
		p.w(" ")
	case 1:
		p.w(" \t ")
	default:
		ws = false
	}
	var term string
	switch {
	case inline:
		term = []string{"; ", ";", ";\t"}[p.pick(3)]
	case p.pick(6) == 0:
		// a comment starts only at the beginning of a token and runs to the end of the line
		if !ws {
			p.w(" ")
		}
		p.w([]string{"# c", "# 好 ; } )", "#", "#\t'"}[p.pick(4)])
		term = []string{"\n", "\r\n", "\n\n"}[p.pick(3)]
	default:
		term = []string{"\n", "\n", "\n", "\r\n", "\n\n", ";\n", "; ", "\n \n", "\n\r\n"}[p.pick(9)]
	}
	p.closeAt(term)
	p.w(term)
}

// closeAt fixes ToMax of the pending spans just before terminator term.
func (p *prog) closeAt(term string) {
	max := p.pos()
	if strings.HasPrefix(term, "\r") {
		max++ // a CR before the LF may be taken as trailing whitespace or comment text
	}
	for _, s := range p.pending {
		s.ToMax = max
	}
	p.pending = nil
}

// filler writes one harmless statement (without terminator). It reports
// whether the statement must be terminated by a newline (comments, blanks).
func (p *prog) filler(ind string) (needNL bool) {
	switch p.pick(13) {
	case 0:
		p.w("nop")
	case 1, 2:
		p.w("nop")
		for i, n := 0, 1+p.pick(3); i < n; i++ {
			p.w(" " + p.word())
		}
	case 3:
		p.w(fmt.Sprintf("var v%d = %s", p.id(), p.word()))
	case 4:
		p.w("nop a ^\n" + ind + "  b")
	case 5:
		p.w("nop [a\n" + ind + " 好 b\n" + ind + "]")
	case 6:
		p.w("nop 'x\n好y'")
	case 7:
		p.w("if $true { nop } else { nop }")
	case 8:
		p.w("put a 好 | each {|x| nop $x }")
	case 9:
		p.w("# comment 好 ; } ) '")
		return true
	case 10:
		return true // blank
	case 11:
		p.w("nop [&k=[\n" + ind + "  v]]")
	case 12:
		p.w("nop (put 好\n" + ind + ")")
	}
	return false
}

func (p *prog) fillers(depth, max int) {
	for i, n := 0, p.pick(max+1); i < n; i++ {
		p.w(p.indent(depth))
		if p.filler("") {
			p.closeAt("\n")
			p.w([]string{"\n", "\r\n"}[p.pick(2)])
		} else {
			p.terminate(false)
		}
	}
}

// failForm writes a `fail` command form and returns its span (pending).
func (p *prog) failForm(ind string) *span {
	s := &span{Src: p.src, From: p.pos(), What: "fail form"}
	p.w("fail")
	switch p.pick(9) {
	case 0, 1:
		p.w(" bad")
	case 2:
		p.w(" '好 x'")
	case 3:
		p.w(" 'a\n好b'")
	case 4:
		p.w(" [x\n" + ind + " y]")
	case 5:
		p.w(" ^\n" + ind + "  b")
	case 6:
		p.w("\t(put x)")
	case 7:
		p.w(" \"t\\tq\"")
	case 8:
		p.w("  [&k=\n" + ind + "v]")
	}
	s.ToMin = p.pos()
	p.pending = append(p.pending, s)
	return s
}

// wrap emits inner() inside 0..2 enclosing constructs. Constructs that call
// a function add a traceback entry; their spans are appended to chain
// (innermost first).
func (p *prog) wrap(depth int, chain *[]*span, inner func(depth int)) {
	if depth >= 3 || p.pick(3) == 0 {
		inner(depth)
		return
	}
	ind := p.indent(depth)
	p.w(ind)
	start := p.pos()
	kind := p.pick(8)
	multi := p.pick(4) != 0
	open := func(s string) {
		p.w(s)
		if multi {
			p.w([]string{"\n", "\r\n", " # c\n"}[p.pick(3)])
			p.fillers(depth+1, 2)
		} else {
			p.w(" ")
		}
	}
	body := func() {
		if multi {
			p.wrap(depth+1, chain, inner)
			p.fillers(depth+1, 1)
			p.w(p.indent(depth))
		} else {
			// single-line body: inner writes a statement and terminates it
			p.inlineDepth++
			inner(depth + 1)
			p.inlineDepth--
		}
	}
	var call *span
	switch kind {
	case 0:
		open("if $true {")
		body()
		p.w("}")
	case 1:
		open("{")
		body()
		p.w("}")
		call = &span{Src: p.src, From: start, What: "lambda call form"}
	case 2:
		open("try {")
		body()
		p.w("} finally { nop }")
	case 3:
		open("for x [a] {")
		body()
		p.w("}")
	case 4:
		open("each {|x|")
		body()
		p.w("} [好]")
		call = &span{Src: p.src, From: start, What: "each call form"}
	case 5:
		open("while $true {")
		body()
		p.w("break }") // never loops, whatever the body does
	case 6:
		open("nop (")
		body()
		p.w(")")
	case 7:
		open("if $false { nop } else {")
		body()
		p.w("}")
	}
	if call != nil {
		call.ToMin = p.pos()
		p.pending = append(p.pending, call)
		*chain = append(*chain, call)
	}
	p.terminate(p.inlineDepth > 0)
}
