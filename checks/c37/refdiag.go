package c37

import (
	"strconv"
)

// refCtx is the reference reading of the diag.Context doc comments for one
// (source, [from,to)) pair. Everything is computed with plain byte loops.
type refCtx struct {
	startLine, startCol int
	endLine, endCol     int
	// alternative end position, accepted when the last byte of the (stripped)
	// range is itself a newline: the docs do not say whether a line terminator
	// is the last column of its line or column 0 of the next one.
	altEndLine, altEndCol int
	hasAlt                bool
	head, body, tail      string
	stripped              bool // one trailing newline was not counted
	empty                 bool // empty after the adjustment
}

// position of byte offset o: 1-based line, 1-based byte column.
func refPos(src string, o int) (line, col int) {
	line, sol := 1, 0
	for i := 0; i < o; i++ {
		if src[i] == '\n' {
			line++
			sol = i + 1
		}
	}
	return line, 1 + o - sol
}

// start of the line containing offset o (offset o itself may be a newline,
// which belongs to the line it terminates).
func refSOL(src string, o int) int {
	for i := o - 1; i >= 0; i-- {
		if src[i] == '\n' {
			return i + 1
		}
	}
	return 0
}

// end of the line containing offset o: index of the first newline at or after o.
func refEOL(src string, o int) int {
	for i := o; i < len(src); i++ {
		if src[i] == '\n' {
			return i
		}
	}
	return len(src)
}

func refContext(src string, from, to int) refCtx {
	var m refCtx
	m.startLine, m.startCol = refPos(src, from)
	t := to
	if t > from && src[t-1] == '\n' {
		t--
		m.stripped = true
	}
	if t == from {
		m.empty = true
		m.endLine, m.endCol = m.startLine, m.startCol-1
	} else {
		m.endLine, m.endCol = refPos(src, t-1)
		if src[t-1] == '\n' {
			m.hasAlt = true
			m.altEndLine, m.altEndCol = m.endLine+1, 0
		}
	}
	m.body = src[from:t]
	m.head = src[refSOL(src, from):from]
	m.tail = src[t:refEOL(src, t)]
	return m
}

// refDescribe is the documented one-line description of a range:
// name:L:C-E for one line, name:L:C-L2:C2 for several, name:L:C for empty.
func refDescribe(name string, sl, sc, el, ec int) string {
	s := name + ":" + strconv.Itoa(sl) + ":" + strconv.Itoa(sc)
	if sl == el {
		if ec < sc {
			return s
		}
		return s + "-" + strconv.Itoa(ec)
	}
	return s + "-" + strconv.Itoa(el) + ":" + strconv.Itoa(ec)
}

// refShowPlain is the documented Show output without the underline markers.
func refShowPlain(desc string, multi bool, indent, head, body, tail string) string {
	if !multi {
		return desc + ": " + head + body + tail
	}
	ind := indent + "  "
	out := desc + ":\n" + ind + head
	for i := 0; i < len(body); i++ {
		if body[i] == '\n' {
			out += "\n" + ind
		} else {
			out += body[i : i+1]
		}
	}
	return out + tail
}

func stripAll(s string, subs ...string) string {
	for _, sub := range subs {
		if sub == "" {
			continue
		}
		var out []byte
		for i := 0; i < len(s); {
			if i+len(sub) <= len(s) && s[i:i+len(sub)] == sub {
				i += len(sub)
				continue
			}
			out = append(out, s[i])
			i++
		}
		s = string(out)
	}
	return s
}

func contains(s, sub string) bool {
	for i := 0; i+len(sub) <= len(s); i++ {
		if s[i:i+len(sub)] == sub {
			return true
		}
	}
	return false
}
