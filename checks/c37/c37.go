// Package c37 monitors diag.Context (line/column/head/body/tail of a range)
// against a reference written from its doc comments, both for arbitrary
// (source, range) pairs and for the contexts attached to real parse errors,
// compilation errors and exception stack traces (property C37).
package c37

import (
	"errors"
	"fmt"
	"math/rand"
	"os"
	"path/filepath"
	"sort"
	"strings"

	"src.elv.sh/pkg/diag"
	"src.elv.sh/pkg/eval"
	"src.elv.sh/pkg/parse"
	"verifharness/internal/elv"
	"verifharness/internal/gen"
	"verifharness/internal/mon"
)

// ---------------------------------------------------------------------------
// the oracle for one Context

type ctxWitness struct {
	Where  string `json:"where"`
	Source string `json:"source_quoted"`
	From   int    `json:"from"`
	To     int    `json:"to"`
	Got    string `json:"got"`
	Want   string `json:"want"`
}

// checkCtx compares every field of ctx with the reference for (src, ctx.Ranging).
// where is a short class prefix for signatures.
func checkCtx(c *mon.Case, where string, ctx *diag.Context, name, src string) bool {
	wit := func(got, want string) ctxWitness {
		return ctxWitness{where, mon.Q(src), ctx.From, ctx.To, got, want}
	}
	if ctx.From < 0 || ctx.To < ctx.From || ctx.To > len(src) {
		c.Violation(where+":range-out-of-bounds", fmt.Sprintf("context range [%d,%d) is not inside the %d-byte source", ctx.From, ctx.To, len(src)), wit("", ""))
		return false
	}
	if name != "" && ctx.Name != name {
		c.Violation(where+":name", fmt.Sprintf("context name %q, source name %q", ctx.Name, name), wit(ctx.Name, name))
		return false
	}
	m := refContext(src, ctx.From, ctx.To)
	ok := true
	if ctx.StartLine != m.startLine || ctx.StartCol != m.startCol {
		c.Violation(where+":start", fmt.Sprintf("start reported %d:%d, first byte of the range is at %d:%d", ctx.StartLine, ctx.StartCol, m.startLine, m.startCol),
			wit(fmt.Sprintf("%d:%d", ctx.StartLine, ctx.StartCol), fmt.Sprintf("%d:%d", m.startLine, m.startCol)))
		ok = false
	}
	endOK := ctx.EndLine == m.endLine && ctx.EndCol == m.endCol
	if !endOK && m.hasAlt && ctx.EndLine == m.altEndLine && ctx.EndCol == m.altEndCol {
		endOK = true
	}
	if m.hasAlt {
		c.Count("ctx_tolerated_last_byte_is_newline", 1)
	}
	if !endOK {
		kind := ":end"
		if m.empty {
			kind = ":end-empty"
		}
		c.Violation(where+kind, fmt.Sprintf("end reported %d:%d, last byte of the range (not counting one trailing newline) is at %d:%d", ctx.EndLine, ctx.EndCol, m.endLine, m.endCol),
			wit(fmt.Sprintf("%d:%d", ctx.EndLine, ctx.EndCol), fmt.Sprintf("%d:%d", m.endLine, m.endCol)))
		ok = false
	}
	if ctx.Body != m.body || ctx.Head != m.head || ctx.Tail != m.tail {
		kind := ":text"
		switch {
		case ctx.Body != m.body:
			kind = ":body"
		case ctx.Head != m.head:
			kind = ":head"
		case ctx.Tail != m.tail:
			kind = ":tail"
		}
		c.Violation(where+kind, fmt.Sprintf("head/body/tail = %q/%q/%q, the lines containing the range give %q/%q/%q", ctx.Head, ctx.Body, ctx.Tail, m.head, m.body, m.tail),
			wit(fmt.Sprintf("%q/%q/%q", ctx.Head, ctx.Body, ctx.Tail), fmt.Sprintf("%q/%q/%q", m.head, m.body, m.tail)))
		ok = false
	}
	if !ok {
		return false
	}
	// the textual form (Show): description of the range + the lines
	if !contains(src, "\x1b") && !contains(ctx.Name, "\x1b") {
		indent := []string{"", "  ", "\t"}[c.Rand.Intn(3)]
		desc := refDescribe(ctx.Name, ctx.StartLine, ctx.StartCol, ctx.EndLine, ctx.EndCol)
		want := refShowPlain(desc, ctx.StartLine != ctx.EndLine, indent, m.head, m.body, m.tail)
		got := stripAll(ctx.Show(indent), diag.ContextBodyStartMarker, diag.ContextBodyEndMarker)
		if got != want {
			kind := ":show"
			if len(got) < len(desc) || got[:len(desc)] != desc || (len(got) > len(desc) && got[len(desc)] != ':') {
				kind = ":describe"
			}
			c.Violation(where+kind, fmt.Sprintf("Show() without markers = %q, documented form %q", got, want), wit(got, want))
			return false
		}
	}
	// class counters
	switch {
	case m.empty && m.stripped:
		c.Count("ctx_only_newline", 1)
	case m.empty:
		c.Count("ctx_empty", 1)
	case m.stripped:
		c.Count("ctx_ends_after_newline", 1)
	}
	if m.endLine > m.startLine {
		c.Count("ctx_multi_line", 1)
	}
	if m.startLine > 1 {
		c.Count("ctx_not_first_line", 1)
	}
	for i := 0; i < len(m.head); i++ {
		if m.head[i] >= 0x80 {
			c.Count("ctx_multibyte_before_start", 1)
			break
		}
	}
	if ctx.From == len(src) {
		c.Count("ctx_at_eof", 1)
	}
	c.Count("contexts_checked", 1)
	return true
}

// ---------------------------------------------------------------------------
// phase (a): arbitrary sources and ranges through diag.NewContext

var linePieces = []string{"a", "bc", "x y", "好", "é", "😀", "世界", " ", "\t", "$x", "{", "}", "'", "#", "\xff", "́"}

func genSource(r *rand.Rand) string {
	nl := r.Intn(13)
	var sb strings.Builder
	crlf := r.Intn(5) == 0
	for i := 0; i < nl; i++ {
		if r.Intn(4) != 0 {
			for j, n := 0, r.Intn(5); j < n; j++ {
				sb.WriteString(linePieces[r.Intn(len(linePieces))])
			}
		}
		last := i == nl-1
		if last && r.Intn(2) == 0 {
			break // no trailing newline
		}
		if crlf && r.Intn(2) == 0 {
			sb.WriteByte('\r')
		}
		sb.WriteByte('\n')
	}
	if r.Intn(8) == 0 {
		sb.WriteString("\n")
	}
	return sb.String()
}

func runContexts(c *mon.Case) {
	r := c.Rand
	var src string
	if c.I%4 == 0 { // short sources, every range
		for {
			src = genSource(r)
			if len(src) <= c.Env.Pick(24, 40) {
				break
			}
		}
	} else {
		src = genSource(r)
	}
	name := []string{"[tty 1]", "a.elv", "/x/好.elv", "[eval 3]"}[r.Intn(4)]
	n := 0
	one := func(from, to int) bool {
		n++
		ctx := diag.NewContext(name, src, diag.Ranging{From: from, To: to})
		if ctx.From != from || ctx.To != to {
			c.Violation("ctx:ranging", "NewContext does not keep the range it was given", map[string]any{"src": mon.Q(src), "from": from, "to": to})
			return false
		}
		return checkCtx(c, "ctx", ctx, name, src)
	}
	L := len(src)
	if c.I%4 == 0 {
		c.Count("sources_all_ranges", 1)
	loop:
		for from := 0; from <= L; from++ {
			for to := from; to <= L; to++ {
				if !one(from, to) {
					break loop
				}
			}
		}
	} else {
		// offsets of interest: just before / after each newline, 0, L
		var marks []int
		marks = append(marks, 0, L)
		for i := 0; i < L; i++ {
			if src[i] == '\n' {
				marks = append(marks, i, i+1)
			}
		}
		pt := func() int {
			if r.Intn(2) == 0 {
				return marks[r.Intn(len(marks))]
			}
			return r.Intn(L + 1)
		}
		for k := 0; k < 250; k++ {
			a, b := pt(), pt()
			if a > b {
				a, b = b, a
			}
			if r.Intn(6) == 0 {
				b = a
			}
			if !one(a, b) {
				break
			}
		}
	}
	c.Evals(n)
	lines, mb := 1, false
	for i := 0; i < L; i++ {
		if src[i] == '\n' {
			lines++
		}
		if src[i] >= 0x80 {
			mb = true
		}
	}
	if lines >= 3 && mb {
		c.Nontrivial("ctx", src)
	}
	c.Sample("context-source", map[string]any{"source": mon.Q(src), "ranges_checked": n})
}

// ---------------------------------------------------------------------------
// phase (b): contexts of real errors

const srcName = "[verif]"

type program struct {
	Kind    string
	Src     string
	EvalSrc string
	evalVar string
	ModSrc  string  // source of a module file used by the program
	modName string  // its base name (without .elv)
	modPath string  // set when the file has been written
	Heads   []*span // pipeline of failing forms: expected innermost entry of each sub-exception
	Chain   []*span // exception: expected stack trace, innermost first; nil = not fixed
	Undef   []*span // compilation: the undefined variable tokens
	Stray   int     // parse: offset of a stray closer, or -1
	AtEOF   bool    // parse: an error at end of input is expected
}

func newProg(r *rand.Rand, src int, uid *int) *prog { return &prog{r: r, src: src, uid: uid} }

// statement writes indent + body() + terminator.
func (p *prog) statement(depth int, body func(ind string)) {
	ind := p.indent(depth)
	p.w(ind)
	body(ind)
	p.terminate(p.inlineDepth > 0)
}

var looseForms = []string{"put [a][3]", "+ a 1", "put $nil[x]", "var a b = 1", "nop (put x)[2]", "put [&k=v][好]", "nop 1 | + x", "{|a| nop } 1 2"}

func genException(r *rand.Rand) *program {
	uid := 0
	p := newProg(r, 0, &uid)
	pr := &program{Kind: "exception", Stray: -1}
	var chain []*span
	mode := r.Intn(20)
	switch {
	case mode < 9: // direct
		p.fillers(0, 4)
		p.wrap(0, &chain, func(depth int) {
			p.statement(depth, func(ind string) { chain = append(chain, p.failForm(ind)) })
		})
	case mode < 14: // through a named function defined earlier
		p.fillers(0, 2)
		name := fmt.Sprintf("f%d", p.id())
		p.w("fn " + name + " {|a|\n")
		p.fillers(1, 2)
		p.wrap(1, &chain, func(depth int) {
			p.statement(depth, func(ind string) { chain = append(chain, p.failForm(ind)) })
		})
		p.fillers(1, 1)
		p.w("}\n")
		p.fillers(0, 3)
		p.wrap(0, &chain, func(depth int) {
			p.statement(depth, func(ind string) {
				s := &span{Src: 0, From: p.pos(), What: "function call form"}
				p.w(name + " " + []string{"好", "a", "[x]", "'q s'", "$nil"}[r.Intn(5)])
				s.ToMin = p.pos()
				p.pending = append(p.pending, s)
				chain = append(chain, s)
			})
		})
	case mode < 18: // through eval of a second source
		q := newProg(r, 1, &uid)
		q.fillers(0, 3)
		q.wrap(0, &chain, func(depth int) {
			q.statement(depth, func(ind string) { chain = append(chain, q.failForm(ind)) })
		})
		q.fillers(0, 2)
		pr.EvalSrc = q.sb.String()
		pr.evalVar = fmt.Sprintf("code%d", p.id())
		p.fillers(0, 3)
		p.wrap(0, &chain, func(depth int) {
			p.statement(depth, func(ind string) {
				s := &span{Src: 0, From: p.pos(), What: "eval call form"}
				p.w("eval $" + pr.evalVar)
				s.ToMin = p.pos()
				p.pending = append(p.pending, s)
				chain = append(chain, s)
			})
		})
	case mode == 18: // through a function of a module file (another named source)
		q := newProg(r, 2, &uid)
		q.fillers(0, 2)
		q.w("fn f {|a|\n")
		q.fillers(1, 2)
		q.wrap(1, &chain, func(depth int) {
			q.statement(depth, func(ind string) { chain = append(chain, q.failForm(ind)) })
		})
		q.w("}\n")
		q.fillers(0, 2)
		pr.ModSrc = q.sb.String()
		pr.modName = fmt.Sprintf("m%d", p.id())
		p.fillers(0, 2)
		p.w("use " + pr.modName + "\n")
		p.fillers(0, 2)
		p.wrap(0, &chain, func(depth int) {
			p.statement(depth, func(ind string) {
				s := &span{Src: 0, From: p.pos(), What: "module function call form"}
				p.w(pr.modName + ":f 好")
				s.ToMin = p.pos()
				p.pending = append(p.pending, s)
				chain = append(chain, s)
			})
		})
	case mode == 19 && r.Intn(2) == 0: // several failing forms in one pipeline
		pr.Kind = "exception-pipeline"
		p.fillers(0, 3)
		var dummy []*span
		p.wrap(0, &dummy, func(depth int) {
			p.statement(depth, func(ind string) {
				for k, n := 0, 2+r.Intn(2); k < n; k++ {
					if k > 0 {
						p.w([]string{"", " ", " \t"}[r.Intn(3)])
						p.closeAt("|")
						p.w([]string{"| ", "|\n" + ind + "  ", "|"}[r.Intn(3)])
					}
					pr.Heads = append(pr.Heads, p.failForm(ind))
				}
			})
		})
		chain = nil
	default: // failing expression whose exact range no document fixes
		pr.Kind = "exception-loose"
		p.fillers(0, 3)
		var dummy []*span
		p.wrap(0, &dummy, func(depth int) {
			p.statement(depth, func(ind string) { p.w(looseForms[r.Intn(len(looseForms))]) })
		})
		chain = nil
	}
	p.fillers(0, 3)
	pr.Src = p.sb.String()
	pr.Chain = chain
	trimEnd(r, pr)
	return pr
}

// trimEnd sometimes removes the final line terminator so that sources ending
// without a newline are covered too.
func trimEnd(r *rand.Rand, pr *program) {
	if r.Intn(3) != 0 {
		return
	}
	s := pr.Src
	for len(s) > 0 && (s[len(s)-1] == '\n' || s[len(s)-1] == '\r') {
		s = s[:len(s)-1]
	}
	pr.Src = s
	for _, sp := range pr.Chain {
		if sp.Src == 0 && sp.ToMax > len(s) {
			sp.ToMax = len(s)
		}
	}
}

var undefUses = []struct{ pre, post string }{
	{"nop ", ""}, {"nop a ", " b"}, {"nop x", ""}, {"nop [a\n ", "]"}, {"put ", "[0]"}, {"nop {|| nop ", " }"},
	{"var w = ", ""}, {"nop (nop ", ")"}, {"nop [&k=", "]"}, {"nop 好", "'好'"}, {"nop ^\n ", ""}, {"if ", " { }"},
}

func genCompile(r *rand.Rand) *program {
	uid := 0
	p := newProg(r, 0, &uid)
	pr := &program{Kind: "compile", Stray: -1}
	p.fillers(0, 3)
	for k, n := 0, 1+r.Intn(4); k < n; k++ {
		var dummy []*span
		p.wrap(0, &dummy, func(depth int) {
			p.statement(depth, func(ind string) {
				u := undefUses[r.Intn(len(undefUses))]
				p.w(u.pre)
				s := &span{From: p.pos(), What: "undefined variable"}
				p.w(fmt.Sprintf("$undef-%d", p.id()))
				s.ToMin, s.ToMax = p.pos(), p.pos()
				pr.Undef = append(pr.Undef, s)
				p.w(u.post)
			})
		})
		p.fillers(0, 2)
	}
	pr.Src = p.sb.String()
	trimEnd(r, pr)
	return pr
}

var openers = []string{"{", "(", "[", "'abc", "\"abc", "[&k=", "{|a|", "[a (", "{ nop [", "'好", "[&k=(", "?("}

func genParse(r *rand.Rand) *program {
	uid := 0
	p := newProg(r, 0, &uid)
	pr := &program{Kind: "parse-eof", Stray: -1}
	p.fillers(0, 4)
	if r.Intn(3) == 0 {
		pr.Kind = "parse-stray"
		p.statement(0, func(ind string) {
			p.w([]string{"nop ", "nop a ", "nop 好 ", ""}[r.Intn(4)])
			pr.Stray = p.pos()
			p.w([]string{")", "]", "}"}[r.Intn(3)])
			if r.Intn(2) == 0 {
				p.w(" b")
			}
		})
		p.fillers(0, 3)
	} else {
		pr.AtEOF = true
		p.w(p.indent(0))
		p.w([]string{"nop ", "nop a ", "put 好 | nop ", "var x = "}[r.Intn(4)])
		p.w(openers[r.Intn(len(openers))])
		// whatever follows is swallowed by the unclosed construct
		switch r.Intn(5) {
		case 0:
		case 1:
			p.w(" ")
		case 2:
			p.w("\n")
		case 3:
			p.w("\n  nop 好\n")
		case 4:
			p.w(" a\r\n\n")
		}
	}
	pr.Src = p.sb.String()
	return pr
}

// ---------------------------------------------------------------------------

type errWitness struct {
	Kind    string `json:"kind"`
	Source  string `json:"source_quoted"`
	EvalSrc string `json:"eval_source_quoted,omitempty"`
	ModSrc  string `json:"module_source_quoted,omitempty"`
	Detail  string `json:"detail"`
}

func (pr *program) wit(detail string) errWitness {
	return errWitness{pr.Kind, mon.Q(pr.Src), mon.Q(pr.EvalSrc), mon.Q(pr.ModSrc), detail}
}

// checkDiagErrors checks the contexts of unpacked parse / compilation errors.
func checkParseErrors(c *mon.Case, where string, err error, src string) []*parse.Error {
	es := parse.UnpackErrors(err)
	for _, e := range es {
		if !checkCtx(c, where, &e.Context, srcName, src) {
			return es
		}
		desc := refDescribe(e.Context.Name, e.Context.StartLine, e.Context.StartCol, e.Context.EndLine, e.Context.EndCol)
		if !contains(e.Error(), desc+": "+e.Message) {
			c.Violation(where+":error-text", fmt.Sprintf("Error() = %q does not contain %q", e.Error(), desc+": "+e.Message), map[string]any{"src": mon.Q(src)})
		}
		c.Count("parse_error_contexts", 1)
	}
	return es
}

func checkCompileErrors(c *mon.Case, where string, err error, src string) []*eval.CompilationError {
	es := eval.UnpackCompilationErrors(err)
	for _, e := range es {
		if !checkCtx(c, where, &e.Context, srcName, src) {
			return es
		}
		desc := refDescribe(e.Context.Name, e.Context.StartLine, e.Context.StartCol, e.Context.EndLine, e.Context.EndCol)
		if !contains(e.Error(), desc+": "+e.Message) {
			c.Violation(where+":error-text", fmt.Sprintf("Error() = %q does not contain %q", e.Error(), desc+": "+e.Message), map[string]any{"src": mon.Q(src)})
		}
		c.Count("compile_error_contexts", 1)
	}
	return es
}

func runErrors(c *mon.Case) {
	r := c.Rand
	var pr *program
	switch k := c.I % 10; {
	case k < 5:
		pr = genException(r)
	case k < 8:
		pr = genCompile(r)
	default:
		pr = genParse(r)
	}
	ev := elv.New()
	if pr.evalVar != "" {
		elv.SetVar(ev, pr.evalVar, pr.EvalSrc)
	}
	if pr.ModSrc != "" {
		dir := filepath.Join(c.Dir, fmt.Sprintf("lib-%d", c.I))
		os.MkdirAll(dir, 0o755)
		defer os.RemoveAll(dir)
		pr.modPath = filepath.Join(dir, pr.modName+".elv")
		if err := os.WriteFile(pr.modPath, []byte(pr.ModSrc), 0o644); err != nil {
			c.Inconclusive("cannot-write-module-file")
			return
		}
		ev.LibDirs = []string{dir}
	}
	res := elv.Eval(ev, pr.Src)
	c.Sample(pr.Kind, map[string]any{"source": mon.Q(pr.Src), "error": fmt.Sprint(res.Err)})
	switch pr.Kind {
	case "exception", "exception-loose", "exception-pipeline":
		var exc eval.Exception
		if !errors.As(res.Err, &exc) {
			c.Violation("gen:"+pr.Kind+":no-exception", fmt.Sprintf("generated program was expected to raise an exception, got %v", res.Err), pr.wit(""))
			return
		}
		entries, ok := checkTrace(c, pr, exc, res.Err)
		if !ok {
			return
		}
		if pr.Kind == "exception-pipeline" {
			pe, isPE := exc.Reason().(eval.PipelineError)
			if !isPE {
				c.Violation("gen:pipeline:no-pipeline-error", fmt.Sprintf("a pipeline of failing forms was expected to raise a pipeline error, got %v", res.Err), pr.wit(""))
				return
			}
			var subs []eval.Exception
			for _, e := range pe.Errors {
				if e != nil && e.Reason() != nil {
					subs = append(subs, e)
				}
			}
			if len(subs) != len(pr.Heads) {
				c.Violation("trace:pipeline-errors", fmt.Sprintf("pipeline of %d failing forms reports %d failures", len(pr.Heads), len(subs)), pr.wit(""))
				return
			}
			for i, e := range subs {
				se, ok := checkTrace(c, pr, e, nil)
				if !ok {
					return
				}
				sp := pr.Heads[i]
				if se[0].Name != srcName || se[0].From != sp.From || se[0].To < sp.ToMin || se[0].To > sp.ToMax {
					c.Violation("trace:entry-range", fmt.Sprintf("failure %d of the pipeline should point at the %s at [%d,%d..%d), points at %s[%d,%d)", i, sp.What, sp.From, sp.ToMin, sp.ToMax, se[0].Name, se[0].From, se[0].To), pr.wit(entriesDesc(se)))
					return
				}
			}
			c.Count("trace_pipeline_failures_matched", len(subs))
		}
		if pr.Chain != nil {
			if len(entries) != len(pr.Chain) {
				c.Violation("trace:length", fmt.Sprintf("stack trace has %d entries, the program has %d active call sites (%s)", len(entries), len(pr.Chain), chainDesc(pr.Chain)), pr.wit(entriesDesc(entries)))
				return
			}
			for i, ctx := range entries {
				sp := pr.Chain[i]
				if srcID(pr, ctx.Name) != sp.Src {
					c.Violation("trace:entry-source", fmt.Sprintf("entry %d (%s) is attributed to source %q", i, sp.What, ctx.Name), pr.wit(entriesDesc(entries)))
					return
				}
				if ctx.From != sp.From || ctx.To < sp.ToMin || ctx.To > sp.ToMax {
					c.Violation("trace:entry-range", fmt.Sprintf("entry %d should point at the %s at [%d,%d..%d), points at [%d,%d)", i, sp.What, sp.From, sp.ToMin, sp.ToMax, ctx.From, ctx.To), pr.wit(entriesDesc(entries)))
					return
				}
			}
			c.Count("trace_chains_matched", 1)
			c.Max("trace_depth", len(entries))
			if len(entries) >= 2 {
				c.Count("trace_chains_depth_ge2", 1)
			}
			if pr.EvalSrc != "" {
				c.Count("trace_chains_through_eval", 1)
			}
			if pr.ModSrc != "" {
				c.Count("trace_chains_through_module", 1)
			}
		}
	case "compile":
		es := checkCompileErrors(c, "compile", res.Err, pr.Src)
		if len(es) == 0 {
			c.Violation("gen:compile:no-error", fmt.Sprintf("generated program was expected to fail compilation, got %v", res.Err), pr.wit(""))
			return
		}
		var got, want [][2]int
		for _, e := range es {
			got = append(got, [2]int{e.Context.From, e.Context.To})
		}
		for _, s := range pr.Undef {
			want = append(want, [2]int{s.From, s.ToMin})
		}
		sort.Slice(got, func(i, j int) bool { return got[i][0] < got[j][0] })
		bad := len(got) != len(want)
		for i := 0; !bad && i < len(got); i++ {
			// the token is "$name"; pointing at the name without the sigil is accepted too
			if (got[i][0] != want[i][0] && got[i][0] != want[i][0]+1) || got[i][1] != want[i][1] {
				bad = true
			}
		}
		if bad {
			c.Violation("compile:ranges", fmt.Sprintf("compilation errors point at %v, the undefined variable tokens are at %v", got, want), pr.wit(""))
			return
		}
		c.Count("compile_programs_matched", 1)
		if len(got) > 1 {
			c.Count("compile_programs_multi_error", 1)
		}
	case "parse-eof", "parse-stray":
		es := checkParseErrors(c, "parse", res.Err, pr.Src)
		if len(es) == 0 {
			c.Violation("gen:parse:no-error", fmt.Sprintf("generated program was expected to fail parsing, got %v", res.Err), pr.wit(""))
			return
		}
		if pr.AtEOF {
			found := false
			for _, e := range es {
				if e.Context.From == len(pr.Src) && e.Context.To == len(pr.Src) {
					found = true
				}
			}
			if !found {
				c.Violation("parse:eof-range", fmt.Sprintf("unclosed construct: no parse error points at the end of input (%d)", len(pr.Src)), pr.wit(fmt.Sprint(res.Err)))
				return
			}
			c.Count("parse_eof_matched", 1)
		}
		if pr.Stray >= 0 {
			if es[0].Context.From != pr.Stray || es[0].Context.To != pr.Stray+1 {
				c.Violation("parse:stray-range", fmt.Sprintf("stray closer at [%d,%d), first parse error points at [%d,%d)", pr.Stray, pr.Stray+1, es[0].Context.From, es[0].Context.To), pr.wit(fmt.Sprint(res.Err)))
				return
			}
			c.Count("parse_stray_matched", 1)
		}
	}
	c.Nontrivial(pr.Kind, pr.Src, pr.EvalSrc)

	// damaged variants of the program: parse + compile only (never evaluated)
	for k := 0; k < 3; k++ {
		s := gen.Mutate(r, pr.Src)
		if r.Intn(2) == 0 {
			s = gen.Mutate(r, s)
		}
		perr, _, cerr := ev.Check(parse.Source{Name: srcName, Code: s}, nil)
		c.Evals(1)
		n := len(checkParseErrors(c, "mutant-parse", perr, s)) + len(checkCompileErrors(c, "mutant-compile", cerr, s))
		if n > 0 {
			c.Count("mutants_with_errors", 1)
		}
	}
}

// srcID maps a context name to the generator's source id (-1 = unknown).
func srcID(pr *program, name string) int {
	switch {
	case name == srcName:
		return 0
	case strings.HasPrefix(name, "[eval ") && pr.EvalSrc != "":
		return 1
	case pr.modPath != "" && name == pr.modPath:
		return 2
	}
	return -1
}

func (pr *program) source(id int) string {
	switch id {
	case 1:
		return pr.EvalSrc
	case 2:
		return pr.ModSrc
	}
	return pr.Src
}

// checkTrace checks every stack trace entry of exc against the reference
// (for the source the entry names) and returns the entries, innermost first.
func checkTrace(c *mon.Case, pr *program, exc eval.Exception, shown error) ([]*diag.Context, bool) {
	var entries []*diag.Context
	for st := exc.StackTrace(); st != nil; st = st.Next {
		entries = append(entries, st.Head)
		if len(entries) > 100 {
			break
		}
	}
	if len(entries) == 0 {
		c.Violation("trace:empty", "exception has no stack trace entry", pr.wit(""))
		return nil, false
	}
	showAll := ""
	if sh, ok := shown.(diag.Shower); ok {
		showAll = stripAll(sh.Show(""), diag.ContextBodyStartMarker, diag.ContextBodyEndMarker)
	}
	for i, ctx := range entries {
		id := srcID(pr, ctx.Name)
		if id < 0 {
			c.Violation("trace:unknown-source", fmt.Sprintf("stack trace entry %d names source %q, which the program never evaluated", i, ctx.Name), pr.wit(""))
			return nil, false
		}
		src := pr.source(id)
		if !checkCtx(c, "trace", ctx, ctx.Name, src) {
			return nil, false
		}
		c.Count("trace_entry_contexts", 1)
		if ctx.EndLine > ctx.StartLine {
			c.Count("trace_entry_multi_line", 1)
		}
		if showAll != "" && !contains(src, "\x1b") {
			desc := refDescribe(ctx.Name, ctx.StartLine, ctx.StartCol, ctx.EndLine, ctx.EndCol)
			want := refShowPlain(desc, ctx.StartLine != ctx.EndLine, "  ", ctx.Head, ctx.Body, ctx.Tail)
			if !contains(showAll, "\n  "+want) {
				c.Violation("trace:exception-show", fmt.Sprintf("Show() of the exception does not contain the entry %q", want), pr.wit(showAll))
				return nil, false
			}
		}
	}
	return entries, true
}

func chainDesc(ch []*span) string {
	var parts []string
	for _, s := range ch {
		parts = append(parts, fmt.Sprintf("%s@%d/%d", s.What, s.Src, s.From))
	}
	return strings.Join(parts, ", ")
}

func entriesDesc(es []*diag.Context) string {
	var parts []string
	for _, e := range es {
		parts = append(parts, fmt.Sprintf("%s[%d,%d)", e.Name, e.From, e.To))
	}
	return strings.Join(parts, " <- ")
}

func Spec() *mon.Spec {
	return &mon.Spec{
		ID:            "C37",
		SpinViolation: true, Level: "exploration",
		Rule: "phase contexts: a source of 0..12 lines (empty lines, with/without trailing newline, CR LF, multibyte and invalid bytes) and either every range of it (short sources) or 250 ranges biased to line boundaries; every field of diag.NewContext and the text of Show() are compared with a byte-loop reference written from the doc comments. " +
			"phase errors: a generated multi-line program with one injected failure whose byte range the generator knows (fail form directly / inside nested blocks, lambdas, each / in a named function / in eval'd code / in a function of a module file / several in one pipeline; undefined variables; unclosed constructs and stray closers) is evaluated; every Context of the resulting parse errors, compilation errors and stack trace entries must agree with the reference for its own range, and the ranges must be the injected nodes; 3 damaged variants per program are parsed+compiled only. " +
			"Non-trivial = source with >= 3 lines and a multibyte character (contexts) / every distinct generated program (errors).",
		Assumptions: []string{
			"when the range, after dropping one trailing newline, still ends with a newline, both (line, len+1) and (line+1, 0) are accepted as end position (doc comments silent)",
			"the end of a command form's range may lie anywhere between the end of its last argument and the statement terminator (the parser includes trailing blanks and comments; no document fixes this)",
			"an undefined-variable error may point at the token with or without the $ sigil",
			"a stray closing bracket at statement level is reported as a one-byte range covering it ('unexpected rune' names that rune)",
			"zero-width description name:L:C is taken from the comment inside describeRange; Show() layout from the Show doc comment, underline markers ignored",
			"which constructs add a stack trace entry (lambda call, each, named function call, eval: yes; if/for/while/try/output capture: no) is taken from observed behaviour of the unchanged tree, consistent with 'a single traceback entry' per function call",
		},
		Phases: []mon.Phase{
			{Name: "contexts", Quick: 12000, Thorough: 90000, Run: runContexts},
			{Name: "errors", Quick: 12000, Thorough: 90000, Run: runErrors},
		},
		Floors: map[string]int{"distinct_nontrivial": 2500, "contexts_checked": 300000, "ctx_empty": 70000, "ctx_ends_after_newline": 70000, "ctx_only_newline": 15000,
			"ctx_multi_line": 120000, "ctx_multibyte_before_start": 70000, "ctx_at_eof": 25000, "ctx_not_first_line": 150000, "sources_all_ranges": 400,
			"parse_error_contexts": 4000, "compile_error_contexts": 4000, "trace_entry_contexts": 1300, "trace_entry_multi_line": 400,
			"trace_chains_matched": 700, "trace_chains_depth_ge2": 400, "trace_chains_through_eval": 150, "trace_chains_through_module": 30, "trace_pipeline_failures_matched": 80, "compile_programs_matched": 450,
			"compile_programs_multi_error": 300, "parse_eof_matched": 200, "parse_stray_matched": 100, "mutants_with_errors": 3500},
	}
}
