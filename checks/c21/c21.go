// Package c21 checks that tmp, with and defer restore and clean up on every
// exit path (property C21): generated and systematically enumerated functions
// log every observable point with the harness builtin v-emit; the event log,
// the outputs and the resulting exception are compared with the reference
// interpreter of internal/refinterp, whose restore stacks are written from
// the property statement and the language reference.
package c21

import (
	"fmt"
	"hash/fnv"
	"strings"

	"verifharness/internal/mon"
	. "verifharness/internal/refinterp"
)

var budget *Budget

var reported = []string{
	"tmp", "with", "defer", "deferred-run", "restore", "element-restored", "with-several-restores",
	"with-exit:normal", "with-exit:exception", "with-exit:break", "with-exit:continue", "with-exit:return",
	"tmp-restored:normal", "tmp-restored:exception", "tmp-restored:break", "tmp-restored:continue", "tmp-restored:return",
	"exit-with-defers:normal", "exit-with-defers:exception", "exit-with-defers:break", "exit-with-defers:continue", "exit-with-defers:return",
	"exit-with-several-defers", "deferred-exception-reported", "deferred-exception-suppressed",
	"deferred-ran-after-failed", "deferred-failed-after-failed", "deferred-flow", "return-captured",
	"loop-break", "loop-continue", "each-break", "each-continue", "try-caught", "try-caught-flow", "try-finally",
}

func hashStr(s string) uint64 {
	h := fnv.New64a()
	h.Write([]byte(s))
	return h.Sum64()
}

func nontrivial(k map[string]int) bool {
	restoring := k["restore"] + k["deferred-run"]
	if restoring == 0 {
		return false
	}
	abnormal := 0
	for name, n := range k {
		if (strings.HasPrefix(name, "with-exit:") || strings.HasPrefix(name, "tmp-restored:") || strings.HasPrefix(name, "exit-with-defers:")) && !strings.HasSuffix(name, ":normal") {
			abnormal += n
		}
	}
	return abnormal > 0 || k["deferred-exception-reported"]+k["deferred-exception-suppressed"] > 0
}

func record(c *mon.Case, p *Program, v Verdict, phase string) {
	switch v.Status {
	case "agree":
		c.Count("compared", 1)
		c.Count("events_compared", len(v.Model.Events))
		for _, k := range reported {
			if n := v.Model.Kinds[k]; n > 0 {
				c.Count("k_"+k, n)
			}
		}
		if nontrivial(v.Model.Kinds) {
			c.Nontrivial(hashStr(p.Source()))
		}
		c.Sample(phase, map[string]any{"source": p.Source(), "events": v.Model.Events, "values": v.Model.Values, "exception": v.Model.Exc})
	case "mismatch":
		c.Count("compared", 1)
		c.Count("mismatches", 1)
		c.Violation(v.Sig, v.What, v.Witness)
	case "unspecified":
		c.Count("discarded_unspecified", 1)
		c.Distinct("unspecified_reasons", v.Why)
	case "racy":
		c.Count("discarded_scheduling_dependent", 1)
	case "budget":
		c.Count("discarded_step_budget", 1)
	case "static-error":
		c.Count("generator_static_error", 1)
		c.Inconclusive("generator-static-error: " + v.Why)
	case "timeout":
		c.Inconclusive("elvish-timeout")
	}
}

func runGenerated(c *mon.Case) {
	cfg := GenConfig{MaxForms: 30 + 20*(c.I%3), IllTyped: c.I%7 == 0}
	p := NewGen(c.Rand, cfg).RestoreProgram()
	record(c, p, Check(p, budget), "generated")
}

// ---------------------------------------------------------------------------
// systematic grid: construct x exit path x enclosing loop x failing callbacks

func str(s string) *Str { return &Str{S: s} }
func v(name string) *Var { return &Var{Name: name} }
func cmd(name string, args ...Expr) Form {
	return &Cmd{Head: &Str{S: name}, Args: args}
}
func lam(forms ...Form) *Lambda {
	ch := &Chunk{}
	for _, f := range forms {
		ch.Pipes = append(ch.Pipes, &Pipeline{Forms: []Form{f}})
	}
	return &Lambda{Rest: -1, Body: ch}
}
func blockCall(forms ...Form) Form { return &Cmd{Head: lam(forms...)} }
func set(name string, e Expr) Form { return &SetForm{LHS: []*LV{{Name: name}}, RHS: []Expr{e}} }
func show(tag string) Form         { return cmd("show", str(tag)) }

var constructs = []string{
	"with", "with-two-vars", "with-bracket-two", "with-same-var-nested", "with-element", "with-list-element",
	"tmp", "tmp-twice-same-var", "tmp-two-vars", "tmp-element", "tmp-in-inner-lambda", "tmp-in-if-body",
	"defer", "defer-two", "defer-three", "defer-and-tmp", "defer-nested-fn", "with-and-defer-inside",
}

var exits = []string{"normal", "fail", "break", "continue", "return", "return-through-lambda", "break-in-if", "arity-error"}

var wraps = []string{"none", "for", "while", "each", "for-in-callee"}

// failing callback patterns for the up to three deferred callbacks / the body
var failPats = []string{"none", "first-registered", "last-registered", "all"}

// GridSize is the number of grid points.
func gridSize() int { return len(constructs) * len(exits) * len(wraps) * len(failPats) }

func exitForms(exit string) []Form {
	switch exit {
	case "normal":
		return nil
	case "fail":
		return []Form{cmd("fail", str("boom"))}
	case "break":
		return []Form{cmd("break")}
	case "continue":
		return []Form{cmd("continue")}
	case "return":
		return []Form{cmd("return")}
	case "return-through-lambda":
		return []Form{blockCall(cmd("return"))}
	case "break-in-if":
		return []Form{&If{Conds: []Expr{v("true")}, Bodies: []*Lambda{lam(cmd("break"))}}}
	case "arity-error":
		return []Form{&Cmd{Head: &Lambda{Sig: true, Params: []string{"p"}, Rest: -1, Body: &Chunk{}}}}
	}
	return nil
}

func deferCb(i int, fails bool) Form {
	tag := fmt.Sprintf("d%d", i)
	forms := []Form{show(tag), set("y", str("set-by-"+tag))}
	if fails {
		forms = append(forms, cmd("fail", str(tag)))
	}
	return cmd("defer", lam(forms...))
}

// gridProgram builds the program of grid point i.
func gridProgram(i int) (*Program, string) {
	ci := i % len(constructs)
	i /= len(constructs)
	ei := i % len(exits)
	i /= len(exits)
	wi := i % len(wraps)
	i /= len(wraps)
	fi := i % len(failPats)
	construct, exit, wrap, failPat := constructs[ci], exits[ei], wraps[wi], failPats[fi]
	name := construct + "/" + exit + "/" + wrap + "/" + failPat
	fails := func(k, n int) bool { // k-th registered of n
		switch failPat {
		case "first-registered":
			return k == 0
		case "last-registered":
			return k == n-1
		case "all":
			return true
		}
		return false
	}
	body := []Form{show("body"), set("x", str("x2"))}
	body = append(body, exitForms(exit)...)
	body = append(body, show("body-end"))
	var core []Form
	with := func(groups []*Assign, bracketed bool, inner ...Form) Form {
		return &WithForm{Bracketed: bracketed, Groups: groups, Body: lam(inner...)}
	}
	as := func(name string, e Expr, idx ...Expr) *Assign {
		return &Assign{LHS: []*LV{{Name: name, Indices: idx}}, RHS: []Expr{e}}
	}
	tmp := func(name string, e Expr, idx ...Expr) Form {
		return &SetForm{Tmp: true, LHS: []*LV{{Name: name, Indices: idx}}, RHS: []Expr{e}}
	}
	switch construct {
	case "with":
		core = []Form{with([]*Assign{as("x", str("x1"))}, false, body...)}
	case "with-two-vars":
		core = []Form{with([]*Assign{{LHS: []*LV{{Name: "x"}, {Name: "y"}}, RHS: []Expr{str("x1"), str("y1")}}}, false, body...)}
	case "with-bracket-two":
		core = []Form{with([]*Assign{as("x", str("x1")), as("y", v("x"))}, true, body...)}
	case "with-same-var-nested":
		core = []Form{with([]*Assign{as("x", str("x1"))}, false, show("outer"), with([]*Assign{as("x", str("x1b"))}, true, body...), show("between"))}
	case "with-element":
		core = []Form{with([]*Assign{as("m", str("m1"), str("k")), as("m", str("m2"), str("j"))}, true, body...)}
	case "with-list-element":
		core = []Form{with([]*Assign{as("l", str("l9"), str("1"))}, true, body...)}
	case "tmp":
		core = append([]Form{tmp("x", str("x1"))}, body...)
	case "tmp-twice-same-var":
		core = append([]Form{tmp("x", str("x1")), show("between"), tmp("x", str("x1b"))}, body...)
	case "tmp-two-vars":
		core = append([]Form{&SetForm{Tmp: true, LHS: []*LV{{Name: "x"}, {Name: "y"}}, RHS: []Expr{str("x1"), str("y1")}}}, body...)
	case "tmp-element":
		core = append([]Form{tmp("m", str("m1"), str("k")), tmp("l", str("l9"), str("0"))}, body...)
	case "tmp-in-inner-lambda":
		core = []Form{blockCall(append([]Form{tmp("x", str("x1"))}, body...)...), show("after-inner")}
	case "tmp-in-if-body":
		core = []Form{&If{Conds: []Expr{v("true")}, Bodies: []*Lambda{lam(append([]Form{tmp("x", str("x1"))}, body...)...)}}, show("after-if")}
	case "defer":
		core = append([]Form{deferCb(0, fails(0, 1))}, body...)
	case "defer-two":
		core = append([]Form{deferCb(0, fails(0, 2)), deferCb(1, fails(1, 2))}, body...)
	case "defer-three":
		core = append([]Form{deferCb(0, fails(0, 3)), deferCb(1, fails(1, 3)), deferCb(2, fails(2, 3))}, body...)
	case "defer-and-tmp":
		core = append([]Form{deferCb(0, fails(0, 2)), tmp("x", str("x1")), deferCb(1, fails(1, 2)), tmp("y", str("y1"))}, body...)
	case "defer-nested-fn":
		// the callback itself registers a deferred callback and a tmp
		inner := lam(show("d0"), cmd("defer", lam(show("d0-inner"))), tmp("x", str("x-in-d0")), show("d0-end"))
		if fails(0, 1) {
			inner.Body.Pipes = append(inner.Body.Pipes, &Pipeline{Forms: []Form{cmd("fail", str("d0"))}})
		}
		core = append([]Form{cmd("defer", inner)}, body...)
	case "with-and-defer-inside":
		core = []Form{with([]*Assign{as("x", str("x1"))}, false, append([]Form{deferCb(0, fails(0, 1))}, body...)...), show("after-with")}
	}
	fbody := append([]Form{show("start")}, core...)
	fbody = append(fbody, show("end"))
	// enclosing loop inside the function
	switch wrap {
	case "for":
		fbody = []Form{&For{Var: &LV{Name: "it"}, Cont: &ListLit{Items: []Expr{str("1"), str("2")}}, Body: lam(fbody...)}, show("after-loop")}
	case "while":
		inc := set("n", &Capture{Body: &Chunk{Pipes: []*Pipeline{{Forms: []Form{cmd("+", v("n"), str("1"))}}}}})
		cond := &Capture{Body: &Chunk{Pipes: []*Pipeline{{Forms: []Form{cmd("<", v("n"), str("2"))}}}}}
		fbody = []Form{&VarForm{LHS: []*LV{{Name: "n"}}, HasEq: true, RHS: []Expr{str("0")}},
			&While{Cond: cond, Body: lam(append([]Form{inc}, fbody...)...)}, show("after-loop")}
	case "each":
		cb := lam(fbody...)
		cb.Sig, cb.Params = true, []string{"it"}
		fbody = []Form{cmd("each", cb, &ListLit{Items: []Expr{str("1"), str("2")}}), show("after-loop")}
	}
	prog := []Form{
		&VarForm{LHS: []*LV{{Name: "x"}}, HasEq: true, RHS: []Expr{str("x0")}},
		&VarForm{LHS: []*LV{{Name: "y"}}, HasEq: true, RHS: []Expr{str("y0")}},
		&VarForm{LHS: []*LV{{Name: "m"}}, HasEq: true, RHS: []Expr{&MapLit{Pairs: []Pair{{K: str("k"), V: str("m0")}}}}},
		&VarForm{LHS: []*LV{{Name: "l"}}, HasEq: true, RHS: []Expr{&ListLit{Items: []Expr{str("l0"), str("l1")}}}},
		&Fn{Name: "show", L: &Lambda{Sig: true, Params: []string{"t"}, Rest: -1, Body: &Chunk{Pipes: []*Pipeline{{Forms: []Form{
			cmd("v-emit", v("t"), v("x"), v("y"), v("m"), v("l"))}}}}}},
		&Fn{Name: "f", L: lam(fbody...)},
	}
	callF := Form(cmd("f"))
	if wrap == "for-in-callee" {
		// the loop is in the caller: break/continue cross the function boundary
		callF = &For{Var: &LV{Name: "it"}, Cont: &ListLit{Items: []Expr{str("1"), str("2")}}, Body: lam(cmd("f"), show("after-call"))}
	}
	prog = append(prog,
		&Try{Body: lam(callF), CatchVar: &LV{Name: "e"}, Catch: lam(cmd("v-emit", str("caught"), v("e")))},
		show("final"), cmd("put", v("x"), v("y"), v("m"), v("l")))
	ch := &Chunk{}
	for _, f := range prog {
		ch.Pipes = append(ch.Pipes, &Pipeline{Forms: []Form{f}})
	}
	return &Program{Body: ch}, name
}

func runGrid(c *mon.Case) {
	p, name := gridProgram(c.I)
	vd := Check(p, budget)
	if vd.Status == "mismatch" && vd.Sig != "defer-empty-callback" {
		// the grid point names the construct and the exit path precisely
		parts := strings.Split(name, "/")
		vd.Sig = "grid:" + parts[0] + "/" + parts[1]
		vd.What = "grid point " + name + ": " + vd.What
	}
	if vd.Status == "agree" {
		c.Count("grid_points_compared", 1)
		c.Distinct("grid_constructs_x_exits", strings.Join(strings.Split(name, "/")[:2], "/"))
	}
	record(c, p, vd, "grid")
}

// Spec returns the check.
func Spec() *mon.Spec {
	return &mon.Spec{
		ID: "C21", Level: "exploration",
		Rule: "phase grid enumerates every combination of construct (with: one/two variables, bracketed groups, nested on the same variable, map and list elements; tmp: once, twice on the same variable, two variables, elements, inside an inner lambda, inside an if body; defer: one/two/three callbacks, mixed with tmp, a callback that itself defers, defer inside with) x exit path of the body (normal, fail, break, continue, return, return through a lambda, break inside an if body, arity error) x enclosing loop (none, for, while, each, for in the caller) x failing deferred callbacks (none, first registered, last registered, all); phase generated draws random programs (functions nesting tmp/with/defer with random exit paths, called under try and from loops). Every observable point logs the current values of the variables through a function calling the harness builtin v-emit; event log, outputs, final values and the resulting exception category are compared with the reference interpreter (explicit restore stacks: with restores in reverse order when its body ends, tmp when the innermost enclosing lambda ends, deferred callbacks LIFO exactly once each, an exception from a deferred callback reported only if the body succeeded). Non-trivial = compared program in which a restore or deferred callback ran on an abnormal exit path or a deferred callback failed; distinct by source text.",
		Assumptions: []string{
			"tmp restores and deferred callbacks of one function form a single LIFO sequence in registration order (tmp is specified as restoring 'when the current function has finished', defer 'when execution reaches the end of the current closure'; probes in the design phase)",
			"the bodies of if/for/while/try/with are lambdas (stated by the reference), so tmp inside them restores when that body ends",
			"a function defined with fn that is left with return has finished normally: return is captured before the deferred actions run, so a failing deferred callback is then reported",
			"flow commands raised by a deferred callback propagate like any other exception (documented: 'any exception it throws gets propagated')",
			"restores themselves cannot fail in the generated programs (restoring a saved value is always a valid assignment); failing clean-up is exercised through deferred callbacks",
			"with x[k] = v { } (element lvalue first, non-bracketed syntax) is rejected by the compiler and not generated; elements are assigned through the bracketed syntax",
			"programs whose with-assignment part raises are discarded (what is restored then is not specified)",
		},
		ChildSetup: func(e *mon.Env) { budget = NewBudget() },
		Phases: []mon.Phase{
			{Name: "grid", Quick: gridSize(), Thorough: gridSize(), Run: runGrid},
			{Name: "generated", Quick: 5000, Thorough: 100000, Run: runGenerated},
		},
		Floors: map[string]int{
			"compared": 2500, "grid_points_compared": 1400, "events_compared": 20000, "distinct_nontrivial": 800,
			"grid_constructs_x_exits": 100,
			"k_tmp-restored:exception": 400, "k_tmp-restored:break": 100, "k_tmp-restored:continue": 100, "k_tmp-restored:return": 200,
			"k_with-exit:exception": 600, "k_with-exit:break": 90, "k_with-exit:continue": 90, "k_with-exit:return": 200,
			"k_exit-with-defers:exception": 700, "k_exit-with-defers:break": 80, "k_exit-with-defers:continue": 80, "k_exit-with-defers:return": 200,
			"k_deferred-exception-reported": 500, "k_deferred-exception-suppressed": 300, "k_deferred-ran-after-failed": 200,
			"k_deferred-failed-after-failed": 60, "k_element-restored": 800, "k_with-several-restores": 1000, "k_exit-with-several-defers": 1000,
		},
	}
}
