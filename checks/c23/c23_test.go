package c23

import (
	"fmt"
	"math/rand"
	"os"
	"path/filepath"
	"sort"
	"strings"
	"testing"
)

func star(mods ...string) piece  { return wild(wStar, mods...) }
func quest(mods ...string) piece { return wild(wQuestion, mods...) }
func sstar(mods ...string) piece { return wild(wStarStar, mods...) }
func l(s string) piece           { return piece{Kind: wLit, Lit: s} }
func wild(k int, mods ...string) piece {
	p := piece{Kind: k}
	for _, m := range mods {
		if m == "match-hidden" {
			p.Hidden = true
		} else {
			p.Matchers = append(p.Matchers, matcher{m})
		}
	}
	return p
}

// The examples of website/ref/language.md § Wildcard expansion.
func TestRefglobAgainstReferenceExamples(t *testing.T) {
	dir := t.TempDir()
	for _, f := range []string{".x.conf", "a.cc", "ax.conf", "foo.cc", "d/.x.conf", "d/ax.conf", "d/y.cc", ".d2/.x.conf", ".d2/ax.conf"} {
		os.MkdirAll(filepath.Dir(filepath.Join(dir, f)), 0o755)
		os.WriteFile(filepath.Join(dir, f), nil, 0o644)
	}
	old, _ := os.Getwd()
	defer os.Chdir(old)
	os.Chdir(dir)
	tests := []struct {
		name string
		p    pattern
		want string
	}{
		{"?.cc", pattern{Comps: [][]piece{{quest(), l(".cc")}}}, "a.cc"},
		{"*.cc", pattern{Comps: [][]piece{{star(), l(".cc")}}}, "a.cc foo.cc"},
		{"**.cc", pattern{Comps: [][]piece{{sstar(), l(".cc")}}}, "a.cc d/y.cc foo.cc"},
		{"?x.conf", pattern{Comps: [][]piece{{quest(), l("x.conf")}}}, "ax.conf"},
		{"d/*.conf", pattern{Comps: [][]piece{{l("d")}, {star(), l(".conf")}}}, "d/ax.conf"},
		{"**.conf", pattern{Comps: [][]piece{{sstar(), l(".conf")}}}, "ax.conf d/ax.conf"},
		{"*[match-hidden].conf", pattern{Comps: [][]piece{{star("match-hidden"), l(".conf")}}}, ".x.conf ax.conf"},
		{"*[match-hidden]/*.conf", pattern{Comps: [][]piece{{star("match-hidden")}, {star(), l(".conf")}}}, ".d2/ax.conf d/ax.conf"},
		{"?[set:.a]x.conf", pattern{Comps: [][]piece{{quest("set:.a"), l("x.conf")}}}, "ax.conf"},
		{"?[set:.a][match-hidden]x.conf", pattern{Comps: [][]piece{{quest("set:.a", "match-hidden"), l("x.conf")}}}, ".x.conf ax.conf"},
		{"**[type:dir]", pattern{Comps: [][]piece{{sstar()}}, Type: "dir"}, "d"},
		{"bad*", pattern{Comps: [][]piece{{l("bad"), star()}}}, ""},
		{"*[set:abc/]", pattern{Comps: [][]piece{{star("set:abc/")}}}, ""},
		{"*[but:a.cc].cc", pattern{Comps: [][]piece{{star(), l(".cc")}}, Buts: []string{"a.cc"}}, "foo.cc"},
		{"?[set:aeoiu][digit]*", pattern{Comps: [][]piece{{quest("set:aeoiu", "digit"), star()}}}, "a.cc ax.conf"},
		{"*[range:a-f].cc", pattern{Comps: [][]piece{{star("range:a-f"), l(".cc")}}}, "a.cc"},
		{"*[range:a~o].cc", pattern{Comps: [][]piece{{star("range:a~o"), l(".cc")}}}, "a.cc"},
		{"*[range:a~p].cc", pattern{Comps: [][]piece{{star("range:a~p"), l(".cc")}}}, "a.cc foo.cc"},
		{"./d/../*/", pattern{Comps: [][]piece{{l(".")}, {l("d")}, {l("..")}, {star()}, nil}}, "./d/../d/"},
	}
	for _, tc := range tests {
		exp, g := expected(&tc.p, dir, true)
		got := strings.Join(sortedKeys(exp, true), " ")
		if got != tc.want || len(exp) != len(sortedKeys(exp, true)) {
			t.Errorf("%s: refglob demands %q (allowed %v, ambig %d), reference says %q", tc.name, got, sortedKeys(exp, false), g.hiddenAmbig, tc.want)
		}
	}
	// readings differ: "*.conf" vs ".conf"-like names is allowed but not demanded
	os.WriteFile(".conf", nil, 0o644)
	exp, _ := expected(&pattern{Comps: [][]piece{{star(), l(".conf")}}}, dir, true)
	if must, ok := exp[".conf"]; !ok || must {
		t.Errorf("*.conf vs .conf: want allowed-not-demanded, got present=%v must=%v", ok, must)
	}
}

// Prints a sample of generated patterns that match nothing (generator tuning aid).
func TestSampleNoMatch(t *testing.T) {
	if os.Getenv("C23_SAMPLE") == "" {
		t.Skip()
	}
	r := rand.New(rand.NewSource(7))
	old, _ := os.Getwd()
	defer os.Chdir(old)
	total, none := 0, 0
	for i := 0; i < 40; i++ {
		dir := t.TempDir()
		entries := genTree(r, dir)
		os.Chdir(dir)
		for k := 0; k < 30; k++ {
			p := genPattern(r, entries)
			exp, _ := expected(p, dir, true)
			total++
			if len(exp) == 0 {
				none++
				if none%8 == 0 {
					var names []string
					for _, e := range entries {
						names = append(names, e.rel)
					}
					sort.Strings(names)
					fmt.Printf("%s   type=%s\n", p.describe(), p.Type)
				}
			}
		}
	}
	fmt.Printf("no match: %d of %d\n", none, total)
}
