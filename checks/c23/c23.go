// Package c23 monitors wildcard expansion (property C23): Elvish wildcard
// expressions and pkg/glob are run against generated directory trees and
// compared with refglob, a declarative matcher written from the language
// reference.
package c23

import (
	"errors"
	"fmt"
	"os"
	"path/filepath"
	"sort"
	"strings"

	"src.elv.sh/pkg/eval"
	"src.elv.sh/pkg/glob"
	"verifharness/internal/elv"
	"verifharness/internal/mon"
)

var ev *eval.Evaler

func childSetup(e *mon.Env) {
	ev = elv.New()
}

// setupTree creates  <scratch>/c23-<phase>-<i>/{w/ (the tree, cwd), sib, .sibh/, sibd/x}
// and chdirs into w. The returned cleanup restores cwd and removes everything.
func setupTree(c *mon.Case) (root string, entries []entry, cleanup func()) {
	base := c.Dir
	if base == "" {
		base = os.TempDir()
	}
	base, _ = filepath.EvalSymlinks(base)
	wrap := filepath.Join(base, fmt.Sprintf("c23-%s-%d", c.Phase, c.I))
	os.RemoveAll(wrap)
	root = filepath.Join(wrap, "w")
	if err := os.MkdirAll(root, 0o755); err != nil {
		c.Inconclusive("mkdir:" + err.Error())
		return "", nil, func() {}
	}
	os.WriteFile(filepath.Join(wrap, "sib"), nil, 0o644)
	os.Mkdir(filepath.Join(wrap, ".sibh"), 0o755)
	os.MkdirAll(filepath.Join(wrap, "sibd"), 0o755)
	os.WriteFile(filepath.Join(wrap, "sibd", "x"), nil, 0o644)
	entries = genTree(c.Rand, root)
	old, _ := os.Getwd()
	if err := os.Chdir(root); err != nil {
		c.Inconclusive("chdir:" + err.Error())
		os.RemoveAll(wrap)
		return "", nil, func() {}
	}
	os.Setenv("HOME", root)
	return root, entries, func() {
		if old != "" {
			os.Chdir(old)
		} else {
			os.Chdir("/")
		}
		os.RemoveAll(wrap)
	}
}

// features classifies a pattern for signatures and counters.
type features struct {
	starstar, multiSS, hiddenMod, matchers, dots, rsas, but, typ, nook, base, trailing, adjacent bool
}

func featuresOf(p *pattern) features {
	var f features
	n := countStarStar(p)
	f.starstar, f.multiSS = n > 0, n > 1
	f.rsas = restrictedStarAfterStar(p)
	f.but, f.typ, f.nook, f.base = len(p.Buts) > 0, p.Type != "", p.NoOK, p.Base != ""
	for ci, comp := range p.Comps {
		if len(comp) == 0 && ci == len(p.Comps)-1 {
			f.trailing = true
		}
		if l := litOf(comp); !hasWild(comp) && (l == "." || l == "..") {
			f.dots = true
		}
		for i, pc := range comp {
			if pc.Kind == wLit {
				continue
			}
			f.hiddenMod = f.hiddenMod || pc.Hidden
			f.matchers = f.matchers || len(pc.Matchers) > 0
			if i > 0 && comp[i-1].Kind != wLit {
				f.adjacent = true
			}
		}
	}
	return f
}

// class names the coarse class of a disagreement on path (for signatures).
func (f features) class(path string) string {
	for _, comp := range strings.Split(path, "/") {
		if strings.HasPrefix(comp, ".") && comp != "." && comp != ".." {
			return "hidden-path"
		}
	}
	switch {
	case f.starstar:
		return "starstar"
	case f.matchers:
		return "matchers"
	case f.dots:
		return "dot-components"
	}
	return "plain"
}

type outcome struct {
	paths   []string
	noMatch bool  // raised "wildcard has no match"
	err     error // any other error
}

func evalPattern(code string) outcome {
	res := elv.Eval(ev, code)
	var o outcome
	if res.Err != nil {
		if errors.Is(elv.Reason(res.Err), eval.ErrWildcardNoMatch) {
			o.noMatch = true
		} else {
			o.err = res.Err
		}
		return o
	}
	for _, v := range res.Values {
		s, ok := v.(string)
		if !ok {
			o.err = fmt.Errorf("non-string value %T in the expansion", v)
			return o
		}
		o.paths = append(o.paths, s)
	}
	return o
}

func sortedKeys(e expectation, onlyMust bool) []string {
	var ks []string
	for k, m := range e {
		if m || !onlyMust {
			ks = append(ks, k)
		}
	}
	sort.Strings(ks)
	return ks
}

// judge compares one observed outcome with the expectation. how names the
// route ("expr", "direct", "string", "reuse"). It returns false on violation.
func judge(c *mon.Case, how string, p *pattern, code string, exp expectation, o outcome, withNoMatch bool, extra map[string]any) bool {
	f := featuresOf(p)
	wit := func(more map[string]any) map[string]any {
		w := map[string]any{"route": how, "code": code, "pattern": p.describe(), "got": quoteAll(o.paths),
			"got_no_match_error": o.noMatch, "must": quoteAll(sortedKeys(exp, true)), "may": quoteAll(sortedKeys(exp, false)),
			"tree": listTree()}
		for k, v := range extra {
			w[k] = v
		}
		for k, v := range more {
			w[k] = v
		}
		return w
	}
	if o.err != nil {
		c.Violation(how+":unexpected-error", fmt.Sprintf("%s raised %v", code, o.err), wit(nil))
		return false
	}
	seen := map[string]int{}
	for _, s := range o.paths {
		seen[s]++
	}
	ok := true
	for s, n := range seen {
		if n > 1 {
			sig := how + ":duplicate"
			if f.multiSS {
				sig += ":multi-starstar"
			}
			c.Violation(sig, fmt.Sprintf("%s yields %s %d times", code, mon.Q(s), n), wit(map[string]any{"duplicate": mon.Q(s)}))
			ok = false
			break
		}
	}
	for _, s := range sortedKeys(exp, true) {
		if seen[s] == 0 {
			sig := how + ":missing:" + f.class(s)
			if f.rsas {
				sig = how + ":missing:restricted-star-after-star"
			}
			c.Violation(sig, fmt.Sprintf("%s does not yield the matching path %s", code, mon.Q(s)), wit(map[string]any{"missing": mon.Q(s)}))
			ok = false
			break
		}
	}
	var extras []string
	for s := range seen {
		if _, allowed := exp[s]; !allowed {
			extras = append(extras, s)
		}
	}
	if len(extras) > 0 {
		sort.Strings(extras)
		c.Violation(how+":extra:"+f.class(extras[0]), fmt.Sprintf("%s yields %s, which does not match (or does not exist)", code, mon.Q(extras[0])),
			wit(map[string]any{"extra": quoteAll(extras)}))
		ok = false
	}
	if withNoMatch {
		nMust := len(sortedKeys(exp, true))
		switch {
		case o.noMatch && p.NoOK:
			c.Violation(how+":nomatch-ok-raised", code+" raised 'wildcard has no match' despite nomatch-ok", wit(nil))
			ok = false
		case o.noMatch && nMust > 0:
			// already reported as missing
		case !o.noMatch && len(o.paths) == 0 && !p.NoOK:
			c.Violation(how+":no-match-not-raised", code+" produced no value and no exception without nomatch-ok", wit(nil))
			ok = false
		}
	}
	return ok
}

func quoteAll(ss []string) []string {
	out := make([]string, len(ss))
	for i, s := range ss {
		out[i] = mon.Q(s)
	}
	return out
}

// listTree lists cwd (and its parent's entries) for witnesses.
func listTree() []string {
	var out []string
	filepath.Walk(".", func(path string, info os.FileInfo, err error) error {
		if err != nil || path == "." {
			return nil
		}
		s := mon.Q(path)
		switch {
		case info.IsDir():
			s += "/"
		case info.Mode()&os.ModeSymlink != 0:
			t, _ := os.Readlink(path)
			s += " -> " + mon.Q(t)
		case !info.Mode().IsRegular():
			s += " (" + info.Mode().Type().String() + ")"
		}
		out = append(out, s)
		return nil
	})
	return out
}

// chooseButs picks but: values after the rest of the pattern is known.
func chooseButs(c *mon.Case, p *pattern, root string) {
	r := c.Rand
	if r.Intn(100) >= 20 {
		return
	}
	exp, _ := expected(p, root, false)
	paths := sortedKeys(exp, false)
	for n := 1 + r.Intn(2); n > 0; n-- {
		switch k := r.Intn(10); {
		case k < 6 && len(paths) > 0:
			p.Buts = append(p.Buts, paths[r.Intn(len(paths))])
		case k < 9 && len(paths) > 0:
			// the base name of a result: must NOT exclude "d/y" when the result is "d/y"
			s := strings.TrimSuffix(paths[r.Intn(len(paths))], "/")
			p.Buts = append(p.Buts, s[strings.LastIndex(s, "/")+1:])
		default:
			p.Buts = append(p.Buts, []string{"a", "./a", "nothing", ""}[r.Intn(4)])
		}
	}
}

func countFeatures(c *mon.Case, p *pattern, exp expectation, g *refglob) {
	f := featuresOf(p)
	b := func(x bool, name string) {
		if x {
			c.Count(name, 1)
		}
	}
	c.Count("patterns", 1)
	b(f.starstar, "pat_starstar")
	b(f.multiSS, "pat_multi_starstar")
	b(f.hiddenMod, "pat_match_hidden")
	b(f.matchers, "pat_char_matchers")
	b(f.dots, "pat_dot_or_dotdot_component")
	b(f.rsas, "pat_restricted_star_after_star")
	b(f.but, "pat_but")
	b(f.typ, "pat_type")
	b(f.nook, "pat_nomatch_ok")
	b(p.Base == "abs", "pat_absolute")
	b(p.Base == "tilde", "pat_tilde")
	b(f.trailing, "pat_trailing_slash")
	b(f.adjacent, "pat_adjacent_wildcards")
	must := sortedKeys(exp, true)
	all := sortedKeys(exp, false)
	c.Count("expected_paths", len(must))
	b(len(all) == 0, "expect_no_match")
	b(len(all) == 0 && p.NoOK, "expect_no_match_with_nomatch_ok")
	b(len(all) > len(must), "tolerance_used")
	b(g.hiddenAmbig > 0, "tolerance_hidden_reading")
	b(g.viaSymlinkDir > 0, "tolerance_symlinked_dir")
	hiddenExpected, deep := false, false
	for _, s := range must {
		for _, comp := range strings.Split(s, "/") {
			if strings.HasPrefix(comp, ".") && comp != "." && comp != ".." {
				hiddenExpected = true
			}
		}
		if strings.Count(strings.TrimSuffix(s, "/"), "/") >= 2 {
			deep = true
		}
	}
	b(hiddenExpected, "expect_hidden_path")
	b(deep && f.starstar, "expect_deep_path_via_starstar")
	c.Max("expected_set_size", len(must))
}

// runTree: one tree, many patterns, three routes each.
func runTree(c *mon.Case) {
	root, entries, cleanup := setupTree(c)
	if root == "" {
		return
	}
	defer cleanup()
	r := c.Rand
	c.Count("trees", 1)
	c.Count("tree_entries", len(entries))
	for _, e := range entries {
		if strings.HasPrefix(filepath.Base(e.rel), ".") {
			c.Count("tree_hidden_entries", 1)
		}
		if strings.HasPrefix(e.kind, "symlink") {
			c.Count("tree_symlinks", 1)
		}
	}
	nPat := 30
	for k := 0; k < nPat; k++ {
		p := genPattern(r, entries)
		chooseButs(c, p, root)
		attachGlobals(r, p)
		exp, g := expected(p, root, true)
		countFeatures(c, p, exp, g)
		code := "put " + renderElvish(r, p, root, false)
		o := evalPattern(code)
		c.Evals(1)
		if o.noMatch {
			c.Count("got_no_match_exception", 1)
		}
		judge(c, "expr", p, code, exp, o, true, nil)
		if len(sortedKeys(exp, true)) > 0 {
			c.Nontrivial(code, sortedKeys(exp, true))
		}
		if k == 0 {
			c.Sample("expansion", map[string]any{"code": code, "expected": quoteAll(sortedKeys(exp, true)), "tree": listTree()})
		}
		// route 2: pkg/glob directly with the same segments (local modifiers only)
		if r.Intn(2) == 0 {
			expL, _ := expected(p, root, false)
			var got []string
			toGlobPattern(p, root).Glob(func(pi glob.PathInfo) bool {
				got = append(got, pi.Path)
				if pi.Info == nil {
					c.Violation("direct:nil-info", "glob callback received a nil FileInfo for "+mon.Q(pi.Path), nil)
				}
				return true
			})
			c.Count("direct_glob_calls", 1)
			c.Evals(1)
			judge(c, "direct", p, "glob.Pattern.Glob <"+p.describe()+">", expL, outcome{paths: got}, false, nil)
			// the callback returning false must stop the enumeration
			if len(got) > 1 && r.Intn(4) == 0 {
				stopAt := 1 + r.Intn(len(got)-1)
				n := 0
				ret := toGlobPattern(p, root).Glob(func(pi glob.PathInfo) bool {
					n++
					return n < stopAt
				})
				c.Count("direct_glob_interrupted", 1)
				if ret || n != stopAt {
					c.Violation("direct:interrupt", fmt.Sprintf("callback returned false at call %d; Glob returned %v after %d calls", stopAt, ret, n),
						map[string]any{"pattern": p.describe()})
				}
			}
		}
		if len(entries) > 0 && r.Intn(5) == 0 {
			runAlternatives(c, p, root, entries)
		}
		// route 3: glob.Glob on the pattern string
		if s, ok := toGlobString(p, root); ok && r.Intn(2) == 0 {
			expL, _ := expected(p, root, false)
			var got []string
			glob.Glob(s, func(pi glob.PathInfo) bool {
				got = append(got, pi.Path)
				return true
			})
			c.Count("glob_string_calls", 1)
			c.Evals(1)
			judge(c, "string", p, "glob.Glob("+mon.Q(s)+")", expL, outcome{paths: got}, false, nil)
		}
	}
}

// runAlternatives compounds the wildcard pattern with a braced list in place
// of one literal piece: the expression stands for one pattern per alternative
// ("all possible combinations"), each expanded on its own; a pattern without
// match raises unless nomatch-ok.
func runAlternatives(c *mon.Case, p0 *pattern, root string, entries []entry) {
	r := c.Rand
	p := clonePattern(p0)
	type pos struct{ c, i int }
	var lits []pos
	for ci, comp := range p.Comps {
		if !hasWild(comp) {
			continue
		}
		for i, pc := range comp {
			if pc.Kind == wLit {
				lits = append(lits, pos{ci, i})
			}
		}
	}
	if len(lits) == 0 {
		return
	}
	at := lits[r.Intn(len(lits))]
	pc := &p.Comps[at.c][at.i]
	alts := []string{pc.Lit}
	for n := 1 + r.Intn(2); n > 0; n-- {
		switch r.Intn(4) {
		case 0:
			alts = append(alts, "")
		case 1:
			alts = append(alts, pc.Lit) // the same alternative twice: every match is listed twice
		default:
			name := []rune(filepath.Base(entries[r.Intn(len(entries))].rel))
			i := r.Intn(len(name))
			j := i + 1 + r.Intn(len(name)-i)
			if j > i+3 {
				j = i + 3
			}
			alts = append(alts, string(name[i:j]))
		}
	}
	r.Shuffle(len(alts), func(i, j int) { alts[i], alts[j] = alts[j], alts[i] })
	pc.Alts = alts
	code := "put " + renderElvish(r, p, root, false)
	mustN, mayN := map[string]int{}, map[string]int{}
	mustRaise, mayRaise := false, false
	for _, a := range alts {
		q := clonePattern(p)
		q.Comps[at.c][at.i].Lit, q.Comps[at.c][at.i].Alts = a, nil
		exp, _ := expected(q, root, true)
		nMust := 0
		for path, must := range exp {
			mayN[path]++
			if must {
				mustN[path]++
				nMust++
			}
		}
		if !p.NoOK {
			if len(exp) == 0 {
				mustRaise = true
			} else if nMust == 0 {
				mayRaise = true
			}
		}
	}
	o := evalPattern(code)
	c.Evals(1)
	c.Count("alternative_expansions", 1)
	wit := map[string]any{"code": code, "alternatives": quoteAll(alts), "got": quoteAll(o.paths), "got_no_match_error": o.noMatch,
		"demanded_counts": mustN, "allowed_counts": mayN, "tree": listTree()}
	switch {
	case o.err != nil:
		c.Violation("alt:unexpected-error", fmt.Sprintf("%s raised %v", code, o.err), wit)
	case o.noMatch && !mustRaise && !mayRaise:
		sig := "alt:raised"
		if featuresOf(p0).rsas {
			sig = "alt:missing:restricted-star-after-star"
		}
		c.Violation(sig, code+" raised 'wildcard has no match' although every alternative has a match (or nomatch-ok)", wit)
	case !o.noMatch && mustRaise:
		c.Violation("alt:no-match-not-raised", code+" did not raise although one alternative matches nothing", wit)
	case !o.noMatch:
		if mustRaise || mayRaise {
			return
		}
		c.Count("alternative_expansions_compared", 1)
		f := featuresOf(p0)
		gotN := map[string]int{}
		for _, s := range o.paths {
			gotN[s]++
		}
		for s, n := range mustN {
			if gotN[s] < n {
				sig := "alt:missing:" + f.class(s)
				if f.rsas {
					sig = "alt:missing:restricted-star-after-star"
				}
				c.Violation(sig, fmt.Sprintf("%s yields %s %d times, expected at least %d times", code, mon.Q(s), gotN[s], n), wit)
				return
			}
		}
		for s, n := range gotN {
			if n > mayN[s] {
				sig := "alt:extra:" + f.class(s)
				if f.multiSS && mayN[s] > 0 {
					sig = "alt:duplicate:multi-starstar"
				}
				c.Violation(sig, fmt.Sprintf("%s yields %s %d times, expected at most %d times", code, mon.Q(s), n, mayN[s]), wit)
				return
			}
		}
	}
}

// ---------------------------------------------------------------------------
// reuse: the same wildcard expression (inside a function) is expanded several
// times with different modifiers passed as arguments. Every expansion must
// follow its own modifiers only.

var slotMods = []string{"nomatch-ok", "nomatch-ok", "match-hidden", "match-hidden", "set:a", "set:b1", "set:.ab", "digit", "letter", "lower", "punct", "range:a-b", "range:0~2"}

func applyMod(p *pattern, pc *piece, m string) {
	switch {
	case m == "nomatch-ok":
		p.NoOK = true
	case m == "match-hidden":
		pc.Hidden = true
	case strings.HasPrefix(m, "type:"):
		p.Type = m[5:]
	case strings.HasPrefix(m, "but:"):
		p.Buts = append(p.Buts, m[4:])
	default:
		pc.Matchers = append(pc.Matchers, matcher{m})
	}
}

func runReuse(c *mon.Case) {
	root, entries, cleanup := setupTree(c)
	if root == "" {
		return
	}
	defer cleanup()
	r := c.Rand
	for round := 0; round < 6; round++ {
		// skeleton: the pattern without any modifier
		var skel *pattern
		for {
			skel = genPattern(r, entries)
			skel.NoOK, skel.Type, skel.Buts = false, "", nil
			n := 0
			for ci := range skel.Comps {
				for i := range skel.Comps[ci] {
					pc := &skel.Comps[ci][i]
					pc.Hidden, pc.Matchers, pc.Globals = false, nil, nil
					if pc.Kind != wLit {
						n++
					}
				}
			}
			if n >= 1 && n <= 5 {
				break
			}
		}
		var slots []int // kind of the wildcard of each slot
		for _, comp := range skel.Comps {
			for _, pc := range comp {
				if pc.Kind != wLit {
					slots = append(slots, pc.Kind)
				}
			}
		}
		var params []string
		for i := range slots {
			params = append(params, fmt.Sprintf("m%d", i))
		}
		body := renderElvish(r, skel, root, true)
		def := "fn c23w {|" + strings.Join(params, " ") + "| put " + body + " }"
		if res := elv.Eval(ev, def); res.Err != nil {
			c.Violation("reuse:definition-error", fmt.Sprintf("%s raised %v", def, res.Err), nil)
			return
		}
		calls := 3 + r.Intn(4)
		for k := 0; k < calls; k++ {
			p := clonePattern(skel)
			args := make([]string, len(slots))
			typed := false
			si := 0
			for ci := range p.Comps {
				for i := range p.Comps[ci] {
					pc := &p.Comps[ci][i]
					if pc.Kind == wLit {
						continue
					}
					var m string
					for {
						m = slotMods[r.Intn(len(slotMods))]
						if r.Intn(12) == 0 && !typed {
							m = []string{"type:dir", "type:regular"}[r.Intn(2)]
							typed = true
						}
						if pc.Kind == wStarStar && m != "nomatch-ok" && m != "match-hidden" && !strings.HasPrefix(m, "type:") {
							continue // no character matchers on "**" (see Assumptions)
						}
						break
					}
					args[si] = m
					si++
					applyMod(p, pc, m)
				}
			}
			exp, g := expected(p, root, true)
			countFeatures(c, p, exp, g)
			var qargs []string
			for _, a := range args {
				qargs = append(qargs, quoteElv(nil, a))
			}
			code := "c23w " + strings.Join(qargs, " ")
			o := evalPattern(code)
			c.Evals(1)
			c.Count("reuse_calls", 1)
			if k > 0 {
				c.Count("reuse_calls_after_first", 1)
			}
			if !sameAsExpected(o, exp, p) {
				// Does a fresh compilation of the same expression, with the same
				// modifiers written literally, behave differently? Then the
				// function body remembered something from an earlier call.
				fresh := "put " + renderElvish(r, p2(p, r), root, false)
				of := evalPattern(fresh)
				extra := map[string]any{"definition": def, "args": args, "call_number": k + 1, "fresh_code": fresh,
					"fresh_got": quoteAll(of.paths), "fresh_no_match_error": of.noMatch}
				if k > 0 && !sameOutcome(o, of) {
					c.Violation("reuse:modifier-state-leak",
						fmt.Sprintf("call %d of %s with modifiers %v yields %v (no-match error: %v); the same expression compiled afresh yields %v",
							k+1, def, args, quoteAll(o.paths), o.noMatch, quoteAll(of.paths)), map[string]any{"definition": def, "args": args,
							"got": quoteAll(o.paths), "got_no_match_error": o.noMatch, "fresh_code": fresh, "fresh_got": quoteAll(of.paths),
							"must": quoteAll(sortedKeys(exp, true)), "may": quoteAll(sortedKeys(exp, false)), "tree": listTree()})
					break // later calls of this function are tainted as well
				}
				judge(c, "reuse", p, code, exp, o, true, extra)
				continue
			}
			if len(sortedKeys(exp, true)) > 0 {
				c.Nontrivial(def, code, sortedKeys(exp, true))
			}
		}
	}
}

// p2 attaches the global modifiers of p to wildcards for literal rendering.
func p2(p *pattern, r interface{ Intn(int) int }) *pattern {
	q := clonePattern(p)
	type pos struct{ c, i int }
	var ws []pos
	for ci := range q.Comps {
		for i := range q.Comps[ci] {
			if q.Comps[ci][i].Kind != wLit {
				ws = append(ws, pos{ci, i})
			}
		}
	}
	put := func(s string) {
		w := ws[r.Intn(len(ws))]
		q.Comps[w.c][w.i].Globals = append(q.Comps[w.c][w.i].Globals, s)
	}
	if q.NoOK {
		put("nomatch-ok")
	}
	if q.Type != "" {
		put("type:" + q.Type)
	}
	for _, b := range q.Buts {
		put("but:" + b)
	}
	return q
}

func clonePattern(p *pattern) *pattern {
	q := &pattern{Base: p.Base, Type: p.Type, NoOK: p.NoOK, Buts: append([]string(nil), p.Buts...)}
	for _, comp := range p.Comps {
		var nc []piece
		for _, pc := range comp {
			pc.Matchers = append([]matcher(nil), pc.Matchers...)
			pc.Globals = append([]string(nil), pc.Globals...)
			nc = append(nc, pc)
		}
		q.Comps = append(q.Comps, nc)
	}
	return q
}

func sameOutcome(a, b outcome) bool {
	if a.noMatch != b.noMatch || (a.err == nil) != (b.err == nil) || len(a.paths) != len(b.paths) {
		return false
	}
	x, y := append([]string(nil), a.paths...), append([]string(nil), b.paths...)
	sort.Strings(x)
	sort.Strings(y)
	for i := range x {
		if x[i] != y[i] {
			return false
		}
	}
	return true
}

// sameAsExpected: outcome within must ⊆ got ⊆ may, no duplicates, right no-match behaviour.
func sameAsExpected(o outcome, exp expectation, p *pattern) bool {
	if o.err != nil {
		return false
	}
	seen := map[string]bool{}
	for _, s := range o.paths {
		if _, ok := exp[s]; !ok || seen[s] {
			return false
		}
		seen[s] = true
	}
	for s, must := range exp {
		if must && !seen[s] {
			return false
		}
	}
	if o.noMatch && p.NoOK {
		return false
	}
	if !o.noMatch && len(o.paths) == 0 && !p.NoOK {
		return false
	}
	return true
}

func Spec() *mon.Spec {
	return &mon.Spec{
		ID: "C23", Level: "exploration",
		Rule: "case = one generated directory tree (<= 40 entries, depth <= 4; files, directories, fifos, symlinks to files/directories/nowhere; hidden names at every depth, names with spaces, unicode, control characters, glob and shell metacharacters, leading '-') with cwd inside it; 'tree' phase: 30 patterns derived from the tree's own paths (substrings replaced by ?, *, **, with match-hidden / set: / range: / class matchers, several ** per pattern, '.' and '..' components, trailing slash, absolute and ~/ variants, but:/type:/nomatch-ok, deliberately non-matching variants), each expanded (1) as an Elvish expression, (2) by glob.Pattern.Glob on the same segments, (3) by glob.Glob on the pattern string, (4) with one literal piece replaced by a braced list of alternatives (one pattern per alternative, multiset comparison), and compared as a set (+ duplicate check, + no-match exception) with refglob, a backtracking matcher over the real tree written from language.md; 'reuse' phase: a function whose wildcard modifiers are arguments is called 3-6 times with different modifiers, every call compared with refglob. Non-trivial = expansion whose demanded result set is non-empty; distinct by expression text + expected set.",
		Assumptions: []string{
			"'.' and '..' are not filenames a wildcard can match; they are reachable through literal components only (the reference never lists them as matches)",
			"a component without wildcards is resolved like a path component (symlinks to directories are followed); whether a wildcard component that matched a symlink to a directory is descended into is left open by the reference: such paths are allowed, not demanded",
			"leading-dot rule: a path is demanded only if it matches under both readings (the wildcard consuming the dot needs match-hidden / the pattern piece aligned with the start of a hidden filename must be a literal or a match-hidden wildcard) and allowed under either; they differ only when an empty-matching wildcard sits at the start of a filename",
			"type: on symbolic links: the reference says links count as regular files, lstat says neither; both outcomes accepted",
			"but:xxx removes results equal to xxx as strings; results that name the same file with another spelling are allowed either way",
			"not generated: character matchers on '**' (may a restricted '**' match '/'?), several modifiers inside one bracket pair (reference: 'behavior is likely to change'), '//' inside patterns, names that are not valid UTF-8, unreadable directories",
			"result order is unspecified and ignored",
		},
		ChildSetup: childSetup,
		Phases: []mon.Phase{
			{Name: "tree", Quick: 2400, Thorough: 30000, Run: runTree, Batch: 150},
			{Name: "reuse", Quick: 600, Thorough: 8000, Run: runReuse, Batch: 40},
		},
		Floors: map[string]int{
			"distinct_nontrivial": 15000, "patterns": 25000, "pat_starstar": 8000, "pat_multi_starstar": 800,
			"pat_match_hidden": 6000, "pat_char_matchers": 8000, "pat_dot_or_dotdot_component": 3000, "pat_but": 3000,
			"pat_type": 2500, "pat_nomatch_ok": 3000, "pat_absolute": 1000, "pat_tilde": 700, "pat_trailing_slash": 800,
			"pat_adjacent_wildcards": 5000, "pat_restricted_star_after_star": 1500, "expect_hidden_path": 5000,
			"expect_deep_path_via_starstar": 3000, "expect_no_match": 3000, "expect_no_match_with_nomatch_ok": 500,
			"got_no_match_exception": 2000, "direct_glob_calls": 10000, "direct_glob_interrupted": 800,
			"glob_string_calls": 2500, "reuse_calls_after_first": 600, "alternative_expansions_compared": 800,
			"tree_symlinks": 1000, "tree_hidden_entries": 3000,
		},
	}
}
