package c23

import (
	"math/rand"
	"strconv"
	"strings"
	"unicode"

	"src.elv.sh/pkg/glob"
)

// ---------------------------------------------------------------------------
// generation of patterns from the names in the tree

var classNames = []string{"control", "digit", "graphic", "letter", "lower", "mark", "number", "print", "punct", "space", "symbol", "title", "upper"}

// matcherFor returns a matcher that (usually) accepts all of rs.
func matcherFor(r *rand.Rand, rs []rune) matcher {
	if len(rs) == 0 {
		rs = []rune{'a'}
	}
	switch r.Intn(25) {
	case 0, 1, 2, 3, 4, 5, 6, 7: // a class that accepts every rune, if there is one
		perm := r.Perm(len(classNames))
		for _, i := range perm {
			ok := true
			for _, c := range rs {
				if !classFns[classNames[i]](c) {
					ok = false
					break
				}
			}
			if ok {
				return matcher{classNames[i]}
			}
		}
		fallthrough
	case 8, 9, 10, 11, 12, 13, 14, 15: // set of the runes plus noise
		set := string(rs)
		noise := []rune("ab12.-/é*")
		for i := r.Intn(3); i > 0; i-- {
			set += string(noise[r.Intn(len(noise))])
		}
		return matcher{"set:" + dedupeRunes(set)}
	case 16, 17, 18, 19, 20, 21, 22: // range covering the runes
		lo, hi := rs[0], rs[0]
		for _, c := range rs {
			if c < lo {
				lo = c
			}
			if c > hi {
				hi = c
			}
		}
		if r.Intn(2) == 0 {
			return matcher{"range:" + string(lo) + "-" + string(hi)}
		}
		// exclusive upper bound: sometimes exactly hi (excludes it), sometimes hi+1
		if r.Intn(5) == 0 {
			return matcher{"range:" + string(lo) + "~" + string(hi)}
		}
		return matcher{"range:" + string(lo) + "~" + string(hi+1)}
	case 23: // unrelated class
		return matcher{classNames[r.Intn(len(classNames))]}
	default: // unrelated set
		return matcher{"set:" + []string{"a", "ab", "1", "12", ".", ".a", "b-", "a/b", "é日"}[r.Intn(9)]}
	}
}

func dedupeRunes(s string) string {
	var out []rune
	seen := map[rune]bool{}
	for _, c := range s {
		if c == utf8Bad || seen[c] {
			continue
		}
		seen[c] = true
		out = append(out, c)
	}
	return string(out)
}

const utf8Bad = unicode.ReplacementChar

// wildFor builds a wildcard of the given kind replacing the runes rs, which
// start a name iff atStart.
func wildFor(r *rand.Rand, kind int, rs []rune, atStart bool) piece {
	p := piece{Kind: kind}
	coversDot := atStart && len(rs) > 0 && rs[0] == '.'
	switch {
	case coversDot && r.Intn(100) < 80, !coversDot && r.Intn(100) < 8:
		p.Hidden = true
	}
	if kind != wStarStar && r.Intn(100) < 35 {
		p.Matchers = append(p.Matchers, matcherFor(r, rs))
		for r.Intn(4) == 0 {
			p.Matchers = append(p.Matchers, matcherFor(r, rs))
		}
	}
	return p
}

// wildName turns one name into pieces, replacing random substrings by wildcards.
func wildName(r *rand.Rand, name string) []piece {
	rs := []rune(name)
	switch k := r.Intn(100); {
	case k < 22:
		return []piece{{Kind: wLit, Lit: name}}
	case k < 36:
		return []piece{wildFor(r, wStar, rs, true)}
	}
	var out []piece
	addLit := func(s string) {
		if s == "" {
			return
		}
		if n := len(out); n > 0 && out[n-1].Kind == wLit {
			out[n-1].Lit += s
			return
		}
		out = append(out, piece{Kind: wLit, Lit: s})
	}
	for i := 0; i < len(rs); {
		switch k := r.Intn(100); {
		case k < 45:
			n := 1 + r.Intn(3)
			if i+n > len(rs) {
				n = len(rs) - i
			}
			addLit(string(rs[i : i+n]))
			i += n
		case k < 65:
			out = append(out, wildFor(r, wQuestion, rs[i:i+1], i == 0))
			i++
		default:
			n := r.Intn(4)
			if i+n > len(rs) {
				n = len(rs) - i
			}
			out = append(out, wildFor(r, wStar, rs[i:i+n], i == 0))
			i += n
		}
	}
	if r.Intn(6) == 0 {
		out = append(out, wildFor(r, wStar, nil, false))
	}
	return out
}

// backtrackComp builds a component of the shape the coordinator asked for:
// stars (some restricted) separated by short literals taken from the name.
func backtrackComp(r *rand.Rand, name string) []piece {
	rs := []rune(name)
	var out []piece
	i := 0
	for i < len(rs) {
		// star covering 0..2 runes
		n := r.Intn(3)
		if i+n >= len(rs) {
			n = len(rs) - i - 1
			if n < 0 {
				n = 0
			}
		}
		st := piece{Kind: wStar}
		if len(rs) > 0 && rs[0] == '.' && i == 0 && r.Intn(4) > 0 {
			st.Hidden = true
		}
		if r.Intn(2) == 0 {
			st.Matchers = []matcher{matcherFor(r, rs[i:i+n])}
		}
		out = append(out, st)
		i += n
		if i < len(rs) {
			out = append(out, piece{Kind: wLit, Lit: string(rs[i : i+1])})
			i++
		}
	}
	if r.Intn(3) == 0 {
		out = append(out, piece{Kind: wStar})
	}
	return out
}

// restrictedStarAfterStar reports whether some component contains a star with
// character matchers that is preceded, in the same component, by another star.
func restrictedStarAfterStar(p *pattern) bool {
	for _, comp := range p.Comps {
		star := false
		for _, pc := range comp {
			if pc.Kind == wStar || pc.Kind == wStarStar {
				if star && len(pc.Matchers) > 0 {
					return true
				}
				star = true
			}
		}
	}
	return false
}

func countStarStar(p *pattern) int {
	n := 0
	for _, comp := range p.Comps {
		for _, pc := range comp {
			if pc.Kind == wStarStar {
				n++
			}
		}
	}
	return n
}

func lit(s string) []piece { return []piece{{Kind: wLit, Lit: s}} }

// genPattern derives a pattern from the tree entries. Most patterns are built
// from one existing path so that they match something.
func genPattern(r *rand.Rand, entries []entry) *pattern {
	p := &pattern{}
	targetKind := ""
	// templates built mostly from "**"
	if r.Intn(100) < 10 || len(entries) == 0 {
		ss := func() piece { return wildFor(r, wStarStar, []rune("."), r.Intn(3) == 0) }
		st := func() piece { return wildFor(r, wStar, []rune("a"), false) }
		someRune := "a"
		if len(entries) > 0 {
			rs := []rune(entries[r.Intn(len(entries))].rel)
			someRune = string(rs[r.Intn(len(rs))])
			if someRune == "/" {
				someRune = "a"
			}
		}
		switch r.Intn(9) {
		case 0:
			p.Comps = [][]piece{{ss()}}
		case 1:
			p.Comps = [][]piece{{ss()}, {ss()}}
		case 2:
			p.Comps = [][]piece{{ss()}, {st()}}
		case 3:
			p.Comps = [][]piece{{st()}, {ss()}}
		case 4:
			p.Comps = [][]piece{{ss(), {Kind: wLit, Lit: someRune}, ss()}}
		case 5:
			p.Comps = [][]piece{{st()}, {ss()}, {st()}}
		case 6:
			p.Comps = [][]piece{{ss()}, lit("..")}
		case 7:
			p.Comps = [][]piece{{ss(), {Kind: wLit, Lit: someRune}}}
		default:
			p.Comps = [][]piece{{{Kind: wLit, Lit: someRune}, ss()}, {st()}}
		}
	} else {
		e := entries[r.Intn(len(entries))]
		targetKind = e.kind
		names := strings.Split(e.rel, "/")
		comps := make([][]piece, len(names))
		bt := r.Intn(100) < 12
		for i, n := range names {
			if bt && (i == len(names)-1 || r.Intn(3) == 0) {
				comps[i] = backtrackComp(r, n)
			} else {
				comps[i] = wildName(r, n)
			}
		}
		// collapse a span of components into one containing "**"
		for tries := 0; tries < 2; tries++ {
			if r.Intn(100) >= 22 || len(comps) == 0 {
				continue
			}
			i := r.Intn(len(comps))
			j := i + r.Intn(len(comps)-i)
			var nc []piece
			k1 := 0
			if r.Intn(2) == 0 { // keep a prefix of component i
				k1 = r.Intn(len(comps[i]) + 1)
				nc = append(nc, comps[i][:k1]...)
			}
			firstRunes := []rune(names[i])
			nc = append(nc, wildFor(r, wStarStar, firstRunes, len(nc) == 0))
			if r.Intn(2) == 0 { // keep a suffix of component j
				k := r.Intn(len(comps[j]) + 1)
				if i == j && k < k1 && r.Intn(8) > 0 {
					k = k1 // prefix and suffix of the same name should not overlap (usually)
				}
				nc = append(nc, comps[j][k:]...)
			}
			// hidden names further down are only reachable with match-hidden
			for _, n := range names[i : j+1] {
				if strings.HasPrefix(n, ".") && r.Intn(4) > 0 {
					for x := range nc {
						if nc[x].Kind == wStarStar {
							nc[x].Hidden = true
						}
					}
				}
			}
			comps = append(append(append([][]piece{}, comps[:i]...), nc), comps[j+1:]...)
			names = append(append(append([]string{}, names[:i]...), "*"), names[j+1:]...)
		}
		// "." and ".." components
		for tries := 0; tries < 2; tries++ {
			if r.Intn(100) >= 12 {
				continue
			}
			at := r.Intn(len(comps)) // insert before component at (so the path up to there is a directory)
			var ins [][]piece
			switch {
			case r.Intn(3) == 0:
				ins = [][]piece{lit(".")}
			case at > 0:
				ins = [][]piece{lit(".."), append([]piece(nil), comps[at-1]...)}
			default:
				ins = [][]piece{lit(".")}
			}
			comps = append(append(append([][]piece{}, comps[:at]...), ins...), comps[at:]...)
		}
		// make sure there is at least one wildcard
		any := false
		for _, c := range comps {
			any = any || hasWild(c)
		}
		if !any {
			i := r.Intn(len(comps))
			for litOf(comps[i]) == "." || litOf(comps[i]) == ".." {
				i = r.Intn(len(comps))
			}
			comps[i] = []piece{wildFor(r, wStar, []rune(litOf(comps[i])), true)}
		}
		// occasionally break a literal so that the pattern matches nothing
		if r.Intn(100) < 7 {
			i := r.Intn(len(comps))
			for x := range comps[i] {
				if comps[i][x].Kind == wLit && comps[i][x].Lit != "." && comps[i][x].Lit != ".." {
					comps[i][x].Lit += "q"
					break
				}
			}
		}
		if e.kind == "dir" && r.Intn(100) < 12 || r.Intn(100) < 2 {
			comps = append(comps, nil) // trailing slash
		}
		p.Comps = comps
	}
	// leading "../" once (the parent of the tree root belongs to the case)
	if r.Intn(100) < 4 {
		switch r.Intn(4) {
		case 0:
			p.Comps = append([][]piece{lit("..")}, p.Comps...)
		case 1:
			p.Comps = append([][]piece{lit(".."), {wildFor(r, wStar, []rune("w"), true)}}, p.Comps...)
		default: // the tree root is called "w"
			p.Comps = append([][]piece{lit(".."), lit("w")}, p.Comps...)
		}
	}
	switch k := r.Intn(100); {
	case k < 6:
		p.Base = "abs"
	case k < 10:
		p.Base = "tilde"
	}
	if r.Intn(100) < 14 {
		p.NoOK = true
	}
	if r.Intn(100) < 14 {
		p.Type = []string{"dir", "regular"}[r.Intn(2)]
		if r.Intn(4) > 0 {
			switch targetKind {
			case "dir":
				p.Type = "dir"
			case "file":
				p.Type = "regular"
			}
		}
	}
	return p
}

// attachGlobals distributes the global modifiers over random wildcards.
func attachGlobals(r *rand.Rand, p *pattern) {
	type pos struct{ c, i int }
	var ws []pos
	for c := range p.Comps {
		for i := range p.Comps[c] {
			p.Comps[c][i].Globals = nil
			if p.Comps[c][i].Kind != wLit {
				ws = append(ws, pos{c, i})
			}
		}
	}
	put := func(s string) {
		w := ws[r.Intn(len(ws))]
		pc := &p.Comps[w.c][w.i]
		pc.Globals = append(pc.Globals, s)
	}
	if p.NoOK {
		put("nomatch-ok")
	}
	if p.Type != "" {
		put("type:" + p.Type)
	}
	for _, b := range p.Buts {
		put("but:" + b)
	}
}

// ---------------------------------------------------------------------------
// rendering

func bareSafe(s string) bool {
	if s == "" {
		return false
	}
	for _, c := range s {
		switch {
		case 'a' <= c && c <= 'z', 'A' <= c && c <= 'Z', '0' <= c && c <= '9', c == '_', c == '.', c == '-', c == '/':
		default:
			return false
		}
	}
	return true
}

func quoteElv(r *rand.Rand, s string) string {
	if r != nil && r.Intn(4) == 0 {
		// double-quoted form
		var sb strings.Builder
		sb.WriteByte('"')
		for _, c := range s {
			switch {
			case c == '"' || c == '\\':
				sb.WriteByte('\\')
				sb.WriteRune(c)
			case c < 0x20 || c == 0x7f:
				sb.WriteString("\\x")
				sb.WriteByte("0123456789abcdef"[c>>4])
				sb.WriteByte("0123456789abcdef"[c&15])
			default:
				sb.WriteRune(c)
			}
		}
		sb.WriteByte('"')
		return sb.String()
	}
	return "'" + strings.ReplaceAll(s, "'", "''") + "'"
}

func renderLit(r *rand.Rand, s string) string {
	if bareSafe(s) && r.Intn(5) > 0 {
		return s
	}
	return quoteElv(r, s)
}

func modSafe(s string) bool {
	for _, c := range s {
		switch {
		case 'a' <= c && c <= 'z', 'A' <= c && c <= 'Z', '0' <= c && c <= '9', c == '_', c == '.', c == '-', c == ':':
		default:
			return false
		}
	}
	return s != ""
}

func renderMod(r *rand.Rand, s string) string {
	if modSafe(s) && r.Intn(6) > 0 {
		return "[" + s + "]"
	}
	return "[" + quoteElv(r, s) + "]"
}

func wildText(k int) string {
	return []string{"", "?", "*", "**"}[k]
}

// modsOf lists the modifiers of a wildcard in a random order.
func modsOf(r *rand.Rand, pc piece) []string {
	var ms []string
	if pc.Hidden {
		ms = append(ms, "match-hidden")
	}
	for _, m := range pc.Matchers {
		ms = append(ms, m.Text)
	}
	ms = append(ms, pc.Globals...)
	r.Shuffle(len(ms), func(i, j int) { ms[i], ms[j] = ms[j], ms[i] })
	return ms
}

// renderElvish writes the pattern as an Elvish compound expression. With
// slots, the modifiers of the K-th wildcard are not written; "[$mK]" is
// written instead (see the reuse phase).
func renderElvish(r *rand.Rand, p *pattern, absDir string, slots bool) string {
	slot := 0
	bareStar := false
	var sb strings.Builder
	run := ""
	flush := func() {
		if run != "" {
			sb.WriteString(renderLit(r, run))
			run = ""
		}
	}
	switch p.Base {
	case "abs":
		run = absDir + "/"
	case "tilde":
		sb.WriteString("~")
		run = "/"
	}
	for ci, comp := range p.Comps {
		if ci > 0 {
			run += "/"
		}
		for _, pc := range comp {
			if pc.Kind == wLit && pc.Alts != nil {
				flush()
				sb.WriteString("{")
				for i, a := range pc.Alts {
					if i > 0 {
						sb.WriteString([]string{",", " ", ", "}[r.Intn(3)])
					}
					sb.WriteString(quoteElv(r, a))
				}
				sb.WriteString("}")
				bareStar = false
				continue
			}
			if pc.Kind == wLit {
				run += pc.Lit
				continue
			}
			if run == "" && bareStar && pc.Kind != wQuestion {
				// "*" directly followed by "*" would be read as "**"
				sb.WriteString("''")
			}
			flush()
			sb.WriteString(wildText(pc.Kind))
			bareStar = false
			if slots {
				sb.WriteString("[$m" + strconv.Itoa(slot) + "]")
				slot++
				continue
			}
			ms := modsOf(r, pc)
			for _, m := range ms {
				sb.WriteString(renderMod(r, m))
			}
			bareStar = len(ms) == 0 && pc.Kind != wQuestion
		}
	}
	flush()
	return sb.String()
}

// toGlobPattern builds the pkg/glob pattern for the same expression (local
// modifiers only).
func toGlobPattern(p *pattern, absDir string) glob.Pattern {
	var segs []glob.Segment
	gp := glob.Pattern{}
	addLit := func(s string) {
		if s == "" {
			return
		}
		if n := len(segs); n > 0 {
			if l, ok := segs[n-1].(glob.Literal); ok {
				segs[n-1] = glob.Literal{Data: l.Data + s}
				return
			}
		}
		segs = append(segs, glob.Literal{Data: s})
	}
	switch p.Base {
	case "abs":
		for _, c := range strings.Split(absDir, "/") {
			if c == "" {
				segs = append(segs, glob.Slash{})
				continue
			}
			addLit(c)
			segs = append(segs, glob.Slash{})
		}
	case "tilde":
		gp.DirOverride = absDir
		segs = append(segs, glob.Slash{})
	}
	for ci, comp := range p.Comps {
		if ci > 0 {
			segs = append(segs, glob.Slash{})
		}
		for _, pc := range comp {
			if pc.Kind == wLit {
				addLit(pc.Lit)
				continue
			}
			w := glob.Wild{MatchHidden: pc.Hidden}
			switch pc.Kind {
			case wQuestion:
				w.Type = glob.Question
			case wStar:
				w.Type = glob.Star
			default:
				w.Type = glob.StarStar
			}
			for _, m := range pc.Matchers {
				w.Matchers = append(w.Matchers, m.match)
			}
			segs = append(segs, w)
		}
	}
	gp.Segments = segs
	return gp
}

// toGlobString renders the pattern in the string syntax of glob.Parse; ok is
// false when the pattern cannot be expressed (modifiers, metacharacters in
// literals, adjacent stars that would merge).
func toGlobString(p *pattern, absDir string) (string, bool) {
	if p.Base == "tilde" {
		return "", false
	}
	var sb strings.Builder
	if p.Base == "abs" {
		sb.WriteString(absDir + "/")
	}
	prevStar := false
	for ci, comp := range p.Comps {
		if ci > 0 {
			sb.WriteByte('/')
			prevStar = false
		}
		for _, pc := range comp {
			if pc.Kind == wLit {
				if strings.ContainsAny(pc.Lit, "*?\\") {
					return "", false
				}
				sb.WriteString(pc.Lit)
				prevStar = false
				continue
			}
			if pc.Hidden || len(pc.Matchers) > 0 {
				return "", false
			}
			isStar := pc.Kind != wQuestion
			if isStar && prevStar {
				return "", false
			}
			sb.WriteString(wildText(pc.Kind))
			prevStar = isStar
		}
	}
	return sb.String(), true
}

func (p *pattern) describe() string {
	return renderElvish(rand.New(rand.NewSource(1)), p, "<cwd>", false)
}
