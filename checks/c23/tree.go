package c23

import (
	"math/rand"
	"os"
	"path/filepath"
	"sort"
	"syscall"
)

// entry is one generated file-system entry (used only to derive patterns;
// the oracle looks at the real file system, never at this list).
type entry struct {
	rel  string // path relative to the tree root, no trailing slash
	kind string // dir | file | symlink-file | symlink-dir | symlink-dangling | fifo
}

// Names that are deliberately ambiguous for a matcher: a tiny alphabet, so
// that most literal pieces occur at several offsets of a name.
func ambiguousName(r *rand.Rand) string {
	const alpha = "aab112.-"
	n := 1 + r.Intn(5)
	b := make([]byte, n)
	for i := range b {
		b[i] = alpha[r.Intn(len(alpha))]
	}
	s := string(b)
	if s == "." || s == ".." {
		s += "a"
	}
	return s
}

var specialNames = []string{
	"a1ab", "aab1b", "a1b", "ab1ab", "1a1b", "a12ab", "ax.conf", ".x.conf", "foo.cc", "a.cc", "y.cc",
	"...", "..a", ".a.", "a..b", ".a", ".1", ".ab", ".-",
	"a b", " a", "a ", " ", "a  b",
	"é", "日本", "ñ1", "á", "ǅ", "١", "Ⅷ", "€", " ", "a\x01", "É1", "日.本",
	"*", "?", "[a]", "a*b", "**", "\\", "a\\b", "{a,b}", "~", "~a", "$x", "'q'", "\"", "#c", "&", ";", "|", "(x)", "[", "]", "a?",
	"-a", "--", "-", "-1",
	"A", "B1", "Ab", "a_b", "1", "12", "2a",
}

func randomName(r *rand.Rand) string {
	if r.Intn(10) < 6 {
		s := ambiguousName(r)
		if r.Intn(4) == 0 && s[0] != '.' {
			s = "." + s
		}
		return s
	}
	return specialNames[r.Intn(len(specialNames))]
}

// genTree creates a random tree below root (which must exist and be empty)
// and returns its entries sorted by path.
func genTree(r *rand.Rand, root string) []entry {
	var entries []entry
	budget := 6 + r.Intn(35)
	maxDepth := 1 + r.Intn(4)
	var dirs []string // relative paths of directories ("" = root)
	var fill func(rel string, depth int)
	fill = func(rel string, depth int) {
		dirs = append(dirs, rel)
		n := 1 + r.Intn(8)
		if depth == 0 {
			n += 2
		}
		seen := map[string]bool{}
		for i := 0; i < n && budget > 0; i++ {
			name := randomName(r)
			if seen[name] {
				continue
			}
			seen[name] = true
			budget--
			p := name
			if rel != "" {
				p = rel + "/" + name
			}
			full := filepath.Join(root, p)
			k := r.Intn(100)
			switch {
			case k < 38-6*depth && depth < maxDepth:
				if os.Mkdir(full, 0o755) == nil {
					entries = append(entries, entry{p, "dir"})
					fill(p, depth+1)
				}
			case k < 88:
				if os.WriteFile(full, nil, 0o644) == nil {
					entries = append(entries, entry{p, "file"})
				}
			case k < 98:
				entries = append(entries, entry{p, "symlink"}) // target chosen below
			default:
				if syscall.Mkfifo(full, 0o644) == nil {
					entries = append(entries, entry{p, "fifo"})
				}
			}
		}
	}
	fill("", 0)
	// Resolve symlinks now that the whole tree is known. Targets are never
	// ancestors of the link (no cycles through "..").
	var files, ds []string
	for _, e := range entries {
		switch e.kind {
		case "file":
			files = append(files, e.rel)
		case "dir":
			ds = append(ds, e.rel)
		}
	}
	for i := range entries {
		e := &entries[i]
		if e.kind != "symlink" {
			continue
		}
		full := filepath.Join(root, e.rel)
		linkDir := filepath.Dir(full)
		var target string
		switch k := r.Intn(3); {
		case k == 0 && len(files) > 0:
			target = files[r.Intn(len(files))]
			e.kind = "symlink-file"
		case k == 1 && len(ds) > 0:
			// pick a directory that is not an ancestor of the link
			var cands []string
			for _, d := range ds {
				if len(e.rel) > len(d) && e.rel[:len(d)] == d && e.rel[len(d)] == '/' {
					continue
				}
				cands = append(cands, d)
			}
			if len(cands) > 0 {
				target = cands[r.Intn(len(cands))]
				e.kind = "symlink-dir"
			}
		}
		if target == "" {
			e.kind = "symlink-dangling"
			os.Symlink("no-such-target", full)
			continue
		}
		relTarget, err := filepath.Rel(linkDir, filepath.Join(root, target))
		if err != nil || r.Intn(4) == 0 {
			relTarget = filepath.Join(root, target) // absolute target
		}
		os.Symlink(relTarget, full)
	}
	sort.Slice(entries, func(i, j int) bool { return entries[i].rel < entries[j].rel })
	return entries
}
