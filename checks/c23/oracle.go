package c23

// refglob: a declarative reference for wildcard expansion, written from
// website/ref/language.md § "Wildcard expansion". It never calls pkg/glob.
//
// A pattern is a list of components separated by "/". A component without a
// wildcard is followed the way the kernel resolves a path component (that is
// what makes "." and ".." and symlinked directories usable as literal
// components). A component containing wildcards is matched - by plain
// backtracking over runes - against every relative path below the current
// directory ("**" may span several levels, "?" and "*" never match "/").

import (
	"os"
	"strings"
	"unicode"
)

const (
	wLit = iota
	wQuestion
	wStar
	wStarStar
)

// matcher is one character matcher (set:, range:, class).
type matcher struct {
	Text string // modifier text as written in Elvish, e.g. "set:ab", "range:a-z", "digit"
}

var classFns = map[string]func(rune) bool{
	"control": unicode.IsControl, "digit": unicode.IsDigit, "graphic": unicode.IsGraphic,
	"letter": unicode.IsLetter, "lower": unicode.IsLower, "mark": unicode.IsMark,
	"number": unicode.IsNumber, "print": unicode.IsPrint, "punct": unicode.IsPunct,
	"space": unicode.IsSpace, "symbol": unicode.IsSymbol, "title": unicode.IsTitle,
	"upper": unicode.IsUpper,
}

func (m matcher) match(r rune) bool {
	switch {
	case strings.HasPrefix(m.Text, "set:"):
		return strings.ContainsRune(m.Text[4:], r)
	case strings.HasPrefix(m.Text, "range:"):
		rs := []rune(m.Text[6:])
		if rs[1] == '-' {
			return rs[0] <= r && r <= rs[2]
		}
		return rs[0] <= r && r < rs[2]
	}
	return classFns[m.Text](r)
}

// piece is a literal run or one wildcard.
type piece struct {
	Kind     int    // wLit, wQuestion, wStar, wStarStar
	Lit      string // for wLit; never contains "/"
	Hidden   bool   // match-hidden
	Matchers []matcher
	// Global modifiers written after this wildcard (rendering only).
	Globals []string
	// For a literal: written as a braced list {Alts...} (rendering only; the
	// expectation is computed per alternative with Lit set to it).
	Alts []string
}

func (p piece) allows(r rune) bool {
	if len(p.Matchers) == 0 {
		return true
	}
	for _, m := range p.Matchers {
		if m.match(r) {
			return true
		}
	}
	return false
}

// pattern is a whole wildcard expression.
type pattern struct {
	Base  string    // "" relative, "abs" = absolute path of cwd prepended, "tilde" = ~/ with HOME = cwd
	Comps [][]piece // a trailing empty component means a trailing slash
	Buts  []string
	Type  string // "", "dir", "regular"
	NoOK  bool   // nomatch-ok
}

func hasWild(comp []piece) bool {
	for _, p := range comp {
		if p.Kind != wLit {
			return true
		}
	}
	return false
}

func hasStarStar(comp []piece) bool {
	for _, p := range comp {
		if p.Kind == wStarStar {
			return true
		}
	}
	return false
}

func litOf(comp []piece) string {
	var sb strings.Builder
	for _, p := range comp {
		sb.WriteString(p.Lit)
	}
	return sb.String()
}

// Two readings of "no wildcard matches '.' at the beginning of filenames":
//
//	hiddenD: the wildcard that consumes the leading dot must carry match-hidden
//	         (the literal reading of the reference text);
//	hiddenF: the traditional shell reading - the pattern piece that lines up
//	         with the start of a hidden filename must be a literal or a
//	         wildcard carrying match-hidden (so "*.conf" does not match ".conf"
//	         although the "*" matches nothing).
//
// Both agree except when a wildcard that could match the empty string sits at
// the start of a filename next to the piece that consumes the dot. A path is
// demanded only if it matches under both readings and allowed if it matches
// under either.
const (
	hiddenD = iota
	hiddenF
)

// matchComp reports whether the pieces of one component (no "/" pieces)
// match the whole of s, which is a canonical relative path (names separated
// by single slashes, no leading/trailing slash).
func matchComp(comp []piece, s []rune, mode int) bool {
	type key struct {
		k, p int
		cont bool
	}
	memo := map[key]bool{}
	var rec func(k, p int, cont bool) bool
	rec = func(k, p int, cont bool) (res bool) {
		if k == len(comp) {
			return p == len(s)
		}
		mk := key{k, p, cont}
		if v, ok := memo[mk]; ok {
			return v
		}
		defer func() { memo[mk] = res }()
		seg := comp[k]
		nameStart := p == 0 || s[p-1] == '/'
		dotHere := nameStart && p < len(s) && s[p] == '.'
		if mode == hiddenF && dotHere && seg.Kind != wLit && !seg.Hidden {
			// first arrival at this filename start: either the very beginning
			// of the component, or this "**" has just consumed the slash.
			if (k == 0 && p == 0 && !cont) || (cont && p > 0) {
				return false
			}
		}
		switch seg.Kind {
		case wLit:
			l := []rune(seg.Lit)
			if p+len(l) > len(s) {
				return false
			}
			for i, r := range l {
				if s[p+i] != r {
					return false
				}
			}
			return rec(k+1, p+len(l), false)
		case wQuestion:
			if p >= len(s) || s[p] == '/' || !seg.allows(s[p]) {
				return false
			}
			if mode == hiddenD && dotHere && !seg.Hidden {
				return false
			}
			return rec(k+1, p+1, false)
		default: // star, starstar
			if rec(k+1, p, false) {
				return true
			}
			if p >= len(s) {
				return false
			}
			r := s[p]
			if r == '/' {
				if seg.Kind != wStarStar {
					return false
				}
				return rec(k, p+1, true)
			}
			if !seg.allows(r) {
				return false
			}
			if mode == hiddenD && dotHere && !seg.Hidden {
				return false
			}
			// A "*"/"**" that continues inside a name is no longer at a
			// filename start; cont is only meaningful right after a slash.
			return rec(k, p+1, false)
		}
	}
	return rec(0, 0, false)
}

// expectation: path -> demanded (true) or merely allowed (false).
type expectation map[string]bool

func (e expectation) add(path string, must bool) {
	if old, ok := e[path]; ok && old {
		return
	}
	e[path] = must
}

type refglob struct {
	out           expectation
	hiddenAmbig   int // candidates on which the two hidden readings disagree
	viaSymlinkDir int // candidates only reachable by traversing a symlinked directory
}

// maxLinkHops bounds how many symlinked directories a merely-allowed path may
// pass through (links can form cycles; the demanded set never passes any).
const maxLinkHops = 2

// descend lists the canonical relative paths below dir (a string ending in
// "/" or ""), to any depth if deep. hops tells how many symlinked directories
// were traversed to reach the path (at most hopsLeft).
func descend(dir string, deep bool, hopsLeft int, fn func(rel string, hops int)) {
	var walk func(prefix string, hops int, depth int)
	walk = func(prefix string, hops int, depth int) {
		d := dir + prefix
		if d == "" {
			d = "."
		}
		ents, err := os.ReadDir(d)
		if err != nil {
			return
		}
		for _, e := range ents {
			rel := prefix + e.Name()
			fn(rel, hops)
			if !deep || depth >= 7 {
				continue
			}
			li, err := os.Lstat(dir + rel)
			if err != nil {
				continue
			}
			if li.IsDir() {
				walk(rel+"/", hops, depth+1)
			} else if li.Mode()&os.ModeSymlink != 0 && hops < hopsLeft {
				if st, err := os.Stat(dir + rel); err == nil && st.IsDir() {
					walk(rel+"/", hops+1, depth+1)
				}
			}
		}
	}
	walk("", 0, 0)
}

func (g *refglob) expand(dir string, comps [][]piece, must bool, hopsLeft int) {
	if len(comps) == 0 {
		return
	}
	comp, rest := comps[0], comps[1:]
	if len(comp) > 0 {
		// an empty literal (from compounding with '') is no piece at all
		var nc []piece
		for _, pc := range comp {
			if pc.Kind != wLit || pc.Lit != "" {
				nc = append(nc, pc)
			}
		}
		comp = nc
	}
	if len(comp) == 0 {
		// trailing slash: dir itself (it ends in "/")
		if _, err := os.Lstat(dir); err == nil {
			g.out.add(dir, must)
		}
		return
	}
	if !hasWild(comp) {
		path := dir + litOf(comp)
		if len(rest) == 0 {
			if _, err := os.Lstat(path); err == nil {
				g.out.add(path, must)
			}
			return
		}
		// "lit/": resolved like the kernel does, i.e. following symlinks
		if st, err := os.Stat(path + "/"); err == nil && st.IsDir() {
			g.expand(path+"/", rest, must, hopsLeft)
		}
		return
	}
	descend(dir, hasStarStar(comp), hopsLeft, func(rel string, hops int) {
		rs := []rune(rel)
		d, f := matchComp(comp, rs, hiddenD), matchComp(comp, rs, hiddenF)
		if !d && !f {
			return
		}
		m := must
		if d != f {
			g.hiddenAmbig++
			m = false
		}
		if hops > 0 {
			g.viaSymlinkDir++
			m = false
		}
		path := dir + rel
		if len(rest) == 0 {
			if _, err := os.Lstat(path); err == nil {
				g.out.add(path, m)
			}
			return
		}
		li, err := os.Lstat(path)
		if err != nil {
			return
		}
		if li.IsDir() {
			g.expand(path+"/", rest, m, hopsLeft-hops)
		} else if li.Mode()&os.ModeSymlink != 0 && hops < hopsLeft {
			// a wildcard component that matched a symlink to a directory:
			// the reference is silent on whether expansion continues below.
			if st, err := os.Stat(path); err == nil && st.IsDir() {
				g.viaSymlinkDir++
				g.expand(path+"/", rest, false, hopsLeft-hops-1)
			}
		}
	})
}

// expected computes the demanded/allowed result set of p with cwd = the tree.
// absDir is the absolute path of cwd (no trailing slash). withGlobals=false
// ignores but:/type: (used for the direct glob.Pattern.Glob comparison).
func expected(p *pattern, absDir string, withGlobals bool) (expectation, *refglob) {
	g := &refglob{out: expectation{}}
	dir := ""
	if p.Base != "" {
		dir = absDir + "/"
	}
	g.expand(dir, p.Comps, true, maxLinkHops)
	if !withGlobals {
		return g.out, g
	}
	out := expectation{}
	for path, must := range g.out {
		excluded := false
		for _, b := range p.Buts {
			if b == path {
				excluded = true
			} else if cleanEq(b, path) {
				// same file spelled differently ("./a" vs "a"): reference
				// says "excludes the filename"; accept both outcomes.
				must = false
			}
		}
		if excluded {
			continue
		}
		if p.Type != "" {
			li, err := os.Lstat(path)
			if err != nil {
				continue
			}
			switch {
			case li.Mode()&os.ModeSymlink != 0:
				// "Symbolic links are considered to be regular files" says the
				// reference; the mode of a symlink is neither. Tolerated.
				if p.Type == "dir" {
					if st, err := os.Stat(path); err != nil || !st.IsDir() {
						continue
					}
				}
				must = false
			case p.Type == "dir" && !li.IsDir():
				continue
			case p.Type == "regular" && !li.Mode().IsRegular():
				continue
			}
		}
		out[path] = must
	}
	return out, g
}

func cleanEq(a, b string) bool {
	return clean(a) == clean(b)
}

func clean(s string) string {
	var out []string
	for _, c := range strings.Split(s, "/") {
		switch c {
		case "", ".":
		case "..":
			if len(out) > 0 && out[len(out)-1] != ".." {
				out = out[:len(out)-1]
			} else {
				out = append(out, c)
			}
		default:
			out = append(out, c)
		}
	}
	pre := ""
	if strings.HasPrefix(s, "/") {
		pre = "/"
	}
	return pre + strings.Join(out, "/")
}
