// Package c07 monitors the persistent hash map against a reference
// dictionary under constructed hash collisions (property C07).
package c07

import (
	"fmt"
	"math/rand"

	"src.elv.sh/pkg/persistent/hashmap"
	"verifharness/internal/mon"
)

type key struct {
	id int
	h  uint32
}

func eq(a, b any) bool  { return a.(*key).id == b.(*key).id }
func hash(a any) uint32 { return a.(*key).h }

// model: id -> value; nil key stored under id -1.
type model map[int]int

func (m model) clone() model {
	n := make(model, len(m)+1)
	for k, v := range m {
		n[k] = v
	}
	return n
}

type version struct {
	m     hashmap.Map
	model model
	born  int
	arr   map[[2]uint32]bool // (depth, hash prefix) of nodes inferred to be array nodes in this version
}

func cloneArr(a map[[2]uint32]bool) map[[2]uint32]bool {
	n := make(map[[2]uint32]bool, len(a)+1)
	for k := range a {
		n[k] = true
	}
	return n
}

// makePool constructs keys whose hashes collide in chosen bit ranges.
func makePool(r *rand.Rand, n int) ([]*key, []int) {
	pool := make([]*key, 0, n)
	var depths []int
	id := 0
	for len(pool) < n {
		d := r.Intn(9) // 0..6 = shared low 5*d bits; 7 = full 32-bit collision; 8 = random
		depths = append(depths, d)
		gsz := 1 + r.Intn(40)
		if d == 7 {
			gsz = 1 + r.Intn(6)
		}
		base := r.Uint32()
		start := r.Intn(32)
		for j := 0; j < gsz && len(pool) < n; j++ {
			var h uint32
			switch {
			case d == 8:
				h = r.Uint32()
			case d == 7:
				h = base
			default:
				shift := uint(5 * d)
				low := base & (1<<shift - 1)
				chunk := uint32((start+j)%32) << shift
				var high uint32
				if shift+5 < 32 {
					high = r.Uint32() << (shift + 5)
					if r.Intn(3) == 0 { // sometimes share the high bits as well, so that only one chunk differs
						high = base &^ (1<<(shift+5) - 1)
					}
				}
				h = low | chunk | high
			}
			pool = append(pool, &key{id, h})
			id++
		}
	}
	return pool, depths
}

func fanout(m model, pool []*key, h uint32, d int) int {
	shift := uint(5 * d)
	if shift >= 32 {
		return 0
	}
	mask := uint32(1)<<shift - 1
	var seen uint32
	for id := range m {
		if id < 0 {
			continue
		}
		kh := pool[id].h
		if kh&mask == h&mask {
			seen |= 1 << ((kh >> shift) & 31)
		}
	}
	n := 0
	for ; seen != 0; seen &= seen - 1 {
		n++
	}
	return n
}

func sameHash(m model, pool []*key, h uint32) int {
	n := 0
	for id := range m {
		if id >= 0 && pool[id].h == h {
			n++
		}
	}
	return n
}

func verify(c *mon.Case, v *version, pool []*key, step int, when string) bool {
	m, md := v.m, v.model
	fail := func(kind, what string) bool {
		c.Violation(when+":"+kind, what, map[string]any{"step": step, "version_born_at_step": v.born, "model_len": len(md)})
		return false
	}
	if m.Len() != len(md) {
		return fail("len", fmt.Sprintf("Len()=%d, reference has %d entries", m.Len(), len(md)))
	}
	for _, k := range pool {
		got, ok := m.Index(k)
		want, wok := md[k.id]
		if ok != wok || (ok && got.(int) != want) {
			return fail("index", fmt.Sprintf("Index(key %d hash %#x) = %v,%v; reference %v,%v", k.id, k.h, got, ok, want, wok))
		}
		if hashmap.HasKey(m, k) != wok {
			return fail("haskey", "HasKey disagrees with reference")
		}
	}
	got, ok := m.Index(nil)
	want, wok := md[-1]
	if ok != wok || (ok && got.(int) != want) {
		return fail("index-nil", fmt.Sprintf("Index(nil) = %v,%v; reference %v,%v", got, ok, want, wok))
	}
	seen := make(map[int]bool, len(md))
	n := 0
	for it := m.Iterator(); it.HasElem(); it.Next() {
		k, val := it.Elem()
		id := -1
		if k != nil {
			id = k.(*key).id
		}
		if seen[id] {
			return fail("iter-dup", fmt.Sprintf("iteration yields key %d twice", id))
		}
		seen[id] = true
		w, wok := md[id]
		if !wok || w != val.(int) {
			return fail("iter-wrong", fmt.Sprintf("iteration yields %d=>%v; reference %v,%v", id, val, w, wok))
		}
		n++
		if n > len(md)+5 {
			return fail("iter-long", "iteration yields more entries than the reference holds")
		}
	}
	if n != len(md) {
		return fail("iter-missing", fmt.Sprintf("iteration yields %d entries, reference has %d", n, len(md)))
	}
	return true
}

func runHistory(c *mon.Case) {
	r := c.Rand
	psize := 8 + r.Intn(593)
	if r.Intn(3) == 0 {
		psize = 8 + r.Intn(60)
	}
	pool, depths := makePool(r, psize)
	steps := 400
	versions := []*version{{hashmap.New(eq, hash), model{}, 0, map[[2]uint32]bool{}}}
	insertBias := 50
	biases := []int{4, 15, 50, 85, 96}
	segLeft := 0
	var focus []*key
	mode := 0 // 0 random, 1 fill focus, 2 drain focus
	var script []*key
	pickKey := func() *key {
		if len(script) > 0 {
			k := script[0]
			script = script[1:]
			return k
		}
		if focus != nil && r.Intn(10) < 8 {
			return focus[r.Intn(len(focus))]
		}
		return pool[r.Intn(len(pool))]
	}
	packs := 0
	crossUp, crossDown, coll, collGone, nilOps := [7]int{}, [7]int{}, 0, 0, 0
	var trace []string
	for s := 1; s <= steps; s++ {
		if segLeft == 0 {
			segLeft = 20 + r.Intn(80)
			insertBias = biases[r.Intn(len(biases))]
			focus = nil
			mode = 0
			script = nil
			if r.Intn(4) > 0 { // focus on the keys sharing a hash prefix with a random key
				k0 := pool[r.Intn(len(pool))]
				d := r.Intn(7)
				mask := uint32(1)<<uint(5*d) - 1
				for _, k := range pool {
					if k.h&mask == k0.h&mask {
						focus = append(focus, k)
					}
				}
				if r.Intn(20) == 0 {
					focus = pool
				}
				mode = r.Intn(3)
				if mode != 0 {
					script = append([]*key(nil), focus...)
					r.Shuffle(len(script), func(i, j int) { script[i], script[j] = script[j], script[i] })
					segLeft = len(script)
					if mode == 1 {
						insertBias = 100
					} else {
						insertBias = 0
					}
				}
			}
		}
		segLeft--
		base := versions[len(versions)-1]
		if mode == 0 && r.Intn(6) == 0 {
			base = versions[r.Intn(len(versions))]
		}
		nm := base.model.clone()
		arr := cloneArr(base.arr)
		var m hashmap.Map
		op := r.Intn(100)
		if mode != 0 {
			op = 4 + r.Intn(96)
		}
		switch {
		case op < 4: // nil key
			nilOps++
			if r.Intn(2) == 0 {
				m = base.m.Assoc(nil, s)
				nm[-1] = s
				trace = append(trace, "assoc nil")
			} else {
				m = base.m.Dissoc(nil)
				delete(nm, -1)
				trace = append(trace, "dissoc nil")
			}
		case op < 4+insertBias*96/100:
			k := pickKey()
			var before [7]int
			for d := 0; d < 7; d++ {
				before[d] = fanout(nm, pool, k.h, d)
			}
			sb := sameHash(nm, pool, k.h)
			m = base.m.Assoc(k, s)
			nm[k.id] = s
			for d := 0; d < 7; d++ {
				if before[d] <= 16 && fanout(nm, pool, k.h, d) >= 17 {
					crossUp[d]++
					arr[[2]uint32{uint32(d), k.h & (uint32(1)<<uint(5*d) - 1)}] = true
				}
			}
			if sb >= 1 && sameHash(nm, pool, k.h) > sb {
				coll++
			}
			trace = append(trace, fmt.Sprintf("assoc %d(%#x)", k.id, k.h))
		default:
			k := pickKey()
			var before [7]int
			for d := 0; d < 7; d++ {
				before[d] = fanout(nm, pool, k.h, d)
			}
			sb := sameHash(nm, pool, k.h)
			m = base.m.Dissoc(k)
			delete(nm, k.id)
			for d := 0; d < 7; d++ {
				if before[d] >= 8 && fanout(nm, pool, k.h, d) <= 7 {
					crossDown[d]++
					pk := [2]uint32{uint32(d), k.h & (uint32(1)<<uint(5*d) - 1)}
					if arr[pk] {
						packs++
						delete(arr, pk)
					}
				}
			}
			if sb >= 2 && sameHash(nm, pool, k.h) < sb {
				collGone++
			}
			trace = append(trace, fmt.Sprintf("dissoc %d(%#x)", k.id, k.h))
		}
		nv := &version{m, nm, s, arr}
		versions = append(versions, nv)
		if !verify(c, nv, pool, s, "new") {
			return
		}
		// the version it was derived from must be unchanged
		if !verify(c, base, pool, s, "base-after-op") {
			return
		}
		if s%25 == 0 {
			for j := 0; j < 4; j++ {
				if !verify(c, versions[r.Intn(len(versions))], pool, s, "old") {
					return
				}
			}
		}
	}
	for _, v := range versions {
		if !verify(c, v, pool, steps, "old-final") {
			return
		}
	}
	c.Evals(steps)
	up0, upDeep, downAny := crossUp[0], 0, 0
	for d := 1; d < 7; d++ {
		upDeep += crossUp[d]
	}
	for d := 0; d < 7; d++ {
		downAny += crossDown[d]
	}
	c.Count("fanout_cross_17_at_root", up0)
	c.Count("fanout_cross_17_below_root", upDeep)
	c.Count("fanout_drop_to_7", downAny)
	c.Count("fanout_drop_to_7_after_17", packs)
	c.Count("full_collision_inserts", coll)
	c.Count("full_collision_removals", collGone)
	c.Count("nil_key_ops", nilOps)
	if up0+upDeep+downAny+coll+collGone > 0 {
		c.Nontrivial(psize, depths, insertBias, len(trace), trace[len(trace)-1], trace[0])
	}
	if len(trace) > 12 {
		trace = trace[:12]
	}
	c.Sample("history", map[string]any{"pool_size": psize, "group_depths": depths, "first_ops": trace})
}

func Spec() *mon.Spec {
	return &mon.Spec{
		ID:            "C07",
		SpinViolation: true, Level: "exploration",
		Rule:        "case = history of 300 assoc/dissoc (incl. nil key, replacements, absent deletes, branching from older versions) over a pool of 8..600 keys whose 32-bit hashes are constructed to share the low 5*d bits (d=0..6), collide fully, or be random; after every step the new version AND the version it was derived from are compared completely (Len, Index of every pool key, nil key, full iteration exactly-once) with a Go-map reference, older versions re-checked periodically and all versions at the end. Non-trivial = history in which a node fan-out crossed 16->17 or dropped 8->7 at some depth, or a full-hash collision group grew/shrank (inferred from the key hashes); distinct by pool shape + trace.",
		Assumptions: []string{"node-type transitions (bitmap<->array, collision nodes) are inferred from the constructed hashes, not observed inside the package"},
		Phases:      []mon.Phase{{Name: "history", Quick: 4000, Thorough: 24000, Run: runHistory}},
		Floors: map[string]int{"distinct_nontrivial": 200, "fanout_cross_17_at_root": 50, "fanout_cross_17_below_root": 50,
			"fanout_drop_to_7": 20, "fanout_drop_to_7_after_17": 20, "full_collision_inserts": 50, "full_collision_removals": 20, "nil_key_ops": 100},
	}
}
