// Package c33 monitors the styled-text operations of pkg/ui and the styledown
// codec (property C33): every returned Text must be in the documented normal
// form and carry exactly the content / per-byte styles the operation
// specifies.
package c33

import (
	"fmt"
	"math/big"
	"math/rand"
	"reflect"
	"strconv"
	"strings"
	"unicode/utf8"

	"src.elv.sh/pkg/diag"
	"src.elv.sh/pkg/eval/vals"
	"src.elv.sh/pkg/ui"
	"src.elv.sh/pkg/ui/styledown"
	"src.elv.sh/pkg/wcwidth"
	"verifharness/internal/mon"
)

// ---------------------------------------------------------------------------
// The reference view of a styled text: one (byte, style) pair per byte.

type sbyte struct {
	b  byte
	st ui.Style
}

func expand(t ui.Text) []sbyte {
	n := 0
	for _, seg := range t {
		if seg != nil {
			n += len(seg.Text)
		}
	}
	out := make([]sbyte, 0, n)
	for _, seg := range t {
		if seg == nil {
			continue
		}
		for i := 0; i < len(seg.Text); i++ {
			out = append(out, sbyte{seg.Text[i], seg.Style})
		}
	}
	return out
}

func expandStr(s string, st ui.Style) []sbyte {
	out := make([]sbyte, len(s))
	for i := 0; i < len(s); i++ {
		out[i] = sbyte{s[i], st}
	}
	return out
}

func plain(t ui.Text) string {
	var sb strings.Builder
	for _, seg := range t {
		if seg != nil {
			sb.WriteString(seg.Text)
		}
	}
	return sb.String()
}

func sameBytes(a, b []sbyte) bool {
	if len(a) != len(b) {
		return false
	}
	for i := range a {
		if a[i] != b[i] {
			return false
		}
	}
	return true
}

// firstDiff describes the first difference between two expansions.
func firstDiff(got, want []sbyte) string {
	n := len(got)
	if len(want) < n {
		n = len(want)
	}
	for i := 0; i < n; i++ {
		if got[i].b != want[i].b {
			return fmt.Sprintf("byte %d is %q, expected %q", i, got[i].b, want[i].b)
		}
		if got[i].st != want[i].st {
			return fmt.Sprintf("byte %d (%q) has style %s, expected %s", i, got[i].b, showStyle(got[i].st), showStyle(want[i].st))
		}
	}
	return fmt.Sprintf("length %d, expected %d", len(got), len(want))
}

// diffKind classifies a difference: "content" if the plain bytes differ,
// "style" if only styles differ.
func diffKind(got, want []sbyte) string {
	if len(got) != len(want) {
		return "content"
	}
	for i := range got {
		if got[i].b != want[i].b {
			return "content"
		}
	}
	return "style"
}

func showStyle(s ui.Style) string {
	v := s.SGR()
	if v == "" {
		return "{}"
	}
	return "{" + v + "}"
}

func show(t ui.Text) string {
	if t == nil {
		return "nil"
	}
	var sb strings.Builder
	sb.WriteString("[")
	for i, seg := range t {
		if i > 0 {
			sb.WriteString(" ")
		}
		if seg == nil {
			sb.WriteString("<nil>")
			continue
		}
		sb.WriteString(showStyle(seg.Style) + strconv.Quote(seg.Text))
	}
	sb.WriteString("]")
	return sb.String()
}

// nfProblems lists the normal-form rules (package doc of ui.Text) t breaks.
func nfProblems(t ui.Text) []string {
	var ps []string
	if t != nil && len(t) == 0 {
		ps = append(ps, "non-nil-empty")
	}
	empty, adj := false, false
	for i, seg := range t {
		if seg == nil {
			ps = append(ps, "nil-segment")
			return ps
		}
		if seg.Text == "" {
			empty = true
		}
		if i > 0 && t[i-1].Style == seg.Style {
			adj = true
		}
	}
	if empty {
		ps = append(ps, "empty-segment")
	}
	if adj {
		ps = append(ps, "adjacent-equal-style")
	}
	return ps
}

// normalize is the harness's own builder of normal-form texts.
func normalize(bs []sbyte) ui.Text {
	var t ui.Text
	for i := 0; i < len(bs); {
		j := i
		for j < len(bs) && bs[j].st == bs[i].st {
			j++
		}
		b := make([]byte, j-i)
		for k := i; k < j; k++ {
			b[k-i] = bs[k].b
		}
		t = append(t, &ui.Segment{Style: bs[i].st, Text: string(b)})
		i = j
	}
	return t
}

func deepCopy(t ui.Text) ui.Text {
	if t == nil {
		return nil
	}
	n := make(ui.Text, len(t))
	for i, seg := range t {
		if seg != nil {
			c := *seg
			n[i] = &c
		}
	}
	return n
}

func deepEq(a, b ui.Text) bool {
	if (a == nil) != (b == nil) || len(a) != len(b) {
		return false
	}
	for i := range a {
		if (a[i] == nil) != (b[i] == nil) {
			return false
		}
		if a[i] != nil && *a[i] != *b[i] {
			return false
		}
	}
	return true
}

// ---------------------------------------------------------------------------
// Generators.

var colorPool = []ui.Color{
	nil, nil, ui.Red, ui.Green, ui.Blue, ui.BrightYellow, ui.BrightBlack, ui.White,
	ui.XTerm256Color(0), ui.XTerm256Color(100), ui.XTerm256Color(255),
	ui.TrueColor(1, 2, 3), ui.TrueColor(255, 0, 128),
}

func colorName(c ui.Color) string {
	if c == nil {
		return "default"
	}
	return c.String()
}

func randStyle(r *rand.Rand) ui.Style {
	var s ui.Style
	if r.Intn(2) == 0 {
		s.Fg = colorPool[r.Intn(len(colorPool))]
	}
	if r.Intn(3) == 0 {
		s.Bg = colorPool[r.Intn(len(colorPool))]
	}
	bits := r.Intn(64)
	if r.Intn(2) == 0 {
		bits &= 1 << uint(r.Intn(6)) // mostly a single attribute
	}
	s.Bold, s.Dim, s.Italic = bits&1 != 0, bits&2 != 0, bits&4 != 0
	s.Underlined, s.Blink, s.Inverse = bits&8 != 0, bits&16 != 0, bits&32 != 0
	return s
}

// stylePool returns n distinct styles; the default style is always first.
func stylePool(r *rand.Rand, n int) []ui.Style {
	pool := []ui.Style{{}}
	for len(pool) < n {
		s := randStyle(r)
		if r.Intn(3) == 0 { // near-duplicates: differ from an existing style in one attribute
			s = pool[r.Intn(len(pool))]
			switch r.Intn(4) {
			case 0:
				s.Bold = !s.Bold
			case 1:
				s.Inverse = !s.Inverse
			case 2:
				s.Underlined = !s.Underlined
			default:
				s.Fg = colorPool[r.Intn(len(colorPool))]
			}
		}
		dup := false
		for _, p := range pool {
			if p == s {
				dup = true
			}
		}
		if !dup {
			pool = append(pool, s)
		}
	}
	return pool
}

// styling pairs a real ui.Styling with the harness's own reading of what the
// documentation says it does.
type styling struct {
	real  ui.Styling
	model func(*ui.Style)
	name  string
}

func boolField(s *ui.Style, i int) *bool {
	switch i {
	case 0:
		return &s.Bold
	case 1:
		return &s.Dim
	case 2:
		return &s.Italic
	case 3:
		return &s.Underlined
	case 4:
		return &s.Blink
	default:
		return &s.Inverse
	}
}

var boolNames = []string{"bold", "dim", "italic", "underlined", "blink", "inverse"}
var boolOn = []ui.Styling{ui.Bold, ui.Dim, ui.Italic, ui.Underlined, ui.Blink, ui.Inverse}
var boolOff = []ui.Styling{ui.NoBold, ui.NoDim, ui.NoItalic, ui.NoUnderlined, ui.NoBlink, ui.NoInverse}
var boolToggle = []ui.Styling{ui.ToggleBold, ui.ToggleDim, ui.ToggleItalic, ui.ToggleUnderlined, ui.ToggleBlink, ui.ToggleInverse}

// atomStyling returns one atomic styling. If parsable is set the result has a
// name understood by ui.ParseStyling.
func atomStyling(r *rand.Rand, parsable bool) styling {
	for {
		switch r.Intn(7) {
		case 0:
			if parsable {
				continue // "reset" has no textual form
			}
			return styling{ui.Reset, func(s *ui.Style) { *s = ui.Style{} }, "reset"}
		case 1:
			c := colorPool[r.Intn(len(colorPool))]
			name := "fg-" + colorName(c)
			if c != nil && r.Intn(2) == 0 {
				name = colorName(c) // bare colour name = foreground
			}
			return styling{ui.Fg(c), func(s *ui.Style) { s.Fg = c }, name}
		case 2:
			c := colorPool[r.Intn(len(colorPool))]
			return styling{ui.Bg(c), func(s *ui.Style) { s.Bg = c }, "bg-" + colorName(c)}
		case 3, 4:
			i := r.Intn(6)
			return styling{boolOn[i], func(s *ui.Style) { *boolField(s, i) = true }, boolNames[i]}
		case 5:
			i := r.Intn(6)
			return styling{boolOff[i], func(s *ui.Style) { *boolField(s, i) = false }, "no-" + boolNames[i]}
		default:
			i := r.Intn(6)
			return styling{boolToggle[i], func(s *ui.Style) { p := boolField(s, i); *p = !*p }, "toggle-" + boolNames[i]}
		}
	}
}

// randStyling returns an atomic, joint, parsed or nil styling.
func randStyling(c *mon.Case) styling {
	r := c.Rand
	switch k := r.Intn(10); {
	case k == 0:
		return styling{nil, func(*ui.Style) {}, "<nil>"}
	case k <= 2: // joint
		n := 1 + r.Intn(3)
		parts := make([]styling, n)
		reals := make([]ui.Styling, n)
		names := make([]string, n)
		for i := range parts {
			parts[i] = atomStyling(r, false)
			reals[i] = parts[i].real
			names[i] = parts[i].name
		}
		return styling{ui.Stylings(reals...), func(s *ui.Style) {
			for _, p := range parts {
				p.model(s)
			}
		}, "joint(" + strings.Join(names, " ") + ")"}
	case k <= 4: // through the textual form
		n := 1 + r.Intn(3)
		parts := make([]styling, n)
		names := make([]string, n)
		for i := range parts {
			parts[i] = atomStyling(r, true)
			names[i] = parts[i].name
		}
		name := strings.Join(names, " ")
		real := ui.ParseStyling(name)
		c.Count("parsestyling_calls", 1)
		if real == nil {
			c.Violation("parsestyling:nil", "ui.ParseStyling("+mon.Q(name)+") returns nil for a documented styling name", name)
			return styling{nil, func(*ui.Style) {}, "<nil>"}
		}
		return styling{real, func(s *ui.Style) {
			for _, p := range parts {
				p.model(s)
			}
		}, "parsed(" + name + ")"}
	default:
		return atomStyling(r, false)
	}
}

var textPieces = []string{
	"a", "b", "c", "ab", "xyz", " ", "  ", "foo bar", "0", "-",
	"a", "b", " ", "x", // weight for ASCII
	"\n", "\n", "x\ny", "\n\n",
	"好", "世界", "ｱ", "😀", "é", "ß", "Ω", "𝒜",
	"́", "é", "​", // zero-width
	"\t", "\x1b", // controls
	"\xff", // invalid UTF-8 that cannot combine with neighbours
}

func randPiece(r *rand.Rand) string {
	n := 1 + r.Intn(3)
	var sb strings.Builder
	for i := 0; i < n; i++ {
		sb.WriteString(textPieces[r.Intn(len(textPieces))])
	}
	return sb.String()
}

// randText builds a normal-form text of 0..maxSegs pieces over the style pool.
func randText(r *rand.Rand, styles []ui.Style, maxSegs int) ui.Text {
	n := r.Intn(maxSegs + 1)
	var bs []sbyte
	for i := 0; i < n; i++ {
		bs = append(bs, expandStr(randPiece(r), styles[r.Intn(len(styles))])...)
	}
	return normalize(bs)
}

func randSegment(r *rand.Rand, styles []ui.Style) *ui.Segment {
	s := &ui.Segment{Style: styles[r.Intn(len(styles))]}
	if r.Intn(8) != 0 {
		s.Text = randPiece(r)
	}
	return s
}

// ---------------------------------------------------------------------------
// The op phase.

type opCtx struct {
	c      *mon.Case
	styles []ui.Style
	pool   []ui.Text
}

func (x *opCtx) pick() ui.Text {
	r := x.c.Rand
	if len(x.pool) > 0 && r.Intn(3) != 0 {
		return x.pool[r.Intn(len(x.pool))]
	}
	return randText(r, x.styles, 8)
}

// keep puts a normal-form result back into the pool of inputs.
func (x *opCtx) keep(t ui.Text) {
	if len(nfProblems(t)) > 0 {
		return
	}
	if len(x.pool) < 16 {
		x.pool = append(x.pool, t)
	} else {
		x.pool[x.c.Rand.Intn(len(x.pool))] = t
	}
}

// verify checks a returned text against normal form and the expected
// expansion; returns whether it passed.
func (x *opCtx) verify(op string, call func() string, got ui.Text, want []sbyte) bool {
	ok := true
	for _, p := range nfProblems(got) {
		ok = false
		x.c.Violation(op+":"+p, fmt.Sprintf("%s returns %s, which is not in normal form (%s)", call(), show(got), p),
			map[string]any{"call": call(), "got": show(got)})
	}
	if e := expand(got); !sameBytes(e, want) {
		ok = false
		x.c.Violation(op+":"+diffKind(e, want), fmt.Sprintf("%s returns %s: %s", call(), show(got), firstDiff(e, want)),
			map[string]any{"call": call(), "got": show(got), "expected": show(normalize(want))})
	}
	return ok
}

// unchanged checks that an input text was not modified by the operation.
func (x *opCtx) unchanged(op string, call func() string, now, before ui.Text) {
	if !deepEq(now, before) {
		x.c.Violation(op+":mutated-input", fmt.Sprintf("%s modified its input: was %s, now %s", call(), show(before), show(now)),
			map[string]any{"call": call(), "before": show(before), "after": show(now)})
	}
}

func validSegments(t ui.Text) bool {
	for _, seg := range t {
		if !utf8.ValidString(strings.ReplaceAll(seg.Text, "\xff", "")) {
			return false
		}
	}
	return true
}

// trimModel: byte length of the longest prefix of s, ending where a rune
// (as iterated by range) ends, whose width is at most w.
func trimModel(s string, w int) int {
	acc := 0
	for i, r := range s {
		acc += wcwidth.OfRune(r)
		if acc > w {
			return i
		}
	}
	return len(s)
}

func opT(x *opCtx) {
	c, r := x.c, x.c.Rand
	s := ""
	if r.Intn(10) != 0 {
		s = randPiece(r)
	}
	n := r.Intn(4)
	sts := make([]styling, n)
	reals := make([]ui.Styling, n)
	names := make([]string, n)
	var st ui.Style
	for i := range sts {
		sts[i] = randStyling(c)
		reals[i], names[i] = sts[i].real, sts[i].name
		sts[i].model(&st)
	}
	call := func() string { return fmt.Sprintf("ui.T(%s, %s)", mon.Q(s), strings.Join(names, ", ")) }
	got := ui.T(s, reals...)
	if x.verify("t", call, got, expandStr(s, st)) {
		x.keep(got)
	}
	c.Count("op_t", 1)
}

func opConcat(x *opCtx) {
	c, r := x.c, x.c.Rand
	n := r.Intn(5)
	ts := make([]ui.Text, n)
	snaps := make([]ui.Text, n)
	var want []sbyte
	var shows []string
	junctions := 0
	for i := range ts {
		ts[i] = x.pick()
		snaps[i] = deepCopy(ts[i])
		if len(want) > 0 && len(ts[i]) > 0 && want[len(want)-1].st == ts[i][0].Style {
			junctions++
		}
		want = append(want, expand(ts[i])...)
		shows = append(shows, show(ts[i]))
	}
	call := func() string { return "ui.Concat(" + strings.Join(shows, ", ") + ")" }
	got := ui.Concat(ts...)
	if x.verify("concat", call, got, want) {
		x.keep(got)
	}
	for i := range ts {
		x.unchanged("concat", call, ts[i], snaps[i])
	}
	c.Count("op_concat", 1)
	c.Count("concat_equal_style_junctions", junctions)
}

func asText(op string, call func() string, x *opCtx, v any, err error) (ui.Text, bool) {
	if err != nil {
		x.c.Violation(op+":error", call()+" returns error "+err.Error(), call())
		return nil, false
	}
	t, ok := v.(ui.Text)
	if !ok {
		x.c.Violation(op+":type", fmt.Sprintf("%s returns a %T, not a ui.Text", call(), v), call())
		return nil, false
	}
	return t, true
}

// randOperand returns a string or number operand and its text.
func randOperand(r *rand.Rand) (any, string) {
	switch r.Intn(6) {
	case 0:
		n := r.Intn(2000) - 1000
		return n, strconv.Itoa(n)
	case 1:
		b := new(big.Int).Lsh(big.NewInt(int64(1+r.Intn(9))), uint(64+r.Intn(10)))
		return b, b.String()
	case 2:
		f := float64(r.Intn(100)) + 0.5
		return f, vals.ToString(f)
	case 3:
		return "", ""
	default:
		s := randPiece(r)
		return s, s
	}
}

func opTextConcat(x *opCtx) {
	c, r := x.c, x.c.Rand
	t := x.pick()
	snap := deepCopy(t)
	switch r.Intn(4) {
	case 0: // Text + string/number
		v, s := randOperand(r)
		call := func() string { return fmt.Sprintf("%s.Concat(%T %s)", show(t), v, mon.Q(s)) }
		res, err := t.Concat(v)
		if got, ok := asText("text-concat", call, x, res, err); ok {
			if len(t) > 0 && s != "" && t[len(t)-1].Style == (ui.Style{}) {
				c.Count("concat_equal_style_junctions", 1)
			}
			if x.verify("text-concat", call, got, append(expand(t), expandStr(s, ui.Style{})...)) {
				x.keep(got)
			}
		}
		x.unchanged("text-concat", call, t, snap)
	case 1: // string/number + Text
		v, s := randOperand(r)
		call := func() string { return fmt.Sprintf("%s.RConcat(%T %s)", show(t), v, mon.Q(s)) }
		res, err := t.RConcat(v)
		if got, ok := asText("text-rconcat", call, x, res, err); ok {
			if x.verify("text-rconcat", call, got, append(expandStr(s, ui.Style{}), expand(t)...)) {
				x.keep(got)
			}
		}
		x.unchanged("text-rconcat", call, t, snap)
	case 2: // Text + Segment
		seg := randSegment(r, x.styles)
		segSnap := *seg
		call := func() string {
			return fmt.Sprintf("%s.Concat(&Segment%s%s)", show(t), showStyle(seg.Style), mon.Q(seg.Text))
		}
		res, err := t.Concat(seg)
		if got, ok := asText("text-concat-segment", call, x, res, err); ok {
			if x.verify("text-concat-segment", call, got, append(expand(t), expandStr(seg.Text, seg.Style)...)) {
				x.keep(got)
			}
		}
		if *seg != segSnap {
			c.Violation("text-concat-segment:mutated-input", call()+" modified the segment", call())
		}
		x.unchanged("text-concat-segment", call, t, snap)
		if seg.Text == "" {
			c.Count("empty_segment_operands", 1)
		}
	default: // Text + Text
		u := x.pick()
		usnap := deepCopy(u)
		call := func() string { return fmt.Sprintf("%s.Concat(%s)", show(t), show(u)) }
		res, err := t.Concat(u)
		if got, ok := asText("text-concat", call, x, res, err); ok {
			if len(t) > 0 && len(u) > 0 && t[len(t)-1].Style == u[0].Style {
				c.Count("concat_equal_style_junctions", 1)
			}
			if x.verify("text-concat", call, got, append(expand(t), expand(u)...)) {
				x.keep(got)
			}
		}
		x.unchanged("text-concat", call, t, snap)
		x.unchanged("text-concat", call, u, usnap)
	}
	c.Count("op_text_concat", 1)
}

func opSegmentConcat(x *opCtx) {
	c, r := x.c, x.c.Rand
	seg := randSegment(r, x.styles)
	for seg.Text == "" { // the receiver is a non-empty segment; empty operands are a separate class below
		seg = randSegment(r, x.styles)
	}
	segSnap := *seg
	me := func() string { return fmt.Sprintf("(&Segment%s%s)", showStyle(seg.Style), mon.Q(seg.Text)) }
	base := expandStr(seg.Text, seg.Style)
	switch r.Intn(4) {
	case 0:
		v, s := randOperand(r)
		call := func() string { return fmt.Sprintf("%s.Concat(%T %s)", me(), v, mon.Q(s)) }
		res, err := seg.Concat(v)
		if got, ok := asText("segment-concat", call, x, res, err); ok {
			if x.verify("segment-concat", call, got, append(base, expandStr(s, ui.Style{})...)) {
				x.keep(got)
			}
		}
		if s == "" {
			c.Count("empty_string_operands", 1)
		}
		if s != "" && seg.Style == (ui.Style{}) {
			c.Count("segment_concat_equal_style", 1)
		}
	case 1:
		v, s := randOperand(r)
		call := func() string { return fmt.Sprintf("%s.RConcat(%T %s)", me(), v, mon.Q(s)) }
		res, err := seg.RConcat(v)
		if got, ok := asText("segment-rconcat", call, x, res, err); ok {
			if x.verify("segment-rconcat", call, got, append(expandStr(s, ui.Style{}), base...)) {
				x.keep(got)
			}
		}
		if s != "" && seg.Style == (ui.Style{}) {
			c.Count("segment_concat_equal_style", 1)
		}
	case 2:
		o := randSegment(r, x.styles)
		if r.Intn(3) == 0 {
			o.Style = seg.Style
		}
		oSnap := *o
		call := func() string { return fmt.Sprintf("%s.Concat(&Segment%s%s)", me(), showStyle(o.Style), mon.Q(o.Text)) }
		res, err := seg.Concat(o)
		if got, ok := asText("segment-concat", call, x, res, err); ok {
			if x.verify("segment-concat", call, got, append(base, expandStr(o.Text, o.Style)...)) {
				x.keep(got)
			}
		}
		if *o != oSnap {
			c.Violation("segment-concat:mutated-input", call()+" modified its operand", call())
		}
		if o.Text != "" && o.Style == seg.Style {
			c.Count("segment_concat_equal_style", 1)
		}
	default:
		u := x.pick()
		usnap := deepCopy(u)
		call := func() string { return fmt.Sprintf("%s.Concat(%s)", me(), show(u)) }
		res, err := seg.Concat(u)
		if got, ok := asText("segment-concat", call, x, res, err); ok {
			if x.verify("segment-concat", call, got, append(base, expand(u)...)) {
				x.keep(got)
			}
		}
		x.unchanged("segment-concat", call, u, usnap)
		if len(u) > 0 && u[0].Style == seg.Style {
			c.Count("segment_concat_equal_style", 1)
		}
	}
	if *seg != segSnap {
		c.Violation("segment-concat:mutated-input", me()+" was modified by Concat/RConcat", me())
	}
	c.Count("op_segment_concat", 1)
}

func opPartition(x *opCtx) {
	c, r := x.c, x.c.Rand
	t := x.pick()
	snap := deepCopy(t)
	all := expand(t)
	n := len(all)
	k := r.Intn(4)
	idx := make([]int, k)
	beyond := false
	for i := range idx {
		switch r.Intn(6) {
		case 0:
			idx[i] = 0
		case 1:
			idx[i] = n
		case 2: // a segment boundary
			if len(t) > 0 {
				off := 0
				for _, seg := range t[:r.Intn(len(t))] {
					off += len(seg.Text)
				}
				idx[i] = off
			}
		case 3:
			if r.Intn(4) == 0 {
				idx[i] = n + 1 + r.Intn(3)
				beyond = true
			} else {
				idx[i] = r.Intn(n + 1)
			}
		default:
			idx[i] = r.Intn(n + 1)
		}
	}
	for i := 1; i < len(idx); i++ { // indices are generated in non-decreasing order
		for j := i; j > 0 && idx[j] < idx[j-1]; j-- {
			idx[j], idx[j-1] = idx[j-1], idx[j]
		}
	}
	call := func() string { return fmt.Sprintf("%s.Partition(%v)", show(t), idx) }
	parts := t.Partition(idx...)
	c.Count("op_partition", 1)
	if len(parts) != k+1 {
		c.Violation("partition:count", fmt.Sprintf("%s returns %d parts, expected %d", call(), len(parts), k+1), call())
		return
	}
	prev := 0
	mid := false
	var joined []sbyte
	for i, p := range parts {
		lo, hi := prev, n
		if i < k {
			hi = idx[i]
		}
		if hi > n {
			hi = n
		}
		if lo > n {
			lo = n
		}
		pcall := func() string { return fmt.Sprintf("%s part %d", call(), i) }
		if beyond {
			// An index beyond the length is not specified piecewise; only the
			// normal form and the concatenation law are demanded.
			for _, pr := range nfProblems(p) {
				c.Violation("partition:"+pr, fmt.Sprintf("%s is %s, not in normal form (%s)", pcall(), show(p), pr), call())
			}
		} else if x.verify("partition", pcall, p, all[lo:hi]) {
			x.keep(p)
		}
		joined = append(joined, expand(p)...)
		prev = hi
		if i < k && hi > 0 && hi < n {
			off, boundary := 0, false
			for _, seg := range t {
				off += len(seg.Text)
				if off == hi {
					boundary = true
				}
			}
			if !boundary {
				mid = true
			}
		}
	}
	if !sameBytes(joined, all) {
		c.Violation("partition:concat-law", fmt.Sprintf("parts of %s do not concatenate back: %s", call(), firstDiff(joined, all)), call())
	}
	x.unchanged("partition", call, t, snap)
	if mid {
		c.Count("partition_mid_segment", 1)
	}
	if beyond {
		c.Count("partition_beyond_length", 1)
	}
}

var splitRunes = []rune{'\n', '\n', '\n', ' ', 'a', 'b', '好', 'x', 'é'}

func opSplit(x *opCtx) {
	c, r := x.c, x.c.Rand
	t := x.pick()
	snap := deepCopy(t)
	sep := splitRunes[r.Intn(len(splitRunes))]
	if sep >= utf8.RuneSelf && !validSegments(t) {
		// a rune cut in two by a segment boundary (Partition at a byte index
		// can do that) is one rune in the plain text but not in any segment
		sep = '\n'
	}
	call := func() string { return fmt.Sprintf("%s.SplitByRune(%q)", show(t), sep) }
	parts := t.SplitByRune(sep)
	c.Count("op_split", 1)
	all := expand(t)
	p := plain(t)
	want := strings.Split(p, string(sep))
	if len(t) == 0 {
		// The empty text: zero parts and one empty part both join back to "".
		if len(parts) > 1 || (len(parts) == 1 && len(parts[0]) != 0) {
			c.Violation("split:content", call()+" of the empty text returns "+fmt.Sprint(len(parts))+" parts", call())
		}
		for _, q := range parts {
			for _, pr := range nfProblems(q) {
				c.Violation("split:"+pr, call()+" part is not in normal form", call())
			}
		}
		return
	}
	if len(parts) != len(want) {
		c.Violation("split:count", fmt.Sprintf("%s returns %d parts; the plain text splits into %d", call(), len(parts), len(want)), call())
		return
	}
	off := 0
	pasted := false
	for i, q := range parts {
		hi := off + len(want[i])
		if x.verify("split", func() string { return fmt.Sprintf("%s part %d", call(), i) }, q, all[off:hi]) {
			x.keep(q)
		}
		if strings.ContainsRune(plain(q), sep) {
			c.Violation("split:contains-separator", fmt.Sprintf("%s part %d contains the separator", call(), i), call())
		}
		if len(q) >= 2 {
			pasted = true
		}
		off = hi + utf8.RuneLen(sep)
	}
	x.unchanged("split", call, t, snap)
	if pasted {
		c.Count("split_part_spans_segments", 1)
	}
	if len(parts) >= 3 {
		c.Count("split_three_or_more_parts", 1)
	}
}

func opTrim(x *opCtx) {
	c, r := x.c, x.c.Rand
	var t ui.Text
	for tries := 0; ; tries++ {
		t = x.pick()
		if validSegments(t) {
			break
		}
		if tries > 8 {
			t = nil
			break
		}
	}
	snap := deepCopy(t)
	p := plain(t)
	full := wcwidth.Of(p)
	var w int
	switch r.Intn(8) {
	case 0:
		w = 0
	case 1:
		w = full
	case 2:
		w = full + 1 + r.Intn(3)
	case 3: // exactly the width of a whole number of segments
		if len(t) > 0 {
			for _, seg := range t[:r.Intn(len(t))+1] {
				w += wcwidth.Of(seg.Text)
			}
		}
	case 4:
		w = -1 - r.Intn(3)
	default:
		w = r.Intn(full + 2)
	}
	call := func() string { return fmt.Sprintf("%s.TrimWcwidth(%d)", show(t), w) }
	got := t.TrimWcwidth(w)
	c.Count("op_trim", 1)
	all := expand(t)
	if w < 0 {
		// Negative widths are not specified; the result must still be a
		// normal-form prefix.
		c.Count("trim_negative_width", 1)
		for _, pr := range nfProblems(got) {
			c.Violation("trimwcwidth:"+pr, fmt.Sprintf("%s returns %s, not in normal form (%s)", call(), show(got), pr), call())
		}
		e := expand(got)
		if len(e) > len(all) || !sameBytes(e, all[:len(e)]) {
			c.Violation("trimwcwidth:not-prefix", fmt.Sprintf("%s returns %s, not a prefix", call(), show(got)), call())
		}
		x.unchanged("trimwcwidth", call, t, snap)
		return
	}
	cut := trimModel(p, w)
	want := all[:cut]
	for _, pr := range nfProblems(got) {
		c.Violation("trimwcwidth:"+pr, fmt.Sprintf("%s returns %s, not in normal form (%s)", call(), show(got), pr),
			map[string]any{"call": call(), "got": show(got)})
	}
	e := expand(got)
	switch {
	case sameBytes(e, want):
		if len(nfProblems(got)) == 0 {
			x.keep(got)
		}
	case len(e) < len(want) && sameBytes(e, want[:len(e)]) && wcwidth.Of(string(bytesOf(want[len(e):]))) == 0:
		// A proper prefix that only lacks zero-width runes: not the largest prefix.
		c.Violation("trimwcwidth:not-largest-zero-width",
			fmt.Sprintf("%s returns %s; the largest prefix of width <= %d is %s (zero-width runes that still fit are dropped)", call(), show(got), w, show(normalize(want))),
			map[string]any{"call": call, "got": show(got), "expected": show(normalize(want))})
	default:
		c.Violation("trimwcwidth:"+diffKind(e, want), fmt.Sprintf("%s returns %s, expected %s: %s", call(), show(got), show(normalize(want)), firstDiff(e, want)),
			map[string]any{"call": call(), "got": show(got), "expected": show(normalize(want))})
	}
	x.unchanged("trimwcwidth", call, t, snap)
	if cut < len(all) && cut > 0 {
		off, boundary := 0, false
		for _, seg := range t {
			off += len(seg.Text)
			if off == cut {
				boundary = true
			}
		}
		if boundary {
			c.Count("trim_cut_at_segment_boundary", 1)
		} else {
			c.Count("trim_cut_mid_segment", 1)
		}
	}
	// zero-width runes at the start of a segment that still fit after the width is used up
	for off, i := 0, 0; i < len(t); i++ {
		if off > 0 && off < cut && wcwidth.Of(p[off:cut]) == 0 && wcwidth.Of(p[:off]) == w {
			c.Count("trim_zero_width_runes_after_exact_fit", 1)
			break
		}
		off += len(t[i].Text)
	}
	if cut < len(all) {
		// the next rune did not fit although some width was left: a wide rune at the edge
		if wcwidth.Of(p[:cut]) < w {
			c.Count("trim_wide_rune_at_edge", 1)
		}
	}
}

func bytesOf(bs []sbyte) []byte {
	b := make([]byte, len(bs))
	for i := range bs {
		b[i] = bs[i].b
	}
	return b
}

func opStyle(x *opCtx) {
	c, r := x.c, x.c.Rand
	n := 1 + r.Intn(3)
	sts := make([]styling, n)
	reals := make([]ui.Styling, n)
	names := make([]string, n)
	for i := range sts {
		sts[i] = randStyling(c)
		reals[i], names[i] = sts[i].real, sts[i].name
	}
	apply := func(s ui.Style) ui.Style {
		for _, st := range sts {
			st.model(&s)
		}
		return s
	}
	if r.Intn(5) == 0 {
		seg := randSegment(r, x.styles)
		snap := *seg
		call := func() string {
			return fmt.Sprintf("ui.StyleSegment(&Segment%s%s, %s)", showStyle(seg.Style), mon.Q(seg.Text), strings.Join(names, ", "))
		}
		got := ui.StyleSegment(seg, reals...)
		c.Count("op_style_segment", 1)
		if got == nil || got.Text != seg.Text || got.Style != apply(snap.Style) {
			c.Violation("stylesegment:style", fmt.Sprintf("%s returns %v, expected style %s", call(), got, showStyle(apply(snap.Style))), call())
		}
		if *seg != snap || got == seg {
			c.Violation("stylesegment:mutated-input", call()+" modified or returned its input", call())
		}
		if ap := ui.ApplyStyling(snap.Style, reals...); ap != apply(snap.Style) {
			c.Violation("applystyling:style", fmt.Sprintf("ui.ApplyStyling(%s, %s) = %s, expected %s", showStyle(snap.Style), strings.Join(names, ", "), showStyle(ap), showStyle(apply(snap.Style))), call())
		}
		return
	}
	t := x.pick()
	snap := deepCopy(t)
	all := expand(t)
	want := make([]sbyte, len(all))
	for i, b := range all {
		want[i] = sbyte{b.b, apply(b.st)}
	}
	collapses := false
	for i := 1; i < len(t); i++ {
		if apply(t[i-1].Style) == apply(t[i].Style) {
			collapses = true
		}
	}
	call := func() string { return fmt.Sprintf("ui.StyleText(%s, %s)", show(t), strings.Join(names, ", ")) }
	got := ui.StyleText(t, reals...)
	c.Count("op_style_text", 1)
	if x.verify("styletext", call, got, want) {
		x.keep(got)
	}
	x.unchanged("styletext", call, t, snap)
	if collapses {
		c.Count("restyle_makes_neighbours_equal", 1)
	}
	if len(t) == 0 {
		c.Count("restyle_empty_text", 1)
	}
}

func opClone(x *opCtx) {
	c := x.c
	t := x.pick()
	snap := deepCopy(t)
	call := func() string { return show(t) + ".Clone()" }
	got := t.Clone()
	c.Count("op_clone", 1)
	if x.verify("clone", call, got, expand(t)) && len(got) == len(t) {
		// a deep copy: modifying the clone must not change the original
		for i := range got {
			if got[i] == t[i] {
				c.Violation("clone:shares-segment", call()+" shares a segment with the original", call())
			}
			got[i].Text += "!"
			got[i].Style.Bold = !got[i].Style.Bold
		}
		x.unchanged("clone", call, t, snap)
	}
	if len(t) == 0 {
		c.Count("clone_empty_text", 1)
	}
}

func opBuilder(x *opCtx) {
	c, r := x.c, x.c.Rand
	var tb ui.TextBuilder
	var want []sbyte
	var steps []func() string
	traceStr := func() string {
		parts := make([]string, len(steps))
		for i, f := range steps {
			parts[i] = f()
		}
		return strings.Join(parts, "; ")
	}
	n := 1 + r.Intn(6)
	type earlier struct {
		t    ui.Text
		snap ui.Text
	}
	var earlierResults []earlier
	written := false
	for i := 0; i < n; i++ {
		switch k := r.Intn(10); {
		case k == 0:
			tb.Reset()
			want, written = nil, false
			steps = append(steps, func() string { return "Reset()" })
		case k == 1:
			got := tb.Text()
			call := func() string { return "TextBuilder{" + traceStr() + "}.Text()" }
			x.verify("textbuilder", call, got, want)
			earlierResults = append(earlierResults, earlier{got, deepCopy(got)})
			steps = append(steps, func() string { return "Text()" })
		default:
			t := x.pick()
			if len(want) > 0 && len(t) > 0 && want[len(want)-1].st == t[0].Style {
				c.Count("concat_equal_style_junctions", 1)
			}
			snap := deepCopy(t)
			tb.WriteText(t)
			x.unchanged("textbuilder", func() string { return "TextBuilder.WriteText(" + show(t) + ")" }, t, snap)
			want = append(want, expand(t)...)
			if len(t) > 0 {
				written = true
			}
			steps = append(steps, func() string { return "WriteText(" + show(t) + ")" })
		}
		if tb.Empty() != !written {
			c.Violation("textbuilder:empty", fmt.Sprintf("TextBuilder{%s}.Empty() = %v", traceStr(), tb.Empty()), traceStr())
		}
	}
	call := func() string { return "TextBuilder{" + traceStr() + "}.Text()" }
	got := tb.Text()
	if x.verify("textbuilder", call, got, want) {
		x.keep(got)
	}
	for _, e := range earlierResults {
		if !deepEq(e.t, e.snap) {
			c.Violation("textbuilder:earlier-result-changed", "a Text returned by TextBuilder.Text() changed when the builder was written to afterwards: "+call(), call())
		}
	}
	c.Count("op_builder", 1)
}

func opFromSegment(x *opCtx) {
	c := x.c
	seg := randSegment(c.Rand, x.styles)
	call := func() string {
		return fmt.Sprintf("ui.TextFromSegment(&Segment%s%s)", showStyle(seg.Style), mon.Q(seg.Text))
	}
	got := ui.TextFromSegment(seg)
	x.verify("textfromsegment", call, got, expandStr(seg.Text, seg.Style))
	c.Count("op_from_segment", 1)
}

// Counting helpers documented next to Text.
func opCount(x *opCtx) {
	c := x.c
	t := x.pick()
	sep := splitRunes[c.Rand.Intn(len(splitRunes))]
	if sep >= utf8.RuneSelf && !validSegments(t) {
		sep = '\n'
	}
	p := plain(t)
	if got, want := t.CountRune(sep), strings.Count(p, string(sep)); got != want {
		c.Violation("countrune:content", fmt.Sprintf("%s.CountRune(%q) = %d, the plain text has %d", show(t), sep, got, want), show(t))
	}
	if got, want := t.CountLines(), strings.Count(p, "\n")+1; got != want {
		c.Violation("countlines:content", fmt.Sprintf("%s.CountLines() = %d, expected %d", show(t), got, want), show(t))
	}
	c.Count("op_count", 1)
}

var ops = []struct {
	weight int
	run    func(*opCtx)
}{
	{2, opT}, {4, opConcat}, {4, opTextConcat}, {3, opSegmentConcat}, {5, opPartition}, {5, opSplit},
	{5, opTrim}, {5, opStyle}, {2, opClone}, {3, opBuilder}, {1, opFromSegment}, {1, opCount},
}

const opsPerCase = 150

func runOps(c *mon.Case) {
	r := c.Rand
	x := &opCtx{c: c, styles: stylePool(r, 2+r.Intn(5))}
	total := 0
	for _, o := range ops {
		total += o.weight
	}
	for i := 0; i < opsPerCase; i++ {
		k := r.Intn(total)
		for _, o := range ops {
			if k < o.weight {
				o.run(x)
				break
			}
			k -= o.weight
		}
	}
	c.Evals(opsPerCase - 1)
	// Non-trivial: the case produced multi-segment results that were fed back.
	multi := 0
	for _, t := range x.pool {
		if len(t) >= 2 {
			multi++
		}
	}
	if multi >= 3 {
		sig := make([]string, 0, len(x.pool))
		for _, t := range x.pool {
			sig = append(sig, show(t))
		}
		c.Nontrivial(sig)
	}
	if len(x.pool) > 0 {
		c.Sample("pool_text", show(x.pool[len(x.pool)-1]))
	}
}

// ---------------------------------------------------------------------------
// Extra constructors of package ui: MarkText / MarkLines / StyleRegions /
// ParseSGREscapedText all return Text values and are covered by the
// package's normal-form promise.

func runConstruct(c *mon.Case) {
	r := c.Rand
	styles := stylePool(r, 2+r.Intn(4))
	switch r.Intn(3) {
	case 0:
		constructMark(c, styles)
	case 1:
		constructRegions(c, styles)
	default:
		constructSGR(c, styles)
	}
}

func styleAsStyling(s ui.Style) ui.Styling {
	sts := []ui.Styling{ui.Reset, ui.Fg(s.Fg), ui.Bg(s.Bg)}
	for i := 0; i < 6; i++ {
		if *boolField(&s, i) {
			sts = append(sts, boolOn[i])
		}
	}
	return ui.Stylings(sts...)
}

func validPiece(r *rand.Rand) string {
	for {
		p := randPiece(r)
		if utf8.ValidString(p) && !strings.Contains(p, "\x1b") {
			return p
		}
	}
}

func constructMark(c *mon.Case, styles []ui.Style) {
	r := c.Rand
	x := &opCtx{c: c, styles: styles}
	// stylesheet: one rune per style
	marks := []rune("-x#*~+")
	sheet := ui.RuneStylesheet{}
	for i, st := range styles {
		sheet[marks[i]] = styleAsStyling(st)
	}
	nLines := 1 + r.Intn(3)
	var args []any
	var want []sbyte
	var desc []string
	for l := 0; l < nLines; l++ {
		var line, mark strings.Builder
		var lw []sbyte
		n := r.Intn(7)
		for i := 0; i < n; i++ {
			p := validPiece(r)
			k := r.Intn(len(styles))
			line.WriteString(p)
			mark.WriteString(strings.Repeat(string(marks[k]), utf8.RuneCountInString(p)))
			lw = append(lw, expandStr(p, styles[k])...)
		}
		if r.Intn(4) == 0 { // a line without style information is unstyled
			args = append(args, line.String())
			want = append(want, expandStr(line.String(), ui.Style{})...)
			desc = append(desc, mon.Q(line.String()))
			continue
		}
		m := mark.String()
		args = append(args, line.String(), sheet, m)
		want = append(want, lw...)
		desc = append(desc, mon.Q(line.String())+"/"+mon.Q(m))
		if l == 0 && r.Intn(2) == 0 {
			got := ui.MarkText(line.String(), sheet, m)
			x.verify("marktext", func() string { return "ui.MarkText(" + mon.Q(line.String()) + ", sheet, " + mon.Q(m) + ")" }, got, lw)
			c.Count("marktext_calls", 1)
		}
	}
	got := ui.MarkLines(args...)
	x.verify("marklines", func() string { return "ui.MarkLines(" + strings.Join(desc, ", ") + ")" }, got, want)
	c.Count("marklines_calls", 1)
	if len(got) >= 2 {
		c.Nontrivial("mark", show(got))
	}
}

func constructRegions(c *mon.Case, styles []ui.Style) {
	r := c.Rand
	x := &opCtx{c: c, styles: styles}
	var sb strings.Builder
	for i, n := 0, r.Intn(6); i < n; i++ {
		sb.WriteString(validPiece(r))
	}
	s := sb.String()
	// Non-overlapping regions with distinct start positions (the documented
	// tie-breaking rules are a different concern); adjacent and empty regions
	// are included.
	var regions []ui.StylingRegion
	want := expandStr(s, ui.Style{})
	pos := 0
	var desc []string
	emptyRegion, touching := false, false
	for pos <= len(s) && len(regions) < 5 && r.Intn(6) != 0 {
		from := pos + r.Intn(len(s)-pos+1)
		if len(regions) > 0 && from == regions[len(regions)-1].From {
			from++ // distinct start positions
			if from > len(s) {
				break
			}
		}
		to := from + r.Intn(len(s)-from+1)
		if r.Intn(3) == 0 {
			to = from + min(len(s)-from, 1+r.Intn(2))
		}
		st := styles[r.Intn(len(styles))]
		regions = append(regions, ui.StylingRegion{Ranging: diag.Ranging{From: from, To: to}, Styling: styleAsStyling(st), Priority: r.Intn(3)})
		for i := from; i < to; i++ {
			want[i].st = st
		}
		if from == to {
			emptyRegion = true
		}
		if from == pos && len(regions) > 1 {
			touching = true
		}
		desc = append(desc, fmt.Sprintf("[%d,%d)%s", from, to, showStyle(st)))
		pos = to
	}
	r.Shuffle(len(regions), func(i, j int) { regions[i], regions[j] = regions[j], regions[i] })
	got := ui.StyleRegions(s, regions)
	x.verify("styleregions", func() string { return "ui.StyleRegions(" + mon.Q(s) + ", " + strings.Join(desc, " ") + ")" }, got, want)
	c.Count("styleregions_calls", 1)
	if emptyRegion {
		c.Count("styleregions_empty_region", 1)
	}
	if touching {
		c.Count("styleregions_touching_regions", 1)
	}
	if len(got) >= 2 {
		c.Nontrivial("regions", show(got))
	}
}

func constructSGR(c *mon.Case, styles []ui.Style) {
	r := c.Rand
	// The SGR parser's attribute table has no entry for italic (SGR 3); style
	// fidelity of the parser is outside this property, so italic is not used.
	styles = append([]ui.Style(nil), styles...)
	for i := range styles {
		styles[i].Italic = false
	}
	x := &opCtx{c: c, styles: styles}
	var sb strings.Builder
	var want []sbyte
	cur := ui.Style{}
	repeats := false
	for i, n := 0, r.Intn(8); i < n; i++ {
		switch r.Intn(3) {
		case 0: // full style change: reset + attributes
			st := styles[r.Intn(len(styles))]
			if st == cur {
				repeats = true
			}
			sb.WriteString("\x1b[;" + st.SGR() + "m")
			if st.SGR() == "" {
				// "\x1b[;m" = reset
			}
			cur = st
		case 1:
			sb.WriteString("\x1b[m")
			if cur == (ui.Style{}) {
				repeats = true
			}
			cur = ui.Style{}
		default:
			p := validPiece(r)
			sb.WriteString(p)
			want = append(want, expandStr(p, cur)...)
		}
	}
	s := sb.String()
	got := ui.ParseSGREscapedText(s)
	x.verify("parsesgr", func() string { return "ui.ParseSGREscapedText(" + mon.Q(s) + ")" }, got, want)
	c.Count("parsesgr_calls", 1)
	if repeats {
		c.Count("parsesgr_repeated_style", 1)
	}
	// VTString is the inverse direction: parsing it gives the text back.
	t := randText(r, styles, 6)
	ok := true
	for _, seg := range t {
		if !utf8.ValidString(seg.Text) || strings.Contains(seg.Text, "\x1b") {
			ok = false
		}
	}
	if ok {
		back := ui.ParseSGREscapedText(t.VTString())
		x.verify("parsesgr-vtstring", func() string { return "ui.ParseSGREscapedText(" + show(t) + ".VTString())" }, back, expand(t))
		c.Count("vtstring_roundtrips", 1)
	}
	if len(got) >= 2 {
		c.Nontrivial("sgr", show(got))
	}
}

// ---------------------------------------------------------------------------
// Styledown: Render(Derender(t, defs)) == t.

var sdChars = []rune("rgbRGBkKxyz0123456789!@%^&()+=[]{}<>?/*_#")
var sdPieces = []string{"a", "b", "foo", " ", "  ", "x y", "-", "*", "#", "_", "no-eol", "r red", "好", "世界", "ｱ", "😀", "é", "Ω", "𝒜", " ", "�"}

func runStyledown(c *mon.Case) {
	r := c.Rand
	// style definitions
	type def struct {
		ch    rune
		line  string
		style ui.Style
	}
	var defs []def
	usedChar := map[rune]bool{}
	usedStyle := map[ui.Style]bool{}
	for i, n := 0, r.Intn(6); i < n; i++ {
		ch := sdChars[r.Intn(len(sdChars))]
		if usedChar[ch] {
			continue
		}
		k := 1 + r.Intn(3)
		names := make([]string, k)
		var st ui.Style
		for j := range names {
			a := atomStyling(r, true)
			names[j] = a.name
			a.model(&st)
		}
		if usedStyle[st] {
			continue // Derender documents an error for two characters with the same style
		}
		usedChar[ch], usedStyle[st] = true, true
		sep := " "
		if r.Intn(5) == 0 {
			sep = "   "
		}
		defs = append(defs, def{ch, string(ch) + sep + strings.Join(names, sep), st})
	}
	// the styles that can be expressed
	avail := []ui.Style{{}}
	builtin := map[rune]ui.Style{'*': {Bold: true}, '_': {Underlined: true}, '#': {Inverse: true}}
	for _, ch := range []rune{'*', '_', '#'} {
		if !usedChar[ch] {
			avail = append(avail, builtin[ch])
		}
	}
	for _, d := range defs {
		avail = append(avail, d.style)
	}
	var lines []string
	for _, d := range defs {
		lines = append(lines, d.line)
		if r.Intn(6) == 0 {
			lines = append(lines, "")
		}
	}
	styleDefs := strings.Join(lines, "\n")

	// text: lines of styled pieces joined by unstyled newlines
	uncovered := r.Intn(20) == 0
	var bs []sbyte
	nLines := r.Intn(5)
	for l := 0; l < nLines; l++ {
		if l > 0 {
			bs = append(bs, sbyte{'\n', ui.Style{}})
		}
		for i, n := 0, r.Intn(6); i < n; i++ {
			bs = append(bs, expandStr(sdPieces[r.Intn(len(sdPieces))], avail[r.Intn(len(avail))])...)
		}
	}
	if nLines > 0 && r.Intn(2) == 0 {
		bs = append(bs, sbyte{'\n', ui.Style{}})
	}
	if uncovered {
		var odd ui.Style
		for {
			odd = randStyle(r)
			found := false
			for _, a := range avail {
				if a == odd {
					found = true
				}
			}
			if !found {
				break
			}
		}
		bs = append(bs, expandStr("Q", odd)...)
	}
	t := normalize(bs)
	snap := deepCopy(t)
	call := func() string { return fmt.Sprintf("styledown.Derender(%s, %s)", show(t), mon.Q(styleDefs)) }
	src, err := styledown.Derender(t, styleDefs)
	c.Count("derender_calls", 1)
	if uncovered {
		c.Count("derender_uncovered_style", 1)
		if err == nil {
			c.Violation("styledown:uncovered-style-accepted", call()+" succeeds although a segment's style has no character", map[string]any{"call": call(), "markup": src})
		}
		return
	}
	if err != nil {
		c.Violation("styledown:derender-error", call()+" fails: "+err.Error(), call())
		return
	}
	back, err := styledown.Render(src)
	if err != nil {
		c.Violation("styledown:render-error", fmt.Sprintf("styledown.Render of the output of %s fails: %v", call(), err), map[string]any{"call": call(), "markup": src})
		return
	}
	for _, p := range nfProblems(back) {
		c.Violation("styledown-render:"+p, fmt.Sprintf("styledown.Render(%s) returns %s, not in normal form", mon.Q(src), show(back)), src)
	}
	if !reflect.DeepEqual(back, t) {
		e, w := expand(back), expand(t)
		c.Violation("styledown:roundtrip-"+diffKind(e, w), fmt.Sprintf("Render(Derender(t)) = %s, t = %s (%s)", show(back), show(t), firstDiff(e, w)),
			map[string]any{"text": show(t), "styleDefs": styleDefs, "markup": src, "back": show(back)})
	}
	if !deepEq(t, snap) {
		c.Violation("styledown:mutated-input", call()+" modified its input", call())
	}
	c.Count("styledown_roundtrips", 1)
	if len(defs) > 0 && strings.Contains(src, "\n\n") {
		c.Count("styledown_with_config_stanza", 1)
	}
	if strings.Contains(src, "no-eol") {
		c.Count("styledown_no_eol", 1)
	}
	wide := false
	for _, rn := range plain(t) {
		if wcwidth.OfRune(rn) == 2 {
			wide = true
		}
	}
	if wide {
		c.Count("styledown_wide_runes", 1)
	}
	if len(t) >= 2 {
		c.Nontrivial("sd", show(t), styleDefs)
	}
	c.Sample("styledown", map[string]any{"text": show(t), "styleDefs": styleDefs, "markup": src})
}

// Spec returns the C33 check.
func Spec() *mon.Spec {
	return &mon.Spec{
		ID:            "C33",
		SpinViolation: true, Level: "exploration",
		Rule: "phase ops: a case runs 150 random operations (ui.T, Concat, Text.Concat/RConcat, Segment.Concat/RConcat, Partition, SplitByRune, TrimWcwidth, StyleText/StyleSegment/ApplyStyling with atomic, joint, parsed and nil stylings, Clone, TextBuilder, TextFromSegment, CountRune/CountLines) over a pool of normal-form texts of 0..8 segments drawn from 2..6 styles (so equal neighbouring styles arise constantly), with wide, zero-width, control and invalid bytes and newlines; every returned Text is checked for the documented normal form and compared byte-by-byte (content and style) with the harness's expansion model; inputs must stay unmodified; normal-form results are fed back as inputs. phase construct: MarkText/MarkLines, StyleRegions and ParseSGREscapedText/VTString against the same model. phase styledown: Render(Derender(t, defs)) must be deeply equal to t for generated style definitions (0..5 characters, overriding builtins, multi-styling lines) and texts using only expressible styles. Non-trivial = ops case that ends with >= 3 multi-segment texts in its pool; construct/styledown case whose text has >= 2 segments.",
		Assumptions: []string{
			"Partition is called with non-decreasing indices; for indices beyond the length only normal form and the concatenation law are demanded",
			"SplitByRune of the empty text may return zero parts or one empty part",
			"TrimWcwidth with a negative width is only required to return a normal-form prefix; TrimWcwidth inputs have segments that are valid UTF-8 apart from 0xff bytes, so that segment widths add up",
			"styledown round trip: texts are valid UTF-8 without zero-width/control runes (Render documents rejecting them), newlines carry the default style (the notation has no style position for a newline), every style is expressible, style definitions do not give two characters the same style",
			"StyleRegions is called with regions that do not overlap and have distinct start positions",
		},
		Phases: []mon.Phase{
			{Name: "ops", Quick: 8000, Thorough: 200000, Run: runOps},
			{Name: "construct", Quick: 30000, Thorough: 1000000, Run: runConstruct},
			{Name: "styledown", Quick: 30000, Thorough: 1000000, Run: runStyledown},
		},
		Floors: map[string]int{
			"distinct_nontrivial": 13000,
			"op_partition":        25000, "op_split": 25000, "op_trim": 25000, "op_style_text": 20000, "op_concat": 20000, "op_text_concat": 20000,
			"op_segment_concat": 15000, "op_builder": 15000, "op_clone": 10000, "op_t": 10000, "parsestyling_calls": 12000,
			"concat_equal_style_junctions": 10000, "restyle_makes_neighbours_equal": 4000, "restyle_empty_text": 3000,
			"segment_concat_equal_style": 4000, "partition_mid_segment": 7000, "split_part_spans_segments": 13000, "split_three_or_more_parts": 4500,
			"trim_cut_mid_segment": 4000, "trim_cut_at_segment_boundary": 2000, "trim_wide_rune_at_edge": 500, "trim_zero_width_runes_after_exact_fit": 1000,
			"clone_empty_text": 1500, "empty_segment_operands": 600, "empty_string_operands": 600,
			"styledown_roundtrips": 9000, "styledown_with_config_stanza": 5000, "styledown_no_eol": 6000, "styledown_wide_runes": 4000, "derender_uncovered_style": 500,
			"marklines_calls": 3000, "styleregions_calls": 3000, "styleregions_empty_region": 2000, "styleregions_touching_regions": 1000,
			"parsesgr_calls": 3000, "parsesgr_repeated_style": 2000, "vtstring_roundtrips": 2000,
		},
	}
}
