package main

import (
	"fmt"
	"os"
	"strconv"

	"src.elv.sh/pkg/edit/complete"
	"src.elv.sh/pkg/eval"
	"src.elv.sh/pkg/eval/vars"
	"verifharness/internal/elv"
)

func main() {
	dir, _ := os.MkdirTemp("/dev/shm", "probe")
	defer os.RemoveAll(dir)
	os.Chdir(dir)
	for _, n := range []string{"foo", "fo o", "fo'q", "fo\"d", "fo\nl", "fo\xffx", ".fohid", "~fo", "-fo", "fo$x", "fo*", "fo=b", "fo,c", "fo\\b", "fo#h", "fo😀"} {
		os.WriteFile(n, nil, 0o644)
	}
	os.Mkdir("fodir", 0o755)
	os.Mkdir("sub", 0o755)
	os.WriteFile("sub/foo", nil, 0o644)
	os.Symlink("sub", "folink")
	ev := elv.New()
	ns := eval.BuildNs().AddVar("a b", vars.FromInit("nsab")).AddVar("plain", vars.FromInit("p")).Ns()
	ev.ExtendGlobal(eval.BuildNs().AddVar("a b", vars.FromInit("ab")).AddVar("abc", vars.FromInit("abc")).AddNs("myns", ns).AddVar("m", vars.FromInit(map[string]any{})))
	os.Setenv("foo.bar", "1")
	for _, b := range os.Args[1:] {
		res, err := complete.Complete(complete.CodeBuffer{Content: b, Dot: len(b)}, ev, complete.Config{})
		fmt.Println("BUF", strconv.Quote(b), "err", err)
		if res != nil {
			fmt.Println("  name", res.Name, "replace", res.Replace)
			for i, it := range res.Items {
				if i > 40 {
					break
				}
				fmt.Println("   ", strconv.Quote(it.ToInsert), "show", strconv.Quote(it.ToShow.String()))
			}
		}
	}
}
