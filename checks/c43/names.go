package c43

import (
	"fmt"
	"math/rand"
	"os"
	"strings"
	"unicode"
	"unicode/utf8"

	"src.elv.sh/pkg/edit/complete"
	"src.elv.sh/pkg/eval"
	"src.elv.sh/pkg/eval/vals"
	"src.elv.sh/pkg/eval/vars"
	"src.elv.sh/pkg/parse"
	"src.elv.sh/pkg/parse/cmpd"
	"verifharness/internal/elv"
	"verifharness/internal/mon"
)

// Phase "names": completion of variables, assignment targets, commands and
// map keys that were declared under hostile names.

// varNameRune: characters that may appear unquoted after $ (language.md,
// "Variable use"): ASCII letters and digits, -_:~ and printable non-ASCII.
func varNameRune(r rune) bool {
	switch {
	case r == utf8.RuneError:
		return false
	case 'a' <= r && r <= 'z', 'A' <= r && r <= 'Z', '0' <= r && r <= '9':
		return true
	case r == '-' || r == '_' || r == ':' || r == '~':
		return true
	}
	return r >= 0x80 && unicode.IsPrint(r)
}

func allVarName(s string) bool {
	if !utf8.ValidString(s) {
		return false
	}
	for _, r := range s {
		if !varNameRune(r) {
			return false
		}
	}
	return true
}

func identName(r *rand.Rand) string {
	for {
		s := genName(r, nameStems[r.Intn(len(nameStems))])
		if strings.ContainsAny(s, ":") || strings.HasSuffix(s, "~") || strings.HasPrefix(s, "@") {
			continue
		}
		return s
	}
}

type scope struct {
	ns    string // "" or "name:"
	vars  map[string]vars.Var
	names []string // data variables
	fns   []string // function names (without ~)
}

type namesWorld struct {
	ev      *eval.Evaler
	scopes  []*scope // [0] is global
	keys    []string
	ext     []string // commands in PATH
	envs    []string
	root    string
	nsNames []string
}

func marker(kind, ns, name string) string { return kind + "|" + ns + "|" + name }

func buildNames(c *mon.Case) (*namesWorld, error) {
	r := c.Rand
	nw := &namesWorld{ev: elv.New()}
	nw.root = fmt.Sprintf("%s/c43-names-%d", c.Dir, c.I)
	os.RemoveAll(nw.root)
	if err := os.MkdirAll(nw.root+"/bin", 0o755); err != nil {
		return nil, err
	}
	if err := os.MkdirAll(nw.root+"/cwd", 0o755); err != nil {
		return nil, err
	}
	mkScope := func(ns string, nv, nf int) (*scope, eval.NsBuilder) {
		sc := &scope{ns: ns, vars: map[string]vars.Var{}}
		b := eval.BuildNs()
		seen := map[string]bool{}
		for i := 0; i < nv; i++ {
			n := identName(r)
			if seen[n] {
				continue
			}
			seen[n] = true
			v := vars.FromInit(vals.MakeList(marker("V", ns, n)))
			sc.vars[n] = v
			sc.names = append(sc.names, n)
			b = b.AddVar(n, v)
		}
		for i := 0; i < nf; i++ {
			n := identName(r)
			if seen[n] {
				continue
			}
			seen[n] = true
			m := marker("F", ns, n)
			sc.fns = append(sc.fns, n)
			b = b.AddGoFn(n, func() string { return m })
		}
		return sc, b
	}
	g, gb := mkScope("", 3+r.Intn(8), 2+r.Intn(5))
	nw.scopes = append(nw.scopes, g)
	nsNames := []string{"myns", "é好", "N-1_x"}
	nns := 1 + r.Intn(2)
	for i := 0; i < nns; i++ {
		name := nsNames[(r.Intn(3)+i)%3]
		dup := false
		for _, s := range nw.scopes {
			if s.ns == name+":" {
				dup = true
			}
		}
		if dup {
			continue
		}
		sc, b := mkScope(name+":", 2+r.Intn(6), 1+r.Intn(4))
		nw.scopes = append(nw.scopes, sc)
		nw.nsNames = append(nw.nsNames, name+":")
		gb = gb.AddNs(name, b.Ns())
	}
	// the map for index completion
	m := vals.EmptyMap
	seenK := map[string]bool{}
	for i, n := 0, 2+r.Intn(8); i < n; i++ {
		k := genName(r, nameStems[r.Intn(len(nameStems))])
		if seenK[k] {
			continue
		}
		seenK[k] = true
		nw.keys = append(nw.keys, k)
		m = m.Assoc(k, marker("K", "", k))
	}
	m = m.Assoc(1.5, "float key").Assoc(vals.EmptyList, "list key")
	gb = gb.AddVar("m", vars.FromInit(m))
	gb = gb.AddVar("li", vars.FromInit(vals.MakeList("a", "b")))
	nw.ev.ExtendGlobal(gb)
	// external commands
	seenE := map[string]bool{}
	for i, n := 0, 2+r.Intn(6); i < n; i++ {
		e := genName(r, nameStems[r.Intn(len(nameStems))])
		if seenE[e] {
			continue
		}
		seenE[e] = true
		if err := os.WriteFile(nw.root+"/bin/"+e, []byte("#!/bin/sh\n"), 0o755); err != nil {
			return nil, err
		}
		nw.ext = append(nw.ext, e)
	}
	os.WriteFile(nw.root+"/bin/not-executable", nil, 0o644)
	// environment variables
	for i, n := 0, 1+r.Intn(4); i < n; i++ {
		e := "C43" + identName(r)
		if strings.ContainsAny(e, "=\x00") {
			continue
		}
		if os.Setenv(e, marker("E", "E:", e)) == nil {
			nw.envs = append(nw.envs, e)
		}
	}
	return nw, nil
}

func (nw *namesWorld) cleanup() {
	for _, e := range nw.envs {
		os.Unsetenv(e)
	}
	os.RemoveAll(nw.root)
}

func (nw *namesWorld) scopeOf(ns string) *scope {
	for _, s := range nw.scopes {
		if s.ns == ns {
			return s
		}
	}
	return nil
}

func prefixOf(r *rand.Rand, s string) string {
	pts := cutPoints(s)
	switch x := r.Intn(10); {
	case x < 5:
		return s[:pts[r.Intn(len(pts))]]
	case x < 7:
		return ""
	case x < 9:
		return s
	default:
		_, w := utf8.DecodeRuneInString(s)
		return s[:w]
	}
}

func pick(r *rand.Rand, ss []string) (string, bool) {
	if len(ss) == 0 {
		return "", false
	}
	return ss[r.Intn(len(ss))], true
}

var anyTemplates = [][2]string{
	{"echo ", ""}, {"echo ", ""}, {"put a ", ""}, {"echo (put ", ")"}, {"echo (put ", ""}, {"var x = ", ""},
	{"echo [", "]"}, {"echo [a ", ""}, {"echo &k=", ""}, {"if ", ""}, {"echo a", ""}, {"echo ", " tail"}, {"echo x | each {|v| put ", " }"},
	{"echo 'q'", ""}, {"nop é好 ", "\n"},
}

// ---- A. variable use -------------------------------------------------------

func runVariable(c *mon.Case, nw *namesWorld) {
	r := c.Rand
	ev := nw.ev
	sc := nw.scopes[r.Intn(len(nw.scopes))]
	ns := sc.ns
	useEnv := r.Intn(8) == 0 && len(nw.envs) > 0
	var target string
	if useEnv {
		ns = "E:"
		target = nw.envs[r.Intn(len(nw.envs))]
	} else {
		all := append(append([]string{}, sc.names...), sc.names...)
		for _, f := range sc.fns {
			all = append(all, f+"~")
		}
		if ns == "" {
			all = append(all, nw.nsNames...)
		}
		target, _ = pick(r, all)
	}
	seed := prefixOf(r, target)
	sigil := ""
	if r.Intn(4) == 0 {
		sigil = "@"
	}
	tpl := anyTemplates[r.Intn(len(anyTemplates))]
	qname := ns + seed
	// how the user typed it: bare when possible, else quoted (whole name
	// including sigil and namespace inside the quotes)
	var text string
	terminatedQuote := false
	switch {
	case allVarName(qname) && r.Intn(4) != 0:
		text = "$" + sigil + qname
	case utf8.ValidString(qname) && r.Intn(2) == 0:
		terminatedQuote = tpl[1] != "" || r.Intn(3) == 0
		text = "$" + renderSQ(sigil+qname, terminatedQuote)
	default:
		terminatedQuote = tpl[1] != "" || r.Intn(3) == 0
		text = "$" + renderDQ(r, sigil+qname, terminatedQuote)
	}
	quoted := len(text) > 1 && (text[1] == '\'' || text[1] == '"')
	content := tpl[0] + text + tpl[1]
	varStart := len(tpl[0])
	dot := varStart + len(text)
	ic := &itemCtx{c: c, ev: ev, content: content, dot: dot, kind: "variable"}
	res, err := complete.Complete(complete.CodeBuffer{Content: content, Dot: dot}, ev, complete.Config{})
	c.Count("variable_buffers", 1)
	if err != nil || res == nil {
		c.Count("variable_no_completion", 1)
		return
	}
	ic.res = res
	if res.Name != "variable" && useEnv {
		// an environment variable is a string, so the expression can also be
		// taken as the (evaluated) seed of an argument
		c.Count("variable_handled_as_argument", 1)
		return
	}
	if res.Name != "variable" {
		// e.g. `echo $x` typed after `echo >`: still a variable; any other
		// context name means the variable completer did not handle it.
		c.Violation("variable:context-name", fmt.Sprintf("completion context is %q for a cursor at the end of a variable", res.Name), ic.witness(nil))
		return
	}
	if !ic.checkRange() {
		return
	}
	if res.Replace.From <= varStart || res.Replace.To != dot {
		c.Violation("variable:range-not-in-variable", fmt.Sprintf("replace range [%d,%d) is not a suffix of the variable expression [%d,%d)", res.Replace.From, res.Replace.To, varStart, dot), ic.witness(nil))
		return
	}
	skel := skeletonErrs(content, varStart, dot)
	if len(res.Items) > 0 {
		c.Nontrivial(content, len(res.Items))
		c.Sample("variable completion", map[string]any{"content": mon.Q(content), "replace": [2]int{res.Replace.From, res.Replace.To}, "items": len(res.Items), "first_item": mon.Q(res.Items[0].ToInsert)})
	}
	seen := map[string]string{}
	builtinSeen := 0
	for _, it := range res.Items {
		ins := it.ToInsert
		w := ic.witness(map[string]any{"to_insert": mon.Q(ins), "typed_namespace": ns, "typed_name_prefix": mon.Q(seed)})
		if strings.HasSuffix(ins, ":") {
			// a namespace to continue in, not a complete variable
			c.Count("variable_namespace_candidates", 1)
			continue
		}
		nb := ic.substitute(ins)
		end := res.Replace.From + len(ins)
		expr := nb[varStart:end]
		tree, nerr := parseErrs(nb)
		pn := primaryAt(tree.Root, varStart)
		// class of the defect: a quoted name appended after $@ or $ns:
		narrow := (strings.HasPrefix(ins, "'") || strings.HasPrefix(ins, "\"")) && res.Replace.From > varStart+1
		sigOf := func(s string) string {
			switch {
			case quoted && (strings.Contains(qname, ":") || sigil != ""):
				// the user typed $'ns:na or $'@na : the range is computed as if
				// there were no quote
				return "variable:quoted-seed-with-namespace-or-sigil"
			case narrow:
				return "variable:quoted-name-after-namespace-or-sigil"
			}
			return s
		}
		if nerr > skel {
			c.Violation(sigOf("variable:new-parse-error"), fmt.Sprintf("inserting %s gives %s, which has %d parse errors", mon.Q(ins), mon.Q(expr), nerr), w)
			continue
		}
		if pn == nil || pn.Type != parse.Variable || pn.Range().To != end {
			got := "nothing"
			if pn != nil {
				got = fmt.Sprintf("a %v primary ending at %d", pn.Type, pn.Range().To)
			}
			c.Violation(sigOf("variable:not-one-variable"), fmt.Sprintf("inserting %s gives %s; expected one variable expression [%d,%d), found %s", mon.Q(ins), mon.Q(expr), varStart, end, got), w)
			continue
		}
		if ev.Builtin().HasKeyString(ins) && nw.scopes[0].vars[ins] == nil {
			// a builtin variable: evaluate only a few of them per buffer
			builtinSeen++
			if builtinSeen > 3 {
				c.Count("variable_candidates_builtin_not_evaluated", 1)
				continue
			}
		}
		c.Evals(1)
		rr := elv.Eval(ev, "put "+expr)
		if elv.IsCompileError(rr.Err) && (ins == "x" && strings.Contains(tpl[0], "var x") || ins == "v" && strings.Contains(tpl[0], "|v|")) {
			c.Count("variable_candidates_defined_in_code", 1)
			continue
		}
		if elv.IsParseError(rr.Err) || elv.IsCompileError(rr.Err) {
			c.Violation(sigOf("variable:does-not-resolve"), fmt.Sprintf("`put %s` fails: %v", expr, rr.Err), w)
			continue
		}
		c.Count("variable_candidates_checked", 1)
		// identify
		mk := ""
		if rr.Err == nil && len(rr.Values) == 1 {
			switch v := rr.Values[0].(type) {
			case string:
				mk = v
			case vals.List:
				if v.Len() == 1 {
					if s, ok := v.Index(0); ok {
						mk, _ = s.(string)
					}
				}
			}
		}
		parts := strings.SplitN(mk, "|", 3)
		if len(parts) != 3 || !(parts[0] == "V" || parts[0] == "E") {
			c.Count("variable_candidates_builtin_or_fn", 1)
			continue
		}
		// the namespace the user typed: everything up to the last colon
		effNs := qname[:strings.LastIndexByte(qname, ':')+1]
		if parts[1] != effNs {
			c.Violation("variable:wrong-variable", fmt.Sprintf("`%s` evaluates to variable %s of namespace %q; typed namespace %q", expr, mon.Q(parts[2]), parts[1], effNs), w)
			continue
		}
		if prev, dup := seen[mk]; dup {
			c.Violation("variable:duplicate", fmt.Sprintf("variable %s offered twice (%s, %s)", mon.Q(parts[2]), mon.Q(prev), mon.Q(ins)), w)
			continue
		}
		seen[mk] = ins
		c.Count("variable_candidates_declared", 1)
		if !allVarName(parts[2]) {
			c.Count("variable_candidates_hostile", 1)
		}
		if ns != "" {
			c.Count("variable_candidates_in_namespace", 1)
		}
		if sigil != "" {
			c.Count("variable_candidates_with_sigil", 1)
		}
	}
}

// ---- B. assignment targets -------------------------------------------------

func runLHS(c *mon.Case, nw *namesWorld) {
	r := c.Rand
	ev := nw.ev
	form := []string{"set", "set", "tmp", "del"}[r.Intn(4)]
	sc := nw.scopes[0]
	if form != "del" && r.Intn(3) == 0 && len(nw.scopes) > 1 {
		sc = nw.scopes[1+r.Intn(len(nw.scopes)-1)]
	}
	target, ok := pick(r, sc.names)
	if !ok {
		return
	}
	seed := prefixOf(r, target)
	sigil := ""
	if form != "del" && r.Intn(5) == 0 {
		sigil = "@"
	}
	before := []string{"", "", "echo x; ", "{ ", "if $true { "}[r.Intn(5)] + form + " "
	if form == "set" && r.Intn(5) == 0 {
		before += "li "
	}
	after := ""
	mustTerm := false
	if r.Intn(4) == 0 {
		after, mustTerm = " = x", true
	}
	val := sigil + sc.ns + seed
	rd := renderValue(r, val, mustTerm)
	if rd.text != "" && rd.text[0] == '~' {
		return
	}
	content := before + rd.text + after
	from := len(before)
	to := from + len(rd.text)
	ic := &itemCtx{c: c, ev: ev, content: content, dot: to, kind: "lhs-" + form}
	res, err := complete.Complete(complete.CodeBuffer{Content: content, Dot: to}, ev, complete.Config{})
	c.Count("lhs_buffers", 1)
	if err != nil || res == nil {
		c.Count("lhs_no_completion", 1)
		return
	}
	ic.res = res
	if !ic.checkRange() {
		return
	}
	if from < to && (res.Replace.From != from || res.Replace.To != to) {
		c.Violation(ic.kind+":range-not-the-word", fmt.Sprintf("replace range [%d,%d) is not the typed word [%d,%d)", res.Replace.From, res.Replace.To, from, to), ic.witness(nil))
		return
	}
	if len(res.Items) > 0 {
		c.Nontrivial(content, len(res.Items))
	}
	skel := skeletonErrs(content, res.Replace.From, res.Replace.To)
	for _, it := range res.Items {
		ins := it.ToInsert
		w := ic.witness(map[string]any{"to_insert": mon.Q(ins), "typed": mon.Q(val)})
		nb := ic.substitute(ins)
		tree, nerr := parseErrs(nb)
		if nerr > skel {
			c.Violation(ic.kind+":new-parse-error", fmt.Sprintf("inserting %s produces %d parse errors", mon.Q(ins), nerr), w)
			continue
		}
		cn := compoundAt(tree.Root, res.Replace.From)
		if cn == nil || cn.Range().To != res.Replace.From+len(ins) {
			c.Violation(ic.extentSig(cn, len(ins), ic.kind+":word-extent"), fmt.Sprintf("inserted text %s does not form exactly one word in %s", mon.Q(ins), mon.Q(nb)), w)
			continue
		}
		lit, ok := cmpd.StringLiteral(cn)
		if !ok {
			// compound of `@` and a quoted name is not a single literal; the
			// interpreter decides below for declared names.
			lit, ok = ev.PurelyEvalCompound(cn)
			if !ok {
				if strings.HasPrefix(strings.TrimPrefix(ins, "@"), "~") {
					// ~ is fine after $ but starts a tilde expression in a
					// bareword: known class
					c.Violation("lhs:bare-name-with-leading-tilde", fmt.Sprintf("candidate %s for an assignment target is a tilde expression, not a variable name", mon.Q(ins)), w)
					continue
				}
				c.Violation(ic.kind+":not-a-name", fmt.Sprintf("inserted text %s is not a string literal", mon.Q(ins)), w)
				continue
			}
		}
		c.Count("lhs_candidates_checked", 1)
		qn := strings.TrimPrefix(lit, "@")
		// Only names declared by the harness as data variables are assigned
		// for real; everything else (builtins, functions) is left alone.
		var hit *scope
		var hitName string
		for _, s := range nw.scopes {
			if strings.HasPrefix(qn, s.ns) {
				if _, ok := s.vars[qn[len(s.ns):]]; ok && (s.ns != "" || !strings.Contains(qn, ":")) {
					hit, hitName = s, qn[len(s.ns):]
				}
			}
		}
		if hit == nil {
			c.Count("lhs_candidates_not_declared", 1)
			continue
		}
		// real evaluation: the candidate text must be accepted as an
		// assignment target and hit exactly that variable.
		orig := map[*scope]map[string]any{}
		for _, s := range nw.scopes {
			orig[s] = map[string]any{}
			for n, v := range s.vars {
				orig[s][n] = v.Get()
			}
		}
		c.Evals(1)
		var code string
		if form == "del" {
			code = "del " + ins
		} else {
			code = "set " + ins + " = C43NEW"
			if !strings.HasPrefix(lit, "@") {
				code = "set " + ins + " = [C43NEW]"
			}
		}
		rr := elv.Eval(ev, code)
		if rr.Err != nil {
			sig := ic.kind + ":target-rejected"
			if sigil == "@" && strings.HasPrefix(ins, "@") && len(ins) > 1 && (ins[1] == '\'' || ins[1] == '"') {
				sig = "lhs:quoted-name-after-sigil"
			}
			c.Violation(sig, fmt.Sprintf("`%s` fails: %v", code, rr.Err), w)
			continue
		}
		if form == "del" {
			if ev.Global().IndexString(hitName) != nil {
				c.Violation(ic.kind+":wrong-variable", fmt.Sprintf("`%s` did not delete variable %s", code, mon.Q(hitName)), w)
			}
			// put it back (same Var, so the scope bookkeeping stays valid)
			ev.ExtendGlobal(eval.BuildNs().AddVar(hitName, hit.vars[hitName]))
			for n := range nw.scopes[0].vars {
				if n != hitName && ev.Global().IndexString(n) == nil {
					c.Violation(ic.kind+":wrong-variable", fmt.Sprintf("`%s` deleted variable %s", code, mon.Q(n)), w)
					ev.ExtendGlobal(eval.BuildNs().AddVar(n, nw.scopes[0].vars[n]))
				}
			}
			c.Count("lhs_candidates_assigned", 1)
			continue
		}
		changed := 0
		hitChanged := false
		for _, s := range nw.scopes {
			for n, v := range s.vars {
				cur := v.Get()
				if !vals.Equal(cur, orig[s][n]) {
					changed++
					if s == hit && n == hitName {
						l, isList := cur.(vals.List)
						if isList && l.Len() == 1 {
							e0, _ := l.Index(0)
							hitChanged = e0 == "C43NEW"
						}
					}
					v.Set(orig[s][n])
				}
			}
		}
		if changed != 1 || !hitChanged {
			c.Violation(ic.kind+":wrong-variable", fmt.Sprintf("`%s` changed %d declared variables; variable %s assigned: %v", code, changed, mon.Q(hit.ns+hitName), hitChanged), w)
			continue
		}
		c.Count("lhs_candidates_assigned", 1)
		if !allVarName(hitName) {
			c.Count("lhs_candidates_hostile", 1)
		}
	}
}

// ---- C. commands -----------------------------------------------------------

func runCommand(c *mon.Case, nw *namesWorld) {
	r := c.Rand
	ev := nw.ev
	var pool []string
	g := nw.scopes[0]
	pool = append(pool, g.fns...)
	pool = append(pool, g.fns...)
	pool = append(pool, nw.ext...)
	pool = append(pool, nw.ext...)
	for _, e := range nw.ext {
		pool = append(pool, "e:"+e)
	}
	for _, s := range nw.scopes[1:] {
		pool = append(pool, s.ns)
		for _, f := range s.fns {
			pool = append(pool, s.ns+f)
		}
	}
	pool = append(pool, "if", "put", "str:", "e:")
	target := pool[r.Intn(len(pool))]
	seed := prefixOf(r, target)
	tplB := []string{"", "", "echo x | ", "echo x; ", "(", "{ ", "try { ", "echo (", "echo a\n", "if (", "each {|x| "}
	before := tplB[r.Intn(len(tplB))]
	after := ""
	mustTerm := false
	if r.Intn(4) == 0 {
		after, mustTerm = " arg", true
	}
	rd := renderValue(r, seed, mustTerm)
	if strings.HasPrefix(rd.text, "~") || strings.Contains(seed, "/") {
		return
	}
	content := before + rd.text + after
	from := len(before)
	to := from + len(rd.text)
	ic := &itemCtx{c: c, ev: ev, content: content, dot: to, kind: "command"}
	res, err := complete.Complete(complete.CodeBuffer{Content: content, Dot: to}, ev, complete.Config{})
	c.Count("command_buffers", 1)
	if err != nil || res == nil {
		c.Count("command_no_completion", 1)
		return
	}
	ic.res = res
	if res.Name != "command" {
		c.Violation("command:context-name", fmt.Sprintf("completion context is %q at a command head", res.Name), ic.witness(nil))
		return
	}
	if !ic.checkRange() {
		return
	}
	if from < to && (res.Replace.From != from || res.Replace.To != to) {
		c.Violation("command:range-not-the-word", fmt.Sprintf("replace range [%d,%d) is not the typed word [%d,%d)", res.Replace.From, res.Replace.To, from, to), ic.witness(nil))
		return
	}
	if len(res.Items) > 0 {
		c.Nontrivial(content, len(res.Items))
		c.Sample("command completion", map[string]any{"content": mon.Q(content), "items": len(res.Items), "first_item": mon.Q(res.Items[0].ToInsert)})
	}
	skel := skeletonErrs(content, res.Replace.From, res.Replace.To)
	isFn := map[string]string{}
	for _, s := range nw.scopes {
		for _, f := range s.fns {
			isFn[s.ns+f] = marker("F", s.ns, f)
		}
	}
	isExt := map[string]bool{}
	for _, e := range nw.ext {
		isExt[e] = true
	}
	batch := evalBatch(ev, res.Items)
	for idx, it := range res.Items {
		ins := it.ToInsert
		w := ic.witness(map[string]any{"to_insert": mon.Q(ins), "typed": mon.Q(seed)})
		var sb strings.Builder
		for _, seg := range it.ToShow {
			sb.WriteString(seg.Text)
		}
		shown := sb.String()
		nb := ic.substitute(ins)
		tree, nerr := parseErrs(nb)
		if nerr > skel {
			c.Violation("command:new-parse-error", fmt.Sprintf("inserting %s produces %d parse errors", mon.Q(ins), nerr), w)
			continue
		}
		cn := compoundAt(tree.Root, res.Replace.From)
		if cn == nil || cn.Range().To != res.Replace.From+len(ins) {
			c.Violation(ic.extentSig(cn, len(ins), "command:word-extent"), fmt.Sprintf("inserted text %s does not form exactly one word in %s", mon.Q(ins), mon.Q(nb)), w)
			continue
		}
		var val string
		if batch != nil {
			val, _ = batch[idx].(string)
		} else {
			c.Evals(1)
			rr := elv.Eval(ev, "put "+ins)
			if rr.Err != nil || len(rr.Values) != 1 {
				c.Violation("command:word-eval-failed", fmt.Sprintf("`put %s` gives %d values, error %v", ins, len(rr.Values), rr.Err), w)
				continue
			}
			val, _ = rr.Values[0].(string)
		}
		if pv, ok := ev.PurelyEvalCompound(cn); !ok || pv != val {
			c.Violation("command:in-context-value", fmt.Sprintf("the head of the completed buffer evaluates to %s (ok=%v), the word on its own to %s", mon.Q(pv), ok, mon.Q(val)), w)
			continue
		}
		if val != shown {
			c.Violation("command:value-differs-from-candidate", fmt.Sprintf("candidate %s was inserted as %s, which evaluates to %s", mon.Q(shown), mon.Q(ins), mon.Q(val)), w)
			continue
		}
		if !strings.HasPrefix(val, seed) {
			c.Violation("command:not-a-candidate", fmt.Sprintf("candidate %s does not start with the typed %s", mon.Q(val), mon.Q(seed)), w)
			continue
		}
		c.Count("command_candidates_checked", 1)
		// style
		lead := ins[0]
		switch rd.last {
		case parse.SingleQuoted:
			if rd.text != "" && lead != '\'' && !(lead == '"' && !printable(val)) {
				c.Violation("command:style-single", fmt.Sprintf("seed typed with single quotes, candidate inserted as %s", mon.Q(ins)), w)
				continue
			}
		case parse.DoubleQuoted:
			if rd.text != "" && lead != '"' {
				c.Violation("command:style-double", fmt.Sprintf("seed typed with double quotes, candidate inserted as %s", mon.Q(ins)), w)
				continue
			}
		default:
			if allBare(val) && ins != val {
				c.Violation("command:style-bare", fmt.Sprintf("seed typed bare and %s is a plain bareword, but it was inserted as %s", mon.Q(val), mon.Q(ins)), w)
				continue
			}
		}
		if mk, ok := isFn[val]; ok {
			// call it: the completed head must run that function
			c.Evals(1)
			rr := elv.Eval(ev, ins)
			if rr.Err != nil || len(rr.Values) != 1 || rr.Values[0] != mk {
				c.Violation("command:does-not-run-the-function", fmt.Sprintf("`%s` as a command gives %v, error %v; expected function %s", ins, elv.Reprs(rr.Values), rr.Err, mon.Q(val)), w)
				continue
			}
			c.Count("command_functions_called", 1)
			if !allBare(val) {
				c.Count("command_hostile_functions_called", 1)
			}
		} else if isExt[strings.TrimPrefix(val, "e:")] {
			c.Count("command_externals_checked", 1)
			if !allBare(val) {
				c.Count("command_hostile_externals", 1)
			}
		}
	}
}

// ---- D. map keys -----------------------------------------------------------

func runIndex(c *mon.Case, nw *namesWorld) {
	r := c.Rand
	ev := nw.ev
	target, ok := pick(r, nw.keys)
	if !ok {
		return
	}
	seed := prefixOf(r, target)
	before := []string{"echo $m[", "put $m[", "echo a $m[", "echo (put $m[", "echo $m[ "}[r.Intn(5)]
	after := ""
	mustTerm := false
	if r.Intn(3) == 0 {
		after, mustTerm = "]", true
	}
	rd := renderValue(r, seed, mustTerm)
	if strings.HasPrefix(rd.text, "~") {
		return
	}
	content := before + rd.text + after
	from := len(before)
	to := from + len(rd.text)
	ic := &itemCtx{c: c, ev: ev, content: content, dot: to, kind: "index"}
	res, err := complete.Complete(complete.CodeBuffer{Content: content, Dot: to}, ev, complete.Config{})
	c.Count("index_buffers", 1)
	if err != nil || res == nil {
		c.Count("index_no_completion", 1)
		return
	}
	ic.res = res
	if res.Name != "index" {
		c.Violation("index:context-name", fmt.Sprintf("completion context is %q inside an index", res.Name), ic.witness(nil))
		return
	}
	if !ic.checkRange() {
		return
	}
	if from < to && (res.Replace.From != from || res.Replace.To != to) {
		c.Violation("index:range-not-the-word", fmt.Sprintf("replace range [%d,%d) is not the typed word [%d,%d)", res.Replace.From, res.Replace.To, from, to), ic.witness(nil))
		return
	}
	if len(res.Items) > 0 {
		c.Nontrivial(content, len(res.Items))
		c.Sample("index completion", map[string]any{"content": mon.Q(content), "items": len(res.Items), "first_item": mon.Q(res.Items[0].ToInsert)})
	}
	skel := skeletonErrs(content, res.Replace.From, res.Replace.To)
	seen := map[string]bool{}
	failed := false
	for _, it := range res.Items {
		ins := it.ToInsert
		w := ic.witness(map[string]any{"to_insert": mon.Q(ins), "typed": mon.Q(seed)})
		nb := ic.substitute(ins)
		tree, nerr := parseErrs(nb)
		if nerr > skel {
			failed = true
			c.Violation("index:new-parse-error", fmt.Sprintf("inserting %s produces %d parse errors", mon.Q(ins), nerr), w)
			continue
		}
		cn := compoundAt(tree.Root, res.Replace.From)
		if cn == nil || cn.Range().To != res.Replace.From+len(ins) {
			failed = true
			c.Violation(ic.extentSig(cn, len(ins), "index:word-extent"), fmt.Sprintf("inserted text %s does not form exactly one word in %s", mon.Q(ins), mon.Q(nb)), w)
			continue
		}
		c.Evals(1)
		rr := elv.Eval(ev, "put $m["+ins+"]")
		if rr.Err != nil || len(rr.Values) != 1 {
			failed = true
			c.Violation("index:lookup-failed", fmt.Sprintf("`put $m[%s]` gives %d values, error %v", ins, len(rr.Values), rr.Err), w)
			continue
		}
		mk, _ := rr.Values[0].(string)
		parts := strings.SplitN(mk, "|", 3)
		if len(parts) != 3 || parts[0] != "K" {
			failed = true
			c.Violation("index:wrong-key", fmt.Sprintf("`put $m[%s]` gives %s", ins, mon.Q(mk)), w)
			continue
		}
		key := parts[2]
		if !strings.HasPrefix(key, seed) || seen[key] {
			failed = true
			c.Violation("index:not-a-candidate", fmt.Sprintf("candidate %s selects key %s (typed prefix %s, duplicate %v)", mon.Q(ins), mon.Q(key), mon.Q(seed), seen[key]), w)
			continue
		}
		seen[key] = true
		c.Count("index_candidates_checked", 1)
		if !allBare(key) {
			c.Count("index_candidates_hostile", 1)
		}
		lead := ins[0]
		switch {
		case rd.text != "" && rd.last == parse.SingleQuoted && lead != '\'' && !(lead == '"' && !printable(key)):
			c.Violation("index:style-single", fmt.Sprintf("seed typed with single quotes, key inserted as %s", mon.Q(ins)), w)
		case rd.text != "" && rd.last == parse.DoubleQuoted && lead != '"':
			c.Violation("index:style-double", fmt.Sprintf("seed typed with double quotes, key inserted as %s", mon.Q(ins)), w)
		case (rd.text == "" || rd.last == parse.Bareword) && allBare(key) && ins != key:
			c.Violation("index:style-bare", fmt.Sprintf("seed typed bare and key %s is a plain bareword, but it was inserted as %s", mon.Q(key), mon.Q(ins)), w)
		}
	}
	_ = failed
}

func runNames(c *mon.Case) {
	nw, err := buildNames(c)
	if err != nil {
		c.Inconclusive("mknames:" + err.Error())
		if nw != nil {
			nw.cleanup()
		}
		return
	}
	defer nw.cleanup()
	os.Chdir(nw.root + "/cwd")
	defer os.Chdir("/")
	oldPath := os.Getenv("PATH")
	os.Setenv("PATH", nw.root+"/bin")
	defer os.Setenv("PATH", oldPath)
	for b := 0; b < 12; b++ {
		switch c.Rand.Intn(8) {
		case 0, 1, 2:
			runVariable(c, nw)
		case 3, 4:
			runLHS(c, nw)
		case 5, 6:
			runCommand(c, nw)
		default:
			runIndex(c, nw)
		}
	}
}
