package c43

import (
	"fmt"
	"strings"

	"src.elv.sh/pkg/edit/complete"
	"src.elv.sh/pkg/parse"
	"src.elv.sh/pkg/ui"
	"verifharness/internal/mon"
)

// Phase "generic": the quoting pass on its own. An argument generator
// (Config.ArgGenerator, the documented extension point behind
// $edit:completion:arg-completer) returns arbitrary hostile strings as plain
// and complex candidates with code suffixes; nothing depends on the file
// system. The default matcher is prefix matching (edit.md, "Matcher"), so the
// offered set is exactly the pool entries starting with the typed seed.

type poolEntry struct {
	stem, suffix string
	complex      bool
	display      string
}

func runGeneric(c *mon.Case) {
	r := c.Rand
	ev := childEv
	n := 3 + r.Intn(20)
	nst := 1 + r.Intn(3)
	st := make([]string, nst)
	for i := range st {
		st[i] = nameStems[r.Intn(len(nameStems))]
	}
	seen := map[string]bool{}
	var pool []poolEntry
	for i := 0; i < n; i++ {
		var s string
		switch r.Intn(12) {
		case 0:
			s = ""
		case 1:
			s = genName(r, st[r.Intn(nst)]) + "/" + genName(r, "")
		default:
			s = genName(r, st[r.Intn(nst)])
		}
		if seen[s] {
			continue
		}
		seen[s] = true
		e := poolEntry{stem: s}
		if r.Intn(2) == 0 {
			e.complex = true
			e.suffix = []string{"", " ", " ", "/", "=", "  "}[r.Intn(6)]
			if r.Intn(3) == 0 {
				e.display = "shown " + s
			}
		}
		pool = append(pool, e)
	}
	// `'a'=` (candidate a, suffix =) and the candidate a= could not be told
	// apart by evaluation; avoid the pair.
	for i := range pool {
		if pool[i].suffix == "=" && seen[pool[i].stem+"="] {
			pool[i].suffix = " "
		}
	}
	gen := func(args []string) ([]complete.RawItem, error) {
		items := make([]complete.RawItem, 0, len(pool))
		for _, e := range pool {
			if e.complex {
				ci := complete.ComplexItem{Stem: e.stem, CodeSuffix: e.suffix}
				if e.display != "" {
					ci.Display = ui.T(e.display)
				}
				items = append(items, ci)
			} else {
				items = append(items, complete.PlainItem(e.stem))
			}
		}
		return items, nil
	}
	for b := 0; b < 6; b++ {
		target := pool[r.Intn(len(pool))].stem
		seed := prefixOf(r, target)
		if r.Intn(10) == 0 {
			seed = seed + genName(r, "q") // most likely no candidate
		}
		tpl := fileTemplates[r.Intn(len(fileTemplates))]
		if tpl.ctx != "argument" || strings.HasPrefix(tpl.before, "set ") || strings.HasPrefix(tpl.before, "tmp ") {
			tpl = fileTemplates[0]
		}
		rd := renderValue(r, seed, tpl.after != "")
		if strings.HasPrefix(rd.text, "~") {
			continue
		}
		content := tpl.before + rd.text + tpl.after
		from := len(tpl.before)
		to := from + len(rd.text)
		ic := &itemCtx{c: c, ev: ev, content: content, dot: to, kind: "generic"}
		res, err := complete.Complete(complete.CodeBuffer{Content: content, Dot: to}, ev, complete.Config{ArgGenerator: gen})
		c.Evals(1)
		c.Count("generic_buffers", 1)
		want := map[string]poolEntry{}
		for _, e := range pool {
			if strings.HasPrefix(e.stem, seed) {
				want[e.stem] = e
			}
		}
		if err != nil || res == nil {
			if len(want) > 0 {
				c.Violation("generic:no-completion", fmt.Sprintf("Complete returned %v although %d candidates start with the seed %s", err, len(want), mon.Q(seed)), ic.witness(nil))
			}
			continue
		}
		ic.res = res
		if !ic.checkRange() {
			continue
		}
		if from < to && (res.Replace.From != from || res.Replace.To != to) {
			c.Violation("generic:range-not-the-word", fmt.Sprintf("replace range [%d,%d) is not the typed word [%d,%d)", res.Replace.From, res.Replace.To, from, to), ic.witness(nil))
			continue
		}
		if len(res.Items) > 0 {
			c.Nontrivial("generic", content, len(res.Items))
		}
		got := map[string]bool{}
		failed := false
		for _, it := range res.Items {
			ins := it.ToInsert
			w := ic.witness(map[string]any{"to_insert": mon.Q(ins), "seed": mon.Q(seed)})
			// which pool entry is it? The suffix is appended unquoted.
			matched := false
			for _, e := range pool {
				if got[e.stem] || !strings.HasSuffix(ins, e.suffix) {
					continue
				}
				word := ins[:len(ins)-len(e.suffix)]
				if word == "" {
					continue
				}
				tree, nerr := parseErrs("put " + word)
				if nerr > 0 {
					continue
				}
				cn := compoundAt(tree.Root, 4)
				if cn == nil || cn.Range().To != 4+len(word) {
					continue
				}
				if v, ok := ev.PurelyEvalCompound(cn); !ok || v != e.stem {
					continue
				}
				matched = true
				got[e.stem] = true
				c.Count("generic_candidates_checked", 1)
				if e.complex {
					c.Count("generic_complex_candidates", 1)
				}
				if _, ok := want[e.stem]; !ok {
					c.Violation("generic:not-a-candidate", fmt.Sprintf("candidate %s offered for seed %s", mon.Q(e.stem), mon.Q(seed)), w)
				}
				// the word must also be one word inside the buffer
				nb := ic.substitute(ins)
				t2, _ := parseErrs(nb)
				if c2 := compoundAt(t2.Root, res.Replace.From); e.suffix != "/" && e.suffix != "=" && tpl.after == "" &&
					(c2 == nil || c2.Range().To != res.Replace.From+len(word)) {
					c.Violation("generic:word-extent", fmt.Sprintf("inserted %s does not form one word followed by the suffix %s in %s", mon.Q(ins), mon.Q(e.suffix), mon.Q(nb)), w)
				}
				// menu text
				var sb strings.Builder
				for _, seg := range it.ToShow {
					sb.WriteString(seg.Text)
				}
				wantShow := e.stem
				if e.display != "" {
					wantShow = e.display
				}
				if sb.String() != wantShow {
					c.Violation("generic:display", fmt.Sprintf("menu shows %s for candidate %s (display %s)", mon.Q(sb.String()), mon.Q(e.stem), mon.Q(e.display)), w)
				}
				// style
				lead := word[0]
				switch {
				case rd.text != "" && rd.last == parse.SingleQuoted && lead != '\'' && !(lead == '"' && !printable(e.stem)):
					c.Violation("generic:style-single", fmt.Sprintf("seed typed with single quotes, candidate inserted as %s", mon.Q(word)), w)
				case rd.text != "" && rd.last == parse.DoubleQuoted && lead != '"':
					c.Violation("generic:style-double", fmt.Sprintf("seed typed with double quotes, candidate inserted as %s", mon.Q(word)), w)
				case (rd.text == "" || rd.last == parse.Bareword) && allBare(e.stem) && word != e.stem:
					c.Violation("generic:style-bare", fmt.Sprintf("seed typed bare and %s is a plain bareword, but it was inserted as %s", mon.Q(e.stem), mon.Q(word)), w)
				}
				break
			}
			if !matched {
				failed = true
				c.Violation("generic:value-differs-from-candidate", fmt.Sprintf("inserted text %s is not <a word evaluating to a candidate> + <its code suffix> for any remaining candidate", mon.Q(ins)), w)
			}
		}
		if !failed {
			for stem := range want {
				if !got[stem] {
					c.Violation("generic:candidate-not-offered", fmt.Sprintf("candidate %s starts with the seed %s but is not offered", mon.Q(stem), mon.Q(seed)), ic.witness(nil))
					break
				}
			}
		}
	}
}
