// Package c43 monitors the completion algorithm (property C43): for generated
// directories with hostile file names and generated code buffers, every
// offered candidate is substituted into the buffer, the buffer is re-parsed
// and the completed word is evaluated with the real interpreter; the value
// must be the candidate (path of a directory entry, variable, command, map
// key), the replaced range must be the typed word, the quoting must follow
// the style the user started, and the set of offered file names is compared
// with the generated directory.
package c43

import (
	"fmt"
	"math/rand"
	"os"
	"path/filepath"
	"sort"
	"strings"
	"unicode"
	"unicode/utf8"

	"src.elv.sh/pkg/cli/modes"
	"src.elv.sh/pkg/edit/complete"
	"src.elv.sh/pkg/eval"
	"src.elv.sh/pkg/parse"
	"verifharness/internal/elv"
	"verifharness/internal/mon"
)

// ---------------------------------------------------------------------------
// hostile names

var namePieces = []string{
	" ", " ", "'", "\"", "$", "*", "?", "[", "]", "{", "}", "(", ")", "<", ">", "|", "&", ";", "#", "~", "\\",
	"=", ",", "^", "`", "!", "%", "@", "+", ":", "-", ".", "_",
	"\n", "\t", "\r", "\x01", "\x1b", "\x7f",
	"\xff", "\xc0\x80", "\xe4\xb8", "\xed\xa0\x80", "\x80",
	"é", "好", "世界", "😀", "́", "​", " ", "\u0085", "�", "ß",
	"a", "b", "o", "x", "Z", "0", "7", "fo", "bar", ".txt", ".d", "~", "$x", "''", "\\n", "--", " -", "&-",
}

var nameStems = []string{"fo", "fo", "a", "", "", ".", ".f", "-", "~", "é", "x y", "'", "\"", "$", "*", "好", "\xff", "#", "..", "Fo", "\\", "&", ">", "?", "[", "😀"}

func validName(s string) bool {
	return s != "" && s != "." && s != ".." && len(s) <= 120 && !strings.ContainsAny(s, "/\x00")
}

func genName(r *rand.Rand, stem string) string {
	for {
		var sb strings.Builder
		sb.WriteString(stem)
		n := r.Intn(4)
		if r.Intn(8) == 0 {
			n += r.Intn(6)
		}
		for i := 0; i < n; i++ {
			sb.WriteString(namePieces[r.Intn(len(namePieces))])
		}
		if s := sb.String(); validName(s) {
			return s
		}
		if stem == "." || stem == ".." || stem == "" {
			// these need at least one piece
			stem2 := stem + namePieces[r.Intn(len(namePieces))]
			if validName(stem2) {
				return stem2
			}
		}
	}
}

// ---------------------------------------------------------------------------
// directory model

const (
	kFile = iota
	kExec
	kDir
	kLinkDir
	kLinkFile
	kDangling
	nKinds
)

var kindNames = []string{"file", "exec", "dir", "link-to-dir", "link-to-file", "dangling-link"}

type ent struct {
	name string
	kind int
}

func (e ent) dirLike() bool { return e.kind == kDir || e.kind == kLinkDir }

type node struct {
	ents []ent
	sub  map[string]*node // dir-like entry name -> its node
}

func (n *node) find(name string) (ent, bool) {
	for _, e := range n.ents {
		if e.name == name {
			return e, true
		}
	}
	return ent{}, false
}

type world struct {
	root       string // absolute
	w, x, home *node
}

func genEnts(r *rand.Rand, max int) []ent {
	n := r.Intn(max + 1)
	if r.Intn(4) != 0 && n == 0 {
		n = 1
	}
	nst := 1 + r.Intn(3)
	st := make([]string, nst)
	for i := range st {
		st[i] = nameStems[r.Intn(len(nameStems))]
	}
	seen := map[string]bool{}
	var out []ent
	for i := 0; i < n; i++ {
		name := genName(r, st[r.Intn(nst)])
		if seen[name] {
			continue
		}
		seen[name] = true
		k := kFile
		switch x := r.Intn(20); {
		case x < 9:
			k = kFile
		case x < 11:
			k = kExec
		case x < 15:
			k = kDir
		case x < 17:
			k = kLinkDir
		case x < 18:
			k = kLinkFile
		default:
			k = kDangling
		}
		out = append(out, ent{name, k})
	}
	return out
}

// materialise creates the entries of n in dir. Links to directories point at
// linkTarget (whose model is linkNode).
func materialise(dir string, n *node, linkTarget string, linkNode *node, fileTarget string) error {
	for _, e := range n.ents {
		// names never contain separators; build the path by hand so that
		// nothing is cleaned away.
		p := dir + "/" + e.name
		var err error
		switch e.kind {
		case kFile:
			err = os.WriteFile(p, nil, 0o644)
		case kExec:
			err = os.WriteFile(p, nil, 0o755)
		case kDir:
			err = os.Mkdir(p, 0o755)
		case kLinkDir:
			err = os.Symlink(linkTarget, p)
		case kLinkFile:
			err = os.Symlink(fileTarget, p)
		case kDangling:
			err = os.Symlink("no-such-target-c43", p)
		}
		if err != nil {
			return err
		}
	}
	return nil
}

func buildWorld(c *mon.Case) (*world, error) {
	r := c.Rand
	root := filepath.Join(c.Dir, fmt.Sprintf("c43-%s-%d", c.Phase, c.I))
	os.RemoveAll(root)
	wd := &world{root: root}
	for _, d := range []string{"w", "x", "home"} {
		if err := os.MkdirAll(root+"/"+d, 0o755); err != nil {
			return nil, err
		}
	}
	fileTarget := root + "/plainfile"
	if err := os.WriteFile(fileTarget, nil, 0o644); err != nil {
		return nil, err
	}
	mk := func(max int) *node { return &node{ents: genEnts(r, max), sub: map[string]*node{}} }
	wd.x = mk(8)
	wd.home = mk(8)
	wd.w = mk(25)
	// x and home: sub directories stay empty, links to dirs point to w.
	for _, top := range []struct {
		n   *node
		dir string
	}{{wd.x, "x"}, {wd.home, "home"}} {
		for _, e := range top.n.ents {
			switch e.kind {
			case kDir:
				top.n.sub[e.name] = &node{sub: map[string]*node{}}
			case kLinkDir:
				top.n.sub[e.name] = wd.w
			}
		}
		if err := materialise(root+"/"+top.dir, top.n, root+"/w", wd.w, fileTarget); err != nil {
			return nil, err
		}
	}
	if err := materialise(root+"/w", wd.w, root+"/x", wd.x, fileTarget); err != nil {
		return nil, err
	}
	populated := 0
	for _, e := range wd.w.ents {
		switch e.kind {
		case kDir:
			sn := &node{sub: map[string]*node{}}
			if populated < 3 {
				populated++
				sn.ents = genEnts(r, 8)
				for _, se := range sn.ents {
					switch se.kind {
					case kDir:
						sn.sub[se.name] = &node{sub: map[string]*node{}}
					case kLinkDir:
						sn.sub[se.name] = wd.x
					}
				}
				if err := materialise(root+"/w/"+e.name, sn, root+"/x", wd.x, fileTarget); err != nil {
					return nil, err
				}
			}
			wd.w.sub[e.name] = sn
		case kLinkDir:
			wd.w.sub[e.name] = wd.x
		}
	}
	return wd, nil
}

// ---------------------------------------------------------------------------
// rendering a string value as typed (possibly partial) Elvish source

// mustBare: characters the language reference lists as always legal in a
// bareword (minus the comma, which is a separator inside braces): ASCII
// letters and digits, !%+-./:@\_ and printable non-ASCII code points.
func bareRune(r rune) bool {
	switch {
	case r == utf8.RuneError:
		return false
	case 'a' <= r && r <= 'z', 'A' <= r && r <= 'Z', '0' <= r && r <= '9':
		return true
	case strings.ContainsRune("!%+-./:@\\_", r):
		return true
	}
	return r >= 0x80 && unicode.IsPrint(r)
}

func allBare(s string) bool {
	if s == "" || !utf8.ValidString(s) {
		return false
	}
	for _, r := range s {
		if !bareRune(r) {
			return false
		}
	}
	return true
}

// printableName: every rune printable and valid (what single quotes are
// expected to be able to hold according to parse.QuoteAs's documentation).
func printable(s string) bool {
	if !utf8.ValidString(s) {
		return false
	}
	for _, r := range s {
		if r == utf8.RuneError || !unicode.IsPrint(r) {
			return false
		}
	}
	return true
}

func renderSQ(s string, terminated bool) string {
	t := "'" + strings.ReplaceAll(s, "'", "''")
	if terminated {
		t += "'"
	}
	return t
}

func renderDQ(r *rand.Rand, s string, terminated bool) string {
	var sb strings.Builder
	sb.WriteByte('"')
	for i := 0; i < len(s); {
		c, w := utf8.DecodeRuneInString(s[i:])
		switch {
		case c == utf8.RuneError && w == 1:
			fmt.Fprintf(&sb, "\\x%02x", s[i])
		case c == '"':
			sb.WriteString("\\\"")
		case c == '\\':
			sb.WriteString("\\\\")
		case c == '\n' && r.Intn(2) == 0:
			sb.WriteString("\\n")
		case c == '\t' && r.Intn(2) == 0:
			sb.WriteString("\\t")
		case c == '\r':
			sb.WriteString("\\r")
		case c == 0x1b && r.Intn(2) == 0:
			sb.WriteString("\\e")
		case c < 0x20 && c != '\n' && c != '\t' || c == 0x7f:
			switch r.Intn(3) {
			case 0:
				fmt.Fprintf(&sb, "\\x%02x", c)
			case 1:
				fmt.Fprintf(&sb, "\\%03o", c)
			default:
				if c == 0x7f {
					sb.WriteString("\\c?")
				} else {
					fmt.Fprintf(&sb, "\\^%c", c+0x40)
				}
			}
		case r.Intn(12) == 0 && c <= 0xffff:
			fmt.Fprintf(&sb, "\\u%04x", c)
		case r.Intn(12) == 0:
			fmt.Fprintf(&sb, "\\U%08x", c)
		default:
			sb.WriteString(s[i : i+w])
		}
		i += w
	}
	if terminated {
		sb.WriteByte('"')
	}
	return sb.String()
}

// cutPoints returns the offsets at which s may be split without cutting a
// valid multi-byte rune.
func cutPoints(s string) []int {
	pts := []int{0}
	for i := 0; i < len(s); {
		_, w := utf8.DecodeRuneInString(s[i:])
		i += w
		pts = append(pts, i)
	}
	return pts
}

type rendered struct {
	text       string
	last       parse.PrimaryType
	terminated bool // false: the last segment is an unterminated quoted string
	segs       int
	styles     string
}

// renderValue writes v as a compound of 1..3 bareword / single-quoted /
// double-quoted segments. If mustTerminate is false the last quoted segment
// may be left unterminated.
func renderValue(r *rand.Rand, v string, mustTerminate bool) rendered {
	pts := cutPoints(v)
	k := 1
	switch x := r.Intn(10); {
	case x < 6:
		k = 1
	case x < 9:
		k = 2
	default:
		k = 3
	}
	cuts := []int{0}
	for i := 1; i < k; i++ {
		cuts = append(cuts, pts[r.Intn(len(pts))])
	}
	cuts = append(cuts, len(v))
	sort.Ints(cuts)
	var out rendered
	out.terminated = true
	out.last = parse.Bareword
	var sb strings.Builder
	nseg := len(cuts) - 1
	for i := 0; i < nseg; i++ {
		seg := v[cuts[i]:cuts[i+1]]
		isLast := i == nseg-1
		if seg == "" && !(isLast && r.Intn(3) == 0) && !(v == "" && r.Intn(2) == 0) {
			continue
		}
		if seg == "" && v == "" && i == 0 && r.Intn(2) == 0 {
			continue // completely empty text: a new word
		}
		var choices []int
		if allBare(seg) {
			choices = append(choices, 0, 0)
		}
		if utf8.ValidString(seg) {
			choices = append(choices, 1)
		}
		choices = append(choices, 2)
		st := choices[r.Intn(len(choices))]
		if st == 1 && strings.HasSuffix(out.styles, "s") {
			st = 2 // 'a''b' would be one string containing a quote
		}
		term := true
		if isLast && !mustTerminate && st != 0 && r.Intn(5) < 3 {
			term = false
		}
		switch st {
		case 0:
			sb.WriteString(seg)
			out.last = parse.Bareword
			out.styles += "b"
		case 1:
			sb.WriteString(renderSQ(seg, term))
			out.last = parse.SingleQuoted
			out.styles += "s"
		case 2:
			sb.WriteString(renderDQ(r, seg, term))
			out.last = parse.DoubleQuoted
			out.styles += "d"
		}
		out.terminated = term
		out.segs++
	}
	out.text = sb.String()
	return out
}

// ---------------------------------------------------------------------------
// oracle helpers

func parseErrs(code string) (parse.Tree, int) {
	tree, err := parse.Parse(parse.Source{Name: "[c43]", Code: code}, parse.Config{})
	return tree, len(parse.UnpackErrors(err))
}

// compoundAt returns the outermost Compound node that starts at offset from.
func compoundAt(n parse.Node, from int) *parse.Compound {
	if cn, ok := n.(*parse.Compound); ok && cn.Range().From == from && cn.Range().To > from {
		return cn
	}
	for _, ch := range parse.Children(n) {
		r := ch.Range()
		if r.From <= from && from < r.To {
			if got := compoundAt(ch, from); got != nil {
				return got
			}
		}
	}
	return nil
}

func primaryAt(n parse.Node, from int) *parse.Primary {
	if pn, ok := n.(*parse.Primary); ok && pn.Range().From == from {
		return pn
	}
	for _, ch := range parse.Children(n) {
		r := ch.Range()
		if r.From <= from && from < r.To {
			if got := primaryAt(ch, from); got != nil {
				return got
			}
		}
	}
	return nil
}

func showText(it interface{ String() string }) string { return it.String() }

type itemCtx struct {
	c       *mon.Case
	ev      *eval.Evaler
	content string
	dot     int
	res     *complete.Result
	kind    string // context label for signatures
}

func (ic *itemCtx) witness(extra map[string]any) map[string]any {
	w := map[string]any{"content": mon.Q(ic.content), "dot": ic.dot, "kind": ic.kind}
	if ic.res != nil {
		w["result_name"] = ic.res.Name
		w["replace"] = [2]int{ic.res.Replace.From, ic.res.Replace.To}
	}
	for k, v := range extra {
		w[k] = v
	}
	return w
}

// checkRange verifies the replace range against the buffer and the dot.
func (ic *itemCtx) checkRange() bool {
	rg := ic.res.Replace
	if !(0 <= rg.From && rg.From <= rg.To && rg.To <= len(ic.content)) {
		ic.c.Violation(ic.kind+":range-outside-buffer",
			fmt.Sprintf("replace range [%d,%d) is not within the buffer of length %d", rg.From, rg.To, len(ic.content)), ic.witness(nil))
		return false
	}
	if ic.dot < rg.From || ic.dot > rg.To {
		// Starting a new word: the insertion point may be separated from the
		// cursor by blanks only (the cursor sits inside a run of spaces).
		lo, hi := ic.dot, rg.From
		if lo > hi {
			lo, hi = rg.To, ic.dot
		}
		if rg.From == rg.To && strings.Trim(ic.content[lo:hi], " \t\r\n") == "" {
			ic.c.Count("insertion_point_after_blanks", 1)
			return true
		}
		ic.c.Violation(ic.kind+":range-excludes-dot",
			fmt.Sprintf("replace range [%d,%d) does not contain the cursor %d", rg.From, rg.To, ic.dot), ic.witness(nil))
		return false
	}
	return true
}

// evalWord substitutes toInsert, re-parses and evaluates the completed word.
// wordStart is where the completed word starts (== Replace.From except for
// variable completion, where the word starts at the '$'). It returns the
// value(s) the word evaluates to.
func (ic *itemCtx) substitute(toInsert string) string {
	rg := ic.res.Replace
	return ic.content[:rg.From] + toInsert + ic.content[rg.To:]
}

// sigJoinsNext is the signature of one known defect class (findings.json).
const sigJoinsNext = "insertion-point-after-cursor-joins-next-word"

// extentSig classifies a "does not form one word" failure: a new word whose
// insertion point lies right of the cursor (after blanks) and directly in
// front of the next word is the known class sigJoinsNext.
func (ic *itemCtx) extentSig(cn *parse.Compound, wordLen int, dflt string) string {
	rg := ic.res.Replace
	if cn != nil && rg.From == rg.To && rg.From > ic.dot && cn.Range().To > rg.From+wordLen {
		return sigJoinsNext
	}
	return dflt
}

func trimSuffixSpace(s string) string { return strings.TrimSuffix(s, " ") }

// evalBatch evaluates `put <word>` for all items in one evaluation. It
// returns nil unless the evaluation succeeded with exactly one value per
// item (in which case the values are those of the individual evaluations,
// because every word then is a complete expression of its own line).
func evalBatch(ev *eval.Evaler, items []modes.CompletionItem) []any {
	if len(items) < 2 {
		return nil
	}
	var sb strings.Builder
	for _, it := range items {
		w := trimSuffixSpace(it.ToInsert)
		if _, n := parseErrs("put " + w); n > 0 {
			return nil
		}
		sb.WriteString("put " + w + "\n")
	}
	r := elv.Eval(ev, sb.String())
	if r.Err != nil || len(r.Values) != len(items) {
		return nil
	}
	return r.Values
}

func skeletonErrs(content string, from, to int) int {
	_, n := parseErrs(content[:from] + "x" + content[to:])
	return n
}

// ---------------------------------------------------------------------------
// phase "files"

type template struct {
	before, after string
	ctx           string // argument | redir | command
}

var fileTemplates = []template{
	{"echo ", "", "argument"}, {"echo ", "", "argument"}, {"echo ", "", "argument"},
	{"cat a b ", "", "argument"},
	{"echo ", " tail", "argument"},
	{"echo ", "\n", "argument"},
	{"echo x; cat ", "", "argument"},
	{"echo x | cat ", "", "argument"},
	{"echo x |cat ", " | wc", "argument"},
	{"echo (cat ", ")", "argument"},
	{"echo (cat ", "", "argument"},
	{"{ cat ", " }", "argument"},
	{"if $true { cat ", "", "argument"},
	{"var x = ", "", "argument"},
	{"set x = ", "", "argument"},
	{"tmp x = a ", "", "argument"},
	{"e:ls -l ", "", "argument"},
	{"echo a\n  cat 'q r' ", "", "argument"},
	{"echo &k=v ", "", "argument"},
	{"echo [a b] ", "; nop", "argument"},
	{"each {|x| cat ", "", "argument"},
	{"nop é好 ", "", "argument"},
	{"echo a > ", "", "redir"},
	{"cat < ", "", "redir"},
	{"echo a >> ", " b", "redir"},
	{"echo 2> ", "", "redir"},
	{"echo >", "", "redir"},
	{"echo a <>", " c", "redir"},
	{"", "", "command"},
	{"echo x | ", "", "command"},
	{"(", ")", "command"},
	{"echo a; ", " b c", "command"},
	{"{ ", "", "command"},
}

type dirChoice struct {
	val    string // evaluated directory part (ends with / or empty)
	n      *node  // nil: directory does not exist
	prefix string // source text that must precede the rendered rest ("~" or "$d"), or ""
	rest   string // value rendered after prefix
	label  string
}

func pickSub(r *rand.Rand, n *node) (string, *node, bool) {
	var names []string
	for _, e := range n.ents {
		if e.dirLike() {
			names = append(names, e.name)
		}
	}
	if len(names) == 0 {
		return "", nil, false
	}
	nm := names[r.Intn(len(names))]
	return nm, n.sub[nm], true
}

func (wd *world) pickDir(c *mon.Case, ev *eval.Evaler) dirChoice {
	r := c.Rand
	for {
		switch r.Intn(16) {
		case 0, 1, 2, 3:
			return dirChoice{val: "", n: wd.w, label: "cwd"}
		case 4:
			return dirChoice{val: "./", n: wd.w, label: "dot-slash"}
		case 5, 6:
			if nm, sn, ok := pickSub(r, wd.w); ok {
				return dirChoice{val: nm + "/", n: sn, label: "sub"}
			}
		case 7:
			if nm, sn, ok := pickSub(r, wd.w); ok {
				return dirChoice{val: "./" + nm + "//", n: sn, label: "sub-double-slash"}
			}
		case 8:
			return dirChoice{val: "../x/", n: wd.x, label: "parent"}
		case 9:
			if nm, sn, ok := pickSub(r, wd.w); ok {
				return dirChoice{val: "../w/" + nm + "/", n: sn, label: "parent-sub"}
			}
		case 10:
			return dirChoice{val: wd.root + "/w/", n: wd.w, label: "absolute"}
		case 11:
			// ~/ : HOME is root/home
			return dirChoice{val: wd.root + "/home/", n: wd.home, prefix: "~", rest: "/", label: "tilde"}
		case 12:
			if nm, sn, ok := pickSub(r, wd.home); ok {
				return dirChoice{val: wd.root + "/home/" + nm + "/", n: sn, prefix: "~", rest: "/" + nm + "/", label: "tilde-sub"}
			}
		case 13:
			// $d/ with d holding a directory
			type dv struct {
				d string
				n *node
			}
			opts := []dv{{"..", nil}, {".", wd.w}, {"../x", wd.x}, {wd.root + "/home", wd.home}}
			if nm, sn, ok := pickSub(r, wd.w); ok {
				opts = append(opts, dv{nm, sn}, dv{"./" + nm, sn})
			}
			o := opts[r.Intn(len(opts))]
			if o.n == nil {
				// "../" : the scratch root; its entries are w, x, home, plainfile
				o.n = &node{ents: []ent{{"w", kDir}, {"x", kDir}, {"home", kDir}, {"plainfile", kFile}},
					sub: map[string]*node{"w": wd.w, "x": wd.x, "home": wd.home}}
			}
			vn := []string{"d", "dir-1", "d_x", "é"}[r.Intn(4)]
			elv.SetVar(ev, vn, o.d)
			return dirChoice{val: o.d + "/", n: o.n, prefix: "$" + vn, rest: "/", label: "variable"}
		case 14:
			return dirChoice{val: "no-such-dir-c43/", n: nil, label: "missing"}
		case 15:
			if nm, sn, ok := pickSub(r, wd.x); ok {
				return dirChoice{val: "../x/" + nm + "/", n: sn, label: "parent-sub2"}
			}
		}
	}
}

func pickPrefix(r *rand.Rand, n *node) (string, string) {
	if n == nil || len(n.ents) == 0 {
		if r.Intn(2) == 0 {
			return "", "empty"
		}
		return genName(r, "fo"), "garbage"
	}
	e := n.ents[r.Intn(len(n.ents))]
	switch x := r.Intn(20); {
	case x < 9:
		pts := cutPoints(e.name)
		return e.name[:pts[r.Intn(len(pts))]], "rune-prefix"
	case x < 10:
		return e.name[:r.Intn(len(e.name)+1)], "byte-prefix"
	case x < 13:
		return "", "empty"
	case x < 15:
		return ".", "dot"
	case x < 17:
		return e.name, "full"
	case x < 18:
		// first rune only
		_, w := utf8.DecodeRuneInString(e.name)
		return e.name[:w], "first-rune"
	default:
		return genName(r, e.name[:cutPoints(e.name)[r.Intn(len(cutPoints(e.name)))]]), "garbage"
	}
}

type expectation struct {
	dirVal   string
	n        *node
	prefix   string
	ctx      string
	last     parse.PrimaryType
	styleChk bool
	lower    bool // demand that every required entry is offered
	wordFrom int
	wordTo   int
	exact    bool // demand Replace == [wordFrom, wordTo)
}

func hasDot(s string) bool { return strings.HasPrefix(s, ".") }

// checkFileResult is the complete oracle for one Complete call in a file
// name context. It returns the dir-like items (ToInsert, value) so that the
// caller can continue completion inside them.
func checkFileResult(ic *itemCtx, res *complete.Result, err error, ex expectation) [][2]string {
	c := ic.c
	// expected sets
	required := map[string]ent{}
	allowed := map[string]ent{}
	if ex.n != nil {
		for _, e := range ex.n.ents {
			if !strings.HasPrefix(e.name, ex.prefix) {
				continue
			}
			allowed[e.name] = e
			if hasDot(e.name) && !hasDot(ex.prefix) {
				continue // tolerated either way (documented: hidden files only for a dot prefix)
			}
			if ex.ctx == "command" && !(e.dirLike() || e.kind == kExec) {
				continue // command position: only executables and directories are demanded
			}
			required[e.name] = e
		}
	}
	if err != nil || res == nil {
		if len(required) > 0 && ex.lower {
			c.Violation(ic.kind+":no-completion", fmt.Sprintf("Complete returned %v although %d entries start with the typed prefix %s", err, len(required), mon.Q(ex.prefix)),
				ic.witness(map[string]any{"prefix": mon.Q(ex.prefix), "dir": mon.Q(ex.dirVal)}))
		}
		c.Count("files_no_completion", 1)
		return nil
	}
	ic.res = res
	if res.Name != ex.ctx {
		c.Violation(ic.kind+":context-name", fmt.Sprintf("completion context is %q, expected %q", res.Name, ex.ctx), ic.witness(nil))
		return nil
	}
	if !ic.checkRange() {
		return nil
	}
	if ex.exact && ex.wordFrom < ex.wordTo && (res.Replace.From != ex.wordFrom || res.Replace.To != ex.wordTo) {
		c.Violation(ic.kind+":range-not-the-word", fmt.Sprintf("replace range [%d,%d) is not the typed word [%d,%d)", res.Replace.From, res.Replace.To, ex.wordFrom, ex.wordTo),
			ic.witness(map[string]any{"word": mon.Q(ic.content[ex.wordFrom:ex.wordTo])}))
		return nil
	}
	skel := skeletonErrs(ic.content, res.Replace.From, res.Replace.To)
	seen := map[string]string{}
	var dirs [][2]string
	failed := false // some item could not be attributed to an entry
	batch := evalBatch(ic.ev, res.Items)
	for idx, it := range res.Items {
		c.Count("candidates_checked", 1)
		c.Count("candidates_"+ex.ctx, 1)
		ins := it.ToInsert
		word := ins
		space := false
		if strings.HasSuffix(word, " ") {
			space = true
			word = word[:len(word)-1]
		}
		w := func(extra map[string]any) map[string]any {
			m := ic.witness(map[string]any{"to_insert": mon.Q(ins), "typed_dir": mon.Q(ex.dirVal), "typed_prefix": mon.Q(ex.prefix)})
			for k, v := range extra {
				m[k] = v
			}
			return m
		}
		nb := ic.substitute(ins)
		tree, nerr := parseErrs(nb)
		if nerr > skel {
			failed = true
			c.Violation(ic.kind+":new-parse-error", fmt.Sprintf("inserting %s produces %d parse errors (the same buffer with a plain word has %d)", mon.Q(ins), nerr, skel), w(map[string]any{"new_buffer": mon.Q(nb)}))
			continue
		}
		cn := compoundAt(tree.Root, res.Replace.From)
		if cn == nil {
			failed = true
			c.Violation(ic.kind+":no-word", "no word starts at the replace position after inserting "+mon.Q(ins), w(map[string]any{"new_buffer": mon.Q(nb)}))
			continue
		}
		if cn.Range().To != res.Replace.From+len(word) {
			failed = true
			c.Violation(ic.extentSig(cn, len(word), ic.kind+":word-extent"), fmt.Sprintf("inserted text %s does not form exactly one word: the word at %d ends at %d, inserted text (without suffix) ends at %d",
				mon.Q(ins), res.Replace.From, cn.Range().To, res.Replace.From+len(word)), w(map[string]any{"new_buffer": mon.Q(nb)}))
			continue
		}
		// evaluate the word with the real interpreter (batched; a batch that
		// did not give one value per word is redone word by word)
		c.Evals(1)
		var r elv.Result
		if batch != nil {
			r = elv.Result{Values: batch[idx : idx+1]}
		} else {
			r = elv.Eval(ic.ev, "put "+word)
		}
		if r.Err != nil || len(r.Values) != 1 {
			failed = true
			c.Violation(ic.kind+":word-eval-failed", fmt.Sprintf("`put %s` gives %d values, error %v", word, len(r.Values), r.Err), w(nil))
			continue
		}
		val, ok := r.Values[0].(string)
		if !ok {
			failed = true
			c.Violation(ic.kind+":word-not-string", fmt.Sprintf("`put %s` gives a %T", word, r.Values[0]), w(nil))
			continue
		}
		if pv, ok := ic.ev.PurelyEvalCompound(cn); !ok || pv != val {
			failed = true
			c.Violation(ic.kind+":in-context-value", fmt.Sprintf("the word in the completed buffer evaluates to %s (ok=%v), on its own to %s", mon.Q(pv), ok, mon.Q(val)), w(nil))
			continue
		}
		// which entry is it?
		if !strings.HasPrefix(val, ex.dirVal) {
			failed = true
			c.Violation(ic.kind+":value-lost-directory", fmt.Sprintf("completed word evaluates to %s, which does not start with the typed directory %s", mon.Q(val), mon.Q(ex.dirVal)), w(nil))
			continue
		}
		rest := val[len(ex.dirVal):]
		slash := strings.HasSuffix(rest, "/")
		name := strings.TrimSuffix(rest, "/")
		e, ok := allowed[name]
		if !ok {
			what := "is not an entry of the directory"
			if ex.n != nil {
				if _, exists := ex.n.find(name); exists {
					what = "does not start with the typed prefix " + mon.Q(ex.prefix)
				}
			}
			failed = true
			c.Violation(ic.kind+":not-a-candidate", fmt.Sprintf("completed word evaluates to %s; %s %s", mon.Q(val), mon.Q(name), what), w(map[string]any{"value": mon.Q(val)}))
			continue
		}
		if prev, dup := seen[name]; dup {
			failed = true
			c.Violation(ic.kind+":duplicate", fmt.Sprintf("entry %s offered twice (%s and %s)", mon.Q(name), mon.Q(prev), mon.Q(ins)), w(nil))
			continue
		}
		seen[name] = ins
		c.Distinct("entry_kinds_offered", kindNames[e.kind])
		if e.dirLike() != slash || slash == space {
			failed = true
			c.Violation(ic.kind+":suffix", fmt.Sprintf("entry %s is a %s; completed value %s, trailing space %v (directories end in / without space, other files get one space)",
				mon.Q(name), kindNames[e.kind], mon.Q(val), space), w(nil))
			continue
		}
		// display names the same candidate
		var sb strings.Builder
		for _, seg := range it.ToShow {
			sb.WriteString(seg.Text)
		}
		if shown := sb.String(); shown != val && shown != rest {
			c.Violation(ic.kind+":display-differs", fmt.Sprintf("menu shows %s but the inserted word evaluates to %s", mon.Q(shown), mon.Q(val)), w(nil))
			continue
		}
		// quoting style
		if ex.styleChk {
			lead := byte(0)
			if word != "" {
				lead = word[0]
			}
			switch ex.last {
			case parse.SingleQuoted:
				c.Count("style_single", 1)
				if lead != '\'' && !(lead == '"' && !printable(val)) {
					c.Violation(ic.kind+":style-single", fmt.Sprintf("seed typed with single quotes, candidate inserted as %s", mon.Q(word)), w(nil))
					continue
				}
			case parse.DoubleQuoted:
				c.Count("style_double", 1)
				if lead != '"' {
					c.Violation(ic.kind+":style-double", fmt.Sprintf("seed typed with double quotes, candidate inserted as %s", mon.Q(word)), w(nil))
					continue
				}
			case parse.Bareword:
				c.Count("style_bare", 1)
				if allBare(val) && word != val {
					c.Violation(ic.kind+":style-bare", fmt.Sprintf("seed typed bare and %s is a plain bareword, but it was inserted as %s", mon.Q(val), mon.Q(word)), w(nil))
					continue
				}
			}
		}
		if !allBare(val) {
			c.Count("hostile_candidates", 1)
			if !printable(val) {
				c.Count("unprintable_candidates", 1)
			}
		}
		if slash {
			dirs = append(dirs, [2]string{ins, val})
		}
	}
	if ex.lower && !failed {
		for name, e := range required {
			if _, ok := seen[name]; !ok {
				c.Violation(ic.kind+":entry-not-offered", fmt.Sprintf("directory entry %s (%s) starts with the typed prefix %s but is not offered", mon.Q(name), kindNames[e.kind], mon.Q(ex.prefix)),
					ic.witness(map[string]any{"typed_dir": mon.Q(ex.dirVal), "typed_prefix": mon.Q(ex.prefix), "offered": len(res.Items)}))
				break
			}
		}
	}
	if len(res.Items) > 0 {
		c.Count("file_results_nonempty", 1)
	}
	return dirs
}

func runFiles(c *mon.Case) {
	r := c.Rand
	ev := childEv
	wd, err := buildWorld(c)
	if err != nil {
		c.Inconclusive("mkworld:" + err.Error())
		return
	}
	defer os.RemoveAll(wd.root)
	if err := os.Chdir(wd.root + "/w"); err != nil {
		c.Inconclusive("chdir")
		return
	}
	defer os.Chdir("/")
	os.Setenv("HOME", wd.root+"/home")
	nbuf := 8
	for b := 0; b < nbuf; b++ {
		tpl := fileTemplates[r.Intn(len(fileTemplates))]
		var dc dirChoice
		for {
			dc = wd.pickDir(c, ev)
			if tpl.ctx == "command" && !strings.Contains(dc.val, "/") {
				continue // without a slash the head is a command name, not a path
			}
			break
		}
		prefix, plabel := pickPrefix(r, dc.n)
		mustTerm := tpl.after != ""
		var rd rendered
		if dc.prefix != "" {
			rd = renderValue(r, dc.rest+prefix, mustTerm)
			for rd.text == "" || (dc.prefix[0] == '$' && rd.text[0] != '/' && rd.text[0] != '\'' && rd.text[0] != '"') {
				rd = renderValue(r, dc.rest+prefix, mustTerm)
			}
			rd.text = dc.prefix + rd.text
		} else {
			rd = renderValue(r, dc.val+prefix, mustTerm)
		}
		if tpl.ctx == "command" && rd.text == "" {
			continue
		}
		content := tpl.before + rd.text + tpl.after
		from := len(tpl.before)
		to := from + len(rd.text)
		dot := to
		midword := false
		if rd.styles == "b" && dc.prefix == "" && len(rd.text) > 1 && r.Intn(12) == 0 {
			// cursor inside a bare word: the documentation does not say which
			// part is the prefix, so only the per-candidate oracle applies.
			if pts := cutPoints(rd.text); len(pts) > 2 {
				dot = from + pts[1+r.Intn(len(pts)-2)]
				midword = true
			}
		}
		kind := "file-" + tpl.ctx
		ic := &itemCtx{c: c, ev: ev, content: content, dot: dot, kind: kind}
		res, cerr := complete.Complete(complete.CodeBuffer{Content: content, Dot: dot}, ev, complete.Config{})
		c.Evals(1)
		ex := expectation{dirVal: dc.val, n: dc.n, prefix: prefix, ctx: tpl.ctx, last: rd.last,
			styleChk: true, lower: !midword, wordFrom: from, wordTo: to, exact: true}
		if rd.text == "" {
			ex.last = parse.Bareword
		}
		if midword {
			c.Count("cursor_mid_word", 1)
		}
		c.Count("buffers", 1)
		c.Distinct("dir_forms", dc.label)
		c.Distinct("prefix_forms", plabel)
		c.Distinct("seed_styles", rd.styles, rd.terminated)
		if !rd.terminated {
			c.Count("unterminated_seeds", 1)
		}
		if rd.segs > 1 {
			c.Count("compound_seeds", 1)
		}
		dirs := checkFileResult(ic, res, cerr, ex)
		if res != nil && len(res.Items) > 0 {
			c.Nontrivial(content, len(res.Items), dc.label, plabel, rd.styles)
			c.Sample("file completion", map[string]any{"content": mon.Q(content), "dot": dot, "context": res.Name, "replace": [2]int{res.Replace.From, res.Replace.To},
				"first_item": mon.Q(res.Items[0].ToInsert), "items": len(res.Items)})
		}
		// continue inside up to two offered directories: the seed is now text
		// produced by the completer itself.
		if midword || len(dirs) == 0 {
			continue
		}
		for k := 0; k < 2 && k < len(dirs); k++ {
			d := dirs[r.Intn(len(dirs))]
			name := strings.TrimSuffix(d[1][len(dc.val):], "/")
			var sub *node
			if dc.n != nil {
				sub = dc.n.sub[name]
			}
			if sub == nil {
				continue
			}
			content2 := content[:res.Replace.From] + d[0]
			dot2 := len(content2)
			last := parse.Bareword
			switch d[0][len(d[0])-1] {
			case '\'':
				last = parse.SingleQuoted
			case '"':
				last = parse.DoubleQuoted
			}
			ic2 := &itemCtx{c: c, ev: ev, content: content2, dot: dot2, kind: kind + "-continued"}
			res2, err2 := complete.Complete(complete.CodeBuffer{Content: content2, Dot: dot2}, ev, complete.Config{})
			c.Evals(1)
			c.Count("continued_buffers", 1)
			ex2 := expectation{dirVal: d[1], n: sub, prefix: "", ctx: tpl.ctx, last: last, styleChk: true, lower: true,
				wordFrom: res.Replace.From, wordTo: dot2, exact: true}
			checkFileResult(ic2, res2, err2, ex2)
		}
	}
}

// ---------------------------------------------------------------------------

var childEv *eval.Evaler

func childSetup(e *mon.Env) {
	childEv = elv.New()
	os.Unsetenv("LS_COLORS")
}

func Spec() *mon.Spec {
	return &mon.Spec{
		ID: "C43", Level: "exploration",
		Rule: "files phase: case = one generated directory tree (cwd with 0..25 entries of hostile names: spaces, quotes, metacharacters, control characters, invalid UTF-8, unicode, leading - . ~; files, executables, directories, links to directories/files, dangling links; populated sub directories, a sibling and a HOME directory) and 8 code buffers `<template> <typed word>` where the typed word is directory part + a prefix of an entry name written as 1..3 bareword / single-quoted / double-quoted (possibly unterminated, escapes) segments, optionally after ~ or $var; argument, redirection and command-with-slash positions; every candidate is substituted, re-parsed and evaluated; up to two offered directories are completed further. " +
			"generic phase: a Config.ArgGenerator returning 3..22 arbitrary hostile strings (also empty, with slashes) as plain and complex candidates with code suffixes ('', ' ', '/', '=', '  ') and optional display text; the offered set must be exactly the candidates starting with the seed, each inserted as <word evaluating to the candidate> + <unquoted suffix>. names phase: variables, namespaces, functions, map keys and PATH commands declared under hostile names; buffers $x, $ns:x, $@x, set/tmp/del x, command heads, $m[x; every candidate substituted and evaluated. Non-trivial = Complete call that offered at least one candidate; distinct by buffer text and candidate count.",
		Assumptions: []string{
			"hidden entries (leading '.') for a typed prefix that does not start with '.': accepted offered or not (edit:complete-filename documents them as not offered, the property says 'entries that start with the typed prefix')",
			"command position with a slash: directories and files with an execute bit must be offered, other files may or may not be",
			"cursor inside a bare word: the documentation does not define the prefix; only per-candidate checks are applied",
			"style: a seed typed with single quotes may be completed with double quotes when the name contains unprintable characters or invalid UTF-8 (parse.QuoteAs doc); bare seeds must stay bare only for names made of ASCII letters, digits, !%+-./:@\\_ and printable non-ASCII; seeds whose last part is ~ or $var carry no style demand",
			"the menu text of a file candidate must be the completed value or its last path component",
		},
		Phases: []mon.Phase{
			{Name: "files", Quick: 3000, Thorough: 40000, Run: runFiles},
			{Name: "names", Quick: 1500, Thorough: 20000, Run: runNames},
			{Name: "generic", Quick: 3000, Thorough: 40000, Run: runGeneric},
			{Name: "gaps", Quick: 1200, Thorough: 15000, Run: runGaps},
		},
		ChildSetup: childSetup,
		Floors: map[string]int{"distinct_nontrivial": 7000, "candidates_checked": 30000, "candidates_redir": 5000, "candidates_command": 2000,
			"hostile_candidates": 25000, "unprintable_candidates": 12000, "style_single": 8000, "style_double": 12000, "style_bare": 6000,
			"unterminated_seeds": 2000, "compound_seeds": 2000, "continued_buffers": 4000,
			"variable_candidates_declared": 1500, "variable_candidates_in_namespace": 200, "lhs_candidates_assigned": 2000,
			"gap_calls": 3500, "gap_line_break_between_cursor_and_word": 1100, "gap_line_break_between_cursor_and_word_command": 900,
			"gap_file_candidates": 5000, "gap_variable_candidates": 2500, "gap_command_candidates": 100000, "gap_with_crlf": 1400, "gap_with_tab": 1000,
			"gap_cursor_after_line_break": 1300, "generic_candidates_checked": 25000, "generic_complex_candidates": 12000,
			"command_functions_called": 2000, "command_externals_checked": 2000, "index_candidates_checked": 1500},
	}
}
