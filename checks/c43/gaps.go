package c43

import (
	"fmt"
	"os"
	"strings"

	"src.elv.sh/pkg/edit/complete"
	"src.elv.sh/pkg/parse"
	"verifharness/internal/mon"
)

// Phase "gaps": completion of a NEW word with the cursor at every position
// inside a run of whitespace that mixes spaces, tabs, newlines and CRLF, in
// argument position and in command position (start of buffer, after | ; {
// ( ?( and after a newline), followed by another word, by a closing bracket
// or by nothing. The oracle is the one of the other phases: the inserted
// text forms exactly one word that evaluates to the candidate, and whatever
// follows stays a separate word.

var gapPieces = []string{" ", " ", " ", "\t", "\n", "\n", "\r\n", "  "}

type gapBefore struct {
	text    string
	closing string
	cmdPos  bool // the position right after text is a command position
	label   string
}

var gapBefores = []gapBefore{
	{"", "", true, "start"},
	{"echo x |", "", true, "pipe"},
	{"echo x|", "", true, "pipe"},
	{"echo x;", "", true, "semicolon"},
	{"echo x\n", "", true, "newline"},
	{"{", "}", true, "brace"},
	{"if $true {", "}", true, "brace"},
	{"(", ")", true, "paren"},
	{"echo (", ")", true, "paren"},
	{"var y = (", ")", true, "paren"},
	{"?(", ")", true, "exception-capture"},
	{"echo a", "", false, "argument"},
	{"cat -x 'q r'", "", false, "argument"},
	{"echo x | cat", "", false, "argument"},
	{"{ cat", "}", false, "argument"},
	{"echo (cat", ")", false, "argument"},
	{"set", "", false, "lhs"},
	{"del", "", false, "lhs"},
	{"echo a >", "", false, "redir"},
}

var gapWords = []string{"b", "tail -n", "'q'", "$x", "e:ls", "bé", "{ }"}


func runGaps(c *mon.Case) {
	r := c.Rand
	ev := childEv
	wd, err := buildWorld(c)
	if err != nil {
		c.Inconclusive("mkworld:" + err.Error())
		return
	}
	defer os.RemoveAll(wd.root)
	if err := os.Chdir(wd.root + "/w"); err != nil {
		c.Inconclusive("chdir")
		return
	}
	defer os.Chdir("/")
	os.Setenv("HOME", wd.root+"/home")
	oldPath := os.Getenv("PATH")
	os.Setenv("PATH", wd.root+"/x")
	defer os.Setenv("PATH", oldPath)

	for b := 0; b < 3; b++ {
		bf := gapBefores[r.Intn(len(gapBefores))]
		var gap strings.Builder
		for i, n := 0, 1+r.Intn(4); i < n; i++ {
			gap.WriteString(gapPieces[r.Intn(len(gapPieces))])
		}
		g := gap.String()
		if !bf.cmdPos && (g[0] != ' ' && g[0] != '\t') {
			g = " " + g // an argument needs inline whitespace after the previous word
		}
		after, alabel := "", "nothing"
		switch r.Intn(6) {
		case 0:
		case 1:
			after, alabel = bf.closing, "closing"
			if after == "" {
				alabel = "nothing"
			}
		case 2:
			after, alabel = gapWords[r.Intn(len(gapWords))], "word"
		default:
			after, alabel = gapWords[r.Intn(len(gapWords))]+bf.closing, "word"
		}
		content := bf.text + g + after
		start := len(bf.text)
		end := start + len(g)
		for dot := start; dot <= end; dot++ {
			if dot == start && !bf.cmdPos {
				continue // end of the previous word, not a new word
			}
			if dot == end && alabel == "word" {
				continue // cursor touching the following word: not inside the run
			}
			rest := content[dot:end]
			c.Evals(1)
			res, cerr := complete.Complete(complete.CodeBuffer{Content: content, Dot: dot}, ev, complete.Config{})
			c.Count("gap_calls", 1)
			if cerr != nil || res == nil {
				c.Count("gap_no_completion", 1)
				continue
			}
			kind := "gap-" + res.Name
			ic := &itemCtx{c: c, ev: ev, content: content, dot: dot, kind: kind, res: res}
			if res.Replace.From != res.Replace.To {
				// not a new word (cannot happen for a cursor in whitespace)
				c.Violation("gap:not-a-new-word", fmt.Sprintf("cursor %d is inside whitespace, but the replace range is [%d,%d)", dot, res.Replace.From, res.Replace.To), ic.witness(nil))
				continue
			}
			if len(res.Items) == 0 {
				continue
			}
			c.Nontrivial("gap", content, dot, len(res.Items))
			c.Distinct("gap_shapes", bf.label, alabel, res.Name)
			spansBreak := strings.ContainsAny(rest, "\r\n")
			if alabel == "word" && rest != "" {
				c.Count("gap_cursor_before_more_whitespace_then_word", 1)
				if spansBreak {
					c.Count("gap_line_break_between_cursor_and_word", 1)
					if res.Name == "command" {
						c.Count("gap_line_break_between_cursor_and_word_command", 1)
					}
				}
			}
			if strings.Contains(content[start:dot], "\n") {
				c.Count("gap_cursor_after_line_break", 1)
			}
			if strings.Contains(g, "\r\n") {
				c.Count("gap_with_crlf", 1)
			}
			if strings.Contains(g, "\t") {
				c.Count("gap_with_tab", 1)
			}
			switch {
			case res.Name == "command":
				checkGapPlain(ic, res, true)
			case bf.label == "lhs" && res.Name == "argument":
				checkGapPlain(ic, res, false)
			case res.Name == "argument" || res.Name == "redir":
				c.Count("gap_file_results", 1)
				checkFileResult(ic, res, nil, expectation{dirVal: "", n: wd.w, prefix: "", ctx: res.Name, last: parse.Bareword,
					styleChk: true, lower: true, wordFrom: dot, wordTo: dot})
				c.Count("gap_file_candidates", len(res.Items))
			default:
				checkGapPlain(ic, res, false)
			}
			if b == 0 && dot == start+1 {
				c.Sample("gap completion", map[string]any{"content": mon.Q(content), "dot": dot, "context": res.Name, "replace": [2]int{res.Replace.From, res.Replace.To}, "items": len(res.Items)})
			}
		}
	}
}

// checkGapPlain checks candidates that are inserted without a suffix
// (commands, variable names): at most 48 of them, evenly spread.
func checkGapPlain(ic *itemCtx, res *complete.Result, valueIsShown bool) {
	c := ic.c
	if !ic.checkRange() {
		return
	}
	skel := skeletonErrs(ic.content, res.Replace.From, res.Replace.To)
	stride := 1 + len(res.Items)/48
	for i := 0; i < len(res.Items); i += stride {
		it := res.Items[i]
		ins := it.ToInsert
		w := ic.witness(map[string]any{"to_insert": mon.Q(ins)})
		nb := ic.substitute(ins)
		tree, nerr := parseErrs(nb)
		if nerr > skel {
			c.Violation(ic.kind+":new-parse-error", fmt.Sprintf("inserting %s produces %d parse errors in %s (a plain word: %d)", mon.Q(ins), nerr, mon.Q(nb), skel), w)
			return
		}
		cn := compoundAt(tree.Root, res.Replace.From)
		if cn == nil || cn.Range().To != res.Replace.From+len(ins) {
			c.Violation(ic.extentSig(cn, len(ins), ic.kind+":word-extent"), fmt.Sprintf("inserted text %s does not form exactly one word in %s", mon.Q(ins), mon.Q(nb)), w)
			return
		}
		if valueIsShown {
			var sb strings.Builder
			for _, seg := range it.ToShow {
				sb.WriteString(seg.Text)
			}
			if pv, ok := ic.ev.PurelyEvalCompound(cn); !ok || pv != sb.String() {
				c.Violation(ic.kind+":value-differs-from-candidate", fmt.Sprintf("candidate %s was inserted as %s, which evaluates to %s (ok=%v)", mon.Q(sb.String()), mon.Q(ins), mon.Q(pv), ok), w)
				return
			}
			c.Count("gap_command_candidates", 1)
		} else {
			c.Count("gap_variable_candidates", 1)
		}
	}
}
