// Package c04 monitors that the text printed by repr evaluates back to the
// value it was printed from (property C04).
package c04

import (
	"fmt"
	"strings"

	"src.elv.sh/pkg/eval"
	"src.elv.sh/pkg/eval/vals"
	"verifharness/internal/elv"
	"verifharness/internal/elvq"
	"verifharness/internal/gen"
	"verifharness/internal/mon"
)

var ev *eval.Evaler

func setup(e *mon.Env) { ev = elv.New() }

// needsQuote: the string cannot be written as a bareword.
func needsQuote(s string) bool {
	if s == "" {
		return true
	}
	for i := 0; i < len(s); i++ {
		c := s[i]
		if !('a' <= c && c <= 'z' || 'A' <= c && c <= 'Z' || '0' <= c && c <= '9' || strings.IndexByte("-_./:@%+!,", c) >= 0) {
			return true
		}
	}
	return false
}

type shape struct {
	containers, maps, quoted, nonInt, nan, depth, collidingKeys, mixedSubKeys, tied int
}

func rankOf(t string) int { // any injective rank: only "tied or not" is used
	switch t {
	case "nil":
		return 0
	case "bool":
		return 1
	case "string":
		return 2
	case "number":
		return 3
	case "list":
		return 4
	case "map":
		return 5
	}
	return 6
}

func djb(s string) uint32 {
	h := uint32(5381)
	for i := 0; i < len(s); i++ {
		h = h*33 + uint32(s[i])
	}
	return h
}

func hasList(m *gen.Model, sub bool) bool {
	found := false
	gen.Walk(m, func(x *gen.Model) {
		if x.Kind == gen.KList && x.Sub == sub {
			found = true
		}
	})
	return found
}

func analyse(m *gen.Model, depth int, sh *shape) {
	if depth > sh.depth {
		sh.depth = depth
	}
	switch m.Kind {
	case gen.KStr:
		if needsQuote(m.S) {
			sh.quoted++
		}
	case gen.KNum:
		if m.Rep != gen.RepInt {
			sh.nonInt++
		}
		if m.IsNaN() {
			sh.nan++
		}
	case gen.KList:
		sh.containers++
		for _, e := range m.Elems {
			analyse(e, depth+1, sh)
		}
	case gen.KMap:
		sh.containers++
		sh.maps++
		for i, k := range m.Keys {
			analyse(k, depth+1, sh)
			analyse(m.Vals[i], depth+1, sh)
			for _, k2 := range m.Keys[:i] {
				c := gen.RefCmpTotal(k, k2, rankOf)
				if c.Ord == 0 || c.Lossy || gen.AnyLossyPair(k, k2) {
					sh.tied++
				}
				if k.Kind == gen.KStr && k2.Kind == gen.KStr && djb(k.S) == djb(k2.S) {
					sh.collidingKeys++
				}
				// two keys that contain lists of different Go representation
				if (hasList(k, true) && hasList(k2, false)) || (hasList(k, false) && hasList(k2, true)) {
					sh.mixedSubKeys++
				}
			}
		}
	}
}

// plain returns a copy of m in which no list is a sub-vector.
func plain(m *gen.Model) *gen.Model {
	c := *m
	c.Sub = false
	c.Elems = nil
	for _, e := range m.Elems {
		c.Elems = append(c.Elems, plain(e))
	}
	c.Keys, c.Vals = nil, nil
	for i := range m.Keys {
		c.Keys = append(c.Keys, plain(m.Keys[i]))
		c.Vals = append(c.Vals, plain(m.Vals[i]))
	}
	return &c
}

func explain(want, got *gen.Model) string {
	if want.Kind != got.Kind {
		return "kind"
	}
	switch want.Kind {
	case gen.KNum:
		if want.Rep != got.Rep {
			return "number-type"
		}
		if want.Rep == gen.RepFloat {
			return "float-bits"
		}
		return "number-value"
	case gen.KStr:
		return "string"
	case gen.KList:
		if len(want.Elems) != len(got.Elems) {
			return "list-length"
		}
		for i := range want.Elems {
			if !gen.Same(want.Elems[i], got.Elems[i]) {
				return explain(want.Elems[i], got.Elems[i])
			}
		}
	case gen.KMap:
		if len(want.Keys) != len(got.Keys) {
			return "map-size"
		}
		for i, k := range want.Keys {
			found := false
			for j, k2 := range got.Keys {
				if gen.Same(k, k2) {
					found = true
					if !gen.Same(want.Vals[i], got.Vals[j]) {
						return explain(want.Vals[i], got.Vals[j])
					}
				}
			}
			if !found {
				return "map-key"
			}
		}
	}
	return "value"
}

func runValue(c *mon.Case) {
	r := c.Rand
	cfg := gen.ValueCfg{NaNKeys: true}
	if r.Intn(8) == 0 {
		cfg.SubLists = 0.4
	}
	m := gen.GenValue(r, cfg)
	v := m.Value()
	var sh shape
	analyse(m, 0, &sh)
	hasNaN := gen.HasNaN(m)
	expr := gen.Describe(m)

	forms := []struct {
		name   string
		indent int
		plain  bool
	}{{"plain", 0, true}, {"pretty0", 0, false}, {"pretty1", 1, false}, {"pretty3", 3, false}}
	texts := make([]string, len(forms))
	for fi, f := range forms {
		var text string
		if f.plain {
			text = vals.ReprPlain(v)
		} else {
			text = vals.Repr(v, f.indent)
		}
		texts[fi] = text
		wit := map[string]any{"constructor": expr, "form": f.name, "repr": text}
		values, err := elvq.Values(ev, "put "+text)
		c.Evals(1)
		if err != nil {
			c.Violation("eval-error:"+f.name, fmt.Sprintf("repr text does not evaluate: %v; text %s", err, mon.Q(text)), wit)
			continue
		}
		if len(values) != 1 {
			c.Violation("count:"+f.name, fmt.Sprintf("repr text evaluates to %d values; text %s", len(values), mon.Q(text)), wit)
			continue
		}
		got := values[0]
		gm, ok := gen.ModelOf(got)
		if !ok {
			c.Violation("foreign-type:"+f.name, fmt.Sprintf("repr text evaluates to a value of another type (%T); text %s", got, mon.Q(text)), wit)
			continue
		}
		if !gen.Same(gm, m) {
			wit["got"] = gen.Describe(gm)
			c.Violation("differs:"+explain(m, gm)+":"+f.name, fmt.Sprintf("value read back from repr differs (%s): text %s reads back as %s", explain(m, gm), mon.Q(text), gen.Describe(gm)), wit)
			continue
		}
		if !hasNaN && (!vals.Equal(got, v) || !vals.Equal(v, got)) {
			c.Violation("not-eq:"+f.name, "value read back is not eq to the original although it has the same structure; text "+mon.Q(text), wit)
		}
		// printing the value read back gives the same text again (the order of
		// entries depends only on the contents)
		var again string
		if f.plain {
			again = vals.ReprPlain(got)
		} else {
			again = vals.Repr(got, f.indent)
		}
		if again != text {
			sig := "reprint-differs:" + f.name
			if sh.mixedSubKeys > 0 {
				sig = "order-depends-on-list-representation"
			} else if sh.tied > 0 {
				c.Count("tied_reprint_differs_tolerated", 1)
				continue
			}
			wit["again"] = again
			c.Violation(sig, fmt.Sprintf("printing the value read back gives a different text: %s vs %s", mon.Q(text), mon.Q(again)), wit)
		}
	}
	// through the builtins
	if !hasNaN && r.Intn(4) == 0 {
		elv.SetVar(ev, "v", v)
		res := elv.Eval(ev, "eq $v "+texts[0]+"\nrepr $v")
		c.Evals(1)
		if res.Err != nil || len(res.Values) != 1 || res.Values[0] != true {
			c.Violation("builtin-eq", fmt.Sprintf("eq $v <repr of $v> does not output $true (values %v, err %v); text %s", elv.Reprs(res.Values), res.Err, mon.Q(texts[0])),
				map[string]any{"constructor": expr, "repr": texts[0]})
		} else if string(res.Bytes) != texts[0]+"\n" {
			c.Violation("builtin-repr", fmt.Sprintf("the repr builtin prints %s, vals.ReprPlain gives %s", mon.Q(string(res.Bytes)), mon.Q(texts[0])), nil)
		}
		c.Count("builtin_eq_checks", 1)
	}

	// insertion-order independence
	if sh.maps > 0 {
		if sh.tied > 0 {
			c.Count("values_with_tied_keys_order_not_asserted", 1)
		} else {
			for k := 0; k < 3; k++ {
				v2 := m.ValueVariant(r)
				for fi, f := range forms[:2] {
					var t2 string
					if f.plain {
						t2 = vals.ReprPlain(v2)
					} else {
						t2 = vals.Repr(v2, f.indent)
					}
					if t2 != texts[fi] {
						c.Violation("insertion-order:"+f.name, fmt.Sprintf("the same map built in another insertion order prints differently: %s vs %s", mon.Q(texts[fi]), mon.Q(t2)),
							map[string]any{"constructor": expr, "first": texts[fi], "second": t2})
					}
				}
			}
			c.Count("values_order_checked", 1)
			c.Count("maps_rebuilt", 3*sh.maps)
			if sh.collidingKeys > 0 {
				c.Count("values_with_hash_colliding_keys", 1)
			}
			// the Go representation of a list (slice of a longer list) is not content
			if hasList(m, true) {
				v3 := plain(m).Value()
				if t3 := vals.ReprPlain(v3); t3 != texts[0] {
					sig := "list-representation"
					if sh.mixedSubKeys > 0 {
						sig = "order-depends-on-list-representation"
					}
					c.Violation(sig, fmt.Sprintf("the same value with lists obtained by slicing prints differently: %s vs %s", mon.Q(texts[0]), mon.Q(t3)),
						map[string]any{"constructor": expr, "first": texts[0], "second": t3})
				}
				c.Count("values_with_sliced_lists", 1)
				if sh.mixedSubKeys > 0 {
					c.Count("values_with_mixed_list_representation_keys", 1)
				}
			}
		}
	}

	c.Count("values", 1)
	c.Max("depth", sh.depth)
	if hasNaN {
		c.Count("values_with_nan", 1)
	}
	if strings.Contains(texts[1], "\n") {
		c.Count("multiline_pretty", 1)
	}
	if strings.Contains(texts[1], "=\t") {
		c.Count("pretty_with_map_pair", 1)
	}
	gen.Walk(m, func(x *gen.Model) {
		if x.Kind == gen.KNum {
			c.Count("numbers_"+strings.Trim(x.Rep.String(), "*"), 1)
		}
	})
	if sh.containers > 0 && (sh.quoted > 0 || sh.nonInt > 0) {
		c.Nontrivial(texts[0])
		c.Sample(fmt.Sprintf("depth%d", sh.depth), map[string]any{"constructor": expr, "repr": texts[0], "pretty": texts[1]})
	}
}

func Spec() *mon.Spec {
	return &mon.Spec{
		ID:            "C04",
		SpinViolation: true, Level: "exploration",
		Rule: "case = one generated value (gen.GenValue: $nil, bools, adversarial strings incl. invalid UTF-8 and metacharacters, numbers in all four representations incl. ±0.0, ±Inf, NaN, subnormals, 2^53/2^63 neighbours, big rationals; lists and maps to depth 5, width 8; 1/8 of the cases also build lists as slices of longer lists). ReprPlain and Repr at indent 0, 1, 3 are each evaluated with `put <text>`; the single result is read back into a model and must be the same value (same Go number type, float bits, NaN≡NaN), eq to the original when it holds no NaN, and print to the same text again. Every map is rebuilt 3 times in shuffled insertion orders with assoc/dissoc detours and must print byte-identically (skipped when two keys tie under the documented total order). Non-trivial = value has a container and a string that needs quotes or a non-int number; distinct by repr text.",
		Assumptions: []string{
			"insertion-order independence is not asserted for maps with two keys that the documented total order ties (e.g. (num 1) and (num 1.0), two map-valued keys): the documentation promises no order for them",
			"the evaluation of `put <text>` is taken as 'evaluating the text printed by repr'",
		},
		ChildSetup: setup,
		Phases:     []mon.Phase{{Name: "value", Quick: 24000, Thorough: 200000, Run: runValue}},
		Floors: map[string]int{"distinct_nontrivial": 3000, "values_order_checked": 2000, "values_with_hash_colliding_keys": 50,
			"values_with_nan": 200, "multiline_pretty": 3000, "pretty_with_map_pair": 1500, "numbers_big.Rat": 1000, "numbers_big.Int": 1000, "numbers_float64": 5000,
			"builtin_eq_checks": 1000, "depth": 5},
	}
}
