package c14

import (
	"fmt"
	"strconv"
	"strings"
	"time"

	"verifharness/internal/elv"
	"verifharness/internal/mon"
)

const maxAliases = 48

func (h *hist) addAlias(a *alias) {
	h.inc("alias_" + a.kind)
	if len(h.al) < maxAliases {
		h.al = append(h.al, a)
		return
	}
	h.al[h.r.Intn(len(h.al))] = a
}

func (h *hist) addAliasLater(kind, read string, want *node) {
	h.pending = append(h.pending, &alias{kind: kind, read: read, snap: canonM(want), born: h.step})
}

func same(a, b any) (eq bool) {
	defer func() {
		if recover() != nil {
			eq = false
		}
	}()
	return a == b
}

func (h *hist) varList() string {
	var sb strings.Builder
	for _, n := range h.names {
		sb.WriteString(" $" + n)
	}
	return sb.String()
}

// checkVars compares values read for the variables with the model.
// assigned: indices of the variables the step was supposed to rebind.
func (h *hist) checkVars(cz *canonizer, vals []any, models []*node, assigned map[int]bool, when string) bool {
	for i := range h.names {
		want := canonM(models[i])
		got := cz.canon(vals[i])
		if got == want {
			continue
		}
		if assigned[i] {
			h.fail("assigned-variable-is-not-the-nested-update:"+when, fmt.Sprintf("$%s %s is not the nested assoc/dissoc of its old value: %s", h.names[i], when, firstDiff(want, got)),
				map[string]any{"variable": h.names[i], "want": clip(want), "got": clip(got)})
		} else {
			h.fail("other-variable-changed:"+when, fmt.Sprintf("$%s was not assigned but changed %s: %s", h.names[i], when, firstDiff(want, got)),
				map[string]any{"variable": h.names[i], "want": clip(want), "got": clip(got)})
		}
		return false
	}
	return true
}

// checkAll reads every variable and every alias through the interpreter and
// re-reads every Go-held handle; everything must still have the contents it
// had when the alias was taken.
func (h *hist) checkAll(assigned map[int]bool) bool {
	var sb strings.Builder
	sb.WriteString("put" + h.varList())
	var readers []*alias
	for _, a := range h.al {
		if a.read != "" {
			sb.WriteString(" " + a.read)
			readers = append(readers, a)
		}
	}
	res := elv.Eval(h.ev, sb.String())
	h.c.Evals(1)
	if res.Err != nil || len(res.Values) != len(h.names)+len(readers) {
		h.fail("read-back-error", fmt.Sprintf("reading variables and aliases: %v, %d values for %d expressions", res.Err, len(res.Values), len(h.names)+len(readers)), nil)
		return false
	}
	cz := newCanonizer()
	canon := cz.canon
	if !h.checkVars(cz, res.Values[:len(h.names)], h.model, assigned, "after the step") {
		return false
	}
	copy(h.real, res.Values[:len(h.names)])
	for i, a := range readers {
		v := res.Values[len(h.names)+i]
		if !same(v, a.handle) {
			h.inc("alias_reads_with_new_identity")
			if got := canon(v); got != a.snap {
				h.fail("alias-changed:"+a.kind, fmt.Sprintf("%s (alias of kind %s taken before step %d) now reads differently: %s", a.read, a.kind, a.born, firstDiff(a.snap, got)),
					map[string]any{"alias": a.read, "kind": a.kind, "taken_before_step": a.born})
				return false
			}
		}
	}
	for _, a := range h.al {
		if got := canon(a.handle); got != a.snap {
			h.fail("alias-changed:"+a.kind, fmt.Sprintf("the value obtained through %q (alias of kind %s taken before step %d) changed: %s", a.read, a.kind, a.born, firstDiff(a.snap, got)),
				map[string]any{"alias": a.read, "kind": a.kind, "taken_before_step": a.born})
			return false
		}
	}
	h.cnt["alias_rechecks"] += len(h.al)
	return true
}

// insideOutputs checks `put $x0 $x1 …` outputs produced inside a temporary
// assignment and keeps them as aliases ("values already output").
func (h *hist) insideOutputs(vals []any, models []*node, assigned map[int]bool, when string) bool {
	if !h.checkVars(newCanonizer(), vals, models, assigned, when) {
		return false
	}
	for i := range vals {
		if assigned[i] {
			h.addAlias(&alias{kind: "output-inside-temporary-assignment", handle: vals[i], snap: canonM(models[i]), born: h.step})
		}
	}
	return true
}

func cloneModels(m []*node) []*node { return append([]*node(nil), m...) }

// errorPath makes a path that cannot be assigned/deleted: a list index beyond
// the end, or a missing key in the middle.
func (h *hist) errorPath(root *node, forDel bool) (path []string, why string) {
	r := h.r
	base := h.pickPath(root, false, false)
	if base == nil {
		return nil, ""
	}
	k := r.Intn(len(base))
	parent, _ := getPath(root, base[:k])
	switch {
	case parent.kind == 'l' && forDel && r.Intn(2) == 0:
		// deleting a list element is not supported ("delete variables or map elements")
		return append(append([]string{}, base[:k]...), strconv.Itoa(r.Intn(len(parent.l)))), "del-list-element"
	case parent.kind == 'l':
		return append(append([]string{}, base[:k]...), strconv.Itoa(len(parent.l)+1+r.Intn(3))), "list-index-out-of-range"
	default:
		return append(append([]string{}, base[:k]...), "no-such-key", "a"), "missing-intermediate-key"
	}
}

func (h *hist) doStep() {
	r := h.r
	vi := r.Intn(len(h.names))
	name := h.names[vi]
	root := h.model[vi]
	assigned := map[int]bool{vi: true}
	kind := r.Intn(100)
	switch {
	case kind < 38: // set, directly or from inside a function / closure
		path := h.pickPath(root, false, true)
		if path == nil {
			return
		}
		h.takeAliases(vi, path)
		if h.failed {
			return
		}
		rt, rm := h.rhs(root, vi, path)
		nm, err := assocPath(root, path, rm)
		if err != nil {
			return
		}
		lv := name + idxText(path)
		var code string
		switch r.Intn(4) {
		case 0, 1:
			code = "set " + lv + " = " + rt
		case 2:
			code = "fn f" + strconv.Itoa(h.step) + " {|v| set " + lv + " = $v }; f" + strconv.Itoa(h.step) + " " + rt
			h.inc("set_from_function")
		default:
			code = "{ set " + lv + " = " + rt + " }"
			h.inc("set_from_function")
		}
		if res := h.eval(code); res.Err != nil || len(res.Values) != 0 {
			h.fail("set-error", fmt.Sprintf("%q failed: %v (%d outputs)", clip(code), res.Err, len(res.Values)), nil)
			return
		}
		h.classify("set", root, path)
		h.model[vi] = nm
	case kind < 52: // del
		path := h.pickPath(root, true, false)
		if path == nil {
			return
		}
		if r.Intn(5) == 0 {
			path[len(path)-1] = "absent-key"
		}
		h.takeAliases(vi, path)
		if h.failed {
			return
		}
		nm, err := dissocPath(root, path)
		if err != nil {
			return
		}
		code := "del " + name + idxText(path)
		// a second operand on another variable
		if len(h.names) > 1 && r.Intn(5) == 0 {
			vj := (vi + 1) % len(h.names)
			if p2 := h.pickPath(h.model[vj], true, false); p2 != nil {
				if nm2, err := dissocPath(h.model[vj], p2); err == nil {
					code += " " + h.names[vj] + idxText(p2)
					h.classify("del", h.model[vj], p2)
					h.model[vj] = nm2
					assigned[vj] = true
					h.inc("del_two_operands")
				}
			}
		}
		if r.Intn(4) == 0 {
			code = "fn d" + strconv.Itoa(h.step) + " { " + code + " }; d" + strconv.Itoa(h.step)
		}
		parent, _ := getPath(root, path[:len(path)-1])
		if _, present := parent.m[path[len(path)-1]]; !present {
			h.inc("del_absent_key")
		}
		if res := h.eval(code); res.Err != nil || len(res.Values) != 0 {
			h.fail("del-error", fmt.Sprintf("%q failed: %v", clip(code), res.Err), nil)
			return
		}
		h.classify("del", root, path)
		h.model[vi] = nm
	case kind < 66: // tmp inside a lambda or a named function
		path := h.pickPath(root, false, true)
		if path == nil {
			return
		}
		h.takeAliases(vi, path)
		if h.failed {
			return
		}
		rt, rm := h.rhs(root, vi, path)
		in1, err := assocPath(root, path, rm)
		if err != nil {
			return
		}
		lv := name + idxText(path)
		put := "put" + h.varList()
		inner := cloneModels(h.model)
		inner[vi] = in1
		nv := len(h.names)
		switch r.Intn(4) {
		case 0:
			res := h.eval("{ tmp " + lv + " = " + rt + "; " + put + " }")
			if res.Err != nil || len(res.Values) != nv {
				h.fail("tmp-error", fmt.Sprintf("tmp step failed: %v (%d outputs)", res.Err, len(res.Values)), nil)
				return
			}
			if !h.insideOutputs(res.Values, inner, assigned, "inside the function with tmp") {
				return
			}
		case 1:
			f := "t" + strconv.Itoa(h.step)
			res := h.eval("fn " + f + " {|v| tmp " + lv + " = $v; " + put + " }; " + f + " " + rt)
			if res.Err != nil || len(res.Values) != nv {
				h.fail("tmp-error", fmt.Sprintf("tmp step failed: %v (%d outputs)", res.Err, len(res.Values)), nil)
				return
			}
			if !h.insideOutputs(res.Values, inner, assigned, "inside the function with tmp") {
				return
			}
		case 2: // nested temporary assignments of the same variable
			p2 := h.pickPath(in1, false, true)
			if p2 == nil {
				return
			}
			v2 := h.g.freshStr()
			in2, err := assocPath(in1, p2, v2)
			if err != nil {
				return
			}
			inner2 := cloneModels(h.model)
			inner2[vi] = in2
			res := h.eval("{ tmp " + lv + " = " + rt + "; { tmp " + name + idxText(p2) + " = " + v2.s + "; " + put + " }; " + put + " }")
			if res.Err != nil || len(res.Values) != 2*nv {
				h.fail("tmp-error", fmt.Sprintf("nested tmp step failed: %v (%d outputs)", res.Err, len(res.Values)), nil)
				return
			}
			if !h.insideOutputs(res.Values[:nv], inner2, assigned, "inside the inner function with tmp") ||
				!h.insideOutputs(res.Values[nv:], inner, assigned, "after the inner function with tmp returned") {
				return
			}
			h.inc("tmp_nested")
		default: // tmp followed by set in the same function: both are undone at its end
			p2 := h.pickPath(in1, false, true)
			if p2 == nil {
				return
			}
			v2 := h.g.freshStr()
			in2, err := assocPath(in1, p2, v2)
			if err != nil {
				return
			}
			inner2 := cloneModels(h.model)
			inner2[vi] = in2
			res := h.eval("{ tmp " + lv + " = " + rt + "; set " + name + idxText(p2) + " = " + v2.s + "; " + put + " }")
			if res.Err != nil || len(res.Values) != nv {
				h.fail("tmp-error", fmt.Sprintf("tmp+set step failed: %v (%d outputs)", res.Err, len(res.Values)), nil)
				return
			}
			if !h.insideOutputs(res.Values, inner2, assigned, "inside the function with tmp and set") {
				return
			}
			h.inc("tmp_then_set")
		}
		h.classify("tmp", root, path)
		// afterwards the variable has its old value again: model unchanged
	case kind < 76: // with
		path := h.pickPath(root, false, true)
		if path == nil {
			return
		}
		h.takeAliases(vi, path)
		if h.failed {
			return
		}
		rt, rm := h.rhs(root, vi, path)
		in1, err := assocPath(root, path, rm)
		if err != nil {
			return
		}
		inner := cloneModels(h.model)
		inner[vi] = in1
		code := "with [" + name + idxText(path) + " = " + rt + "]"
		if len(h.names) > 1 && r.Intn(3) == 0 {
			vj := (vi + 1) % len(h.names)
			if p2 := h.pickPath(h.model[vj], false, true); p2 != nil {
				v2 := h.g.freshStr()
				if in2, err := assocPath(h.model[vj], p2, v2); err == nil {
					code += " [" + h.names[vj] + idxText(p2) + " = " + v2.s + "]"
					inner[vj] = in2
					assigned[vj] = true
					h.inc("with_two_variables")
				}
			}
		}
		code += " { put" + h.varList() + " }"
		res := h.eval(code)
		if res.Err != nil || len(res.Values) != len(h.names) {
			h.fail("with-error", fmt.Sprintf("%q failed: %v (%d outputs)", clip(code), res.Err, len(res.Values)), nil)
			return
		}
		if !h.insideOutputs(res.Values, inner, assigned, "inside the body of with") {
			return
		}
		h.classify("with", root, path)
	case kind < 84 && len(h.names) > 1: // one set with element lvalues of two different variables
		vj := (vi + 1 + r.Intn(len(h.names)-1)) % len(h.names)
		p1 := h.pickPath(root, false, true)
		p2 := h.pickPath(h.model[vj], false, true)
		if p1 == nil || p2 == nil {
			return
		}
		h.takeAliases(vi, p1)
		h.takeAliases(vj, p2)
		if h.failed {
			return
		}
		r1t, r1m := h.rhs(root, vi, p1)
		r2t, r2m := h.rhs(h.model[vj], vj, p2)
		n1, e1 := assocPath(root, p1, r1m)
		n2, e2 := assocPath(h.model[vj], p2, r2m)
		if e1 != nil || e2 != nil {
			return
		}
		code := "set " + name + idxText(p1) + " " + h.names[vj] + idxText(p2) + " = " + r1t + " " + r2t
		if res := h.eval(code); res.Err != nil {
			h.fail("set-error", fmt.Sprintf("%q failed: %v", clip(code), res.Err), nil)
			return
		}
		h.classify("set", root, p1)
		h.classify("set", h.model[vj], p2)
		h.model[vi], h.model[vj] = n1, n2
		assigned[vj] = true
		h.inc("set_two_variables")
	default: // a step that must fail and change nothing
		forDel := r.Intn(2) == 0
		path, why := h.errorPath(root, forDel)
		if path == nil {
			return
		}
		h.takeAliases(vi, path[:len(path)-1])
		if h.failed {
			return
		}
		var code string
		if forDel {
			code = "del " + name + idxText(path)
		} else {
			form := []string{"set ", "{ tmp ", "with ["}[r.Intn(3)]
			code = form + name + idxText(path) + " = " + h.g.freshStr().s
			switch form {
			case "{ tmp ":
				code += " }"
			case "with [":
				code += "] { }"
			}
		}
		res := h.eval(code)
		if res.Err == nil || !elv.IsException(res.Err) {
			h.fail("invalid-element-accepted:"+why, fmt.Sprintf("%q did not raise an exception (%v)", clip(code), res.Err), nil)
			return
		}
		assigned = map[int]bool{}
		h.inc("rejected_" + why)
	}
	if h.failed {
		return
	}
	h.checkAll(assigned)
}

func runHistory(c *mon.Case) {
	r := c.Rand
	h := &hist{c: c, r: r, cnt: map[string]int{}}
	defer func() {
		for k, v := range h.cnt {
			c.Count(k, v)
		}
	}()
	h.g = &gen{r: r, p: thePool()}
	h.ev = elv.New()
	nvars := 2 + r.Intn(2)
	for i := 0; i < nvars; i++ {
		h.g.budget = 2600
		if i > 0 {
			h.g.budget = 700
		}
		m := h.g.container(0)
		h.names = append(h.names, "x"+strconv.Itoa(i))
		h.model = append(h.model, m)
		rv := toReal(m)
		h.real = append(h.real, rv)
		elv.SetVar(h.ev, h.names[i], rv)
		if m.kind == 'l' {
			c.Distinct("root_list_len", len(m.l))
		} else {
			c.Distinct("root_map_len", len(m.m))
		}
	}
	if res := elv.Eval(h.ev, "fn mk {|v| put { put $v } }"); res.Err != nil {
		c.Inconclusive("setup:" + res.Err.Error())
		return
	}
	if !h.checkAll(nil) {
		return
	}
	steps := 5 + r.Intn(36)
	for h.step = 1; h.step <= steps && !h.failed; h.step++ {
		h.doStep()
	}
	if h.failed {
		return
	}
	c.Count("steps", steps)
	if h.depthOK >= 1 && len(h.al) >= 3 {
		c.Nontrivial(len(h.trace), h.trace[0], h.trace[len(h.trace)/2], h.trace[len(h.trace)-1], h.g.nstr)
	}
	tr := h.trace
	if len(tr) > 10 {
		tr = tr[:10]
	}
	for i := range tr {
		tr[i] = clip(tr[i])
	}
	c.Sample("history", map[string]any{"variables": len(h.names), "first_evaluations": tr})
}

// Spec is the C14 check.
func Spec() *mon.Spec {
	return &mon.Spec{
		ID: "C14", Level: "exploration",
		Rule: "case = one program history in a fresh real interpreter: 2-3 variables hold generated nested lists/maps (nesting <=4; lists of 1..8, 31..34, 63..66, 1024/1025, 1055..1058 elements; maps of 1..18, 31..34, 64, 200, 600 string keys, including groups of keys whose interpreter hashes are identical or agree in the low 10 bits, found by search), built with the real constructors. 5..40 steps, each one of: set x[i][j].. = v (directly, from a named function, from a closure; v a fresh string, a literal container, the value of a variable incl. the assigned one, or the old element grown with conj/assoc); del x[..][k] (present/absent key, one or two operands); tmp x[..] = v inside a lambda / named function / nested lambdas / followed by set; with [x[..] = v] [y[..] = w] { }; one set with element lvalues of two different variables; steps that must raise (list index beyond the end, missing key in the middle, del of a list element). " +
			"Before each step 1-3 aliases of the value about to be replaced are taken: another variable, a closure that captured it as a parameter, the Go handle of an output value, a list/map embedding it, structurally sharing siblings (assoc/conj x2/dissoc of it), the inner container on the path, a slice of a list on the path; outputs produced inside tmp/with bodies are kept as aliases too. " +
			"Oracle: a model over immutable Go values computes the nested assoc/dissoc; after EVERY step every variable is read back and compared with the model (canonical text with sorted map keys; maps also checked for Len = iterated entries and lookup of every iterated key) and every alias (<=48 live) is re-read both through the interpreter and through the Go handle and must equal the text recorded when it was taken; inside tmp/with bodies the variables must show the temporary value and afterwards the old one. " +
			"Non-trivial = history with >=1 successful step on a path of length >=2 and >=3 live aliases; distinct by program text.",
		Assumptions: []string{
			"at most one element lvalue per variable in one set/tmp/with/del (with several, each is computed from the same old value; documented nowhere)",
			"list indices in lvalues are non-negative decimal strings (language.md documents negative indices for indexing and assoc, not for element assignment); map keys are strings",
			"tmp restores at the end of the innermost enclosing function body (language.md: 'when the current function has finished'); a set after a tmp of the same variable in the same function is undone by the restore as well",
			"with on elements uses the bracketed form with [x[i] = v] { } (the bare form is rejected by the compiler for element lvalues)",
			"steps that must fail are only required to raise an exception and to leave every variable and alias unchanged (the kind of exception is not checked)",
			"keys with colliding hashes are found by calling vals.Hash as a black box on 65k short strings",
		},
		Phases: []mon.Phase{{Name: "history", Quick: 1500, Thorough: 16000, Run: runHistory, Timeout: 10 * time.Minute}},
		Floors: map[string]int{
			"distinct_nontrivial": 450, "steps": 10000, "alias_rechecks": 300000,
			"alias_variable": 2500, "alias_closure": 2500, "alias_output": 2500, "alias_embedded-in-list": 2500, "alias_embedded-in-map": 2500,
			"alias_sibling-assoc": 2500, "alias_sibling-conj": 2500, "alias_sibling-dissoc": 1300, "alias_inner-container": 450, "alias_slice": 1100,
			"alias_output-inside-temporary-assignment": 3000,
			"set_depth1": 4000, "set_depth2": 1200, "set_depth3plus": 800, "set_from_function": 2000, "set_two_variables": 900,
			"del_depth1": 700, "del_depth2": 400, "del_depth3plus": 300, "del_absent_key": 250, "del_two_operands": 200,
			"tmp_depth1": 1000, "tmp_depth2": 350, "tmp_depth3plus": 200, "tmp_nested": 350, "tmp_then_set": 350,
			"with_depth1": 700, "with_depth2": 200, "with_depth3plus": 150, "with_two_variables": 350,
			"rejected_del-list-element": 200, "rejected_list-index-out-of-range": 600, "rejected_missing-intermediate-key": 900,
			"list_path_copy_in_tail": 5000, "list_path_copy_in_tree_height0": 1200, "list_path_copy_in_tree_height1": 800, "list_path_copy_in_tree_height2": 150,
			"grow_list_element_across_shape_change": 12,
			"map_insert_new_key":                    550, "map_grow_16_to_17_keys": 40, "map_shrink_at_8_or_17_keys": 180,
			"map_op_on_key_with_full_hash_collision": 1500, "map_path_copy_33plus_keys": 1700,
		},
	}
}
