package c14

import (
	"fmt"
	"math/rand"
	"strconv"
	"strings"

	"src.elv.sh/pkg/eval"
	"src.elv.sh/pkg/parse"
	"verifharness/internal/elv"
	"verifharness/internal/mon"
)

// ---------------------------------------------------------------------------
// generation of the initial values

type gen struct {
	r      *rand.Rand
	p      *keyPool
	budget int // nodes still allowed
	nstr   int
	cnt    map[string]int
}

func (g *gen) freshStr() *node {
	g.nstr++
	return str("s" + strconv.Itoa(g.nstr))
}

var (
	bigListSizes   = []int{31, 32, 33, 34, 63, 64, 65, 66, 1024, 1025, 1055, 1056, 1057, 1058}
	smallListSizes = []int{1, 2, 3, 4, 5, 6, 8, 31, 32, 33, 34}
	bigMapSizes    = []int{7, 8, 9, 15, 16, 17, 18, 31, 32, 33, 34, 64, 200, 600}
	smallMapSizes  = []int{1, 2, 3, 4, 7, 8, 9, 15, 16, 17, 18}
)

func (g *gen) container(depth int) *node {
	r := g.r
	isList := r.Intn(2) == 0
	var size int
	switch {
	case depth == 0 && isList:
		size = bigListSizes[r.Intn(len(bigListSizes))]
		if r.Intn(3) == 0 {
			size = smallListSizes[r.Intn(len(smallListSizes))]
		}
	case depth == 0:
		size = bigMapSizes[r.Intn(len(bigMapSizes))]
	case isList:
		size = smallListSizes[r.Intn(len(smallListSizes))]
		if depth == 1 && r.Intn(6) == 0 {
			size = bigListSizes[r.Intn(8)]
		}
	default:
		size = smallMapSizes[r.Intn(len(smallMapSizes))]
		if depth == 1 && r.Intn(6) == 0 {
			size = bigMapSizes[r.Intn(len(bigMapSizes)-2)]
		}
	}
	if size > g.budget/2 {
		size = 1 + r.Intn(4)
	}
	g.budget -= size + 1
	// which positions hold containers
	nested := map[int]bool{}
	if depth < 3 && g.budget > 20 {
		k := 1 + r.Intn(4)
		for _, c := range []int{0, size - 1, 31, 32, size / 2} {
			if k > 0 && c >= 0 && c < size && r.Intn(2) == 0 {
				nested[c] = true
				k--
			}
		}
		for ; k > 0; k-- {
			nested[r.Intn(size)] = true
		}
	}
	child := func(i int) *node {
		if nested[i] && g.budget > 10 {
			return g.container(depth + 1)
		}
		return g.freshStr()
	}
	if isList {
		elems := make([]*node, size)
		for i := range elems {
			elems[i] = child(i)
		}
		return list(elems)
	}
	keys := g.keys(size)
	m := make(map[string]*node, size)
	for i, k := range keys {
		m[k] = child(i)
	}
	return mapOf(m)
}

// keys picks n distinct map keys: ordinary ones, groups with identical
// hashes, and groups that agree in the low 10 bits of the hash (so that the
// trie below the root gets wide nodes).
func (g *gen) keys(n int) []string {
	r := g.r
	seen := map[string]bool{}
	var out []string
	add := func(k string) {
		if !seen[k] && len(out) < n {
			seen[k] = true
			out = append(out, k)
		}
	}
	if len(g.p.full) > 0 && r.Intn(2) == 0 {
		for j := 0; j < 1+r.Intn(3); j++ {
			grp := g.p.full[r.Intn(len(g.p.full))]
			for _, k := range grp {
				add(k)
			}
		}
	}
	if len(g.p.low10) > 0 && n >= 8 && r.Intn(2) == 0 {
		grp := g.p.low10[r.Intn(len(g.p.low10))]
		take := 4 + r.Intn(20)
		for _, k := range grp {
			if take == 0 {
				break
			}
			add(k)
			take--
		}
	}
	off := r.Intn(len(g.p.plain))
	for i := 0; len(out) < n; i++ {
		if i < len(g.p.plain) {
			add(g.p.plain[(off+i)%len(g.p.plain)])
		} else {
			add("x" + strconv.Itoa(i))
		}
	}
	r.Shuffle(len(out), func(i, j int) { out[i], out[j] = out[j], out[i] })
	return out
}

// ---------------------------------------------------------------------------
// history

type alias struct {
	kind   string
	read   string // expression that reads it in the interpreter ("" = Go handle only)
	handle any    // the value as obtained when the alias was made
	snap   string // canonical text at that time
	born   int
}

type hist struct {
	c       *mon.Case
	r       *rand.Rand
	g       *gen
	ev      *eval.Evaler
	names   []string
	model   []*node
	real    []any // current real values of the variables, as last read
	al      []*alias
	nalias  int
	step    int
	trace   []string
	failed  bool
	cnt     map[string]int
	depthOK int // successful steps with path length >= 2
	pending []*alias
}

func (h *hist) inc(s string) { h.cnt[s]++ }

func (h *hist) fail(sig, what string, extra map[string]any) {
	h.failed = true
	w := map[string]any{"step": h.step, "program": h.trace}
	for k, v := range extra {
		w[k] = v
	}
	h.c.Violation(sig, what, w)
}

func clip(s string) string {
	if len(s) > 300 {
		return s[:140] + " … " + s[len(s)-140:]
	}
	return s
}

// firstDiff gives a short description of where two canonical texts differ.
func firstDiff(want, got string) string {
	i := 0
	for i < len(want) && i < len(got) && want[i] == got[i] {
		i++
	}
	lo := i - 40
	if lo < 0 {
		lo = 0
	}
	end := func(s string) string {
		if hi := i + 60; hi < len(s) {
			return s[lo:hi]
		}
		return s[lo:]
	}
	return fmt.Sprintf("at byte %d: want …%s… got …%s…", i, end(want), end(got))
}

func idxText(path []string) string {
	var sb strings.Builder
	for _, p := range path {
		sb.WriteString("[" + parse.Quote(p) + "]")
	}
	return sb.String()
}

func (h *hist) eval(code string) elv.Result {
	h.trace = append(h.trace, code)
	h.c.Evals(1)
	return elv.Eval(h.ev, code)
}

// pickPath walks from the root of variable vi to some element. wantMapLast:
// the last container must be a map (for del). It returns nil if none is found.
func (h *hist) pickPath(root *node, wantMapLast bool, newKeyOK bool) []string {
	r := h.r
	for try := 0; try < 8; try++ {
		var path []string
		cur := root
		for {
			var idx string
			var child *node
			if cur.kind == 'l' {
				n := len(cur.l)
				if n == 0 {
					break
				}
				i := r.Intn(n)
				switch r.Intn(5) {
				case 0:
					i = []int{0, n - 1, n / 2, min(31, n-1), min(32, n-1), max(0, ((n-1)>>5<<5)-1), min(n-1, (n-1)>>5<<5)}[r.Intn(7)]
				case 1, 2: // prefer a position holding a container
					for k := 0; k < 12; k++ {
						j := r.Intn(n)
						if k < 5 {
							j = []int{0, n - 1, 31, 32, n / 2}[k]
						}
						if j >= 0 && j < n && cur.l[j].isContainer() {
							i = j
							break
						}
					}
				}
				idx, child = strconv.Itoa(i), cur.l[i]
			} else {
				ks := cur.sortedKeys()
				if len(ks) == 0 {
					if newKeyOK {
						path = append(path, h.g.p.plain[r.Intn(len(h.g.p.plain))])
					}
					break
				}
				k := ks[r.Intn(len(ks))]
				if r.Intn(2) == 0 {
					for t := 0; t < 6; t++ {
						k2 := ks[r.Intn(len(ks))]
						if cur.m[k2].isContainer() || h.g.p.inFul[k2] != nil {
							k = k2
							break
						}
					}
				}
				idx, child = k, cur.m[k]
			}
			path = append(path, idx)
			if child.isContainer() && len(path) < 4 && r.Intn(4) != 0 {
				cur = child
				continue
			}
			break
		}
		if len(path) == 0 {
			continue
		}
		parent, _ := getPath(root, path[:len(path)-1])
		if parent == nil {
			continue
		}
		if wantMapLast && parent.kind != 'm' {
			continue
		}
		if newKeyOK && parent.kind == 'm' && r.Intn(4) == 0 {
			// a key that is not there yet: preferably one whose hash collides with a present key
			nk := h.g.p.plain[r.Intn(len(h.g.p.plain))]
			if ks := parent.sortedKeys(); len(ks) > 0 {
				if grp := h.g.p.inFul[ks[r.Intn(len(ks))]]; grp != nil {
					nk = grp[r.Intn(len(grp))]
				}
			}
			if grp := h.g.p.inFul[path[len(path)-1]]; grp != nil {
				nk = grp[r.Intn(len(grp))]
			}
			path[len(path)-1] = nk
		}
		return path
	}
	return nil
}

// rhs produces a value to assign: (expression text, model value). Values are
// passed through variables, literals, or computed from existing values.
func (h *hist) rhs(target *node, vi int, path []string) (string, *node) {
	r := h.r
	switch k := r.Intn(10); {
	case k < 5:
		v := h.g.freshStr()
		return v.s, v
	case k < 6: // a small literal container
		a, b := h.g.freshStr(), h.g.freshStr()
		if r.Intn(2) == 0 {
			return "[" + a.s + " " + b.s + "]", list([]*node{a, b})
		}
		return "[&" + a.s + "=" + b.s + "]", mapOf(map[string]*node{a.s: b})
	case k < 8: // the value of a variable (possibly the assigned one: the old value gets embedded)
		j := r.Intn(len(h.names))
		if mj := h.model[j]; mj.kind == 'l' && len(mj.l) > 2 && r.Intn(3) == 0 {
			// a slice of a variable's list: the assigned container then holds a view of another list
			a := r.Intn(len(mj.l) - 1)
			b := a + 1 + r.Intn(min(len(mj.l)-a, 40))
			h.inc("rhs_slice_of_variable")
			return "$" + h.names[j] + "[" + strconv.Itoa(a) + ".." + strconv.Itoa(b) + "]", list(mj.l[a:b])
		}
		if h.model[j].size+h.model[vi].size < 12000 {
			return "$" + h.names[j], h.model[j]
		}
	case k < 10: // the element itself, grown by one (lists) or by a key (maps)
		if old, err := getPath(h.model[vi], path); err == nil && old.isContainer() {
			v := h.g.freshStr()
			ref := "$" + h.names[vi] + idxText(path)
			if old.kind == 'l' {
				if n := len(old.l); n == 32 || n == 64 || n == 1024 || n == 1056 {
					h.inc("grow_list_element_across_shape_change")
				}
				return "(conj " + ref + " " + v.s + ")", old.conj1(v)
			}
			nk := h.g.p.plain[r.Intn(len(h.g.p.plain))]
			nm, _ := old.assoc1(nk, v)
			return "(assoc " + ref + " " + parse.Quote(nk) + " " + v.s + ")", nm
		}
	}
	v := h.g.freshStr()
	return v.s, v
}

// classify updates coverage counters for a successful assignment/deletion.
func (h *hist) classify(op string, root *node, path []string) {
	switch len(path) {
	case 1:
		h.inc(op + "_depth1")
	case 2:
		h.inc(op + "_depth2")
		h.depthOK++
	default:
		h.inc(op + "_depth3plus")
		h.depthOK++
	}
	// every container on the path is rebuilt
	cur := root
	for i, p := range path {
		if cur.kind == 'l' {
			n := len(cur.l)
			idx, _ := strconv.Atoi(p)
			ts := 0
			if n >= 32 {
				ts = (n - 1) >> 5 << 5
			}
			switch {
			case idx >= ts:
				h.inc("list_path_copy_in_tail")
			case n <= 64:
				h.inc("list_path_copy_in_tree_height0")
			case n <= 1056:
				h.inc("list_path_copy_in_tree_height1")
			default:
				h.inc("list_path_copy_in_tree_height2")
			}
		} else {
			_, present := cur.m[p]
			last := i == len(path)-1
			n := len(cur.m)
			if last && op == "set" && !present {
				h.inc("map_insert_new_key")
				if n == 16 {
					h.inc("map_grow_16_to_17_keys")
				}
			}
			if last && op == "del" && present {
				if n == 8 || n == 17 {
					h.inc("map_shrink_at_8_or_17_keys")
				}
			}
			if grp := h.g.p.inFul[p]; grp != nil {
				others := 0
				for _, k := range grp {
					if _, ok := cur.m[k]; ok && k != p {
						others++
					}
				}
				if others > 0 {
					h.inc("map_op_on_key_with_full_hash_collision")
				}
			}
			if n >= 33 {
				h.inc("map_path_copy_33plus_keys")
			}
		}
		if i < len(path)-1 {
			cur, _ = cur.get(p)
		}
	}
}

// takeAliases makes aliases of the current value of variable vi (and of the
// container about to be replaced) before a step.
func (h *hist) takeAliases(vi int, path []string) {
	r := h.r
	name, m := h.names[vi], h.model[vi]
	k := 1 + r.Intn(3)
	for ; k > 0 && !h.failed; k-- {
		h.nalias++
		id := strconv.Itoa(h.nalias)
		var code, read, kind string
		var want *node
		switch r.Intn(9) {
		case 0:
			kind, code, read, want = "variable", "var a"+id+" = $"+name, "$a"+id, m
		case 1:
			kind, code, read, want = "closure", "var c"+id+" = (mk $"+name+")", "($c"+id+")", m
		case 2:
			kind, read, want = "embedded-in-list", "$e"+id, list([]*node{str("pre"), m, str("post")})
			code = "var e" + id + " = [pre $" + name + " post]"
		case 3:
			kind, read, want = "embedded-in-map", "$e"+id, mapOf(map[string]*node{"k": m, "z": str("y")})
			code = "var e" + id + " = [&k=$" + name + " &z=y]"
		case 4: // structurally sharing sibling made with assoc on the path about to be assigned
			p := path
			if len(p) == 0 || r.Intn(2) == 0 {
				p = h.pickPath(m, false, true)
			}
			if p == nil {
				continue
			}
			p = p[:1+r.Intn(len(p))]
			parent, _ := getPath(m, p[:len(p)-1])
			nv, err := parent.assoc1(p[len(p)-1], str("sib"))
			if err != nil {
				continue
			}
			kind, read, want = "sibling-assoc", "$s"+id, nv
			code = "var s" + id + " = (assoc $" + name + idxText(p[:len(p)-1]) + " " + parse.Quote(p[len(p)-1]) + " sib)"
		case 5: // siblings made with conj (two from the same list) or dissoc
			if m.kind == 'l' {
				kind, read, want = "sibling-conj", "$s"+id, m.conj1(str("sib2"))
				code = "var t" + id + " = (conj $" + name + " sib1); var s" + id + " = (conj $" + name + " sib2)"
				h.addAliasLater("sibling-conj", "$t"+id, m.conj1(str("sib1")))
			} else {
				ks := m.sortedKeys()
				if len(ks) == 0 {
					continue
				}
				key := ks[r.Intn(len(ks))]
				nv, _ := m.dissoc1(key)
				kind, read, want = "sibling-dissoc", "$s"+id, nv
				code = "var s" + id + " = (dissoc $" + name + " " + parse.Quote(key) + ")"
			}
		case 6: // the container about to be replaced (or another inner one)
			p := path
			if len(p) > 0 {
				p = p[:r.Intn(len(p))]
			}
			inner, err := getPath(m, p)
			if err != nil || !inner.isContainer() || len(p) == 0 {
				continue
			}
			kind, code, read, want = "inner-container", "var p"+id+" = $"+name+idxText(p), "$p"+id, inner
		case 7: // a slice of a list on the path
			p := path
			if len(p) > 0 {
				p = p[:r.Intn(len(p))]
			}
			inner, err := getPath(m, p)
			if err != nil || inner.kind != 'l' {
				continue
			}
			n := len(inner.l)
			a := r.Intn(n + 1)
			b := a + r.Intn(n-a+1)
			if r.Intn(2) == 0 {
				a, b = min(a, 2), max(b, n-2)
				if b < a {
					b = a
				}
			}
			kind, read, want = "slice", "$p"+id, list(inner.l[a:b])
			code = "var p" + id + " = $" + name + idxText(p) + "[" + strconv.Itoa(a) + ".." + strconv.Itoa(b) + "]"
		case 8: // a value already output: only the Go handle is kept
			kind, code, read, want = "output", "", "", m
		}
		var handle any
		if code != "" {
			if res := h.eval(code); res.Err != nil {
				h.fail("alias-creation-error", fmt.Sprintf("creating alias with %q failed: %v", code, res.Err), nil)
				return
			}
			res := h.eval("put " + read)
			if res.Err != nil || len(res.Values) != 1 {
				h.fail("alias-read-error", fmt.Sprintf("reading alias with %q: %v, %d values", read, res.Err, len(res.Values)), nil)
				return
			}
			handle = res.Values[0]
		} else {
			res := h.eval("put $" + name)
			if res.Err != nil || len(res.Values) != 1 {
				h.fail("alias-read-error", fmt.Sprintf("put $%s: %v, %d values", name, res.Err, len(res.Values)), nil)
				return
			}
			handle = res.Values[0]
		}
		snap := canonM(want)
		if got := canonR(handle); got != snap {
			h.fail("alias-wrong-at-creation:"+kind, fmt.Sprintf("alias made with %q differs from the model: %s", code, firstDiff(snap, got)), nil)
			return
		}
		h.addAlias(&alias{kind: kind, read: read, handle: handle, snap: snap, born: h.step})
		for _, p := range h.pending {
			res := h.eval("put " + p.read)
			if res.Err != nil || len(res.Values) != 1 {
				h.fail("alias-read-error", fmt.Sprintf("reading alias with %q: %v", p.read, res.Err), nil)
				return
			}
			p.handle = res.Values[0]
			if got := canonR(p.handle); got != p.snap {
				h.fail("alias-wrong-at-creation:"+p.kind, fmt.Sprintf("alias %s differs from the model: %s", p.read, firstDiff(p.snap, got)), nil)
				return
			}
			h.addAlias(p)
		}
		h.pending = nil
	}
}
