// Package c14 monitors element assignment and deletion in a real interpreter
// against a model over immutable Go values, and re-reads every alias of every
// earlier value after every step (property C14).
package c14

import (
	"errors"
	"reflect"
	"sort"
	"strconv"
	"strings"
	"sync"

	"src.elv.sh/pkg/eval/vals"
	"src.elv.sh/pkg/persistent/hashmap"
	"src.elv.sh/pkg/persistent/vector"
)

// node is a model value: a string, a list or a map with string keys. Nodes
// are never modified after construction; updates copy the path.
type node struct {
	kind byte // 's', 'l', 'm'
	s    string
	l    []*node
	m    map[string]*node
	size int // number of nodes in the tree
}

func str(s string) *node { return &node{kind: 's', s: s, size: 1} }

func list(elems []*node) *node {
	n := &node{kind: 'l', l: elems, size: 1}
	for _, e := range elems {
		n.size += e.size
	}
	return n
}

func mapOf(m map[string]*node) *node {
	n := &node{kind: 'm', m: m, size: 1}
	for _, e := range m {
		n.size += e.size
	}
	return n
}

func (n *node) isContainer() bool { return n.kind != 's' }

func (n *node) length() int {
	if n.kind == 'l' {
		return len(n.l)
	}
	return len(n.m)
}

// sortedKeys returns the keys of a map node in Go string order (the model
// never depends on map iteration order).
func (n *node) sortedKeys() []string {
	ks := make([]string, 0, len(n.m))
	for k := range n.m {
		ks = append(ks, k)
	}
	sort.Strings(ks)
	return ks
}

var (
	errRange = errors.New("model: list index out of range")
	errNoKey = errors.New("model: no such key")
	errKind  = errors.New("model: not a container")
	errNoDel = errors.New("model: lists do not support element removal")
)

func (n *node) get(idx string) (*node, error) {
	switch n.kind {
	case 'l':
		i, err := strconv.Atoi(idx)
		if err != nil || i < 0 || i >= len(n.l) {
			return nil, errRange
		}
		return n.l[i], nil
	case 'm':
		v, ok := n.m[idx]
		if !ok {
			return nil, errNoKey
		}
		return v, nil
	}
	return nil, errKind
}

// assoc1 is the model of `assoc $container $k $v`: replace a list element
// (the index must exist) or set a map key.
func (n *node) assoc1(idx string, v *node) (*node, error) {
	switch n.kind {
	case 'l':
		i, err := strconv.Atoi(idx)
		if err != nil || i < 0 || i >= len(n.l) {
			return nil, errRange
		}
		l := make([]*node, len(n.l))
		copy(l, n.l)
		l[i] = v
		return list(l), nil
	case 'm':
		m := make(map[string]*node, len(n.m)+1)
		for k, e := range n.m {
			m[k] = e
		}
		m[idx] = v
		return mapOf(m), nil
	}
	return nil, errKind
}

// dissoc1 is the model of `dissoc $map $k`; an absent key gives an equal map.
func (n *node) dissoc1(idx string) (*node, error) {
	if n.kind != 'm' {
		return nil, errNoDel
	}
	m := make(map[string]*node, len(n.m))
	for k, e := range n.m {
		if k != idx {
			m[k] = e
		}
	}
	return mapOf(m), nil
}

func (n *node) conj1(v *node) *node {
	l := make([]*node, len(n.l)+1)
	copy(l, n.l)
	l[len(n.l)] = v
	return list(l)
}

// assocPath: `set a[i][j][k] = v` is `a = (assoc $a i (assoc $a[i] j (assoc $a[i][j] k v)))`.
func assocPath(root *node, path []string, v *node) (*node, error) {
	if len(path) == 1 {
		return root.assoc1(path[0], v)
	}
	child, err := root.get(path[0])
	if err != nil {
		return nil, err
	}
	nc, err := assocPath(child, path[1:], v)
	if err != nil {
		return nil, err
	}
	return root.assoc1(path[0], nc)
}

// dissocPath: `del a[i][j][k]` removes key k from the map a[i][j] and
// rebuilds the containers above it.
func dissocPath(root *node, path []string) (*node, error) {
	if len(path) == 1 {
		return root.dissoc1(path[0])
	}
	child, err := root.get(path[0])
	if err != nil {
		return nil, err
	}
	nc, err := dissocPath(child, path[1:])
	if err != nil {
		return nil, err
	}
	return root.assoc1(path[0], nc)
}

func getPath(root *node, path []string) (*node, error) {
	cur := root
	for _, p := range path {
		var err error
		if cur, err = cur.get(p); err != nil {
			return nil, err
		}
	}
	return cur, nil
}

// ---------------------------------------------------------------------------
// canonical text of model values and of real values (map entries sorted by
// key text, so the text does not depend on hash map iteration order)

func canonM(n *node) string {
	var sb strings.Builder
	writeM(&sb, n)
	return sb.String()
}

func writeM(sb *strings.Builder, n *node) {
	switch n.kind {
	case 's':
		sb.WriteString(strconv.Quote(n.s))
	case 'l':
		sb.WriteByte('[')
		for i, e := range n.l {
			if i > 0 {
				sb.WriteByte(' ')
			}
			writeM(sb, e)
		}
		sb.WriteByte(']')
	case 'm':
		sb.WriteByte('{')
		for i, k := range n.sortedKeys() {
			if i > 0 {
				sb.WriteByte(' ')
			}
			sb.WriteString(strconv.Quote(k))
			sb.WriteByte('=')
			writeM(sb, n.m[k])
		}
		sb.WriteByte('}')
	}
}

// canonizer computes canonical texts of real values. Within one canonizer
// the text of a container is computed once per object (values are compared
// at one point in time, and nested values share most of their structure).
type canonizer struct{ memo map[uintptr]string }

func newCanonizer() *canonizer { return &canonizer{memo: map[uintptr]string{}} }

func canonR(v any) string { return newCanonizer().canon(v) }

func (cz *canonizer) canon(v any) string {
	switch v.(type) {
	case string:
		return strconv.Quote(v.(string))
	case vector.Vector, hashmap.Map:
		rv := reflect.ValueOf(v)
		if rv.Kind() != reflect.Ptr {
			return cz.container(v)
		}
		p := rv.Pointer()
		if s, ok := cz.memo[p]; ok {
			return s
		}
		s := cz.container(v)
		cz.memo[p] = s
		return s
	}
	return "?" + vals.ReprPlain(v)
}

func (cz *canonizer) container(v any) string {
	var sb strings.Builder
	switch v := v.(type) {
	case vector.Vector:
		sb.WriteByte('[')
		i := 0
		for it := v.Iterator(); it.HasElem(); it.Next() {
			if i > 0 {
				sb.WriteByte(' ')
			}
			sb.WriteString(cz.canon(it.Elem()))
			i++
		}
		sb.WriteByte(']')
		if i != v.Len() {
			sb.WriteString("!len=" + strconv.Itoa(v.Len()))
		}
	case hashmap.Map:
		type kv struct{ k, v string }
		var es []kv
		for it := v.Iterator(); it.HasElem(); it.Next() {
			k, e := it.Elem()
			var ks string
			if s, ok := k.(string); ok {
				ks = strconv.Quote(s)
			} else {
				ks = "?" + vals.ReprPlain(k)
			}
			es = append(es, kv{ks, cz.canon(e)})
			// every key the iteration shows must also be found by lookup
			if _, ok := v.Index(k); !ok {
				es = append(es, kv{ks, "!lost-key"})
			}
		}
		sort.Slice(es, func(i, j int) bool {
			if es[i].k != es[j].k {
				return es[i].k < es[j].k
			}
			return es[i].v < es[j].v
		})
		sb.WriteByte('{')
		for i, e := range es {
			if i > 0 {
				sb.WriteByte(' ')
			}
			sb.WriteString(e.k)
			sb.WriteByte('=')
			sb.WriteString(e.v)
		}
		sb.WriteByte('}')
		if len(es) != v.Len() {
			sb.WriteString("!len=" + strconv.Itoa(v.Len()))
		}
	}
	return sb.String()
}

// toReal builds the Elvish value of a model value.
func toReal(n *node) any {
	switch n.kind {
	case 'l':
		v := vector.Empty
		for _, e := range n.l {
			v = v.Conj(toReal(e))
		}
		return v
	case 'm':
		m := vals.EmptyMap
		for _, k := range n.sortedKeys() {
			m = m.Assoc(k, toReal(n.m[k]))
		}
		return m
	}
	return n.s
}

// ---------------------------------------------------------------------------
// key pool: strings grouped by the interpreter's own hash of them, found by
// search (the hash function is used as a black box)

type keyPool struct {
	plain []string            // ordinary keys
	low10 [][]string          // groups of keys whose hashes agree in the low 10 bits
	full  [][]string          // groups of keys with identical 32-bit hashes
	inFul map[string][]string // key -> its full-collision group
}

var (
	poolOnce sync.Once
	pool     *keyPool
)

func thePool() *keyPool {
	poolOnce.Do(func() {
		p := &keyPool{inFul: map[string][]string{}}
		for i := 0; i < 400; i++ {
			p.plain = append(p.plain, "k"+strconv.Itoa(i))
		}
		// candidates: all 1..3-letter strings over a 40-letter alphabet (65.6k)
		alphabet := "abcdefghijklmnopqrstuvwxyzABCDEFGH012345"
		type cand struct {
			h uint32
			s string
		}
		var cs []cand
		add := func(s string) { cs = append(cs, cand{vals.Hash(s), s}) }
		for _, a := range alphabet {
			add(string(a))
			for _, b := range alphabet {
				add(string([]rune{a, b}))
				for _, c := range alphabet {
					add(string([]rune{a, b, c}))
				}
			}
		}
		sort.Slice(cs, func(i, j int) bool {
			if cs[i].h != cs[j].h {
				return cs[i].h < cs[j].h
			}
			return cs[i].s < cs[j].s
		})
		for i := 0; i < len(cs) && len(p.full) < 400; {
			j := i + 1
			for j < len(cs) && cs[j].h == cs[i].h {
				j++
			}
			if j-i >= 2 {
				var g []string
				for k := i; k < j && len(g) < 4; k++ {
					g = append(g, cs[k].s)
				}
				p.full = append(p.full, g)
				for _, k := range g {
					p.inFul[k] = g
				}
			}
			i = j
		}
		// groups agreeing in the low 10 bits, with pairwise different hashes
		sort.Slice(cs, func(i, j int) bool {
			if cs[i].h&1023 != cs[j].h&1023 {
				return cs[i].h&1023 < cs[j].h&1023
			}
			if cs[i].h != cs[j].h {
				return cs[i].h < cs[j].h
			}
			return cs[i].s < cs[j].s
		})
		for i := 0; i < len(cs) && len(p.low10) < 64; {
			j := i + 1
			g := []string{cs[i].s}
			for j < len(cs) && cs[j].h&1023 == cs[i].h&1023 {
				if cs[j].h != cs[j-1].h && len(g) < 40 {
					g = append(g, cs[j].s)
				}
				j++
			}
			if len(g) >= 24 {
				p.low10 = append(p.low10, g)
			}
			i = j
		}
		pool = p
	})
	return pool
}
