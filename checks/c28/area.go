package c28

// Phase "area": a real tk.CodeArea driven by key and bracketed-paste events,
// compared after every event with a nondeterministic reference model written
// from pkg/edit/insert_api.d.elv (abbreviations) and the CodeAreaSpec docs.

import (
	"fmt"
	"math/rand"
	"sort"
	"strings"
	"unicode"
	"unicode/utf8"

	"src.elv.sh/pkg/cli/term"
	"src.elv.sh/pkg/cli/tk"
	"src.elv.sh/pkg/parse"
	"src.elv.sh/pkg/ui"
	"verifharness/internal/mon"
)

type pair struct{ abbr, full string }

var simplePool = []pair{{"||", "| less"}, {">dn", "2>/dev/null"}, {"好好", "hǎo"}, {"é", "e"}, {"xx", "⊗"}, {"dn", "DOWN"}, {"eé", "E"}, {"e好", "一二三四"}}
var commandPool = []pair{{"l", "less"}, {"gc", "git commit"}, {"好", "good"}, {"ll", "ls -l"}, {"é", "echo é"}}
var smallPool = []pair{{"gcm", "git checkout master"}, {"ll", "ls -ltr"}, {">dn", " 2>/dev/null"}, {"dn", "down"}, {"é好", "wide"}, {"cm", "CM"}, {"gc", "GC"}, {"好", "ok"}}

func subset(r *rand.Rand, pool []pair) []pair {
	var out []pair
	p := []int{0, 50, 80, 100}[r.Intn(4)]
	for _, x := range pool {
		if r.Intn(100) < p {
			out = append(out, x)
		}
	}
	return out
}

func lookup(tab []pair, k string) (string, bool) {
	for _, p := range tab {
		if p.abbr == k {
			return p.full, true
		}
	}
	return "", false
}

func feed(tab []pair) func(func(a, f string)) {
	return func(f func(a, f string)) {
		for _, p := range tab {
			f(p.abbr, p.full)
		}
	}
}

// ---------------------------------------------------------------------------
// events

type event struct {
	kind  string // key | paste-start | paste-end
	key   ui.Key
	bound string // builtin bound to this key, if any
}

func (e event) String() string {
	switch e.kind {
	case "paste-start":
		return "PasteSetting(true)"
	case "paste-end":
		return "PasteSetting(false)"
	}
	s := fmt.Sprintf("Key(%q mod=%d)", e.key.Rune, e.key.Mod)
	if e.bound != "" {
		s += "=" + e.bound
	}
	return s
}

func keyOf(i int) ui.Key { return ui.K(rune('a'+i), ui.Alt) }

var typedSingles = []rune("abXgcmdnlé好e|>;(){ $'+-/_0^#\"[]　 😀́²")

var pasteRunes = []rune("ab '\"$\\\n\t\r;|好😀é́\x00\x01\x1b\x7f� ~*?#^")

func genEvents(r *rand.Rand, tabs [3][]pair) []event {
	n := 1 + r.Intn(60)
	var evs []event
	typeStr := func(s string) {
		for _, x := range s {
			evs = append(evs, event{kind: "key", key: ui.K(x)})
		}
	}
	var keys []string
	for _, t := range tabs {
		for _, p := range t {
			keys = append(keys, p.abbr)
		}
	}
	if len(keys) == 0 {
		keys = []string{"gcm", "||"}
	}
	triggers := []string{" ", " ", " ", ";", "|", "x", "(", "+", "好"}
	prefixes := []string{"", "", " ", "; ", "| ", "(", "{ ", "{", "echo ", "X", "+", "a ", "  "}
	for len(evs) < n {
		switch k := r.Intn(100); {
		case k < 30: // [context] abbreviation [trigger]
			if r.Intn(2) == 0 {
				typeStr(prefixes[r.Intn(len(prefixes))])
			}
			a := keys[r.Intn(len(keys))]
			if r.Intn(6) == 0 { // interrupted typing
				rs := []rune(a)
				cut := r.Intn(len(rs) + 1)
				typeStr(string(rs[:cut]))
				b := r.Intn(len(builtinNames))
				evs = append(evs, event{kind: "key", key: keyOf(b), bound: builtinNames[b]})
				typeStr(string(rs[cut:]))
			} else {
				typeStr(a)
			}
			if r.Intn(4) > 0 {
				typeStr(triggers[r.Intn(len(triggers))])
			}
		case k < 50:
			evs = append(evs, event{kind: "key", key: ui.K(typedSingles[r.Intn(len(typedSingles))])})
		case k < 60:
			if r.Intn(3) == 0 {
				evs = append(evs, event{kind: "key", key: ui.K('H', ui.Ctrl)})
			} else {
				evs = append(evs, event{kind: "key", key: ui.K(ui.Backspace)})
			}
		case k < 63:
			evs = append(evs, event{kind: "key", key: ui.K('\n')})
		case k < 83:
			b := r.Intn(len(builtinNames))
			evs = append(evs, event{kind: "key", key: keyOf(b), bound: builtinNames[b]})
		case k < 88: // keys nobody handles
			ks := []ui.Key{ui.K(ui.F5), ui.K('x', ui.Ctrl), ui.K(ui.Up, ui.Shift), ui.K('\t'), ui.K(0), ui.K(0x200b), ui.K(ui.Delete), ui.K('ß', ui.Alt)}
			evs = append(evs, event{kind: "key", key: ks[r.Intn(len(ks))]})
		default: // bracketed paste
			evs = append(evs, event{kind: "paste-start"})
			for m := r.Intn(8); m > 0; m-- {
				switch r.Intn(12) {
				case 0:
					evs = append(evs, event{kind: "key", key: ui.K(ui.F1)})
				case 1:
					evs = append(evs, event{kind: "key", key: ui.K(ui.Left)})
				case 2:
					b := r.Intn(len(builtinNames))
					evs = append(evs, event{kind: "key", key: keyOf(b), bound: builtinNames[b]})
				default:
					evs = append(evs, event{kind: "key", key: ui.K(pasteRunes[r.Intn(len(pasteRunes))])})
				}
			}
			if r.Intn(10) > 0 {
				evs = append(evs, event{kind: "paste-end"})
			}
		}
	}
	return evs
}

// ---------------------------------------------------------------------------
// reference model

type outcome struct {
	content string
	dot     int
	ins     []string // possible "consecutively typed" strings afterwards
	kind    string   // plain | simple | small | command | ...
}

type model struct {
	content string
	dot     int
	hyps    []string // possible values of the consecutively typed text
	pasting bool
	paste   string
	tabs    [3][]pair // simple, command, small-word
	quote   bool
	submits int
}

func addHyp(hs []string, h string) []string {
	if len(h) > 24 {
		// only a suffix can matter (longest key is 6 bytes), keep it on a character boundary
		h = h[len(h)-24:]
		for len(h) > 0 && !utf8.RuneStart(h[0]) {
			h = h[1:]
		}
	}
	if containsStr(hs, h) {
		return hs
	}
	return append(hs, h)
}

func lastRune(s string) rune  { r, _ := utf8.DecodeLastRuneInString(s); return r }
func firstRune(s string) rune { r, _ := utf8.DecodeRuneInString(s); return r }

// nonCommand returns the outcomes of simple / small-word expansion for
// content nc (trigger already inserted, dot nd) with typed text ins.
func (m *model) nonCommand(nc string, nd int, ins string, trig string) []outcome {
	// simple: typed in full and consecutively; the longest wins; priority over small-word
	best := pair{}
	for _, p := range m.tabs[0] {
		if strings.HasSuffix(ins, p.abbr) && len(p.abbr) > len(best.abbr) {
			best = p
		}
	}
	if best.abbr != "" {
		return []outcome{{nc[:nd-len(best.abbr)] + best.full + nc[nd:], nd - len(best.abbr) + len(best.full), []string{""}, "simple"}}
	}
	plain := outcome{nc, nd, []string{ins}, "plain"}
	if nd != len(nc) {
		return []outcome{plain}
	}
	before := ins[:len(ins)-len(trig)]
	var cands []pair
	for _, p := range m.tabs[2] {
		if strings.HasSuffix(before, p.abbr) {
			cands = append(cands, p)
		}
	}
	sort.Slice(cands, func(i, j int) bool { return len(cands[i].abbr) > len(cands[j].abbr) })
	longerFailed := false
	for _, p := range cands {
		ok := catSmall(lastRune(p.abbr)) != catSmall(firstRune(trig))
		if head := nc[:len(nc)-len(p.abbr)-len(trig)]; ok && head != "" {
			ok = catSmall(lastRune(head)) != catSmall(firstRune(p.abbr))
		}
		if !ok {
			longerFailed = true
			continue
		}
		exp := outcome{nc[:len(nc)-len(p.abbr)-len(trig)] + p.full + trig, 0, []string{""}, "small"}
		exp.dot = len(exp.content)
		if longerFailed {
			// "the longest one is used": unclear whether a longer abbreviation that
			// is typed but not at a word boundary shadows this one
			return []outcome{exp, plain}
		}
		return []outcome{exp}
	}
	return []outcome{plain}
}

// commandAbbr decides whether the space just typed follows an abbreviated
// command. state: 0 no, 1 yes, 2 unclear.
func (m *model) commandAbbr(nc string, nd int, trig string) (int, outcome) {
	if trig != " " || len(m.tabs[1]) == 0 {
		return 0, outcome{}
	}
	pre := nc[:nd-1]
	i := len(pre)
	for i > 0 {
		r, w := utf8.DecodeLastRuneInString(pre[:i])
		if !isAlnum(r) {
			break
		}
		i -= w
	}
	word, rest := pre[i:], pre[:i]
	full, ok := lookup(m.tabs[1], word)
	if !ok {
		return 0, outcome{}
	}
	out := outcome{rest + full + " " + nc[nd:], len(rest) + len(full) + 1, []string{""}, "command"}
	rest2 := strings.TrimRight(rest, " \t\n")
	wsPart := rest[len(rest2):]
	state := 2
	clean := !strings.ContainsAny(rest2, "'\"#^\r`\\")
	switch {
	case !clean:
	case rest2 == "":
		state = 1
	case strings.Contains(wsPart, "\n"):
		if !strings.ContainsAny(rest2, "[({") {
			state = 1
		}
	case strings.HasSuffix(rest2, "|") || strings.HasSuffix(rest2, ";") || strings.HasSuffix(rest2, "("):
		if !strings.ContainsAny(rest2, "[") {
			state = 1
		}
	case strings.HasSuffix(rest2, "{") && wsPart != "":
		if !strings.ContainsAny(rest2, "[") {
			state = 1
		}
	case isAlnum(lastRune(rest2)) && wsPart != "":
		state = 0 // an argument of the command before it
	}
	if state == 1 && nd != len(nc) {
		state = 2 // the doc does not say "only at the end of the buffer"; the code comment does
	}
	return state, out
}

func (m *model) insert(r rune) []outcome { return m.insertWith(r, m.hyps) }

// insertWith is insert under the given hypotheses about the consecutively typed text.
func (m *model) insertWith(r rune, hyps []string) []outcome {
	trig := string(r)
	nc := m.content[:m.dot] + trig + m.content[m.dot:]
	nd := m.dot + len(trig)
	var outs []outcome
	for _, h := range hyps {
		ins := h + trig
		rest := m.nonCommand(nc, nd, ins, trig)
		state, cmd := m.commandAbbr(nc, nd, trig)
		switch state {
		case 0:
			outs = append(outs, rest...)
		case 2:
			outs = append(outs, cmd)
			outs = append(outs, rest...)
		case 1:
			outs = append(outs, cmd)
			for _, o := range rest { // priority against the other kinds is undocumented
				if o.kind != "plain" {
					outs = append(outs, o)
				}
			}
		}
	}
	return outs
}

// step returns the acceptable outcomes of an event; it updates the paste state.
func (m *model) step(e event) (outs []outcome, class string) {
	same := func(hyps []string, kind string) []outcome { return []outcome{{m.content, m.dot, hyps, kind}} }
	switch e.kind {
	case "paste-start":
		m.pasting = true
		return same([]string{""}, "paste-start"), "paste-start"
	case "paste-end":
		text := m.paste
		if m.quote {
			text = parse.Quote(text)
		}
		m.pasting, m.paste = false, ""
		return []outcome{{m.content[:m.dot] + text + m.content[m.dot:], m.dot + len(text), []string{""}, "paste"}}, "paste"
	}
	k := e.key
	isFunc := k.Mod != 0 || k.Rune < 0
	if m.pasting {
		if !isFunc {
			m.paste += string(k.Rune)
		}
		return same(m.hyps, "pasting"), "key-during-paste"
	}
	withEmpty := addHyp(append([]string(nil), m.hyps...), "")
	switch {
	case e.bound != "":
		b := tk.CodeBuffer{Content: m.content, Dot: m.dot}
		builtins[e.bound](&b)
		if b.Content == m.content && b.Dot == m.dot {
			return same(withEmpty, "bound-noop"), "bound-command"
		}
		return []outcome{{b.Content, b.Dot, []string{""}, "bound"}}, "bound-command"
	case k == ui.K('\n'):
		m.submits++
		return same([]string{""}, "enter"), "enter"
	case k == ui.K(ui.Backspace) || k == ui.K('H', ui.Ctrl):
		p := refLeftRune(m.content, m.dot)
		return []outcome{{m.content[:p] + m.content[m.dot:], p, []string{""}, "backspace"}}, "backspace"
	case isFunc:
		return same(withEmpty, "unhandled"), "unhandled-key"
	case !unicode.IsGraphic(k.Rune):
		// the doc does not say what a non-graphic character key does
		s := string(k.Rune)
		return append(same(withEmpty, "unhandled"), outcome{m.content[:m.dot] + s + m.content[m.dot:], m.dot + len(s), []string{""}, "plain"}), "non-graphic-key"
	}
	return m.insert(k.Rune), "insert"
}

// ---------------------------------------------------------------------------

func runArea(c *mon.Case) {
	defer flush(c)
	r := c.Rand
	maxHyps := 0
	defer func() { c.Max("hypotheses", maxHyps) }()
	tabs := [3][]pair{subset(r, simplePool), subset(r, commandPool), subset(r, smallPool)}
	quote := r.Intn(2) == 0
	init := tk.CodeBuffer{}
	if r.Intn(2) == 0 {
		init.Content = randomBuffer(r)
		if len(init.Content) > 12 && r.Intn(2) == 0 {
			init.Content = strings.ToValidUTF8(init.Content[:12], "")
		}
		bs := boundaries(init.Content)
		init.Dot = bs[r.Intn(len(bs))]
		if r.Intn(3) == 0 {
			init.Dot = len(init.Content)
		}
	}
	evs := genEvents(r, tabs)
	if c.I < 2 {
		// directed: the example of insert_api.d.elv ("typing a |, moving the cursor
		// left, and typing another | does not expand"), and the same with the
		// cursor moved back before the second |
		tabs = [3][]pair{{{"||", "| less"}}, nil, nil}
		init = tk.CodeBuffer{}
		idx := func(name string) int { return sort.SearchStrings(builtinNames, name) }
		l, rt := idx("move-dot-left"), idx("move-dot-right")
		evs = []event{{kind: "key", key: ui.K('|')}, {kind: "key", key: keyOf(l), bound: "move-dot-left"}}
		if c.I == 1 {
			evs = append(evs, event{kind: "key", key: keyOf(rt), bound: "move-dot-right"})
		}
		evs = append(evs, event{kind: "key", key: ui.K('|')})
	}

	bindings := tk.MapBindings{}
	for i, name := range builtinNames {
		fn := builtins[name]
		bindings[term.KeyEvent(keyOf(i))] = func(w tk.Widget) {
			w.(tk.CodeArea).MutateState(func(s *tk.CodeAreaState) { fn(&s.Buffer) })
		}
	}
	submits := 0
	area := tk.NewCodeArea(tk.CodeAreaSpec{
		Bindings:               bindings,
		SimpleAbbreviations:    feed(tabs[0]),
		CommandAbbreviations:   feed(tabs[1]),
		SmallWordAbbreviations: feed(tabs[2]),
		QuotePaste:             func() bool { return quote },
		OnSubmit:               func() { submits++ },
		State:                  tk.CodeAreaState{Buffer: init},
	})
	m := &model{content: init.Content, dot: init.Dot, hyps: []string{""}, tabs: tabs, quote: quote}

	script := func(upto int) []string {
		var ss []string
		for _, e := range evs[:upto+1] {
			ss = append(ss, e.String())
		}
		return ss
	}
	interesting := false
	// what the code area would still believe to be "consecutively typed" if it
	// missed an interruption: the hypotheses and buffer right after the last plain insert
	var staleHyps []string
	var staleBuf tk.CodeBuffer
	interrupted := false
	for i, e := range evs {
		before := tk.CodeBuffer{Content: m.content, Dot: m.dot}
		outs, class := m.step(e)
		switch e.kind {
		case "paste-start":
			area.Handle(term.PasteSetting(true))
		case "paste-end":
			area.Handle(term.PasteSetting(false))
		default:
			area.Handle(term.KeyEvent(e.key))
		}
		acc["evals"]++
		got := area.CopyState().Buffer
		witf := func() map[string]any {
			var want []map[string]any
			for _, o := range outs {
				want = append(want, map[string]any{"content": mon.Q(o.content), "dot": o.dot, "kind": o.kind})
			}
			return map[string]any{"initial_content": mon.Q(init.Content), "initial_dot": init.Dot, "events": script(i), "step": i,
				"before_content": mon.Q(before.Content), "before_dot": before.Dot, "got_content": mon.Q(got.Content), "got_dot": got.Dot,
				"acceptable": want, "simple_abbr": tabs[0], "command_abbr": tabs[1], "small_word_abbr": tabs[2], "quote_paste": quote}
		}
		if !checkInvariants(c, "area-"+class, got.Content, got.Dot, witf) {
			return
		}
		var hyps []string
		kinds := map[string]bool{}
		for _, o := range outs {
			if o.content == got.Content && o.dot == got.Dot {
				for _, h := range o.ins {
					hyps = addHyp(hyps, h)
				}
				kinds[o.kind] = true
			}
		}
		if len(hyps) == 0 && class == "insert" && interrupted && staleHyps != nil && before == staleBuf {
			// Typing was interrupted by editing commands that changed the buffer and
			// whose net effect restored it. insert_api.d.elv: "typed in full and
			// consecutively, without being interrupted by the use of other editing
			// functionalities, such as cursor movements".
			for _, o := range m.insertWith(e.key.Rune, staleHyps) {
				if o.content == got.Content && o.dot == got.Dot && o.kind != "plain" {
					c.Violation("area:abbr-expanded-after-interruption-that-restored-buffer",
						fmt.Sprintf("after %s on %s dot %d the %s abbreviation was expanded (%s) although editing commands that changed the buffer were used since the abbreviation's earlier characters were typed",
							e, mon.Q(before.Content), before.Dot, o.kind, mon.Q(got.Content)), witf())
					return
				}
			}
		}
		if len(hyps) == 0 {
			sig := "area:" + class + "-wrong"
			if class == "insert" {
				for _, o := range outs {
					if o.kind != "plain" {
						sig = "area:abbreviation-wrong"
					}
				}
			}
			c.Violation(sig, fmt.Sprintf("after %s on %s dot %d the code area holds %s dot %d; the reference accepts %d other outcome(s)",
				e, mon.Q(before.Content), before.Dot, mon.Q(got.Content), got.Dot, len(outs)), witf())
			return
		}
		if submits != m.submits {
			c.Violation("area:submit-count", fmt.Sprintf("OnSubmit was called %d times, expected %d", submits, m.submits), witf())
			return
		}
		m.content, m.dot, m.hyps = got.Content, got.Dot, hyps
		switch {
		case class == "insert" && len(kinds) == 1 && kinds["plain"]:
			staleHyps, staleBuf, interrupted = hyps, got, false
		case class == "bound-command":
			if got != before {
				interrupted = true
			}
		default:
			staleHyps = nil
		}
		if len(hyps) > maxHyps {
			maxHyps = len(hyps)
		}
		for k := range kinds {
			switch k {
			case "simple", "small", "command":
				if len(kinds) == 1 {
					acc["abbr_expanded_"+k] += 1
					interesting = true
				}
			case "paste":
				if got != before {
					acc["pastes_inserted"] += 1
					if quote {
						acc["pastes_quoted"] += 1
					}
					interesting = true
				}
			case "backspace":
				if got != before {
					acc["backspaces_effective"] += 1
				}
			case "bound":
				acc["bound_commands_effective"] += 1
			case "plain":
				if len(kinds) == 1 && class == "insert" {
					acc["plain_inserts"] += 1
					if got.Dot < len(got.Content) {
						acc["plain_inserts_mid_buffer"] += 1
					}
				}
			}
		}
		if class == "insert" && len(outs) > 1 && len(kinds) == 1 && kinds["plain"] {
			acc["abbr_candidate_not_expanded_accepted"] += 1
		}
	}
	acc["area_events"] += len(evs)
	if interesting {
		c.Nontrivial("area", script(len(evs)-1), init.Content, init.Dot)
	}
	c.Sample("area-script", map[string]any{"initial": init, "events": script(len(evs) - 1), "final_content": m.content, "final_dot": m.dot})
}
