package c28

// Reference semantics of the buffer commands, written from
// pkg/edit/buffer_builtins.d.elv, the "Word types" section of
// website/ref/edit.md and pkg/edit/insert_api.d.elv.

import (
	"sort"
	"strings"
	"unicode"
	"unicode/utf8"

	"src.elv.sh/pkg/wcwidth"
)

// "Whitespace characters are those with the Unicode Whitespace property.
// Alphanumerical characters are those in the Unicode Letter or Number
// category."
func isWS(r rune) bool    { return unicode.Is(unicode.White_Space, r) }
func isAlnum(r rune) bool { return unicode.In(r, unicode.L, unicode.N) }

type categorizer func(rune) int

// big word: a sequence of non-whitespace characters
func catBig(r rune) int {
	if isWS(r) {
		return 0
	}
	return 1
}

// small word: a sequence of alphanumerical characters, or a sequence of
// non-alphanumerical, non-whitespace characters
func catSmall(r rune) int {
	if isWS(r) {
		return 0
	}
	if isAlnum(r) {
		return 1
	}
	return 2
}

// alphanumerical word: a sequence of alphanumerical characters
func catAlnum(r rune) int {
	if isAlnum(r) {
		return 1
	}
	return 0
}

// words returns the [start,end) byte ranges of the words of s: maximal runs
// of characters of one non-zero category.
func words(s string, cat categorizer) [][2]int {
	var ws [][2]int
	prev := 0
	start := -1
	for i, r := range s {
		k := cat(r)
		if k != prev {
			if start >= 0 {
				ws = append(ws, [2]int{start, i})
				start = -1
			}
			if k != 0 {
				start = i
			}
		}
		prev = k
	}
	if start >= 0 {
		ws = append(ws, [2]int{start, len(s)})
	}
	return ws
}

// refLeftWord: "the beginning of the last word to the left of the dot". The
// result is a set of acceptable dots (more than one where the doc is silent:
// no word to the left).
func refLeftWord(s string, dot int, cat categorizer) []int {
	best := -1
	for _, w := range words(s, cat) {
		if w[0] < dot {
			best = w[0]
		}
	}
	if best < 0 {
		return []int{0, dot}
	}
	return []int{best}
}

// refRightWord: "the beginning of the first word to the right of the dot".
func refRightWord(s string, dot int, cat categorizer) []int {
	for _, w := range words(s, cat) {
		if w[0] > dot {
			return []int{w[0]}
		}
	}
	return []int{len(s), dot}
}

func refLeftRune(s string, dot int) int {
	if dot == 0 {
		return 0
	}
	i := dot - 1
	for i > 0 && !utf8.RuneStart(s[i]) {
		i--
	}
	return i
}

func refRightRune(s string, dot int) int {
	if dot >= len(s) {
		return len(s)
	}
	i := dot + 1
	for i < len(s) && !utf8.RuneStart(s[i]) {
		i++
	}
	return i
}

// lineOf returns start and end (position of '\n' or len) of the line holding dot.
func lineOf(s string, dot int) (int, int) {
	sol := 0
	for i := 0; i < dot; i++ {
		if s[i] == '\n' {
			sol = i + 1
		}
	}
	eol := len(s)
	for i := dot; i < len(s); i++ {
		if s[i] == '\n' {
			eol = i
			break
		}
	}
	return sol, eol
}

func width(s string) int {
	w := 0
	for _, r := range s {
		w += wcwidth.OfRune(r)
	}
	return w
}

// refVertical: the dot lands in the adjacent line at the largest column that
// is not right of the current display column; it stays if there is no such line.
func refVertical(s string, dot int, down bool) int {
	sol, eol := lineOf(s, dot)
	var tsol, teol int
	if down {
		if eol == len(s) {
			return dot
		}
		tsol = eol + 1
		_, teol = lineOf(s, tsol)
	} else {
		if sol == 0 {
			return dot
		}
		teol = sol - 1
		tsol, _ = lineOf(s, teol)
	}
	w := width(s[sol:dot])
	pos, acc := tsol, 0
	for _, r := range s[tsol:teol] {
		acc += wcwidth.OfRune(r)
		if acc > w {
			break
		}
		pos += utf8.RuneLen(r)
	}
	return pos
}

// refTransposeRune: "Swaps the runes to the left and right of the dot. If the
// dot is at the beginning of the buffer, swaps the first two runes, and if
// the dot is at the end, it swaps the last two."
func refTransposeRune(s string, dot int) string {
	rs := []rune(s)
	if len(rs) < 2 {
		return s
	}
	i := utf8.RuneCountInString(s[:dot]) // runes left of the dot
	switch {
	case i == 0:
		i = 1
	case i == len(rs):
		i = len(rs) - 1
	}
	rs[i-1], rs[i] = rs[i], rs[i-1]
	return string(rs)
}

func swapWords(s string, a, b [2]int) string {
	return s[:a[0]] + s[b[0]:b[1]] + s[a[1]:b[0]] + s[a[0]:a[1]] + s[b[1]:]
}

// refTransposeWord returns the acceptable results of "Swaps the words to the
// left and right of the dot. If the dot is at the beginning of the buffer,
// swaps the first two words, and [if] the dot is at the end, it swaps the
// last two." Text between the two words is kept in place. Where the doc does
// not determine the pair (dot strictly inside a word; dot in leading or
// trailing whitespace), every reasonable reading is accepted.
func refTransposeWord(s string, dot int, cat categorizer) []string {
	ws := words(s, cat)
	n := len(ws)
	if n < 2 {
		return []string{s}
	}
	sw := func(i int) string { return swapWords(s, ws[i], ws[i+1]) }
	clamp := func(i int) int {
		if i < 0 {
			return 0
		}
		if i > n-2 {
			return n - 2
		}
		return i
	}
	if dot == 0 {
		return []string{sw(0)}
	}
	if dot == len(s) {
		return []string{sw(n - 2)}
	}
	for j, w := range ws {
		if w[0] < dot && dot < w[1] {
			// strictly inside word j: it may count as the left or the right word
			return uniq([]string{sw(clamp(j - 1)), sw(clamp(j))})
		}
	}
	for i := 0; i+1 < n; i++ {
		if ws[i][1] <= dot && dot <= ws[i+1][0] {
			return []string{sw(i)}
		}
	}
	if dot <= ws[0][0] { // only whitespace to the left
		return []string{sw(0), s}
	}
	// only whitespace to the right
	return []string{sw(n - 2), s}
}

func uniq(ss []string) []string {
	sort.Strings(ss)
	out := ss[:0]
	for i, s := range ss {
		if i == 0 || s != ss[i-1] {
			out = append(out, s)
		}
	}
	return out
}

func sameRunes(a, b string) bool {
	if len(a) != len(b) {
		return false
	}
	ra, rb := []rune(a), []rune(b)
	sort.Slice(ra, func(i, j int) bool { return ra[i] < ra[j] })
	sort.Slice(rb, func(i, j int) bool { return rb[i] < rb[j] })
	return string(ra) == string(rb)
}

func onBoundary(s string, dot int) bool {
	return dot >= 0 && dot <= len(s) && (dot == len(s) || utf8.RuneStart(s[dot]))
}

func boundaries(s string) []int {
	var bs []int
	for i := range s {
		bs = append(bs, i)
	}
	return append(bs, len(s))
}

func containsInt(xs []int, x int) bool {
	for _, y := range xs {
		if x == y {
			return true
		}
	}
	return false
}

func containsStr(xs []string, x string) bool {
	for _, y := range xs {
		if x == y {
			return true
		}
	}
	return false
}

var _ = strings.Repeat
