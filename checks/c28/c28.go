// Package c28 monitors the editor's buffer commands and the code area's key
// and paste handling (property C28).
package c28

import (
	"fmt"
	"math/rand"
	"sort"
	"strings"
	"unicode/utf8"

	"src.elv.sh/pkg/cli/tk"
	"src.elv.sh/pkg/edit"
	"verifharness/internal/mon"
)

var builtins = edit.VerifBufferBuiltins()

// per-case accumulators (cases run one at a time in a process), flushed by flush()
var acc = map[string]int{}

func flush(c *mon.Case) {
	for k, v := range acc {
		if k == "evals" {
			c.Evals(v)
		} else {
			c.Count(k, v)
		}
		delete(acc, k)
	}
}

var builtinNames = func() []string {
	var ns []string
	for n := range builtins {
		ns = append(ns, n)
	}
	sort.Strings(ns)
	return ns
}()

type cmdSpec struct {
	class string // move | kill | transpose
	// for kill: the name of the movement whose target delimits the killed text
	mover string
	// for word commands
	cat categorizer
}

var cmdSpecs = map[string]cmdSpec{
	"move-dot-left": {class: "move"}, "move-dot-right": {class: "move"},
	"move-dot-left-word": {class: "move", cat: catBig}, "move-dot-right-word": {class: "move", cat: catBig},
	"move-dot-left-small-word": {class: "move", cat: catSmall}, "move-dot-right-small-word": {class: "move", cat: catSmall},
	"move-dot-left-alnum-word": {class: "move", cat: catAlnum}, "move-dot-right-alnum-word": {class: "move", cat: catAlnum},
	"move-dot-sol": {class: "move"}, "move-dot-eol": {class: "move"},
	"move-dot-up": {class: "move"}, "move-dot-down": {class: "move"},

	"kill-rune-left": {class: "kill", mover: "move-dot-left"}, "kill-rune-right": {class: "kill", mover: "move-dot-right"},
	"kill-word-left": {class: "kill", mover: "move-dot-left-word"}, "kill-word-right": {class: "kill", mover: "move-dot-right-word"},
	"kill-small-word-left": {class: "kill", mover: "move-dot-left-small-word"}, "kill-small-word-right": {class: "kill", mover: "move-dot-right-small-word"},
	"kill-alnum-word-left": {class: "kill", mover: "move-dot-left-alnum-word"}, "kill-alnum-word-right": {class: "kill", mover: "move-dot-right-alnum-word"},
	"kill-line-left": {class: "kill", mover: "move-dot-sol"}, "kill-line-right": {class: "kill", mover: "move-dot-eol"},

	"transpose-rune": {class: "transpose"},
	"transpose-word": {class: "transpose", cat: catBig}, "transpose-small-word": {class: "transpose", cat: catSmall},
	"transpose-alnum-word": {class: "transpose", cat: catAlnum},
}

// refMove returns the acceptable targets of a movement command.
func refMove(name, s string, dot int) []int {
	sp := cmdSpecs[name]
	switch name {
	case "move-dot-left":
		return []int{refLeftRune(s, dot)}
	case "move-dot-right":
		return []int{refRightRune(s, dot)}
	case "move-dot-sol":
		sol, _ := lineOf(s, dot)
		return []int{sol}
	case "move-dot-eol":
		_, eol := lineOf(s, dot)
		return []int{eol}
	case "move-dot-up":
		return []int{refVertical(s, dot, false)}
	case "move-dot-down":
		return []int{refVertical(s, dot, true)}
	}
	if strings.Contains(name, "left") {
		return refLeftWord(s, dot, sp.cat)
	}
	return refRightWord(s, dot, sp.cat)
}

func checkInvariants(c *mon.Case, where, s string, dot int, witf func() map[string]any) bool {
	if dot >= 0 && dot <= len(s) && onBoundary(s, dot) && utf8.ValidString(s) {
		return true
	}
	wit := witf()
	if dot < 0 || dot > len(s) {
		c.Violation("inv:dot-out-of-range:"+where, fmt.Sprintf("dot=%d outside buffer of %d bytes", dot, len(s)), wit)
		return false
	}
	if !onBoundary(s, dot) {
		c.Violation("inv:dot-inside-character:"+where, fmt.Sprintf("dot=%d is not on a character boundary of %s", dot, mon.Q(s)), wit)
		return false
	}
	if !utf8.ValidString(s) {
		c.Violation("inv:invalid-utf8:"+where, fmt.Sprintf("buffer %s is no longer valid UTF-8", mon.Q(s)), wit)
		return false
	}
	return true
}

// checkCommand applies one builtin to (s, dot) and judges the outcome.
func checkCommand(c *mon.Case, name, s string, dot int) bool {
	sp, ok := cmdSpecs[name]
	if !ok {
		c.Violation("harness:unknown-builtin", "buffer builtin without a reference: "+name, nil)
		return false
	}
	buf := tk.CodeBuffer{Content: s, Dot: dot}
	builtins[name](&buf)
	witf := func() map[string]any {
		return map[string]any{"command": name, "content": mon.Q(s), "dot": dot, "got_content": mon.Q(buf.Content), "got_dot": buf.Dot}
	}
	if !checkInvariants(c, sp.class, buf.Content, buf.Dot, witf) {
		return false
	}
	switch sp.class {
	case "move":
		if buf.Content != s {
			c.Violation("move:content-changed", name+" changed the buffer content", witf())
			return false
		}
		want := refMove(name, s, dot)
		if !containsInt(want, buf.Dot) {
			kind := "rune"
			switch {
			case sp.cat != nil:
				kind = "word"
			case strings.HasSuffix(name, "ol"):
				kind = "line"
			case strings.HasSuffix(name, "up") || strings.HasSuffix(name, "down"):
				kind = "vertical"
			}
			wit := witf()
			wit["want_dot"] = want
			c.Violation("move:"+kind+"-wrong-target", fmt.Sprintf("%s on %s dot %d moved to %d, reference %v", name, mon.Q(s), dot, buf.Dot, want), wit)
			return false
		}
		if buf.Dot != dot {
			acc["moves_effective"]++
		}
	case "kill":
		mv := tk.CodeBuffer{Content: s, Dot: dot}
		builtins[sp.mover](&mv)
		lo, hi := dot, mv.Dot
		if lo > hi {
			lo, hi = hi, lo
		}
		if lo < 0 || hi > len(s) {
			return true // reported by the movement's own check
		}
		if buf.Content != s[:lo]+s[hi:] || buf.Dot != lo {
			wit := witf()
			wit["mover_dot"] = mv.Dot
			c.Violation("kill:not-exactly-between-old-and-new-dot", fmt.Sprintf("%s on %s dot %d: %s moves to %d, so %s must go and dot become %d; got %s dot %d",
				name, mon.Q(s), dot, sp.mover, mv.Dot, mon.Q(s[lo:hi]), lo, mon.Q(buf.Content), buf.Dot), wit)
			return false
		}
		if hi > lo {
			acc["kills_effective"]++
		}
	case "transpose":
		var want []string
		if sp.cat == nil {
			want = []string{refTransposeRune(s, dot)}
		} else {
			want = refTransposeWord(s, dot, sp.cat)
		}
		if !containsStr(want, buf.Content) {
			wit := witf()
			wit["want_content"] = quoteAll(want)
			if !sameRunes(s, buf.Content) {
				c.Violation("transpose:adds-or-drops-characters", fmt.Sprintf("%s on %s dot %d gave %s, which is not a reordering", name, mon.Q(s), dot, mon.Q(buf.Content)), wit)
			} else if sp.cat == nil {
				c.Violation("transpose:rune-wrong-swap", fmt.Sprintf("%s on %s dot %d gave %s, reference %v", name, mon.Q(s), dot, mon.Q(buf.Content), quoteAll(want)), wit)
			} else {
				c.Violation("transpose:word-wrong-swap", fmt.Sprintf("%s on %s dot %d gave %s, reference %v", name, mon.Q(s), dot, mon.Q(buf.Content), quoteAll(want)), wit)
			}
			return false
		}
		if buf.Content != s {
			acc["transposes_effective"]++
			if sp.cat != nil {
				acc["word_transposes_effective"]++
			}
		}
	}
	return true
}

func quoteAll(ss []string) []string {
	out := make([]string, len(ss))
	for i, s := range ss {
		out[i] = mon.Q(s)
	}
	return out
}

func checkAll(c *mon.Case, s string) bool {
	for _, dot := range boundaries(s) {
		for _, name := range builtinNames {
			if !checkCommand(c, name, s, dot) {
				return false
			}
		}
		acc["evals"] += len(builtinNames)
	}
	return true
}

// ---------------------------------------------------------------------------
// phase 1: exhaustive short buffers

// one letter, one 2-byte letter, one wide letter, punctuation, space,
// newline, combining mark (zero width, not a letter: punctuation category)
var smallAlphabet = []string{"a", "é", "好", "+", " ", "\n", "́"}

// case i < 343 handles every buffer that starts with the i-th 3-symbol
// prefix; case 343 handles the buffers of fewer than 3 symbols.
const exhCases = 344

func runExhaustive(c *mon.Case) {
	defer flush(c)
	c.Nontrivial("exh", c.I)
	maxLen := c.Env.Pick(5, 7)
	ok := true
	var rec func(prefix string, l int)
	rec = func(prefix string, l int) {
		if !ok {
			return
		}
		if !checkAll(c, prefix) {
			ok = false
			return
		}
		acc["exhaustive_buffers"]++
		if l == maxLen {
			return
		}
		for _, sym := range smallAlphabet {
			rec(prefix+sym, l+1)
		}
	}
	if c.I == 343 {
		for _, a := range append([]string{""}, smallAlphabet...) {
			if !checkAll(c, a) {
				return
			}
			acc["exhaustive_buffers"]++
			if a != "" {
				for _, b := range smallAlphabet {
					if !checkAll(c, a+b) {
						return
					}
					acc["exhaustive_buffers"]++
				}
			}
		}
		return
	}
	n := len(smallAlphabet)
	rec(smallAlphabet[c.I/(n*n)]+smallAlphabet[c.I/n%n]+smallAlphabet[c.I%n], 3)
}

// ---------------------------------------------------------------------------
// phase 2: random longer buffers

var bigAlphabet = []string{
	"a", "b", "Z", "0", "7", "_", "-", "+", "/", "*", ".", "~", "$", "(", ")", "'", "|", ";",
	" ", " ", " ", "  ", "\t", "\n", "\n", "\r", " ", "　", "\u0085", " ",
	"é", "ß", "Ω", "ж", "好", "世界", "ｱ", "한", "😀", "🙂", "́", "é", "‍", "​",
	"²", "ǅ", "٣", "Ⅷ", "½", "𝒜", "\U00020000", "¡", "«", "→", "abc", "xyz", "++", "/*", "cd", "~/tmp",
}

func randomBuffer(r *rand.Rand) string {
	n := 1 + r.Intn(24)
	// restrict to a few symbols so that runs and repeated words occur
	k := 2 + r.Intn(8)
	syms := make([]string, k)
	for i := range syms {
		syms[i] = bigAlphabet[r.Intn(len(bigAlphabet))]
	}
	var sb strings.Builder
	for i := 0; i < n; i++ {
		sb.WriteString(syms[r.Intn(k)])
	}
	return sb.String()
}

func runRandom(c *mon.Case) {
	defer flush(c)
	r := c.Rand
	var all []string
	defer func() { c.Nontrivial("rand", all) }()
	for k := 0; k < 12; k++ {
		s := randomBuffer(r)
		if !checkAll(c, s) {
			return
		}
		if strings.Contains(s, "\n") {
			acc["multiline_buffers"]++
		}
		if len(words(s, catSmall)) > len(words(s, catBig)) {
			acc["buffers_where_small_and_big_words_differ"]++
		}
		all = append(all, s)
		if k == 0 {
			c.Sample("random-buffer", map[string]any{"content": s, "commands_applied_at_every_dot": len(builtinNames)})
		}
	}
}

func Spec() *mon.Spec {
	return &mon.Spec{
		ID:            "C28",
		SpinViolation: true, Level: "exploration",
		Rule: "phases exhaustive/random: every one of the 26 buffer builtins (edit.VerifBufferBuiltins) is applied at every character-boundary dot of a buffer; invariants (dot in range, on a character boundary, content still valid UTF-8) and the per-class reference (move: content unchanged and target = reference from the docs; kill: exactly the text between the old dot and the corresponding movement's dot removed, dot = the smaller one; transpose: exact expected swap, hence a permutation) are judged after every application. exhaustive = all buffers of <= 5 (quick) / 7 (thorough) symbols over {a, é, 好, +, space, newline, U+0301}; random = buffers of 1..24 pieces over a 60-piece alphabet (ASCII, wide, combining, NBSP/U+3000/NEL/U+2028 whitespace, letter/number categories beyond ASCII). Phase area: a real tk.CodeArea with simple/command/small-word abbreviations, QuotePaste and all builtins bound to keys is fed 1..60 key / bracketed-paste events; after every event its state is compared with a nondeterministic reference model (plain insert, Backspace, Enter, abbreviation expansion per insert_api.d.elv, paste). Non-trivial = every exhaustive case (the complete subtree of buffers under one 3-symbol prefix), every random case (12 buffers; distinct by the buffers), an event sequence in which an abbreviation expanded or a paste was inserted (area; distinct by event script + initial state). Buffer and command-application totals are in the n_* counters.",
		Assumptions: []string{
			"word categories as documented in website/ref/edit.md#word-types: whitespace = Unicode White_Space, alphanumerical = Unicode categories L and N; word start = first character of a maximal run of one non-whitespace category",
			"word motion with no word on that side (doc silent): staying, or going to the buffer start / end are both accepted",
			"move-dot-up/down ('trying to preserve the visual horizontal position'): adjacent line, largest character boundary whose display width (wcwidth.OfRune, trusted) is <= the current one",
			"transpose-word with the dot strictly inside a word: the word may count as the left or as the right word; dot in leading/trailing whitespace: swap of the nearest pair or no change; the dot after a transpose is only required to be valid",
			"kill-X is judged against the dot produced by the real move-X on the same input (move-X itself is judged against the reference)",
			"command abbreviations: 'command position' is only decided for clear cases (start of buffer, after newline, |, ;, (, '{ '; clear argument position after 'word '); elsewhere expansion and non-expansion are both accepted; priority between command abbreviations and the other two kinds is undocumented: either is accepted",
			"no-op editing commands between two inserts (e.g. move-dot-left at the start): both 'interrupts consecutive typing' and 'does not' are accepted; non-graphic key runes may be ignored or inserted",
			"pasted text is compared against parse.Quote (trusted here, checked by C03) when QuotePaste is on",
		},
		Phases: []mon.Phase{
			{Name: "exhaustive", Quick: exhCases, Thorough: exhCases, Run: runExhaustive},
			{Name: "random", Quick: 1200, Thorough: 40000, Run: runRandom},
			{Name: "area", Quick: 6000, Thorough: 150000, Run: runArea},
		},
		Floors: map[string]int{
			"distinct_nontrivial": 2000, "exhaustive_buffers": 19000, "moves_effective": 1000000, "kills_effective": 1000000,
			"transposes_effective": 300000, "word_transposes_effective": 200000, "multiline_buffers": 600,
			"buffers_where_small_and_big_words_differ": 3000, "area_events": 60000, "plain_inserts": 25000,
			"plain_inserts_mid_buffer": 9000, "abbr_expanded_simple": 3000, "abbr_expanded_small": 700, "abbr_expanded_command": 100,
			"backspaces_effective": 2000, "bound_commands_effective": 3500, "pastes_inserted": 2500, "pastes_quoted": 1400,
		},
	}
}
