// Package c03 monitors Elvish's quoting functions: the quoted text must parse
// as one word and evaluate back to exactly the original string (property C03).
package c03

import (
	"fmt"
	"math/rand"
	"strings"
	"unicode/utf8"

	"src.elv.sh/pkg/eval"
	"src.elv.sh/pkg/eval/vars"
	"src.elv.sh/pkg/parse"
	"src.elv.sh/pkg/parse/cmpd"
	"verifharness/internal/elv"
	"verifharness/internal/gen"
	"verifharness/internal/mon"
)

var ev *eval.Evaler

func childSetup(e *mon.Env) { ev = elv.New() }

func parseCode(code string) (parse.Tree, []*parse.Error) {
	tree, err := parse.Parse(parse.Source{Name: "[c03]", Code: code}, parse.Config{})
	return tree, parse.UnpackErrors(err)
}

func errList(errs []*parse.Error) []string {
	var out []string
	for _, e := range errs {
		out = append(out, fmt.Sprintf("[%d,%d) %s", e.Context.From, e.Context.To, e.Message))
	}
	return out
}

// onlyForm returns the single form of a chunk that consists of exactly one
// pipeline with one form.
func onlyForm(tree parse.Tree) *parse.Form {
	if tree.Root == nil || len(tree.Root.Pipelines) != 1 || len(tree.Root.Pipelines[0].Forms) != 1 || tree.Root.Pipelines[0].Background {
		return nil
	}
	return tree.Root.Pipelines[0].Forms[0]
}

// singlePrimary returns the primary of a compound that is exactly one
// primary without indices.
func singlePrimary(cn *parse.Compound) *parse.Primary {
	if cn == nil || len(cn.Indexings) != 1 || len(cn.Indexings[0].Indices) != 0 {
		return nil
	}
	return cn.Indexings[0].Head
}

func isStringType(t parse.PrimaryType) bool {
	return t == parse.Bareword || t == parse.SingleQuoted || t == parse.DoubleQuoted
}

func formName(t parse.PrimaryType) string {
	switch t {
	case parse.Bareword:
		return "bare"
	case parse.SingleQuoted:
		return "single"
	case parse.DoubleQuoted:
		return "double"
	}
	return t.String()
}

// quotedFormOf classifies quoted text by its first byte.
func quotedFormOf(q string) string {
	switch {
	case strings.HasPrefix(q, "'"):
		return "single"
	case strings.HasPrefix(q, "\""):
		return "double"
	}
	return "bare"
}

type ctx struct {
	c *mon.Case
	s string
}

func (x ctx) bad(sig, what string, extra map[string]any) {
	w := map[string]any{"string": mon.Q(x.s), "string_bytes": fmt.Sprintf("% x", x.s)}
	for k, v := range extra {
		w[k] = v
	}
	x.c.Violation(sig, what+" (string "+mon.Q(x.s)+")", w)
}

func valuesRepr(vs []any) []string {
	out := make([]string, len(vs))
	for i, v := range vs {
		if s, ok := v.(string); ok {
			out[i] = "string " + mon.Q(s)
		} else {
			out[i] = fmt.Sprintf("%T %v", v, v)
		}
	}
	return out
}

func sameStrings(vs []any, want ...string) bool {
	if len(vs) != len(want) {
		return false
	}
	for i, v := range vs {
		if s, ok := v.(string); !ok || s != want[i] {
			return false
		}
	}
	return true
}

// checkArg: the general form as an argument.
func (x ctx) checkArg(q string) {
	s := x.s
	code := "put " + q + " tail"
	tree, errs := parseCode(code)
	w := map[string]any{"quoted": mon.Q(q), "code": mon.Q(code)}
	if len(errs) > 0 {
		w["errors"] = errList(errs)
		x.bad("arg:parse-error", "`put <quoted> tail` does not parse", w)
		return
	}
	f := onlyForm(tree)
	if f == nil || len(f.Args) != 2 || len(f.Opts) != 0 || len(f.Redirs) != 0 {
		x.bad("arg:not-one-word", "quoted text is not exactly one argument of the form", w)
		return
	}
	p := singlePrimary(f.Args[0])
	if p == nil || !isStringType(p.Type) {
		x.bad("arg:not-one-word", "quoted text is not a single string primary", w)
		return
	}
	if parse.SourceText(f.Args[0]) != q {
		x.bad("arg:not-one-word", "the first argument does not span exactly the quoted text", w)
		return
	}
	if p.Value != s {
		w["parsed_value"] = mon.Q(p.Value)
		x.bad("arg:parsed-value-"+formName(p.Type), "quoted text parses to a different string", w)
	}
	res := elv.Eval(ev, code)
	x.c.Evals(1)
	if res.Err != nil || !sameStrings(res.Values, s, "tail") {
		w["values"], w["error"] = valuesRepr(res.Values), fmt.Sprint(res.Err)
		x.bad("arg:eval-"+formName(p.Type), "`put <quoted> tail` does not output the string and `tail`", w)
	}
	x.c.Count("arg_form_"+formName(p.Type), 1)
}

// checkKey: the general form as a map key.
func (x ctx) checkKey(q string) {
	s := x.s
	code := "keys [&" + q + "=x]"
	tree, errs := parseCode(code)
	w := map[string]any{"quoted": mon.Q(q), "code": mon.Q(code)}
	if len(errs) > 0 {
		w["errors"] = errList(errs)
		x.bad("key:parse-error", "`keys [&<quoted>=x]` does not parse", w)
		return
	}
	f := onlyForm(tree)
	var mp *parse.Primary
	if f != nil && len(f.Args) == 1 {
		mp = singlePrimary(f.Args[0])
	}
	if mp == nil || mp.Type != parse.Map || len(mp.MapPairs) != 1 || len(mp.Elements) != 0 {
		x.bad("key:not-one-word", "`[&<quoted>=x]` is not a map literal with exactly one pair", w)
		return
	}
	kp := singlePrimary(mp.MapPairs[0].Key)
	vp := singlePrimary(mp.MapPairs[0].Value)
	if kp == nil || !isStringType(kp.Type) || vp == nil || vp.Value != "x" || parse.SourceText(mp.MapPairs[0].Key) != q {
		x.bad("key:not-one-word", "the key of `[&<quoted>=x]` is not exactly the quoted text as one string primary (or the value is not x)", w)
		return
	}
	if kp.Value != s {
		w["parsed_value"] = mon.Q(kp.Value)
		x.bad("key:parsed-value-"+formName(kp.Type), "quoted key parses to a different string", w)
	}
	res := elv.Eval(ev, code)
	x.c.Evals(1)
	if res.Err != nil || !sameStrings(res.Values, s) {
		w["values"], w["error"] = valuesRepr(res.Values), fmt.Sprint(res.Err)
		x.bad("key:eval-"+formName(kp.Type), "`keys [&<quoted>=x]` does not output exactly the string", w)
	}
	x.c.Count("key_form_"+formName(kp.Type), 1)
}

// checkBraced: the general form as an item of a braced list, where an
// unquoted comma would separate items.
func (x ctx) checkBraced(q string) {
	s := x.s
	code := "put {" + q + "} tail"
	tree, errs := parseCode(code)
	w := map[string]any{"quoted": mon.Q(q), "code": mon.Q(code)}
	if len(errs) > 0 {
		w["errors"] = errList(errs)
		x.bad("braced:parse-error", "`put {<quoted>} tail` does not parse", w)
		return
	}
	f := onlyForm(tree)
	var bp *parse.Primary
	if f != nil && len(f.Args) == 2 && len(f.Opts)+len(f.Redirs) == 0 {
		bp = singlePrimary(f.Args[0])
	}
	if bp == nil || bp.Type != parse.Braced || len(bp.Braced) != 1 {
		x.bad("braced:not-one-word", "`{<quoted>}` is not a braced list with exactly one item", w)
		return
	}
	p := singlePrimary(bp.Braced[0])
	if p == nil || !isStringType(p.Type) || parse.SourceText(bp.Braced[0]) != q {
		x.bad("braced:not-one-word", "the item of `{<quoted>}` is not exactly the quoted text as one string primary", w)
		return
	}
	if p.Value != s {
		w["parsed_value"] = mon.Q(p.Value)
		x.bad("braced:parsed-value-"+formName(p.Type), "quoted braced-list item parses to a different string", w)
	}
	res := elv.Eval(ev, code)
	x.c.Evals(1)
	if res.Err != nil || !sameStrings(res.Values, s, "tail") {
		w["values"], w["error"] = valuesRepr(res.Values), fmt.Sprint(res.Err)
		x.bad("braced:eval-"+formName(p.Type), "`put {<quoted>} tail` does not output the string and `tail`", w)
	}
	x.c.Count("braced_form_"+formName(p.Type), 1)
}

// checkQuoteAs: every requested style yields text that parses to s with the
// primary type QuoteAs says it used.
func (x ctx) checkQuoteAs() {
	for _, want := range []parse.PrimaryType{parse.Bareword, parse.SingleQuoted, parse.DoubleQuoted} {
		q, actual := parse.QuoteAs(x.s, want)
		code := "put " + q
		tree, errs := parseCode(code)
		w := map[string]any{"quoted": mon.Q(q), "requested": want.String(), "reported": actual.String()}
		if len(errs) > 0 {
			w["errors"] = errList(errs)
			x.bad("quoteas:parse-error", "QuoteAs output does not parse", w)
			continue
		}
		var p *parse.Primary
		if f := onlyForm(tree); f != nil && len(f.Args) == 1 && len(f.Opts)+len(f.Redirs) == 0 {
			p = singlePrimary(f.Args[0])
		}
		if p == nil || !isStringType(p.Type) {
			x.bad("quoteas:not-one-word", "QuoteAs output is not a single string primary", w)
			continue
		}
		if p.Value != x.s {
			w["parsed_value"] = mon.Q(p.Value)
			x.bad("quoteas:parsed-value-"+formName(p.Type), "QuoteAs output parses to a different string", w)
		}
		if p.Type != actual {
			w["parsed_type"] = p.Type.String()
			x.bad("quoteas:reported-type", "QuoteAs reports a quoting style different from what the parser sees", w)
		}
		x.c.Count("quoteas_checked", 1)
	}
}

func legalName(s string) bool {
	return s != "" && !strings.Contains(s, ":") && s[0] != '@'
}

// checkCommand: the command-name form in command position.
func (x ctx) checkCommand(qc string) {
	s := x.s
	code := qc + " arg"
	tree, errs := parseCode(code)
	w := map[string]any{"quoted": mon.Q(qc), "code": mon.Q(code)}
	if len(errs) > 0 {
		w["errors"] = errList(errs)
		x.bad("cmd:parse-error", "`<quoted> arg` does not parse", w)
		return
	}
	f := onlyForm(tree)
	if f == nil || f.Head == nil || len(f.Args) != 1 || len(f.Opts)+len(f.Redirs) != 0 || parse.SourceText(f.Head) != qc {
		x.bad("cmd:not-one-word", "quoted command name is not exactly the head of a form with one argument", w)
		return
	}
	hp := singlePrimary(f.Head)
	if hp == nil || !isStringType(hp.Type) {
		x.bad("cmd:not-one-word", "head is not a single string primary", w)
		return
	}
	lit, ok := cmpd.StringLiteral(f.Head)
	pe, ok2 := ev.PurelyEvalCompound(f.Head)
	if !ok || !ok2 || lit != s || pe != s {
		w["string_literal"], w["purely_eval"] = mon.Q(lit), mon.Q(pe)
		x.bad("cmd:head-value-"+formName(hp.Type), "the head of `<quoted> arg` does not statically evaluate to the string", w)
	}
	x.c.Count("cmd_form_"+formName(hp.Type), 1)
	// Behaviour: with a function of that name in scope, the quoted text in
	// command position calls it.
	if !legalName(s) || eval.IsBuiltinSpecial[s] {
		return
	}
	ns := eval.BuildNs().AddGoFn(s, func() string { return "hit" }).Ns()
	res := elv.EvalCtx(ev, qc, nil, ns)
	x.c.Evals(1)
	if res.Err != nil || !sameStrings(res.Values, "hit") {
		w["values"], w["error"] = valuesRepr(res.Values), fmt.Sprint(res.Err)
		x.bad("cmd:call-"+formName(hp.Type), "with a function of that name in scope, `<quoted>` in command position does not call it", w)
	}
	x.c.Count("cmd_calls_checked", 1)
}

// checkVariable: the variable-name form after $.
func (x ctx) checkVariable(qv string) {
	s := x.s
	code := "put $" + qv + " tail"
	tree, errs := parseCode(code)
	w := map[string]any{"quoted": mon.Q(qv), "code": mon.Q(code)}
	if len(errs) > 0 {
		w["errors"] = errList(errs)
		x.bad("var:parse-error", "`put $<quoted> tail` does not parse", w)
		return
	}
	f := onlyForm(tree)
	var p *parse.Primary
	if f != nil && len(f.Args) == 2 && len(f.Opts)+len(f.Redirs) == 0 {
		p = singlePrimary(f.Args[0])
	}
	if p == nil || p.Type != parse.Variable || parse.SourceText(f.Args[0]) != "$"+qv {
		x.bad("var:not-a-variable-use", "`$<quoted>` is not exactly one variable-use primary", w)
		return
	}
	if p.Value != s {
		w["parsed_name"] = mon.Q(p.Value)
		x.bad("var:name-"+quotedFormOf(qv), "`$<quoted>` is a use of a variable with a different name", w)
	}
	x.c.Count("var_form_"+quotedFormOf(qv), 1)
	if !legalName(s) || s == "put~" {
		// ("put~" would shadow the command the fixture itself uses)
		return
	}
	ns := eval.BuildNs().AddVar(s, vars.FromInit("val")).Ns()
	res := elv.EvalCtx(ev, code, nil, ns)
	x.c.Evals(1)
	if res.Err != nil || !sameStrings(res.Values, "val", "tail") {
		w["values"], w["error"] = valuesRepr(res.Values), fmt.Sprint(res.Err)
		x.bad("var:eval-"+quotedFormOf(qv), "with a variable of that name in scope, `put $<quoted> tail` does not output its value", w)
	}
	x.c.Count("var_uses_checked", 1)
}

func checkString(c *mon.Case, s string) {
	x := ctx{c, s}
	q := parse.Quote(s)
	qc := parse.QuoteCommandName(s)
	qv := parse.QuoteVariableName(s)
	x.checkArg(q)
	x.checkKey(q)
	x.checkBraced(q)
	x.checkQuoteAs()
	x.checkCommand(qc)
	x.checkVariable(qv)
	c.Count("strings", 1)
	c.Max("string_bytes", len(s))
	if !utf8.ValidString(s) {
		c.Count("strings_invalid_utf8", 1)
	}
	if strings.HasPrefix(s, "~") {
		c.Count("strings_leading_tilde", 1)
	}
	if q != s {
		c.Nontrivial(s)
		c.Count("quote_not_identity_"+quotedFormOf(q), 1)
	}
	if qc != s {
		c.Count("cmdquote_not_identity_"+quotedFormOf(qc), 1)
	}
	if qv != s {
		c.Count("varquote_not_identity_"+quotedFormOf(qv), 1)
	}
	if qc != q {
		c.Count("cmdquote_differs_from_quote", 1)
	}
	if len(s) > 3 && q != s {
		c.Sample(quotedFormOf(q), map[string]any{"string": mon.Q(s), "Quote": mon.Q(q), "QuoteCommandName": mon.Q(qc), "QuoteVariableName": mon.Q(qv)})
	}
}

// ---- generators ---------------------------------------------------------------------

const bareChars = "abcxyzABCZ0189-_:~./\\@%+!=,<>*^"

// nearBareword: mostly bareword characters with a few other symbols mixed in,
// to sit on the bare/single/double decision boundaries.
func nearBareword(r *rand.Rand) string {
	n := 1 + r.Intn(10)
	var sb strings.Builder
	for i := 0; i < n; i++ {
		switch k := r.Intn(12); {
		case k < 8:
			sb.WriteByte(bareChars[r.Intn(len(bareChars))])
		case k < 10:
			sb.WriteString(gen.Pieces[r.Intn(len(gen.Pieces))])
		case k < 11:
			sb.WriteString([]string{"'", "\"", "\\", "''", "\\\"", "\\n", "\\x", "\\u", "$", "~"}[r.Intn(10)])
		default:
			sb.WriteRune(randomRune(r))
		}
	}
	return sb.String()
}

// randomRune draws from all planes, biased to the boundaries of the escape
// formats (\x, \u, \U), C0/C1 controls, format and space characters.
func randomRune(r *rand.Rand) rune {
	special := []rune{0, 1, 7, 8, 9, 10, 11, 12, 13, 27, 31, 32, 127, 0x80, 0x85, 0x9f, 0xa0, 0xad, 0xff, 0x100, 0x300, 0x301, 0x200b, 0x200d, 0x2028, 0x2029, 0x3000,
		0xd7ff, 0xe000, 0xf8ff, 0xfeff, 0xfffd, 0xfffe, 0xffff, 0x10000, 0x1f600, 0xe0001, 0xf0000, 0x10fffd, 0x10ffff, 0x2fffe}
	switch k := r.Intn(10); {
	case k < 4:
		return special[r.Intn(len(special))]
	case k < 6:
		return rune(r.Intn(0x800))
	case k < 8:
		for {
			c := rune(r.Intn(0x10000))
			if c < 0xd800 || c > 0xdfff {
				return c
			}
		}
	default:
		return rune(0x10000 + r.Intn(0x100000))
	}
}

func randomRunes(r *rand.Rand) string {
	n := 1 + r.Intn(5)
	var sb strings.Builder
	for i := 0; i < n; i++ {
		if r.Intn(3) == 0 {
			sb.WriteByte(bareChars[r.Intn(len(bareChars))])
		} else {
			sb.WriteRune(randomRune(r))
		}
	}
	return sb.String()
}

const perCase = 40

func runRandom(c *mon.Case) {
	r := c.Rand
	for i := 0; i < perCase; i++ {
		var s string
		switch i % 8 {
		case 0, 1:
			s = gen.BytesAdv(r, 24)
		case 2:
			s = gen.BytesAdv(r, 4)
		case 3:
			s = gen.RandomBytes(r, 24)
		case 4:
			s = nearBareword(r)
		case 5:
			s = randomRunes(r)
		case 6:
			s = "~" + gen.BytesAdv(r, 5)
			if r.Intn(2) == 0 {
				s = "~" + nearBareword(r)
			}
		default:
			s = gen.ValidUTF8Adv(r, 12)
			if r.Intn(3) == 0 {
				s = gen.PrintableText(r, 16)
			}
		}
		checkString(c, s)
	}
	c.Evals(perCase - 1)
}

// exhaustive: every string of 0, 1 or 2 symbols of the adversarial alphabet
// plus a few extra symbols.
var exhaustSyms = append(append([]string{}, gen.Pieces...), "''", "\\\"", "\\n", "~~", "a~", "\x7f", "\u00ad", "\U000e0001", "\ufffe")

const exhaustCases = 128

func runExhaustive(c *mon.Case) {
	a := len(exhaustSyms)
	total := 1 + a + a*a
	per := (total + exhaustCases - 1) / exhaustCases
	n := 0
	for k := c.I * per; k < (c.I+1)*per && k < total; k++ {
		var s string
		switch {
		case k == 0:
			s = ""
		case k <= a:
			s = exhaustSyms[k-1]
		default:
			j := k - 1 - a
			s = exhaustSyms[j/a] + exhaustSyms[j%a]
		}
		checkString(c, s)
		c.Count("exhaustive_strings", 1)
		n++
	}
	if n > 1 {
		c.Evals(n - 1)
	}
}

// single bytes and single runes, exhaustively in ranges
func runUnits(c *mon.Case) {
	// case i covers bytes (i*2, i*2+1) alone and between letters, and a slice of the BMP
	for b := c.I * 2; b < c.I*2+2 && b < 256; b++ {
		for _, s := range []string{string([]byte{byte(b)}), "a" + string([]byte{byte(b)}), string([]byte{byte(b)}) + "a", "a" + string([]byte{byte(b)}) + "b"} {
			checkString(c, s)
			c.Count("unit_strings", 1)
		}
	}
	// every 97th code point of all planes, offset by the case index
	for cp := c.I; cp < 0x110000; cp += 97 * 128 {
		if cp >= 0xd800 && cp <= 0xdfff {
			continue
		}
		checkString(c, string(rune(cp)))
		checkString(c, "x"+string(rune(cp))+"y")
		c.Count("unit_strings", 2)
	}
}

func Spec() *mon.Spec {
	return &mon.Spec{
		ID:            "C03",
		SpinViolation: true, Level: "exploration",
		Rule: "case = batch of strings: all strings of <= 2 symbols of the adversarial alphabet (metacharacters, whitespace, quotes, backslash, tilde, invalid UTF-8 pieces, controls, wide/astral runes, keywords), every single byte alone and next to letters, a stride through all Unicode planes, and random strings (adversarial pieces up to 24, random bytes, near-barewords, random runes from all planes, leading tilde). For each string s: `put Quote(s) tail` parses without error with Quote(s) as exactly one string-primary argument whose value is s and evaluates to [s tail]; `keys [&Quote(s)=x]` parses to a one-pair map whose key is that primary and evaluates to [s]; `put {Quote(s)} tail` parses to a one-item braced list holding that primary and evaluates to [s tail]; QuoteAs(s, bare/single/double) parses to s with the reported style; `QuoteCommandName(s) arg` parses to a form whose head is one string primary that statically evaluates (cmpd.StringLiteral, Evaler.PurelyEvalCompound) to s, and with a function named s in scope the quoted text in command position calls it; `put $QuoteVariableName(s) tail` parses to one Variable primary with name s and, with such a variable in scope, evaluates to its value. Non-trivial = Quote(s) != s (quotes are needed); distinct by s.",
		Assumptions: []string{
			"besides the two contexts named by the property (argument, map key) the general form is also checked as the single item of a braced list: parse.Quote is documented to return 'a valid Elvish expression that evaluates to the given string' and quotes for all expression contexts (an unquoted comma is only special there)",
			"command position is decided statically (single string-literal head whose value is s) plus behaviourally with a function of that name declared from Go; external commands are never executed",
			"the behavioural command / variable checks skip names that are empty, contain ':' (namespace separator) or start with '@' (explode sigil), and names of special commands; the parse-level checks cover them",
			"evaluation uses one interpreter per worker process; function and variable fixtures live in a private global namespace per evaluation",
		},
		ChildSetup: childSetup,
		Phases: []mon.Phase{
			{Name: "exhaustive", Quick: exhaustCases, Thorough: exhaustCases, Run: runExhaustive},
			{Name: "units", Quick: 128, Thorough: 128, Run: runUnits},
			{Name: "random", Quick: 2500, Thorough: 25000, Run: runRandom},
		},
		Floors: map[string]int{
			"strings": 40000, "distinct_nontrivial": 30000, "exhaustive_strings": 3500, "unit_strings": 2000,
			"arg_form_bare": 3000, "arg_form_single": 5000, "arg_form_double": 10000,
			"key_form_single": 5000, "braced_form_bare": 3000, "braced_form_single": 5000, "braced_form_double": 10000, "cmd_form_bare": 3000, "cmd_form_single": 5000, "cmd_form_double": 10000,
			"var_form_bare": 1000, "var_form_single": 3000, "var_form_double": 10000,
			"cmd_calls_checked": 30000, "var_uses_checked": 30000, "quoteas_checked": 130000,
			"strings_invalid_utf8": 9000, "strings_leading_tilde": 3000, "cmdquote_differs_from_quote": 300,
		},
	}
}
