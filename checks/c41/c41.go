// Package c41 monitors the str: and re: builtin modules, called through the
// interpreter, against naive reference definitions and algebraic laws
// (property C41).
package c41

import (
	"fmt"
	"math/rand"
	"strings"
	"unicode"

	"src.elv.sh/pkg/eval"
	"src.elv.sh/pkg/eval/vals"
	"verifharness/internal/elv"
	"verifharness/internal/gen"
	"verifharness/internal/mon"
)

// ---------------------------------------------------------------------------
// calling builtins through the interpreter

type harness struct {
	ev   *eval.Evaler
	fns  map[string]eval.Callable
	ch   chan any
	port *eval.Port
	wrap eval.Callable // {|x| put '<'$x'>' }
}

var h *harness

var fnNames = []string{
	"str:compare", "str:contains", "str:contains-any", "str:count", "str:equal-fold", "str:fields", "str:from-codepoints",
	"str:from-utf8-bytes", "str:has-prefix", "str:has-suffix", "str:index", "str:index-any", "str:join", "str:last-index",
	"str:repeat", "str:replace", "str:split", "str:title", "str:to-codepoints", "str:to-lower", "str:to-title", "str:to-upper",
	"str:to-utf8-bytes", "str:trim", "str:trim-left", "str:trim-right", "str:trim-space", "str:trim-prefix", "str:trim-suffix",
	"re:quote", "re:match", "re:find", "re:replace", "re:split", "re:awk",
}

func setup(e *mon.Env) {
	ev := elv.New()
	h = &harness{ev: ev, fns: map[string]eval.Callable{}, ch: make(chan any, 1<<14)}
	h.port = &eval.Port{File: eval.DevNull, Chan: h.ch}
	// the callables are obtained by evaluating `use` + a variable reference, i.e. through the interpreter
	code := "use str; use re; put"
	for _, n := range fnNames {
		code += " $" + n + "~"
	}
	code += " {|x| put '<'$x'>' }"
	res := elv.Eval(ev, code)
	if res.Err != nil || len(res.Values) != len(fnNames)+1 {
		panic(fmt.Sprintf("cannot obtain the str:/re: functions: %v", res.Err))
	}
	for i, n := range fnNames {
		h.fns[n] = res.Values[i].(eval.Callable)
	}
	h.wrap = res.Values[len(fnNames)].(eval.Callable)
}

// call invokes a builtin with the given arguments and options and returns
// the values it wrote to its output.
func call(name string, opts map[string]any, args ...any) ([]any, error) {
	fn := h.fns[name]
	err := h.ev.Call(fn, eval.CallCfg{Args: args, Opts: opts, From: "[verif]"},
		eval.EvalCfg{Ports: []*eval.Port{eval.DummyInputPort, h.port, eval.DummyOutputPort}})
	var out []any
	for {
		select {
		case v := <-h.ch:
			out = append(out, v)
			continue
		default:
		}
		break
	}
	return out, err
}

// viaCode evaluates the same call as source text (strings injected as variables).
func viaCode(code string, vars map[string]any) ([]any, error) {
	for k, v := range vars {
		elv.SetVar(h.ev, k, v)
	}
	res := elv.Eval(h.ev, "use str; use re; "+code)
	return res.Values, res.Err
}

func toInt(v any) (int, bool) {
	var n int
	if err := vals.ScanToGo(v, &n); err != nil {
		return 0, false
	}
	return n, true
}

func strs(vs []any) ([]string, bool) {
	out := make([]string, len(vs))
	for i, v := range vs {
		s, ok := v.(string)
		if !ok {
			return nil, false
		}
		out[i] = s
	}
	return out, true
}

func qs(ss []string) []string {
	out := make([]string, len(ss))
	for i, s := range ss {
		out[i] = mon.Q(s)
	}
	return out
}

func sameStrs(a, b []string) bool {
	if len(a) != len(b) {
		return false
	}
	for i := range a {
		if a[i] != b[i] {
			return false
		}
	}
	return true
}

// ---------------------------------------------------------------------------
// string generators

var lowPieces = []string{"a", "a", "b", "ab", "aa", "好", "é", " ", ",", "::", "-", "A", "B", "\n", "\t"}
var casePieces = []string{"\u01c6", "\u01c5", "\u01c4", "ß", "\u017f", "\u212a", "k", "K", "\u0130", "\u0131", "i", "I", "σ", "ς", "Σ", "ж", "Ж", "é", "É", "a", "Z", " ", "1", "_", "-", "好", "\ufb01", "\u0149", "\u00a0", "s", "S", "\u1e9e", "\u03a9", "\u2126", "ω"}

func fromPieces(r *rand.Rand, pieces []string, max int) string {
	var sb strings.Builder
	for i, n := 0, r.Intn(max+1); i < n; i++ {
		sb.WriteString(pieces[r.Intn(len(pieces))])
	}
	return sb.String()
}

// anyString: adversarial bytes (may be invalid UTF-8) or low-entropy text.
func anyString(r *rand.Rand) string {
	switch r.Intn(4) {
	case 0:
		return gen.BytesAdv(r, 10)
	case 1:
		return gen.RandomBytes(r, 12)
	default:
		return fromPieces(r, lowPieces, 14)
	}
}

func validString(r *rand.Rand) string {
	switch r.Intn(4) {
	case 0:
		return gen.ValidUTF8Adv(r, 10)
	case 1:
		return fromPieces(r, casePieces, 10)
	default:
		return fromPieces(r, lowPieces, 14)
	}
}

// subOf returns a substring of s (byte offsets), or an unrelated short string.
func subOf(r *rand.Rand, s string, valid bool) string {
	if len(s) > 0 && r.Intn(3) != 0 {
		for try := 0; try < 8; try++ {
			i := r.Intn(len(s) + 1)
			j := i + r.Intn(4)
			if j > len(s) {
				j = len(s)
			}
			if !valid || validUTF8(s[i:j]) {
				return s[i:j]
			}
		}
	}
	if valid {
		return fromPieces(r, lowPieces, 2)
	}
	if r.Intn(4) == 0 {
		return gen.BytesAdv(r, 2)
	}
	return fromPieces(r, lowPieces, 2)
}

func maxArg(r *rand.Rand, n int) any {
	if r.Intn(2) == 0 {
		return n
	}
	return fmt.Sprint(n)
}

// ---------------------------------------------------------------------------
// str: laws

type lawCtx struct {
	c *mon.Case
	r *rand.Rand
}

func (l *lawCtx) bad(sig, what string, w map[string]any) {
	l.c.Violation(sig, what, w)
}

// expectStr: the call must succeed and output exactly one string equal to want.
func (l *lawCtx) expectStr(sig, fn string, want string, opts map[string]any, args ...any) {
	out, err := call(fn, opts, args...)
	l.c.Count("calls_"+fn, 1)
	if err != nil || len(out) != 1 || out[0] != any(want) {
		l.bad(sig, fmt.Sprintf("%s %s = %s (err %v), naive definition gives %q", fn, argStr(opts, args), vals.ReprPlain(listOf(out)), err, want),
			map[string]any{"fn": fn, "args": argQ(args), "opts": fmt.Sprint(opts), "want": mon.Q(want), "got": elv.Reprs(out), "err": fmt.Sprint(err)})
	}
}

func (l *lawCtx) expectInt(sig, fn string, want int, args ...any) {
	out, err := call(fn, nil, args...)
	l.c.Count("calls_"+fn, 1)
	n, ok := 0, false
	if err == nil && len(out) == 1 {
		n, ok = toInt(out[0])
	}
	if !ok || n != want {
		l.bad(sig, fmt.Sprintf("%s %s = %v (err %v), naive definition gives %d", fn, argStr(nil, args), elv.Reprs(out), err, want),
			map[string]any{"fn": fn, "args": argQ(args), "want": want, "got": elv.Reprs(out), "err": fmt.Sprint(err)})
	}
}

func (l *lawCtx) expectBool(sig, fn string, want bool, args ...any) {
	out, err := call(fn, nil, args...)
	l.c.Count("calls_"+fn, 1)
	if err != nil || len(out) != 1 || out[0] != any(want) {
		l.bad(sig, fmt.Sprintf("%s %s = %v (err %v), naive definition gives %v", fn, argStr(nil, args), elv.Reprs(out), err, want),
			map[string]any{"fn": fn, "args": argQ(args), "want": want, "got": elv.Reprs(out), "err": fmt.Sprint(err)})
	}
}

func (l *lawCtx) expectStrs(sig, fn string, want []string, opts map[string]any, args ...any) []string {
	out, err := call(fn, opts, args...)
	l.c.Count("calls_"+fn, 1)
	got, ok := strs(out)
	if err != nil || !ok || !sameStrs(got, want) {
		l.bad(sig, fmt.Sprintf("%s %s = %v (err %v), naive definition gives %q", fn, argStr(opts, args), elv.Reprs(out), err, want),
			map[string]any{"fn": fn, "args": argQ(args), "opts": fmt.Sprint(opts), "want": qs(want), "got": elv.Reprs(out), "err": fmt.Sprint(err)})
		return nil
	}
	return got
}

func listOf(vs []any) vals.List { return vals.MakeList(vs...) }

func argQ(args []any) []string {
	out := make([]string, len(args))
	for i, a := range args {
		if s, ok := a.(string); ok {
			out[i] = mon.Q(s)
		} else {
			out[i] = vals.ReprPlain(a)
		}
	}
	return out
}

func argStr(opts map[string]any, args []any) string {
	s := ""
	for k, v := range opts {
		s += fmt.Sprintf("&%s=%v ", k, v)
	}
	return s + strings.Join(argQ(args), " ")
}

func anyList(ss []string) vals.List {
	vs := make([]any, len(ss))
	for i, s := range ss {
		vs[i] = s
	}
	return vals.MakeList(vs...)
}

func hasFFFD(s string) bool { return strings.ContainsRune(s, unicode.ReplacementChar) }

func (l *lawCtx) splitJoin() {
	r := l.r
	s := anyString(r)
	sep := subOf(r, s, false)
	if r.Intn(5) == 0 {
		sep = ""
	}
	max := -1
	var opts map[string]any
	if r.Intn(2) == 0 {
		max = r.Intn(8) - 2
		opts = map[string]any{"max": maxArg(r, max)}
	}
	want := mSplit(s, sep, max)
	l.c.Sample("str:split/join law", map[string]any{"s": mon.Q(s), "sep": mon.Q(sep), "max": max, "model_pieces": len(want)})
	got := l.expectStrs("str:split", "str:split", want, opts, sep, s)
	if got == nil && want != nil {
		return
	}
	if max != 0 {
		// the law itself, on what the builtin produced: join gives back the original
		l.expectStr("str:join-split", "str:join", s, nil, sep, anyList(got))
		l.c.Count("law_join_split", 1)
		if sep == "" {
			l.c.Count("law_join_split_empty_sep", 1)
		}
		if len(got) > 2 && max > 0 {
			l.c.Count("law_join_split_max_binding", 1)
		}
		if !validUTF8(s) {
			l.c.Count("law_join_split_invalid_utf8", 1)
		}
	}
}

func (l *lawCtx) codepoints() {
	r := l.r
	s := validString(r)
	out, err := call("str:to-codepoints", nil, s)
	l.c.Count("calls_str:to-codepoints", 1)
	want := []rune(s)
	okAll := err == nil && len(out) == len(want)
	for i := 0; okAll && i < len(out); i++ {
		n, ok := toInt(out[i])
		okAll = ok && rune(n) == want[i]
	}
	if !okAll {
		l.bad("str:to-codepoints", fmt.Sprintf("str:to-codepoints %q = %v (err %v), the code points are %U", s, elv.Reprs(out), err, want),
			map[string]any{"s": mon.Q(s), "got": elv.Reprs(out)})
		return
	}
	l.expectStr("str:from-to-codepoints", "str:from-codepoints", s, nil, out...)
	l.c.Count("law_codepoints_roundtrip", 1)
	// as Go ints too
	if r.Intn(4) == 0 {
		args := make([]any, len(want))
		for i, c := range want {
			args[i] = int(c)
		}
		l.expectStr("str:from-codepoints", "str:from-codepoints", s, nil, args...)
	}
}

func (l *lawCtx) utf8bytes() {
	r := l.r
	s := anyString(r)
	out, err := call("str:to-utf8-bytes", nil, s)
	l.c.Count("calls_str:to-utf8-bytes", 1)
	okAll := err == nil && len(out) == len(s)
	for i := 0; okAll && i < len(out); i++ {
		n, ok := toInt(out[i])
		okAll = ok && n == int(s[i])
	}
	if !okAll {
		l.bad("str:to-utf8-bytes", fmt.Sprintf("str:to-utf8-bytes %q = %v (err %v)", s, elv.Reprs(out), err), map[string]any{"s": mon.Q(s), "got": elv.Reprs(out)})
		return
	}
	if validUTF8(s) {
		l.expectStr("str:from-to-utf8-bytes", "str:from-utf8-bytes", s, nil, out...)
		l.c.Count("law_utf8_bytes_roundtrip", 1)
	} else {
		// not a UTF-8 string: either refused, or given back unchanged
		back, err := call("str:from-utf8-bytes", nil, out...)
		if err == nil && (len(back) != 1 || back[0] != any(s)) {
			l.bad("str:from-utf8-bytes-invalid", fmt.Sprintf("str:from-utf8-bytes of the bytes of %q succeeded with %v", s, elv.Reprs(back)), map[string]any{"s": mon.Q(s)})
		}
	}
}

func (l *lawCtx) searching() {
	r := l.r
	s := anyString(r)
	sub := subOf(r, s, false)
	switch r.Intn(6) {
	case 0:
		l.expectInt("str:index", "str:index", mIndex(s, sub), s, sub)
	case 1:
		l.expectInt("str:last-index", "str:last-index", mLastIndex(s, sub), s, sub)
	case 2:
		l.expectBool("str:contains", "str:contains", mContains(s, sub), s, sub)
	case 3:
		if sub == "" && !validUTF8(s) {
			return // "1 + the number of Unicode code points" is not defined for invalid UTF-8
		}
		l.expectInt("str:count", "str:count", mCount(s, sub), s, sub)
		if len(sub) > 0 && mCount(s, sub) >= 2 {
			l.c.Count("count_ge2", 1)
		}
	case 4:
		l.expectBool("str:has-prefix", "str:has-prefix", mHasPrefix(s, sub), s, sub)
		l.expectStr("str:trim-prefix", "str:trim-prefix", mTrimPrefix(s, sub), nil, s, sub)
	case 5:
		l.expectBool("str:has-suffix", "str:has-suffix", mHasSuffix(s, sub), s, sub)
		l.expectStr("str:trim-suffix", "str:trim-suffix", mTrimSuffix(s, sub), nil, s, sub)
	}
	if r.Intn(4) == 0 {
		t := anyString(r)
		if r.Intn(3) == 0 {
			t = s
		}
		l.expectInt("str:compare", "str:compare", mCompare(s, t), s, t)
	}
}

func (l *lawCtx) replace() {
	r := l.r
	s := anyString(r)
	old := subOf(r, s, false)
	if old == "" {
		return // str:replace with an empty $old is not documented
	}
	repl := subOf(r, anyString(r), false)
	max := -1
	var opts map[string]any
	if r.Intn(2) == 0 {
		max = r.Intn(8) - 2
		opts = map[string]any{"max": maxArg(r, max)}
	}
	l.expectStr("str:replace", "str:replace", mReplace(s, old, repl, max), opts, old, repl, s)
	if n := len(occurrences(s, old)); max >= 0 && n > max {
		l.c.Count("replace_max_binding", 1)
	}
}

func (l *lawCtx) trimming() {
	r := l.r
	cut := fromPieces(r, []string{"a", "b", " ", "好", "é", "!", "¡", ",", "\n", "ab"}, 3)
	s := fromPieces(r, []string{"a", "b", " ", "好", "é", "!", "¡", ",", "\n", "x", "\xff", "\xe5\xa5"}, 10)
	if hasFFFD(cut) {
		return
	}
	in := func(c rune) bool { return inSet(c, cut) }
	switch r.Intn(4) {
	case 0:
		l.expectStr("str:trim-left", "str:trim-left", mTrimLeft(s, in), nil, s, cut)
	case 1:
		l.expectStr("str:trim-right", "str:trim-right", mTrimRight(s, in), nil, s, cut)
	case 2:
		l.expectStr("str:trim", "str:trim", mTrimRight(mTrimLeft(s, in), in), nil, s, cut)
	case 3:
		v := fromPieces(r, []string{" ", "\t", "\n", "\r", "\u00a0", "\u0085", "\u2003", "\u200b", "x", "好", "\u3000", "\v", "\f", "\u1680", "\ufeff", "\u2028"}, 8)
		l.expectStr("str:trim-space", "str:trim-space", mTrimRight(mTrimLeft(v, unicode.IsSpace), unicode.IsSpace), nil, v)
		l.expectStrs("str:fields", "str:fields", mFields(v), nil, v)
	}
}

func (l *lawCtx) caseMapping() {
	r := l.r
	s := validString(r)
	if r.Intn(2) == 0 {
		s = fromPieces(r, casePieces, 10)
	}
	switch r.Intn(5) {
	case 0:
		l.expectStr("str:to-upper", "str:to-upper", mMap(s, unicode.ToUpper), nil, s)
	case 1:
		l.expectStr("str:to-lower", "str:to-lower", mMap(s, unicode.ToLower), nil, s)
	case 2:
		l.expectStr("str:to-title", "str:to-title", mMap(s, unicode.ToTitle), nil, s)
	case 3:
		t := s
		switch r.Intn(3) {
		case 0:
			t = mMap(s, unicode.ToUpper)
		case 1:
			t = mMap(s, func(c rune) rune { return unicode.SimpleFold(c) })
		case 2:
			t = validString(r)
		}
		l.expectBool("str:equal-fold", "str:equal-fold", mEqualFold(s, t), s, t)
	case 4:
		// str:title: letters that begin words get title case, everything else is unchanged.
		out, err := call("str:title", nil, s)
		l.c.Count("calls_str:title", 1)
		got, ok := "", false
		if err == nil && len(out) == 1 {
			got, ok = out[0].(string)
		}
		in, res := []rune(s), []rune(got)
		good := ok && len(in) == len(res)
		for i := 0; good && i < len(in); i++ {
			switch {
			case res[i] == in[i]:
				// a letter at the very beginning, or after an ASCII space, begins a word
				if unicode.IsLetter(in[i]) && (i == 0 || in[i-1] == ' ') && unicode.ToTitle(in[i]) != in[i] {
					good = false
				}
			case res[i] == unicode.ToTitle(in[i]):
				// changed: must not be in the middle of a word
				if i > 0 && unicode.IsLetter(in[i-1]) {
					good = false
				}
			default:
				good = false
			}
		}
		if !good {
			l.bad("str:title", fmt.Sprintf("str:title %q = %v (err %v)", s, elv.Reprs(out), err), map[string]any{"s": mon.Q(s), "got": elv.Reprs(out)})
		}
	}
}

func (l *lawCtx) misc() {
	r := l.r
	switch r.Intn(3) {
	case 0:
		s, chars := validString(r), fromPieces(r, lowPieces, 3)
		if hasFFFD(chars) {
			return
		}
		l.expectInt("str:index-any", "str:index-any", mIndexAny(s, chars), s, chars)
		l.expectBool("str:contains-any", "str:contains-any", mIndexAny(s, chars) >= 0, s, chars)
	case 1:
		s, n := anyString(r), r.Intn(5)
		l.expectStr("str:repeat", "str:repeat", mRepeat(s, n), nil, s, maxArg(r, n))
	case 2:
		// the same calls as source text, through parse + compile + `use`
		s := anyString(r)
		sep := subOf(r, s, false)
		if sep == "" {
			sep = ","
		}
		out, err := viaCode("str:join $sep [(str:split $sep $s)]", map[string]any{"sep": sep, "s": s})
		l.c.Count("calls_via_source", 1)
		if err != nil || len(out) != 1 || out[0] != any(s) {
			l.bad("code:join-split", fmt.Sprintf("str:join $sep [(str:split $sep $s)] with sep=%q s=%q gives %v (err %v)", sep, s, elv.Reprs(out), err), map[string]any{"s": mon.Q(s), "sep": mon.Q(sep)})
		}
	}
}

func runStr(c *mon.Case) {
	l := &lawCtx{c, c.Rand}
	for i := 0; i < 40; i++ {
		switch c.Rand.Intn(10) {
		case 0, 1, 2:
			l.splitJoin()
		case 3:
			l.codepoints()
		case 4:
			l.utf8bytes()
		case 5, 6:
			l.searching()
		case 7:
			l.replace()
		case 8:
			if c.Rand.Intn(2) == 0 {
				l.trimming()
			} else {
				l.caseMapping()
			}
		case 9:
			l.misc()
		}
	}
	c.Evals(40)
	c.Nontrivial("str", c.I)
}

func Spec() *mon.Spec {
	return &mon.Spec{
		ID: "C41", Level: "exploration",
		Rule: "case = 40 (phase str) / 30 (phase re) law instances on random strings (adversarial bytes incl. invalid UTF-8, low-entropy texts with overlapping separators such as 'aa' in 'aaaa', case-mapping specials), separators and substrings cut from the subject, counts -2..5, patterns from a small regex grammar that cannot match the empty string, replacement templates with $1, ${name}, $$; the builtins are called through Evaler.Call on callables obtained by evaluating `use str; use re`, and a share as source text. " +
			"Non-trivial = every case (each runs dozens of calls on distinct inputs); the per-law counters say what was reached.",
		Assumptions: []string{
			"case mapping, equal-fold, trim-space, fields, to-codepoints, contains-any/index-any and count with an empty substring are checked on valid UTF-8 only (behaviour on invalid UTF-8 is not documented)",
			"trim/trim-left/trim-right: an invalid byte of the subject is not a code point of the cutset; cutsets containing U+FFFD are not generated",
			"str:replace with an empty $old, re: references to non-existent groups and malformed $ in templates are not generated (not documented)",
			"str:title is checked only for: same length in runes, changes are title-casings of letters not preceded by a letter, letters at the start / after an ASCII space are title-cased",
			"regex match positions for grammar patterns come from an independent backtracking matcher (leftmost-first); &longest and &posix are only checked for internal consistency of re:find/replace/split",
			"from-utf8-bytes on the bytes of an invalid string may fail or give the string back",
			"re:quote law: a literal containing U+FFFD is not searched in subjects with invalid UTF-8 (re.md: 're: wraps Go's regexp package'; Go regexp: 'each byte of an invalid UTF-8 sequence is treated as if it encoded U+FFFD')",
		},
		Phases: []mon.Phase{
			{Name: "str", Quick: 3000, Thorough: 60000, Run: runStr},
			{Name: "re", Quick: 3000, Thorough: 60000, Run: runRe},
		},
		ChildSetup: setup,
		Floors: map[string]int{"law_join_split": 8000, "law_join_split_empty_sep": 4000, "law_join_split_invalid_utf8": 2500, "law_join_split_max_binding": 700,
			"law_codepoints_roundtrip": 3000, "law_utf8_bytes_roundtrip": 2500, "count_ge2": 80, "replace_max_binding": 90,
			"law_find_vs_model": 12000, "law_find_vs_model_with_matches": 4000, "law_find_groups_checked": 2500, "law_longest_or_posix_agreement": 2500,
			"law_on_ge2_matches": 4000, "law_quote_find": 6000, "law_quote_find_ge2": 1500, "law_quote_find_invalid_subject": 2000,
			"law_replace_fn": 10000, "law_replace_literal": 20000, "law_replace_template": 12000, "law_replace_template_applied": 3000,
			"law_split": 20000, "law_split_max_binding": 1200, "calls_re:awk": 2000, "calls_via_source": 800,
			"calls_str:equal-fold": 300, "calls_str:title": 300, "calls_str:to-lower": 300, "calls_str:to-upper": 300, "calls_str:to-title": 300,
			"calls_str:trim": 400, "calls_str:trim-left": 400, "calls_str:trim-right": 400, "calls_str:trim-space": 400, "calls_str:fields": 400,
			"calls_str:compare": 1500, "calls_str:count": 1000, "calls_str:index": 1000, "calls_str:last-index": 1000, "calls_str:contains": 1000,
			"calls_str:has-prefix": 1000, "calls_str:has-suffix": 1000, "calls_str:replace": 2000, "calls_str:repeat": 1000, "calls_str:index-any": 1000},
	}
}
