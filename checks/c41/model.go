package c41

import (
	"unicode"
	"unicode/utf8"
)

// Naive reference definitions of the str: functions, written from str.d.elv
// with plain byte / rune loops (no call into package strings).

func eqAt(s string, i int, sub string) bool {
	if i < 0 || i+len(sub) > len(s) {
		return false
	}
	for k := 0; k < len(sub); k++ {
		if s[i+k] != sub[k] {
			return false
		}
	}
	return true
}

func mIndex(s, sub string) int {
	for i := 0; i+len(sub) <= len(s); i++ {
		if eqAt(s, i, sub) {
			return i
		}
	}
	return -1
}

func mLastIndex(s, sub string) int {
	for i := len(s) - len(sub); i >= 0; i-- {
		if eqAt(s, i, sub) {
			return i
		}
	}
	return -1
}

func mContains(s, sub string) bool { return mIndex(s, sub) >= 0 }

func mHasPrefix(s, p string) bool { return eqAt(s, 0, p) }
func mHasSuffix(s, p string) bool { return len(p) <= len(s) && eqAt(s, len(s)-len(p), p) }

func mTrimPrefix(s, p string) string {
	if mHasPrefix(s, p) {
		return s[len(p):]
	}
	return s
}

func mTrimSuffix(s, p string) string {
	if mHasSuffix(s, p) {
		return s[:len(s)-len(p)]
	}
	return s
}

// occurrences returns the start offsets of the non-overlapping occurrences
// of sub (non-empty) in s, scanning left to right.
func occurrences(s, sub string) []int {
	var at []int
	for i := 0; i+len(sub) <= len(s); {
		if eqAt(s, i, sub) {
			at = append(at, i)
			i += len(sub)
		} else {
			i++
		}
	}
	return at
}

func runeCount(s string) int {
	n := 0
	for i := 0; i < len(s); {
		_, sz := utf8.DecodeRuneInString(s[i:])
		i += sz
		n++
	}
	return n
}

func mCount(s, sub string) int {
	if sub == "" {
		return 1 + runeCount(s)
	}
	return len(occurrences(s, sub))
}

func mCompare(a, b string) int {
	for i := 0; i < len(a) && i < len(b); i++ {
		if a[i] < b[i] {
			return -1
		}
		if a[i] > b[i] {
			return 1
		}
	}
	switch {
	case len(a) < len(b):
		return -1
	case len(a) > len(b):
		return 1
	}
	return 0
}

// explode splits s into UTF-8 sequences; an invalid byte is a piece of its own.
func explode(s string) []string {
	var out []string
	for i := 0; i < len(s); {
		_, sz := utf8.DecodeRuneInString(s[i:])
		out = append(out, s[i:i+sz])
		i += sz
	}
	return out
}

// mSplit: pieces of s around sep; at most max pieces when max >= 0 (the last
// piece is then the unsplit remainder); sep == "" splits into code points.
func mSplit(s, sep string, max int) []string {
	if max == 0 {
		return nil
	}
	var out []string
	if sep == "" {
		ps := explode(s)
		if max > 0 && len(ps) > max {
			rest := ""
			for _, p := range ps[max-1:] {
				rest += p
			}
			ps = append(ps[:max-1:max-1], rest)
		}
		return ps
	}
	i, start := 0, 0
	for i+len(sep) <= len(s) {
		if max > 0 && len(out) == max-1 {
			break
		}
		if eqAt(s, i, sep) {
			out = append(out, s[start:i])
			i += len(sep)
			start = i
		} else {
			i++
		}
	}
	return append(out, s[start:])
}

func mJoin(sep string, ps []string) string {
	out := ""
	for i, p := range ps {
		if i > 0 {
			out += sep
		}
		out += p
	}
	return out
}

// mReplace replaces the first max (all if max < 0) non-overlapping occurrences of old (non-empty).
func mReplace(s, old, repl string, max int) string {
	out := ""
	i, n := 0, 0
	for i < len(s) {
		if (max < 0 || n < max) && eqAt(s, i, old) {
			out += repl
			i += len(old)
			n++
		} else {
			out += s[i : i+1]
			i++
		}
	}
	return out
}

func inSet(r rune, set string) bool {
	for _, c := range set {
		if c == r {
			return true
		}
	}
	return false
}

// trims; an invalid byte in s is not a code point of any (valid) cutset.
func mTrimLeft(s string, in func(rune) bool) string {
	for len(s) > 0 {
		r, sz := utf8.DecodeRuneInString(s)
		if r == utf8.RuneError && sz <= 1 {
			break
		}
		if !in(r) {
			break
		}
		s = s[sz:]
	}
	return s
}

func mTrimRight(s string, in func(rune) bool) string {
	for len(s) > 0 {
		r, sz := utf8.DecodeLastRuneInString(s)
		if r == utf8.RuneError && sz <= 1 {
			break
		}
		if !in(r) {
			break
		}
		s = s[:len(s)-sz]
	}
	return s
}

func mFields(s string) []string {
	var out []string
	cur, has := "", false
	for _, r := range s {
		if unicode.IsSpace(r) {
			if has {
				out = append(out, cur)
			}
			cur, has = "", false
		} else {
			cur += string(r)
			has = true
		}
	}
	if has {
		out = append(out, cur)
	}
	return out
}

func mMap(s string, f func(rune) rune) string {
	out := ""
	for _, r := range s {
		out += string(f(r))
	}
	return out
}

// foldEq: equal under simple Unicode case folding.
func foldEq(a, b rune) bool {
	if a == b {
		return true
	}
	for r := unicode.SimpleFold(a); r != a; r = unicode.SimpleFold(r) {
		if r == b {
			return true
		}
	}
	return false
}

func mEqualFold(a, b string) bool {
	ra, rb := []rune(a), []rune(b)
	if len(ra) != len(rb) {
		return false
	}
	for i := range ra {
		if !foldEq(ra[i], rb[i]) {
			return false
		}
	}
	return true
}

func mIndexAny(s, chars string) int {
	for i, r := range s {
		if inSet(r, chars) {
			return i
		}
	}
	return -1
}

func mRepeat(s string, n int) string {
	out := ""
	for i := 0; i < n; i++ {
		out += s
	}
	return out
}

func validUTF8(s string) bool {
	for i := 0; i < len(s); {
		r, sz := utf8.DecodeRuneInString(s[i:])
		if r == utf8.RuneError && sz <= 1 {
			return false
		}
		i += sz
	}
	return true
}
