package c41

import (
	"math/rand"
	"strconv"
	"unicode/utf8"
)

// A small regular-expression language with its own printer and its own
// backtracking matcher (leftmost-first, i.e. Perl/RE2 default semantics).
// Every pattern generated here is unable to match the empty string: atoms
// consume at least one rune, repetitions are applied to atoms only, and every
// sequence contains at least one mandatory item.

type reKind int

const (
	rLit   reKind = iota // one literal rune
	rAny                 // .
	rClass               // [abc] / [^abc] / ranges
	rGroup               // ( alt ), capturing (Name optional) or not
	rSeq
	rAlt
	rRep // Min 0/1, Max 1/-1, Lazy
)

type reNode struct {
	Kind    reKind
	R       rune
	Neg     bool
	Ranges  [][2]rune
	Subs    []*reNode
	Cap     int    // capture index (>0) for capturing groups, 0 = non-capturing
	Name    string // named group
	Min     int
	Max     int // -1 = unbounded
	Lazy    bool
	nonNull bool
}

type reGen struct {
	r      *rand.Rand
	ncap   int
	names  map[int]string
	budget int
}

var reLits = []rune{'a', 'b', 'c', 'x', '1', ' ', ',', ':', '好', 'é', '-', 'A'}

func (g *reGen) atom(depth int) *reNode {
	g.budget--
	k := g.r.Intn(10)
	if depth >= 2 || g.budget <= 0 {
		k = g.r.Intn(6)
	}
	switch {
	case k < 4:
		return &reNode{Kind: rLit, R: reLits[g.r.Intn(len(reLits))]}
	case k < 5:
		return &reNode{Kind: rAny}
	case k < 6:
		n := &reNode{Kind: rClass, Neg: g.r.Intn(4) == 0}
		for i, m := 0, 1+g.r.Intn(3); i < m; i++ {
			if g.r.Intn(3) == 0 {
				n.Ranges = append(n.Ranges, [][2]rune{{'a', 'c'}, {'0', '9'}, {'a', 'z'}, {'A', 'Z'}, {0x4e00, 0x9fff}}[g.r.Intn(5)])
			} else {
				c := reLits[g.r.Intn(len(reLits))]
				if c == '-' {
					c = 'b'
				}
				n.Ranges = append(n.Ranges, [2]rune{c, c})
			}
		}
		return n
	default:
		n := &reNode{Kind: rGroup}
		switch g.r.Intn(4) {
		case 0: // non-capturing
		case 1: // named
			g.ncap++
			n.Cap = g.ncap
			n.Name = []string{"n", "word", "g_1", "x2"}[g.r.Intn(4)] + strconv.Itoa(g.ncap)
			g.names[n.Cap] = n.Name
		default:
			g.ncap++
			n.Cap = g.ncap
		}
		n.Subs = []*reNode{g.alt(depth + 1)}
		return n
	}
}

func (g *reGen) item(depth int, mandatory bool) *reNode {
	a := g.atom(depth)
	if g.r.Intn(3) != 0 {
		return a
	}
	rep := &reNode{Kind: rRep, Subs: []*reNode{a}, Lazy: g.r.Intn(4) == 0}
	switch g.r.Intn(3) {
	case 0:
		rep.Min, rep.Max = 1, -1 // +
	case 1:
		rep.Min, rep.Max = 0, 1 // ?
	default:
		rep.Min, rep.Max = 0, -1 // *
	}
	if mandatory && rep.Min == 0 {
		rep.Min, rep.Max = 1, -1
	}
	return rep
}

func (g *reGen) seq(depth int) *reNode {
	n := 1 + g.r.Intn(3)
	must := g.r.Intn(n)
	s := &reNode{Kind: rSeq}
	for i := 0; i < n; i++ {
		s.Subs = append(s.Subs, g.item(depth, i == must))
	}
	return s
}

func (g *reGen) alt(depth int) *reNode {
	n := 1
	if g.r.Intn(3) == 0 {
		n = 2 + g.r.Intn(2)
	}
	if n == 1 {
		return g.seq(depth)
	}
	a := &reNode{Kind: rAlt}
	for i := 0; i < n; i++ {
		a.Subs = append(a.Subs, g.seq(depth))
	}
	return a
}

func genRegex(r *rand.Rand) (*reNode, int, map[int]string) {
	g := &reGen{r: r, names: map[int]string{}, budget: 10}
	n := g.alt(0)
	return n, g.ncap, g.names
}

func quoteLit(r rune) string {
	switch r {
	case '\\', '.', '+', '*', '?', '(', ')', '|', '[', ']', '{', '}', '^', '$':
		return "\\" + string(r)
	}
	return string(r)
}

func (n *reNode) String() string {
	switch n.Kind {
	case rLit:
		return quoteLit(n.R)
	case rAny:
		return "."
	case rClass:
		s := "["
		if n.Neg {
			s += "^"
		}
		for _, rg := range n.Ranges {
			if rg[0] == rg[1] {
				s += string(rg[0])
			} else {
				s += string(rg[0]) + "-" + string(rg[1])
			}
		}
		return s + "]"
	case rGroup:
		in := n.Subs[0].String()
		switch {
		case n.Cap == 0:
			return "(?:" + in + ")"
		case n.Name != "":
			return "(?P<" + n.Name + ">" + in + ")"
		}
		return "(" + in + ")"
	case rSeq:
		s := ""
		for _, c := range n.Subs {
			s += c.String()
		}
		return s
	case rAlt:
		s := ""
		for i, c := range n.Subs {
			if i > 0 {
				s += "|"
			}
			s += c.String()
		}
		return s
	case rRep:
		op := "*"
		switch {
		case n.Min == 1:
			op = "+"
		case n.Max == 1:
			op = "?"
		}
		if n.Lazy {
			op += "?"
		}
		return n.Subs[0].String() + op
	}
	return ""
}

// ---------------------------------------------------------------------------
// backtracking matcher

type matcher struct {
	t     string
	steps int
	over  bool
}

const stepBudget = 200000

type cont func(pos int, caps []int) bool

func setCap(caps []int, i, v int) []int {
	c := make([]int, len(caps))
	copy(c, caps)
	c[i] = v
	return c
}

func (m *matcher) match(n *reNode, pos int, caps []int, k cont) bool {
	m.steps++
	if m.steps > stepBudget {
		m.over = true
		return false
	}
	switch n.Kind {
	case rLit, rAny, rClass:
		if pos >= len(m.t) {
			return false
		}
		r, sz := utf8.DecodeRuneInString(m.t[pos:])
		ok := false
		switch n.Kind {
		case rLit:
			ok = r == n.R && !(r == utf8.RuneError && sz == 1)
		case rAny:
			ok = r != '\n'
		case rClass:
			in := false
			for _, rg := range n.Ranges {
				if r >= rg[0] && r <= rg[1] {
					in = true
				}
			}
			ok = in != n.Neg
		}
		return ok && k(pos+sz, caps)
	case rGroup:
		if n.Cap == 0 {
			return m.match(n.Subs[0], pos, caps, k)
		}
		return m.match(n.Subs[0], pos, caps, func(p int, c []int) bool {
			c2 := setCap(c, 2*n.Cap, pos)
			c2[2*n.Cap+1] = p
			return k(p, c2)
		})
	case rSeq:
		return m.seq(n.Subs, pos, caps, k)
	case rAlt:
		for _, s := range n.Subs {
			if m.match(s, pos, caps, k) {
				return true
			}
			if m.over {
				return false
			}
		}
		return false
	case rRep:
		return m.rep(n, 0, pos, caps, k)
	}
	return false
}

func (m *matcher) seq(items []*reNode, pos int, caps []int, k cont) bool {
	if len(items) == 0 {
		return k(pos, caps)
	}
	return m.match(items[0], pos, caps, func(p int, c []int) bool {
		return m.seq(items[1:], p, c, k)
	})
}

func (m *matcher) rep(n *reNode, done int, pos int, caps []int, k cont) bool {
	more := func() bool {
		if n.Max >= 0 && done >= n.Max {
			return false
		}
		return m.match(n.Subs[0], pos, caps, func(p int, c []int) bool {
			if p == pos {
				return false
			}
			return m.rep(n, done+1, p, c, k)
		})
	}
	stop := func() bool {
		if done < n.Min {
			return false
		}
		return k(pos, caps)
	}
	if n.Lazy {
		return stop() || (!m.over && more())
	}
	return more() || (!m.over && stop())
}

type span struct{ Start, End int }

type reMatch struct {
	span
	Groups []span // index 0 = whole match; {-1,-1} = group did not participate
}

// findAll returns the successive non-overlapping leftmost-first matches.
func findAll(n *reNode, ncap int, t string) (ms []reMatch, ok bool) {
	m := &matcher{t: t}
	pos := 0
	for pos <= len(t) {
		found := false
		for start := pos; start <= len(t) && !found; {
			caps := make([]int, 2*(ncap+1))
			for i := range caps {
				caps[i] = -1
			}
			var res []int
			end := -1
			if m.match(n, start, caps, func(p int, c []int) bool { end, res = p, c; return true }) {
				mt := reMatch{span: span{start, end}}
				mt.Groups = append(mt.Groups, span{start, end})
				for g := 1; g <= ncap; g++ {
					mt.Groups = append(mt.Groups, span{res[2*g], res[2*g+1]})
				}
				ms = append(ms, mt)
				pos = end // patterns never match empty, so end > start
				found = true
				break
			}
			if m.over {
				return nil, false
			}
			if start >= len(t) {
				break
			}
			_, sz := utf8.DecodeRuneInString(t[start:])
			start += sz
		}
		if !found {
			break
		}
	}
	return ms, true
}
