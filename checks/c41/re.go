package c41

import (
	"fmt"
	"math/rand"
	"strconv"
	"unicode"

	"src.elv.sh/pkg/eval/vals"
	"verifharness/internal/elv"
	"verifharness/internal/mon"
)

var rePieces = []string{"a", "b", "c", "x", "1", " ", ",", ":", "好", "é", "-", "A", "\n", "\xff", "ab", "aa", "a", "b", "z", "9", "\xe5\xa5"}

// observed match from re:find
type obsMatch struct {
	Text   string
	Start  int
	End    int
	Groups []obsMatch
}

func field(v any, k string) any {
	x, err := vals.Index(v, k)
	if err != nil {
		return nil
	}
	return x
}

func decodeMatch(v any, withGroups bool) (obsMatch, bool) {
	var m obsMatch
	t, ok := field(v, "text").(string)
	if !ok {
		return m, false
	}
	s, ok1 := toInt(field(v, "start"))
	e, ok2 := toInt(field(v, "end"))
	if !ok1 || !ok2 {
		return m, false
	}
	m.Text, m.Start, m.End = t, s, e
	if withGroups {
		gs := field(v, "groups")
		if gs == nil {
			return m, false
		}
		err := vals.Iterate(gs, func(g any) bool {
			gm, ok := decodeMatch(g, false)
			if !ok {
				withGroups = false
				return false
			}
			m.Groups = append(m.Groups, gm)
			return true
		})
		if err != nil || !withGroups {
			return m, false
		}
	}
	return m, true
}

func (l *lawCtx) find(pattern, t string, opts map[string]any) ([]obsMatch, bool) {
	out, err := call("re:find", opts, pattern, t)
	l.c.Count("calls_re:find", 1)
	if err != nil {
		l.bad("re:find-error", fmt.Sprintf("re:find %q %q raised %v", pattern, t, err), map[string]any{"pattern": mon.Q(pattern), "t": mon.Q(t)})
		return nil, false
	}
	ms := make([]obsMatch, 0, len(out))
	for _, v := range out {
		m, ok := decodeMatch(v, true)
		if !ok {
			l.bad("re:find-shape", fmt.Sprintf("re:find %q %q outputs %s, not a match with text/start/end/groups", pattern, t, vals.ReprPlain(v)), map[string]any{"pattern": mon.Q(pattern), "t": mon.Q(t)})
			return nil, false
		}
		ms = append(ms, m)
	}
	return ms, true
}

// consistent: the documented structure of re:find results.
func (l *lawCtx) consistent(pattern, t string, ms []obsMatch, nonEmpty bool) bool {
	prev := 0
	for i, m := range ms {
		w := map[string]any{"pattern": mon.Q(pattern), "t": mon.Q(t), "match_index": i, "match": fmt.Sprintf("%+v", m)}
		if m.Start < prev || m.End < m.Start || m.End > len(t) || (nonEmpty && m.End == m.Start) {
			l.bad("re:find-positions", fmt.Sprintf("re:find %q %q: match %d spans [%d,%d) after a match ending at %d in a %d-byte source", pattern, t, i, m.Start, m.End, prev, len(t)), w)
			return false
		}
		if t[m.Start:m.End] != m.Text {
			l.bad("re:find-text", fmt.Sprintf("re:find %q %q: match %d has text %q but source[%d:%d] is %q", pattern, t, i, m.Text, m.Start, m.End, t[m.Start:m.End]), w)
			return false
		}
		if len(m.Groups) == 0 || m.Groups[0].Start != m.Start || m.Groups[0].End != m.End || m.Groups[0].Text != m.Text {
			l.bad("re:find-group0", fmt.Sprintf("re:find %q %q: match %d: the first group is not the whole match", pattern, t, i), w)
			return false
		}
		for gi, g := range m.Groups {
			if g.Start == -1 && g.End == -1 && g.Text == "" {
				continue
			}
			if g.Start < m.Start || g.End > m.End || g.End < g.Start || t[g.Start:g.End] != g.Text {
				l.bad("re:find-group", fmt.Sprintf("re:find %q %q: match %d group %d = {%q %d %d}, source[%d:%d] is not that text or lies outside the match [%d,%d)", pattern, t, i, gi, g.Text, g.Start, g.End, g.Start, g.End, m.Start, m.End), w)
				return false
			}
		}
		prev = m.End
	}
	return true
}

func between(t string, ms []obsMatch, max int) []string {
	if max == 0 {
		return nil
	}
	var out []string
	prev := 0
	for _, m := range ms {
		if max > 0 && len(out) == max-1 {
			break
		}
		out = append(out, t[prev:m.Start])
		prev = m.End
	}
	return append(out, t[prev:])
}

func replaced(t string, ms []obsMatch, f func(m obsMatch) string) string {
	out := ""
	prev := 0
	for _, m := range ms {
		out += t[prev:m.Start] + f(m)
		prev = m.End
	}
	return out + t[prev:]
}

// template pieces: text and references, with the model's expansion.
type tmplPiece struct {
	Src string
	Exp func(m obsMatch) string
}

func genTemplate(r *rand.Rand, ncap int, names map[int]string) (string, func(m obsMatch) string) {
	var ps []tmplPiece
	lit := func(s string) tmplPiece { return tmplPiece{s, func(obsMatch) string { return s }} }
	grp := func(src string, g int) tmplPiece {
		return tmplPiece{src, func(m obsMatch) string {
			if g < len(m.Groups) && m.Groups[g].Start >= 0 {
				return m.Groups[g].Text
			}
			return ""
		}}
	}
	for i, n := 0, r.Intn(5); i < n; i++ {
		switch r.Intn(6) {
		case 0:
			ps = append(ps, lit([]string{"X", "-", "好", " ", "<>", "a.b", "\\1", "{}"}[r.Intn(8)]))
		case 1:
			ps = append(ps, tmplPiece{"$$", func(obsMatch) string { return "$" }})
		case 2:
			g := r.Intn(ncap + 1)
			ps = append(ps, grp("${"+strconv.Itoa(g)+"}", g))
		case 3:
			// $N must be followed by something that cannot continue the name (any Unicode letter, digit or _ would)
			g := r.Intn(ncap + 1)
			ps = append(ps, grp("$"+strconv.Itoa(g), g), lit([]string{" ", "-", ".", "/", "<"}[r.Intn(5)]))
		case 4:
			for g, name := range names {
				if r.Intn(2) == 0 {
					ps = append(ps, grp("${"+name+"}", g))
				} else {
					ps = append(ps, grp("$"+name, g), lit([]string{" ", "-", "."}[r.Intn(3)]))
				}
				break
			}
		case 5:
			ps = append(ps, grp("${0}", 0), lit("x1"))
		}
	}
	src := ""
	for _, p := range ps {
		src += p.Src
	}
	return src, func(m obsMatch) string {
		out := ""
		for _, p := range ps {
			out += p.Exp(m)
		}
		return out
	}
}

func (l *lawCtx) reText(r *rand.Rand) string {
	return fromPieces(r, rePieces, 14)
}

// derived laws: replace and split must act on exactly the spans find reports.
func (l *lawCtx) agree(pattern, t string, ms []obsMatch, extra map[string]any, ncap int, names map[int]string, templates bool) {
	r := l.r
	with := func(o map[string]any) map[string]any {
		m := map[string]any{}
		for k, v := range extra {
			m[k] = v
		}
		for k, v := range o {
			m[k] = v
		}
		return m
	}
	x := []string{"", "X", "$1", "好", "${0}$$"}[r.Intn(5)]
	l.expectStr("re:replace-literal", "re:replace", replaced(t, ms, func(obsMatch) string { return x }), with(map[string]any{"literal": true}), pattern, x, t)
	l.c.Count("law_replace_literal", 1)
	sp := between(t, ms, -1)
	l.expectStrs("re:split", "re:split", sp, with(nil), pattern, t)
	l.c.Count("law_split", 1)
	if len(ms) >= 2 {
		l.c.Count("law_on_ge2_matches", 1)
	}
	if r.Intn(2) == 0 {
		n := r.Intn(6) // re.md: "&max: if non-negative, limits the maximum number of results"
		l.expectStrs("re:split-max", "re:split", between(t, ms, n), with(map[string]any{"max": maxArg(r, n)}), pattern, t)
		if n <= len(ms) {
			l.c.Count("law_split_max_binding", 1)
		}
		// find &max: the first n matches
		fm, ok := l.find(pattern, t, with(map[string]any{"max": maxArg(r, n)}))
		if ok {
			want := ms
			if len(want) > n {
				want = want[:n]
			}
			same := len(fm) == len(want)
			for i := 0; same && i < len(fm); i++ {
				same = fm[i].Start == want[i].Start && fm[i].End == want[i].End && fm[i].Text == want[i].Text
			}
			if !same {
				l.bad("re:find-max", fmt.Sprintf("re:find &max=%d %q %q gives %d matches that are not the first %d of the %d unrestricted ones", n, pattern, t, len(fm), n, len(ms)), map[string]any{"pattern": mon.Q(pattern), "t": mon.Q(t), "max": n})
			}
		}
	}
	if r.Intn(2) == 0 {
		// function replacement: called with the text of each match
		l.expectStr("re:replace-fn", "re:replace", replaced(t, ms, func(m obsMatch) string { return "<" + m.Text + ">" }), with(nil), pattern, h.wrap, t)
		l.c.Count("law_replace_fn", 1)
	}
	if templates {
		src, exp := genTemplate(r, ncap, names)
		l.expectStr("re:replace-template", "re:replace", replaced(t, ms, exp), with(nil), pattern, src, t)
		l.c.Count("law_replace_template", 1)
		if len(ms) > 0 && src != "" {
			l.c.Count("law_replace_template_applied", 1)
		}
	}
	// re:match says whether there is a match at all
	out, err := call("re:match", nil, pattern, t)
	l.c.Count("calls_re:match", 1)
	if _, posix := extra["posix"]; !posix {
		if err != nil || len(out) != 1 || out[0] != any(len(ms) > 0) {
			l.bad("re:match", fmt.Sprintf("re:match %q %q = %v (err %v) but re:find reports %d matches", pattern, t, elv.Reprs(out), err, len(ms)), map[string]any{"pattern": mon.Q(pattern), "t": mon.Q(t)})
		}
	}
}

func (l *lawCtx) quoteLaw() {
	r := l.r
	t := anyString(r)
	if r.Intn(2) == 0 {
		t = l.reText(r)
	}
	s := subOf(r, t, true)
	if r.Intn(4) == 0 {
		s = validString(r)
		if r.Intn(2) == 0 { // plant it
			t = t + s + anyString(r) + s
		}
	}
	if s == "" || !validUTF8(s) {
		return
	}
	if hasFFFD(s) && !validUTF8(t) {
		// Go's regexp (which re: wraps, per re.md) treats each byte of an invalid
		// sequence as U+FFFD, so a literal U+FFFD also matches invalid bytes.
		l.c.Count("skipped_fffd_literal_on_invalid_subject", 1)
		return
	}
	out, err := call("re:quote", nil, s)
	l.c.Count("calls_re:quote", 1)
	if err != nil || len(out) != 1 {
		l.bad("re:quote", fmt.Sprintf("re:quote %q = %v (err %v)", s, elv.Reprs(out), err), map[string]any{"s": mon.Q(s)})
		return
	}
	q, _ := out[0].(string)
	ms, ok := l.find(q, t, nil)
	if !ok {
		return
	}
	occ := occurrences(t, s)
	same := len(ms) == len(occ)
	for i := 0; same && i < len(ms); i++ {
		same = ms[i].Start == occ[i] && ms[i].End == occ[i]+len(s) && ms[i].Text == s
	}
	if !same {
		var got []int
		for _, m := range ms {
			got = append(got, m.Start)
		}
		l.bad("re:quote-find", fmt.Sprintf("re:find (re:quote %q) %q finds matches at %v, the literal occurs at %v", s, t, got, occ), map[string]any{"s": mon.Q(s), "t": mon.Q(t), "quoted": mon.Q(q)})
		return
	}
	l.c.Count("law_quote_find", 1)
	if len(occ) >= 2 {
		l.c.Count("law_quote_find_ge2", 1)
	}
	if !validUTF8(t) {
		l.c.Count("law_quote_find_invalid_subject", 1)
	}
	l.expectBool("re:quote-match-self", "re:match", true, q, s)
	l.expectBool("re:quote-match", "re:match", len(occ) > 0, q, t)
	// anchored: the quoted pattern matches exactly the literal text
	full, ok := l.find("^(?:"+q+")$", s, nil)
	if ok && (len(full) != 1 || full[0].Text != s) {
		l.bad("re:quote-anchored", fmt.Sprintf("^(?:%s)$ does not match %q as a whole", q, s), map[string]any{"s": mon.Q(s), "quoted": mon.Q(q)})
	}
	l.agree(q, t, ms, nil, 0, nil, false)
}

func (l *lawCtx) grammarLaw() {
	r := l.r
	node, ncap, names := genRegex(r)
	p := node.String()
	t := l.reText(r)
	want, ok := findAll(node, ncap, t)
	if !ok {
		l.c.Inconclusive("regex-model-step-budget")
		return
	}
	l.c.Sample("re:find vs backtracking model", map[string]any{"pattern": mon.Q(p), "text": mon.Q(t), "model_matches": len(want)})
	ms, ok := l.find(p, t, nil)
	if !ok {
		return
	}
	if !l.consistent(p, t, ms, true) {
		return
	}
	same := len(ms) == len(want)
	for i := 0; same && i < len(ms); i++ {
		same = ms[i].Start == want[i].Start && ms[i].End == want[i].End && len(ms[i].Groups) == ncap+1
		for g := 0; same && g <= ncap; g++ {
			same = ms[i].Groups[g].Start == want[i].Groups[g].Start && ms[i].Groups[g].End == want[i].Groups[g].End
		}
	}
	if !same {
		sig := "re:find-vs-model"
		if node.hasFoldPairClass() {
			// Go's regexp/syntax turns [Aa] into a case-folded literal and then factors it
			// with a neighbouring alternative starting with the same letter, dropping the fold:
			// regexp.MustCompile(`A|[Aa]..`).MatchString("aa-") is false (Go 1.23 standard library).
			sig = "re:find-vs-model:go-regexp-foldcase-class"
		}
		l.bad(sig, fmt.Sprintf("re:find %q %q = %s, the backtracking reference gives %s", p, t, obsStr(ms), wantStr(want)),
			map[string]any{"pattern": mon.Q(p), "t": mon.Q(t), "got": obsStr(ms), "want": wantStr(want)})
		return
	}
	l.c.Count("law_find_vs_model", 1)
	if len(ms) > 0 {
		l.c.Count("law_find_vs_model_with_matches", 1)
	}
	if ncap > 0 && len(ms) > 0 {
		l.c.Count("law_find_groups_checked", 1)
	}
	l.agree(p, t, ms, nil, ncap, names, true)
	// &longest / &posix: internal agreement of find, replace and split
	if r.Intn(3) == 0 {
		extra := map[string]any{"longest": true}
		if r.Intn(2) == 0 {
			extra = map[string]any{"posix": true}
			if node.hasPerlOnly() {
				return
			}
		}
		ml, ok := l.find(p, t, extra)
		if ok && l.consistent(p, t, ml, true) {
			l.agree(p, t, ml, extra, ncap, names, false)
			l.c.Count("law_longest_or_posix_agreement", 1)
		}
	}
}

// hasFoldPairClass: the pattern contains a class that is exactly an upper/lower case pair.
func (n *reNode) hasFoldPairClass() bool {
	if n.Kind == rClass && !n.Neg {
		set := map[rune]bool{}
		single := true
		for _, rg := range n.Ranges {
			if rg[0] != rg[1] {
				single = false
			}
			set[rg[0]] = true
		}
		if single && len(set) == 2 {
			var rs []rune
			for r := range set {
				rs = append(rs, r)
			}
			if unicode.ToLower(rs[0]) == unicode.ToLower(rs[1]) {
				return true
			}
		}
	}
	for _, s := range n.Subs {
		if s.hasFoldPairClass() {
			return true
		}
	}
	return false
}

// hasPerlOnly: constructs POSIX ERE syntax does not have (lazy operators, (?: ), (?P< >)).
func (n *reNode) hasPerlOnly() bool {
	if n.Kind == rRep && n.Lazy {
		return true
	}
	if n.Kind == rGroup && (n.Cap == 0 || n.Name != "") {
		return true
	}
	for _, s := range n.Subs {
		if s.hasPerlOnly() {
			return true
		}
	}
	return false
}

func obsStr(ms []obsMatch) string {
	s := ""
	for _, m := range ms {
		s += fmt.Sprintf("[%d,%d)", m.Start, m.End)
		for _, g := range m.Groups[1:] {
			s += fmt.Sprintf("(%d,%d)", g.Start, g.End)
		}
		s += " "
	}
	return s
}

func wantStr(ms []reMatch) string {
	s := ""
	for _, m := range ms {
		s += fmt.Sprintf("[%d,%d)", m.Start, m.End)
		for _, g := range m.Groups[1:] {
			s += fmt.Sprintf("(%d,%d)", g.Start, g.End)
		}
		s += " "
	}
	return s
}

// re:awk: documented as: for each line, call $f with the line followed by
// re:split $sep (str:trim $line " \t").
func (l *lawCtx) awkLaw() {
	r := l.r
	n := 1 + r.Intn(3)
	var lines []string
	var want []string
	for i := 0; i < n; i++ {
		line := fromPieces(r, []string{"a", "bc", " ", "  ", "\t", "好", "1", ",", " \t "}, 8)
		lines = append(lines, line)
		tr := mTrimRight(mTrimLeft(line, func(c rune) bool { return c == ' ' || c == '\t' }), func(c rune) bool { return c == ' ' || c == '\t' })
		want = append(want, line)
		// fields: pieces between maximal runs of blanks
		cur := ""
		for j := 0; j < len(tr); j++ {
			if tr[j] == ' ' || tr[j] == '\t' {
				if j == 0 || (tr[j-1] != ' ' && tr[j-1] != '\t') {
					want = append(want, cur)
					cur = ""
				}
			} else {
				cur += tr[j : j+1]
			}
		}
		want = append(want, cur)
	}
	out, err := viaCode("re:awk {|@a| put $@a } $lines", map[string]any{"lines": anyList(lines)})
	l.c.Count("calls_re:awk", 1)
	got, ok := strs(out)
	if err != nil || !ok || !sameStrs(got, want) {
		l.bad("re:awk", fmt.Sprintf("re:awk on %q calls the function with %v (err %v), documented equivalent gives %q", lines, elv.Reprs(out), err, want), map[string]any{"lines": qs(lines), "want": qs(want)})
	}
}

func runRe(c *mon.Case) {
	l := &lawCtx{c, c.Rand}
	for i := 0; i < 30; i++ {
		switch k := c.Rand.Intn(10); {
		case k < 4:
			l.quoteLaw()
		case k < 9:
			l.grammarLaw()
		default:
			l.awkLaw()
		}
	}
	c.Evals(30)
	c.Nontrivial("re", c.I)
}
