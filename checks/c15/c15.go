// Package c15 compares the real interpreter with a reference interpreter
// written from the language reference on generated core-language programs
// (property C15).
package c15

import (
	"hash/fnv"
	"os"
	"path/filepath"
	"sort"
	"strings"

	"verifharness/internal/mon"
	"verifharness/internal/refinterp"
)

var budget *refinterp.Budget

// interesting executed construct kinds reported as counters (and used for
// floors): the interactions the property is about.
var reported = []string{
	"pipeline", "call", "lambda", "try", "try-caught", "try-caught-flow", "try-else", "try-finally", "finally-replaces",
	"for", "while", "loop-break", "loop-continue", "loop-else", "each", "each-pipe", "each-break", "each-continue",
	"return-captured", "flow-break", "flow-continue", "flow-return", "fail", "fail-rethrow",
	"and", "or", "coalesce", "short-circuit", "if-multi-cond", "elif-taken",
	"rest-arg", "option-given", "rest-lvalue", "arity-error", "assign-arity-error", "unknown-option-error",
	"range-error", "nokey-error", "div0-error", "num-type-error", "concat-error", "call-noncallable", "index-type-error",
	"compound-product", "index-multi", "braced", "explode", "slice", "negative-index", "set-element", "del",
	"capture", "capture-bytes", "exc-capture", "exc-reason", "tmp", "with", "defer", "deferred-run", "restore",
	"order", "order-reverse", "keys", "take", "drop", "count", "assoc", "dissoc", "conj", "has-key", "range", "range-step",
	"uncomparable-error", "keep-if", "compact", "arith", "num-compare", "eq",
	"index-on-empty", "index-on-empty-list", "index-on-empty-string", "index-on-empty-map", "compound-with-index", "string-index", "map-index",
}

func nontrivial(kinds map[string]int) bool {
	n := 0
	for k := range kinds {
		if !strings.HasPrefix(k, "cmd:") {
			n++
		}
	}
	if n < 3 {
		return false
	}
	flowInLoop := kinds["loop-break"]+kinds["loop-continue"]+kinds["each-break"]+kinds["each-continue"]+kinds["return-captured"] > 0
	return kinds["call"] > 0 || kinds["try"] > 0 || flowInLoop || kinds["pipeline"] > 0
}

func hashStr(s string) uint64 {
	h := fnv.New64a()
	h.Write([]byte(s))
	return h.Sum64()
}

func record(c *mon.Case, p *refinterp.Program, v refinterp.Verdict, phase string) {
	switch v.Status {
	case "agree":
		c.Count("compared", 1)
		c.Count("values_compared", len(v.Model.Values))
		if v.Model.Exc != "" {
			c.Count("compared_ending_in_exception", 1)
			cat := v.Model.Exc
			if i := strings.IndexAny(cat, ":{"); i > 0 {
				cat = cat[:i]
			}
			c.Count("exc_"+cat, 1)
		}
		if v.Model.Bytes != "" {
			c.Count("compared_with_byte_output", 1)
		}
		for _, k := range reported {
			if n := v.Model.Kinds[k]; n > 0 {
				c.Count("k_"+k, n)
				c.Count("p_"+k, 1)
			}
		}
		// boundary shapes of the inputs the stream/container builtins received
		for k, n := range v.Model.Kinds {
			if strings.HasPrefix(k, "shape:") || strings.HasPrefix(k, "stream:") || strings.HasPrefix(k, "count-arg:") || strings.HasPrefix(k, "mapshape:") {
				c.Count(k, n)
			}
		}
		if nontrivial(v.Model.Kinds) || phase == "streams" && len(v.Model.Values) > 0 {
			c.Nontrivial(hashStr(p.Source()))
		}
		c.Sample(phase, map[string]any{"source": p.Source(), "values": v.Model.Values, "bytes": v.Model.Bytes, "exception": v.Model.Exc})
	case "mismatch":
		c.Count("compared", 1)
		c.Count("mismatches", 1)
		c.Violation(v.Sig, v.What, v.Witness)
	case "unspecified":
		c.Count("discarded_unspecified", 1)
		c.Distinct("unspecified_reasons", v.Why)
	case "racy":
		c.Count("discarded_scheduling_dependent", 1)
	case "budget":
		c.Count("discarded_step_budget", 1)
	case "static-error":
		// the generator produced a program the reference rejects statically:
		// a fault of the harness, never of elvish
		c.Count("generator_static_error", 1)
		c.Inconclusive("generator-static-error")
	case "timeout":
		c.Inconclusive("elvish-timeout")
	}
}

// runStreams: value-stream and container builtins on boundary-shaped inputs.
func runStreams(c *mon.Case) {
	p := refinterp.NewGen(c.Rand, refinterp.GenConfig{}).StreamProgram()
	record(c, p, refinterp.Check(p, budget), "streams")
}

func runGenerated(ill bool, phase string) func(c *mon.Case) {
	return func(c *mon.Case) {
		cfg := refinterp.GenConfig{IllTyped: ill}
		switch c.I % 4 {
		case 0:
			cfg.MaxForms = 16
		case 1, 2:
			cfg.MaxForms = 40
		default:
			cfg.MaxForms = 70
			cfg.MaxDepth = 6
		}
		g := refinterp.NewGen(c.Rand, cfg)
		p := g.Program()
		v := refinterp.Check(p, budget)
		record(c, p, v, phase)
	}
}

// ---------------------------------------------------------------------------
// calibration corpus: the snippets of the repository's own transcript tests
// that fall inside the modelled subset are compared as well.

func repoDir() string {
	if d := os.Getenv("VERIF_REPO"); d != "" {
		return d
	}
	return "/repo"
}

func transcriptFiles() []string {
	fs, _ := filepath.Glob(filepath.Join(repoDir(), "pkg/eval/*_test.elvts"))
	sort.Strings(fs)
	// the examples of the reference itself and of the builtin docs
	docs, _ := filepath.Glob(filepath.Join(repoDir(), "pkg/eval/*.d.elv"))
	sort.Strings(docs)
	fs = append(fs, filepath.Join(repoDir(), "website/ref/language.md"))
	return append(fs, docs...)
}

// docSections turns the ```elvish-transcript blocks of a Markdown file or of
// a .d.elv file (where the Markdown is in comments) into transcript text with
// one section per block.
func docSections(text string, commented bool) string {
	var out []string
	in := false
	for _, line := range strings.Split(text, "\n") {
		if commented {
			if !strings.HasPrefix(line, "#") {
				in = false
				continue
			}
			line = strings.TrimPrefix(strings.TrimPrefix(line, "#"), " ")
		}
		t := strings.TrimSpace(line)
		switch {
		case strings.HasPrefix(t, "```elvish-transcript"):
			in = true
			out = append(out, "# block")
		case strings.HasPrefix(t, "```"):
			in = false
		case in:
			// blocks nested in list items are indented
			out = append(out, strings.TrimPrefix(strings.TrimPrefix(line, "    "), "    "))
		}
	}
	return strings.Join(out, "\n")
}

// sections extracts the code of every "~> code" entry, grouped per section.
func sections(text string) [][]string {
	var secs [][]string
	var cur, code []string
	flush := func() {
		if len(code) > 0 {
			cur = append(cur, strings.Join(code, "\n"))
			code = nil
		}
	}
	for _, line := range strings.Split(text, "\n") {
		switch {
		case strings.HasPrefix(line, "#") || strings.HasPrefix(line, "//"):
			flush()
			if strings.HasPrefix(line, "#") && len(cur) > 0 {
				secs = append(secs, cur)
				cur = nil
			}
		case strings.HasPrefix(line, "~> "):
			flush()
			code = []string{line[3:]}
		case strings.HasPrefix(line, "   ") && len(code) > 0:
			code = append(code, line[3:])
		default:
			flush()
		}
	}
	flush()
	if len(cur) > 0 {
		secs = append(secs, cur)
	}
	return secs
}

func runTranscripts(c *mon.Case) {
	files := transcriptFiles()
	if c.I >= len(files) {
		return
	}
	b, err := os.ReadFile(files[c.I])
	if err != nil {
		c.Inconclusive("transcript-unreadable")
		return
	}
	text := string(b)
	switch {
	case strings.HasSuffix(files[c.I], ".md"):
		text = docSections(text, false)
	case strings.HasSuffix(files[c.I], ".d.elv"):
		text = docSections(text, true)
	}
	for _, sec := range sections(text) {
		for k := range sec {
			src := strings.Join(sec[:k+1], "\n")
			p, err := refinterp.FromSource(src)
			if err != nil {
				c.Count("transcript_outside_subset", 1)
				continue
			}
			if refinterp.Resolve(p) != nil {
				c.Count("transcript_outside_subset", 1)
				continue
			}
			// the transcripts also test compile-time rejections that the
			// reference resolver does not model (invalid names, bodies with
			// arguments, ...): a snippet the real interpreter rejects
			// statically is outside the subset
			if r := refinterp.RunReal(src, budget.Timeout); r.Status == "parse-error" || r.Status == "compile-error" {
				c.Count("transcript_outside_subset", 1)
				continue
			}
			c.Evals(1)
			v := refinterp.Check(p, budget)
			if v.Status == "static-error" {
				c.Count("transcript_outside_subset", 1)
				continue
			}
			if v.Status == "agree" {
				c.Count("transcript_snippets_compared", 1)
			}
			record(c, p, v, "transcript")
		}
	}
}

// Spec returns the check.
func Spec() *mon.Spec {
	return &mon.Spec{
		ID: "C15", Level: "exploration",
		Rule: "case = one random program printed from a generated syntax tree (type-directed; own AST, the Elvish parser is not part of the oracle): variables/shadowing/closures, compounding and braced lists, list/map literals, (multi-)indexing and slices, small exact arithmetic and simple floats, comparison, if/while/for with else, break/continue/return (also raised inside functions), try/catch/else/finally, fail and rethrow, and/or/coalesce, functions with positional/rest arguments and options (arity and option errors), output and exception capture, tmp/with/defer, pipelines of value-stream builtins; programs of 16/40/70 forms, nesting <= 6, loops <= 5 iterations per level. Both sides run the program; value outputs (canonical repr, maps order-free), byte output and the category of the uncaught exception are compared. Programs on which the reference interpreter leaves the documented subset (\"unspecified\"), or whose result depends on pipeline scheduling, are discarded and counted. Phase illTyped breaks the static types in ~4% of the expressions. Phase transcripts runs every cumulative prefix of each section of pkg/eval/*_test.elvts that lies inside the subset. Phase streams applies every covered value-stream and container builtin (each, range, take, drop, count, all, order, compact, keep-if, make-map, keys, has-key, has-value, assoc, dissoc, conj, indexing) to boundary-shaped inputs: lists of length 0/1/2/few, $nil/$true/$false as first, last or only element, runs of equal elements at the start/middle/end, both calling conventions (pipeline input and iterable argument), counts 0/1/len/len+1 for take and drop, empty and single-entry maps; the shapes actually received are counted by the reference interpreter (counters shape:*, stream:<builtin>:*, count-arg:*, mapshape:*) and have floors. Non-trivial = compared program (of phase streams: with at least one output) that executed >= 3 distinct construct kinds including a closure call, a try, a loop exited by break/continue/return or a pipeline; distinct by source text.",
		Assumptions: []string{
			"arguments of an ordinary command are evaluated left to right (the reference only says so for special commands)",
			"`or`/`and`/`coalesce` output the last value when no value terminates them (documented by example for `and a b c` and `coalesce $nil $nil`)",
			"a `for` variable that does not exist yet is only used inside the loop body; an existing variable is assigned and keeps the last element",
			"`order` raises when any two inputs cannot be compared (every comparison sort must compare the elements that end up adjacent); `order &reverse` is only used when equal keys belong to indistinguishable values",
			"`keys` of a map with more than one key is only observed through `order` or `count` (key order is unspecified)",
			"exception categories compared: fail(payload), flow(name), arity, unknown-option, out-of-range, no-such-key, division-by-zero, pipeline(multiset), and one catch-all category for every other documented bad-value/type error",
			"excluded as unspecified (program discarded when reached): number syntax beyond plain decimal integers/decimals/fractions, non-ASCII string indexing, eq of exact and inexact numbers of equal value, iterating strings with for, element assignment with several lvalues, with/tmp whose assignment part raises, flow commands raised from deferred callbacks, order &less-than/&total, indexing/assoc on kinds of values the reference does not list, `with x[k] = v { }` in the non-bracketed syntax (rejected by the compiler: the first argument must not be a compound expression)",
			"results that depend on pipeline scheduling are discarded: a stage whose reader stops early may be terminated at any later write, so such a stage must not raise or run handlers after that point, and no variable may be written in one stage and accessed in another",
		},
		ChildSetup: func(e *mon.Env) { budget = refinterp.NewBudget() },
		Phases: []mon.Phase{
			{Name: "wellTyped", Quick: 16000, Thorough: 240000, Run: runGenerated(false, "wellTyped")},
			{Name: "illTyped", Quick: 6000, Thorough: 80000, Run: runGenerated(true, "illTyped")},
			{Name: "transcripts", Quick: 45, Thorough: 45, Run: runTranscripts, Batch: 3},
			{Name: "streams", Quick: 4000, Thorough: 60000, Run: runStreams},
		},
		Floors: map[string]int{
			"compared": 6000, "distinct_nontrivial": 5000, "values_compared": 80000, "compared_ending_in_exception": 3000,
			"transcript_snippets_compared": 100,
			"p_pipeline": 2500, "p_call": 4000, "p_lambda": 4000, "p_try-caught": 2000, "p_try-caught-flow": 200, "p_try-else": 300,
			"p_finally-replaces": 60, "p_loop-break": 50, "p_loop-continue": 50, "p_loop-else": 250, "p_each-break": 60,
			"p_each-continue": 60, "p_return-captured": 30, "p_short-circuit": 1000, "p_rest-arg": 150, "p_option-given": 70,
			"p_arity-error": 500, "p_unknown-option-error": 400, "p_range-error": 1500, "p_nokey-error": 500, "p_div0-error": 350,
			"p_compound-product": 500, "p_index-multi": 1200, "p_tmp": 800, "p_with": 1200, "p_defer": 800, "p_rest-lvalue": 800,
			"p_set-element": 500, "p_exc-capture": 2500, "p_fail-rethrow": 300,
			// boundary-shaped inputs of the stream and container builtins
			"shape:empty": 1000, "shape:single": 1000, "shape:two": 2000, "shape:nil-first": 4000, "shape:nil-last": 2500,
			"shape:only-nil": 2000, "shape:bool-elem": 2500, "shape:run-start": 5000, "shape:run-middle": 1500, "shape:run-end": 4000,
			"shape:run-end-only": 900, "shape:all-equal": 3000, "shape:from-pipe": 5000, "shape:from-arg": 8000,
			"count-arg:0": 300, "count-arg:1": 300, "count-arg:len": 300, "count-arg:len+1": 300, "mapshape:empty": 60, "mapshape:single": 80,
			"stream:compact:nil-first": 200, "stream:compact:empty": 60, "stream:compact:pipe": 400, "stream:compact:arg": 400, "stream:compact:run-start": 500,
			"stream:take:nil-first": 200, "stream:take:empty": 60, "stream:take:pipe": 400, "stream:take:arg": 200,
			"stream:drop:nil-first": 200, "stream:drop:empty": 60, "stream:drop:pipe": 400, "stream:drop:arg": 200,
			"stream:count:nil-first": 200, "stream:count:empty": 60, "stream:count:pipe": 400, "stream:count:arg": 200,
			"stream:all:nil-first": 200, "stream:all:empty": 60, "stream:all:pipe": 400, "stream:all:arg": 400,
			"stream:order:nil-first": 200, "stream:order:empty": 60, "stream:order:pipe": 400, "stream:order:arg": 400,
			"stream:each:nil-first": 200, "stream:each:empty": 50, "stream:each:pipe": 400, "stream:each:arg": 400,
			"stream:keep-if:nil-first": 200, "stream:keep-if:empty": 50, "stream:keep-if:pipe": 400, "stream:keep-if:arg": 400,
			"stream:make-map:pipe": 250, "stream:make-map:arg": 250, "stream:make-map:empty": 30,
			"stream:conj:nil-first": 150, "stream:conj:empty": 35, "stream:assoc:nil-first": 150, "stream:assoc:empty": 30,
			"stream:has-key:nil-first": 150, "stream:has-key:empty": 35, "stream:has-value:nil-first": 150, "stream:has-value:empty": 35,
			"stream:keys:empty-map": 10, "stream:has-key:empty-map": 10, "stream:dissoc:empty-map": 10, "stream:assoc:empty-map": 10,
			"p_index-on-empty-list": 300, "p_index-on-empty-string": 300, "p_index-on-empty-map": 300, "p_compound-with-index": 700,
			"exc_fail": 250, "exc_flow": 200, "exc_arity": 600, "exc_range": 1000, "exc_type": 900, "exc_nokey": 200, "exc_div0": 80, "exc_unknown-option": 100,
		},
	}
}
