// Package c32 monitors the editor's event loop (property C32) with a trace
// specification over logical-clock stamps recorded at the loop's boundary.
package c32

import (
	"errors"
	"fmt"
	"math/rand"
	"runtime"
	"sort"
	"strings"
	"sync"
	"sync/atomic"
	"time"

	"src.elv.sh/pkg/cli"
	"verifharness/internal/mon"
)

// ---------------------------------------------------------------------------
// trace

type opKind byte

const (
	opInput opKind = iota
	opRedraw
	opRedrawFull
	opReturn
	opYield
)

type op struct {
	kind opKind
	id   int // input id / return id
	n    int // yields
}

// callRec is one completed boundary call made by a producer or by a callback.
type callRec struct {
	kind      opKind
	id        int
	call, ret uint64
	who       int // producer index, or -1 = from inside a callback
	seq       int // per-producer sequence number (inputs)
}

type cbRec struct {
	handle      bool
	id          int // handled event id
	full, final bool
	enter, exit uint64
}

type scenario struct {
	c     *mon.Case
	lp    *cli.VerifLoop
	clock atomic.Uint64
	depth atomic.Int32 // callbacks currently running
	maxD  atomic.Int32

	// owned by the loop goroutine (callbacks); read after Run returned or at a census
	cbs     []cbRec
	cbCalls []callRec
	shared  int // deliberately unsynchronised: callbacks may share state without locks
	// handlers in which HasReturned() was false right after calling Return (loop goroutine only)
	notReturned []int
	cbMu    sync.Mutex

	// per-producer records, owned by the producer until it is joined
	prod [][]callRec

	plan     map[int]op // action a handle callback takes for a given event id
	// action the n-th redraw callback takes (a few entries only, so that redraws cannot feed themselves forever)
	redrawPlan map[int]op
	nRedraws   int
	planMu   sync.RWMutex
	slowCb   int        // percentage of callbacks that yield
	retErr   error
	done     chan struct{}
	gid      atomic.Value // goroutine id of the goroutine that runs the loop
	runBuf   string
	runErr   error
	runRet   uint64
	runStart uint64
	log      []string
	failed   bool
}

func (s *scenario) tick() uint64 { return s.clock.Add(1) }

func (s *scenario) violation(sig, what string, extra map[string]any) {
	if s.failed {
		return
	}
	s.failed = true
	w := map[string]any{"scenario": s.log, "trace": s.dump()}
	for k, v := range extra {
		w[k] = v
	}
	s.c.Violation(sig, what, w)
}

func bufOf(id int) string { return fmt.Sprintf("buffer-%d", id) }

func (s *scenario) doCall(o op, who, seq int, recs *[]callRec) {
	r := callRec{kind: o.kind, id: o.id, who: who, seq: seq}
	switch o.kind {
	case opInput:
		r.call = s.tick()
		s.lp.Input(o.id)
		r.ret = s.tick()
	case opRedraw, opRedrawFull:
		r.call = s.tick()
		s.lp.Redraw(o.kind == opRedrawFull)
		r.ret = s.tick()
	case opReturn:
		r.call = s.tick()
		s.lp.Return(bufOf(o.id), s.retErr)
		r.ret = s.tick()
	case opYield:
		for i := 0; i < o.n; i++ {
			runtime.Gosched()
		}
		if o.n > 6 {
			time.Sleep(time.Duration(o.n) * 10 * time.Microsecond)
		}
		return
	}
	*recs = append(*recs, r)
}

func (s *scenario) enterCb() uint64 {
	d := s.depth.Add(1)
	if d > s.maxD.Load() {
		s.maxD.Store(d)
	}
	s.shared++
	return s.tick()
}

func (s *scenario) handle(ev any) {
	enter := s.enterCb()
	id, _ := ev.(int)
	s.planMu.RLock()
	o, ok := s.plan[id]
	s.planMu.RUnlock()
	if ok {
		s.doCall(o, -1, 0, &s.cbCalls)
		if o.kind == opReturn && !s.lp.HasReturned() {
			s.notReturned = append(s.notReturned, id)
		}
	}
	if id%100 < s.slowCb {
		runtime.Gosched()
		if id%7 == 0 {
			time.Sleep(20 * time.Microsecond)
		}
	}
	s.shared++
	exit := s.tick()
	s.cbMu.Lock()
	s.cbs = append(s.cbs, cbRec{handle: true, id: id, enter: enter, exit: exit})
	s.cbMu.Unlock()
	s.depth.Add(-1)
}

func (s *scenario) redraw(full, final bool) {
	enter := s.enterCb()
	if o, ok := s.redrawPlan[s.nRedraws]; ok && !final {
		s.doCall(o, -1, 0, &s.cbCalls)
	}
	s.nRedraws++
	if int(enter)%100 < s.slowCb {
		runtime.Gosched()
		if enter%5 == 0 {
			time.Sleep(20 * time.Microsecond)
		}
	}
	s.shared++
	exit := s.tick()
	s.cbMu.Lock()
	s.cbs = append(s.cbs, cbRec{full: full, final: final, enter: enter, exit: exit})
	s.cbMu.Unlock()
	s.depth.Add(-1)
}

func (s *scenario) dump() []string {
	type ev struct {
		t uint64
		s string
	}
	var evs []ev
	kind := func(k opKind) string {
		return [...]string{"Input", "Redraw(false)", "Redraw(true)", "Return", "yield"}[k]
	}
	add := func(rs []callRec) {
		for _, r := range rs {
			who := fmt.Sprintf("p%d", r.who)
			if r.who < 0 {
				who = "callback"
			}
			evs = append(evs, ev{r.call, fmt.Sprintf("%d %s call %s #%d", r.call, who, kind(r.kind), r.id)})
			evs = append(evs, ev{r.ret, fmt.Sprintf("%d %s ret  %s #%d", r.ret, who, kind(r.kind), r.id)})
		}
	}
	for _, p := range s.prod {
		add(p)
	}
	s.cbMu.Lock()
	add(s.cbCalls)
	for _, cb := range s.cbs {
		if cb.handle {
			evs = append(evs, ev{cb.enter, fmt.Sprintf("%d..%d handle #%d", cb.enter, cb.exit, cb.id)})
		} else {
			evs = append(evs, ev{cb.enter, fmt.Sprintf("%d..%d redraw full=%v final=%v", cb.enter, cb.exit, cb.full, cb.final)})
		}
	}
	s.cbMu.Unlock()
	if s.runRet != 0 {
		evs = append(evs, ev{s.runRet, fmt.Sprintf("%d Run returned %q", s.runRet, s.runBuf)})
	}
	sort.Slice(evs, func(i, j int) bool { return evs[i].t < evs[j].t })
	if len(evs) > 400 {
		evs = append(evs[:200], evs[len(evs)-200:]...)
	}
	out := make([]string, len(evs))
	for i, e := range evs {
		out[i] = e.s
	}
	return out
}

// ---------------------------------------------------------------------------
// observing the loop goroutine

// goroutineID returns the id of the calling goroutine.
func goroutineID() string {
	var b [64]byte
	f := strings.Fields(string(b[:runtime.Stack(b[:], false)]))
	if len(f) >= 2 {
		return f[1]
	}
	return "?"
}

// loopState returns the scheduler state of this scenario's loop goroutine
// ("select" = parked in Run's select with nothing ready; its callbacks never
// select), or "" if it is not inside Run.
func (s *scenario) loopState() string {
	gid, _ := s.gid.Load().(string)
	if gid == "" {
		return ""
	}
	buf := make([]byte, 256<<10)
	for {
		n := runtime.Stack(buf, true)
		if n < len(buf) {
			buf = buf[:n]
			break
		}
		buf = make([]byte, 2*len(buf))
	}
	prefix := "goroutine " + gid + " ["
	for _, blk := range strings.Split(string(buf), "\n\n") {
		if !strings.HasPrefix(blk, prefix) || !strings.Contains(blk, "pkg/cli.(*loop).Run(") {
			continue
		}
		head := blk
		if i := strings.IndexByte(blk, '\n'); i >= 0 {
			head = blk[:i]
		}
		st := head[len(prefix):]
		if i := strings.IndexAny(st, ",]"); i >= 0 {
			st = st[:i]
		}
		return st
	}
	return ""
}

// waitParked waits until the loop goroutine is parked in its select (then,
// and only then, nothing that was put into its channels earlier is pending),
// or Run has returned.
func (s *scenario) waitParked() string {
	deadline := time.Now().Add(60 * time.Second)
	pause := 20 * time.Microsecond
	for {
		select {
		case <-s.done:
			return "done"
		default:
		}
		if s.loopState() == "select" {
			return "parked"
		}
		if time.Now().After(deadline) {
			return "timeout"
		}
		time.Sleep(pause)
		if pause < 2*time.Millisecond {
			pause *= 2
		}
	}
}

// ---------------------------------------------------------------------------
// trace specification

func (s *scenario) allCalls() []callRec {
	var all []callRec
	for _, p := range s.prod {
		all = append(all, p...)
	}
	s.cbMu.Lock()
	all = append(all, s.cbCalls...)
	s.cbMu.Unlock()
	return all
}

func (s *scenario) callbacks() []cbRec {
	s.cbMu.Lock()
	cbs := append([]cbRec(nil), s.cbs...)
	s.cbMu.Unlock()
	sort.Slice(cbs, func(i, j int) bool { return cbs[i].enter < cbs[j].enter })
	return cbs
}

// census is taken with all producers joined and the loop parked: every input
// must have been handled and every redraw request honoured.
func (s *scenario) census() {
	calls := s.allCalls()
	cbs := s.callbacks()
	handled := map[int]int{}
	var lastRedraw, lastFull uint64
	for _, cb := range cbs {
		if cb.handle {
			handled[cb.id]++
		} else {
			lastRedraw = cb.enter
			if cb.full {
				lastFull = cb.enter
			}
		}
	}
	for _, r := range calls {
		switch r.kind {
		case opInput:
			if handled[r.id] == 0 {
				s.violation("input:lost", fmt.Sprintf("input #%d was accepted (Input returned at %d) but the loop went idle without handling it", r.id, r.ret), nil)
				return
			}
		case opRedraw, opRedrawFull:
			if lastRedraw < r.call {
				s.violation("redraw:lost", fmt.Sprintf("Redraw requested at %d; the loop went idle without starting a redraw after it (last redraw started at %d)", r.call, lastRedraw), nil)
				return
			}
			if r.kind == opRedrawFull && lastFull < r.call {
				s.violation("redraw:full-downgraded", fmt.Sprintf("full redraw requested at %d; the loop went idle and the last full redraw started at %d", r.call, lastFull), nil)
				return
			}
			s.c.Count("redraw_requests_checked_at_idle", 1)
			if r.kind == opRedrawFull {
				s.c.Count("full_requests_checked_at_idle", 1)
			}
		}
	}
	s.c.Count("idle_censuses", 1)
}

// checkTrace applies S1, S2 (order, at most once), S4 after Run has returned.
func (s *scenario) checkTrace() {
	calls := s.allCalls()
	cbs := s.callbacks()
	if s.maxD.Load() > 1 {
		s.violation("serial:callbacks-overlap", fmt.Sprintf("%d callbacks were running at the same time", s.maxD.Load()), nil)
		return
	}
	if len(s.notReturned) > 0 {
		s.violation("return:has-returned-false-after-return", fmt.Sprintf("HasReturned() was false right after Return was called inside the handler of #%d", s.notReturned[0]), nil)
		return
	}
	// S1: disjoint intervals; S4: exactly one final redraw, last
	finals := 0
	for i, cb := range cbs {
		if i > 0 && cbs[i-1].exit > cb.enter {
			s.violation("serial:callbacks-overlap", fmt.Sprintf("callback entered at %d before the previous one exited at %d", cb.enter, cbs[i-1].exit), nil)
			return
		}
		if cb.final {
			finals++
			if i != len(cbs)-1 {
				s.violation("final:callback-after-final-redraw", "a callback ran after the final redraw", nil)
				return
			}
			if cb.handle {
				s.violation("harness:final-on-handle", "impossible", nil)
				return
			}
		}
	}
	if finals != 1 {
		s.violation("final:not-exactly-one-final-redraw", fmt.Sprintf("%d final redraws before Run returned", finals), nil)
		return
	}
	if last := cbs[len(cbs)-1]; last.exit > s.runRet {
		s.violation("final:run-returned-before-final-redraw-ended", "Run returned while the final redraw was still running", nil)
		return
	}
	// S2
	inputs := map[int]callRec{}
	for _, r := range calls {
		if r.kind == opInput {
			inputs[r.id] = r
		}
	}
	seen := map[int]bool{}
	var order []callRec
	afterCbReturn := false
	for _, cb := range cbs {
		if !cb.handle {
			continue
		}
		if afterCbReturn {
			s.violation("return:event-handled-after-handler-called-return", fmt.Sprintf("event #%d was handled although an earlier handler had already called Return", cb.id), nil)
			return
		}
		in, ok := inputs[cb.id]
		if !ok {
			s.violation("input:invented", fmt.Sprintf("the handler received event #%d, which was never sent (or whose Input call never returned)", cb.id), nil)
			return
		}
		if seen[cb.id] {
			s.violation("input:handled-twice", fmt.Sprintf("event #%d was handled twice", cb.id), nil)
			return
		}
		if in.call > cb.enter {
			s.violation("input:handled-before-sent", fmt.Sprintf("event #%d handled at %d before Input was called at %d", cb.id, cb.enter, in.call), nil)
			return
		}
		seen[cb.id] = true
		order = append(order, in)
		if o, ok := s.plan[cb.id]; ok && o.kind == opReturn {
			afterCbReturn = true
		}
	}
	// arrival order: a fully enqueued before b's enqueue began => a handled before b
	lastSeq := map[int]int{}
	for _, in := range order {
		if q, ok := lastSeq[in.who]; ok && q > in.seq {
			s.violation("order:same-producer-reordered", fmt.Sprintf("producer %d sent #%d before another of its events that was handled earlier", in.who, in.id), nil)
			return
		}
		lastSeq[in.who] = in.seq
	}
	minLaterRet := ^uint64(0)
	minLaterID := -1
	for id, in := range inputs { // unhandled inputs count as "handled later than everything"
		if !seen[id] && in.ret < minLaterRet {
			minLaterRet, minLaterID = in.ret, id
		}
	}
	unhandledMinRet, unhandledID := minLaterRet, minLaterID
	for i := len(order) - 1; i >= 0; i-- {
		b := order[i]
		if minLaterRet < b.call {
			if minLaterID == unhandledID && minLaterRet == unhandledMinRet {
				s.violation("order:earlier-event-skipped", fmt.Sprintf("event #%d was completely enqueued (at %d) before Input of #%d began (at %d), yet #%d was handled and #%d never", minLaterID, minLaterRet, b.id, b.call, b.id, minLaterID), nil)
			} else {
				s.violation("order:cross-producer-reordered", fmt.Sprintf("event #%d was completely enqueued (at %d) before Input of #%d began (at %d), yet #%d was handled first", minLaterID, minLaterRet, b.id, b.call, b.id), nil)
			}
			return
		}
		if b.ret < minLaterRet {
			minLaterRet, minLaterID = b.ret, b.id
		}
	}
	// S4: the returned value
	var rets []callRec
	for _, r := range calls {
		if r.kind == opReturn {
			rets = append(rets, r)
		}
	}
	var won *callRec
	for i := range rets {
		if bufOf(rets[i].id) == s.runBuf {
			won = &rets[i]
		}
	}
	if won == nil {
		s.violation("return:value-invented", fmt.Sprintf("Run returned %q, which no Return call passed", s.runBuf), nil)
		return
	}
	if s.runErr != s.retErr {
		s.violation("return:error-changed", fmt.Sprintf("Run returned error %v, Return was called with %v", s.runErr, s.retErr), nil)
		return
	}
	if won.call > s.runRet {
		s.violation("return:before-requested", "Run returned before the winning Return call began", nil)
		return
	}
	for _, r := range rets {
		if r.id != won.id && r.ret < won.call {
			s.violation("return:not-first-committed", fmt.Sprintf("Run returned the value of Return #%d (called at %d) although Return #%d had completed earlier (at %d)", won.id, won.call, r.id, r.ret), nil)
			return
		}
	}
	s.c.Count("handled_events", len(order))
	s.c.Count("unhandled_at_return", len(inputs)-len(order))
	s.c.Count("return_calls", len(rets))
	s.c.Count("callbacks", len(cbs))
}

// ---------------------------------------------------------------------------
// scenarios

func genOps(r *rand.Rand, n int, nextID *int, pRedraw, pReturn int) []op {
	var ops []op
	for i := 0; i < n; i++ {
		switch k := r.Intn(100); {
		case k < pReturn:
			*nextID++
			ops = append(ops, op{kind: opReturn, id: *nextID})
		case k < pReturn+pRedraw:
			if r.Intn(3) == 0 {
				ops = append(ops, op{kind: opRedrawFull})
			} else {
				ops = append(ops, op{kind: opRedraw})
			}
		case k < pReturn+pRedraw+12:
			ops = append(ops, op{kind: opYield, n: 1 + r.Intn(10)})
		default:
			*nextID++
			ops = append(ops, op{kind: opInput, id: *nextID})
		}
	}
	return ops
}

func describe(ops []op) string {
	var sb strings.Builder
	for _, o := range ops {
		switch o.kind {
		case opInput:
			fmt.Fprintf(&sb, "I%d ", o.id)
		case opRedraw:
			sb.WriteString("r ")
		case opRedrawFull:
			sb.WriteString("R ")
		case opReturn:
			fmt.Fprintf(&sb, "RET%d ", o.id)
		case opYield:
			fmt.Fprintf(&sb, "y%d ", o.n)
		}
	}
	return sb.String()
}

var errCommitted = errors.New("harness error value")

// poisoned is set when a scenario could not be wound up; later cases of this
// process would then run next to stale goroutines, so they are skipped.
var poisoned bool

func (s *scenario) abandon() {
	s.lp.Return("abandoned", nil)
	select {
	case <-s.done:
	case <-time.After(60 * time.Second):
		poisoned = true
	}
}

func runScenario(c *mon.Case) {
	if poisoned {
		c.Inconclusive("process-poisoned-by-earlier-timeout")
		return
	}
	r := c.Rand
	s := &scenario{c: c, lp: cli.VerifNewLoop(), plan: map[int]op{}, done: make(chan struct{})}
	s.slowCb = []int{0, 10, 50, 100}[r.Intn(4)]
	if r.Intn(3) == 0 {
		s.retErr = errCommitted
	}
	s.redrawPlan = map[int]op{}
	for k := r.Intn(6); k > 0; k-- {
		kind := opRedraw
		if r.Intn(2) == 0 {
			kind = opRedrawFull
		}
		s.redrawPlan[r.Intn(40)] = op{kind: kind}
	}
	s.lp.HandleCb(s.handle)
	s.lp.RedrawCb(s.redraw)

	early := r.Intn(3) == 0 // Return requests race with the other traffic
	stages := 1 + r.Intn(3)
	nextID := 0
	// sometimes requests are made before the loop runs
	var pre []callRec
	if r.Intn(4) == 0 {
		for _, o := range genOps(r, 1+r.Intn(4), &nextID, 50, 0) {
			s.doCall(o, 0, 0, &pre)
		}
		s.log = append(s.log, "before Run: requests made")
	}
	startLoop := func() {
		go func() {
			s.gid.Store(goroutineID())
			s.runStart = s.tick()
			buf, err := s.lp.Run()
			s.runBuf, s.runErr = buf, err
			s.runRet = s.tick()
			close(s.done)
		}()
	}
	startLoop()
	totalInputs := 0
	returned := false
	seqBase := len(pre)
	for st := 0; st < stages && !s.failed; st++ {
		np := 2 + r.Intn(5)
		perProd := 2 + r.Intn(14)
		if !early && r.Intn(6) == 0 {
			perProd = 40 + r.Intn(60) // enough to fill the 128-slot buffer while the handler is slow
		}
		pReturn := 0
		if early {
			pReturn = 4
			if totalInputs+np*perProd > 110 { // unhandled inputs must fit the buffer once the loop is gone
				perProd = (110 - totalInputs) / np
			}
		}
		if perProd <= 0 {
			break
		}
		plans := make([][]op, np)
		s.planMu.Lock()
		for p := range plans {
			plans[p] = genOps(r, perProd, &nextID, 25, pReturn)
			for _, o := range plans[p] {
				if o.kind == opInput {
					totalInputs++
					// what the handler does when it sees this event
					switch k := r.Intn(100); {
					case k < 8:
						s.plan[o.id] = op{kind: opRedraw}
					case k < 14:
						s.plan[o.id] = op{kind: opRedrawFull}
					case k < 16 && early:
						nextID++
						s.plan[o.id] = op{kind: opReturn, id: nextID}
					}
				}
			}
			s.log = append(s.log, fmt.Sprintf("stage %d producer %d: %s", st, p, describe(plans[p])))
		}
		s.planMu.Unlock()
		base := len(s.prod)
		s.prod = append(s.prod, make([][]callRec, np)...)
		if st == 0 && len(pre) > 0 {
			s.prod[base] = pre
		}
		var wg sync.WaitGroup
		for p := 0; p < np; p++ {
			wg.Add(1)
			go func(p int) {
				defer wg.Done()
				recs := s.prod[base+p]
				for i, o := range plans[p] {
					s.doCall(o, base+p, seqBase+i, &recs)
				}
				s.prod[base+p] = recs
			}(p)
		}
		wg.Wait()
		c.Count("producer_ops", np*perProd)
		// quiescent point: no stimulus is sent; wait until the loop is parked
		switch s.waitParked() {
		case "timeout":
			c.Inconclusive("loop-neither-idle-nor-returned")
			s.abandon()
			return
		case "done":
			returned = true
		case "parked":
			anyReturn := false
			for _, rc := range s.allCalls() {
				if rc.kind == opReturn {
					anyReturn = true
				}
			}
			if anyReturn {
				s.violation("return:lost", "a Return call completed, yet the loop went idle (parked in its select) instead of returning", nil)
				return
			}
			s.census()
		}
		if returned {
			break
		}
	}
	if s.failed {
		return
	}
	if !returned {
		// commit: one or several concurrent Return calls with distinct values
		nr := 1 + r.Intn(3)
		base := len(s.prod)
		s.prod = append(s.prod, make([][]callRec, nr)...)
		var wg sync.WaitGroup
		for k := 0; k < nr; k++ {
			nextID++
			o := op{kind: opReturn, id: nextID}
			wg.Add(1)
			go func(k int, o op) {
				defer wg.Done()
				var recs []callRec
				s.doCall(o, base+k, 0, &recs)
				s.prod[base+k] = recs
			}(k, o)
		}
		wg.Wait()
		s.log = append(s.log, fmt.Sprintf("commit: %d concurrent Return calls", nr))
		switch s.waitParked() {
		case "timeout":
			c.Inconclusive("loop-did-not-return")
			s.abandon()
			return
		case "parked":
			s.violation("return:lost", "a Return call completed, yet the loop went idle (parked in its select) instead of returning", nil)
			return
		}
	} else {
		c.Count("early_return_scenarios", 1)
	}
	<-s.done
	s.checkTrace()
	if s.failed {
		return
	}
	// evidence: which interleaving of boundary events was seen
	tr := s.dump()
	var sb strings.Builder
	for _, l := range tr {
		f := strings.Fields(l)
		if len(f) >= 3 {
			sb.WriteString(f[1][:1] + f[2][:1])
		}
	}
	c.Distinct("interleavings", sb.String())
	overlap, during := 0, 0
	cbs := s.callbacks()
	for _, rc := range s.allCalls() {
		if rc.ret-rc.call > 1 {
			overlap++
		}
		if rc.who >= 0 {
			i := sort.Search(len(cbs), func(i int) bool { return cbs[i].exit > rc.call })
			if i < len(cbs) && cbs[i].enter < rc.call {
				during++
			}
		}
	}
	c.Count("calls_overlapping_other_events", overlap)
	c.Count("producer_calls_during_a_callback", during)
	if overlap+during > 0 {
		c.Nontrivial(sb.String())
	}
	c.Max("callbacks_in_one_scenario", len(s.cbs))
	if totalInputs > 128 {
		c.Count("scenarios_exceeding_buffer", 1)
	}
	c.Sample("scenario", map[string]any{"plan": s.log, "trace_head": tr[:min(len(tr), 40)]})
}

func Spec() *mon.Spec {
	ph := func(name string, gmp, q, t int) mon.Phase {
		return mon.Phase{Name: name, Quick: q, Thorough: t, Run: runScenario, GoMaxProcs: gmp, Timeout: 90 * time.Second}
	}
	return &mon.Spec{
		ID: "C32", Level: "exploration", Race: true,
		Rule: "case = one real event loop (cli.VerifNewLoop) run in its own goroutine; 1..3 stages of 2..6 producer goroutines issuing Input(unique id), Redraw(false/true), yields and (in a third of the scenarios) Return(unique value) concurrently; handler callbacks sometimes call Redraw/Return themselves and a few redraw callbacks call Redraw themselves; every boundary call and callback is stamped with one atomic logical clock (call/ret, enter/exit). After every stage the harness waits WITHOUT sending anything until the loop goroutine is parked in Run's select (seen in a stop-the-world goroutine dump) - then no earlier channel item can be pending - and takes a census: every accepted input handled, every Redraw request followed by a redraw that entered after the request was invoked, every full request by a full redraw. Then 1..3 concurrent Return calls commit. Offline trace spec: callbacks never overlap (S1), handled events are sent events, at most once, in per-producer order, and ret(a)<call(b) => a handled before b / never b without a (S2), Run returns the value of a Return call that no other Return call completely preceded, exactly one final redraw, last callback, nothing after it, nothing handled after a handler called Return (S4). The race detector watches loop state and an unsynchronised variable touched by every callback. Non-trivial = completed scenario in which at least one producer call was made while a callback was running, or overlapped another recorded event (another stamp lies between its call and ret stamps), distinct by the projected order of boundary events; three phases run the same generator at GOMAXPROCS 1, 4, 16.",
		Assumptions: []string{
			"'arrival order' is decided only where it is observable: same producer, or Input(a) returned before Input(b) was called",
			"inputs still buffered when the loop returns are legitimately unhandled (only prefix-closure is demanded); in scenarios without an early Return the idle census demands that every input was handled",
			"'followed by a redraw that starts after it' = a redraw callback whose enter stamp is larger than the request's call stamp; demanded at idle points (loop parked, nothing pending) and not after the loop has returned",
			"a goroutine shown as [select] inside loop.Run in a runtime.Stack(all) snapshot is parked with none of its channels ready (Go scheduler semantics)",
			"loop.go's comment that the first redraw carries the full flag is not asserted (the property does not state it; the App requests it explicitly)",
			"how many already-buffered events may still be handled after a Return from another goroutine is not specified and not asserted; only a handler-issued Return must stop event handling",
		},
		Phases: []mon.Phase{ph("gmp1", 1, 2000, 20000), ph("gmp4", 4, 2000, 20000), ph("gmp16", 16, 2000, 20000)},
		Floors: map[string]int{
			"distinct_nontrivial": 1500, "interleavings": 1800, "callbacks": 150000, "handled_events": 120000,
			"idle_censuses": 2500, "redraw_requests_checked_at_idle": 100000, "full_requests_checked_at_idle": 35000,
			"early_return_scenarios": 500, "return_calls": 3500, "scenarios_exceeding_buffer": 250,
			"calls_overlapping_other_events": 1000, "producer_calls_during_a_callback": 20000, "unhandled_at_return": 2000,
		},
	}
}
