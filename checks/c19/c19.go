// Package c19 monitors interruption (property C19): cancelling the
// Interrupts context at any moment never crashes, no further pipeline of
// Elvish code starts afterwards (background jobs excepted), Eval returns an
// "interrupted" exception unless the program had finished, every goroutine
// the evaluation started ends, and peach never runs more callbacks at once
// than &num-workers allows - also while being interrupted.
package c19

import (
	"context"
	"fmt"
	"math/rand"
	"runtime"
	"strings"
	"time"

	"src.elv.sh/pkg/eval"
	"verifharness/internal/elv"
	"verifharness/internal/mon"
	"verifharness/internal/sched"
)

// ---------------------------------------------------------------------------
// program corpus
//
// Every statement of a generated program is either `v-step <thread> <id>`
// (a pipeline of its own: its execution proves that a pipeline was started)
// or a construct whose body again consists of such statements. <thread> is a
// label of the logical thread of control: a child construct that runs
// concurrently (pipeline stage, peach callback, run-parallel function) gets
// the label of its parent plus "/<suffix>", so that "ancestor of" on labels
// is "spawned and is waiting for" on threads. Background jobs are labelled
// bg/...

type gen struct {
	r        *rand.Rand
	est      int            // rough upper bound of the number of events
	bounds   map[string]int // peach group -> &num-workers
	hasSleep bool
	defs     strings.Builder
	nvar     int
	feat     map[string]bool
}

func (g *gen) fresh(p string) string {
	g.nvar++
	return fmt.Sprintf("%s%d", p, g.nvar)
}

func (g *gen) yield() string {
	switch a := g.r.Intn(10); {
	case a < 4:
		return ""
	case a < 8:
		return fmt.Sprintf("v-yield %d\n", 1+g.r.Intn(6))
	default:
		return fmt.Sprintf("v-yield %d\n", 100+g.r.Intn(80))
	}
}

// T is an Elvish expression (concatenation of double-quoted strings and
// variables) that evaluates to the thread label.
func lit(s string) string { return `"` + s + `"` }

func (g *gen) steps(T string, n int, tag string) string {
	var b strings.Builder
	for i := 0; i < n; i++ {
		fmt.Fprintf(&b, "v-step %s %s%d\n", T, tag, i)
		g.est++
	}
	return b.String()
}

func (g *gen) boundChoice() (string, int) {
	switch g.r.Intn(6) {
	case 0:
		return "1", 1
	case 1, 2:
		return "2", 2
	case 3:
		return "3", 3
	case 4:
		return "4", 4
	default:
		return "+inf", 0
	}
}

func (g *gen) block(T string, depth int) string {
	r := g.r
	kinds := []string{"steps", "for", "while", "each", "pipeline", "peach-lambda", "peach-go", "peach-go", "peach-pipe", "run-parallel",
		"sleepy", "fn", "try-finally", "try-catch", "bg", "capture", "defer", "short-sleep"}
	if depth >= 2 {
		kinds = []string{"steps", "for", "each", "peach-go", "fn", "short-sleep"}
	}
	kind := kinds[r.Intn(len(kinds))]
	g.feat[kind] = true
	id := g.fresh("b")
	var b strings.Builder
	switch kind {
	case "steps":
		b.WriteString(g.steps(T, 1+r.Intn(3), id+"s"))
	case "for":
		n := 2 + r.Intn(5)
		v := g.fresh("i")
		fmt.Fprintf(&b, "for %s [(range %d)] {\nv-step %s %sf$%s\n%s}\n", v, n, T, id, v, g.yield())
		g.est += n
	case "while":
		n := 2 + r.Intn(4)
		v := g.fresh("w")
		fmt.Fprintf(&b, "var %s = 0\nwhile (< $%s %d) {\nv-step %s %sw$%s\n%sset %s = (+ $%s 1)\n}\n", v, v, n, T, id, v, g.yield(), v, v)
		g.est += n
	case "each":
		n := 2 + r.Intn(5)
		v := g.fresh("e")
		if r.Intn(2) == 0 {
			fmt.Fprintf(&b, "each {|%s|\nv-step %s %se$%s\n%s} [(range %d)]\n", v, T, id, v, g.yield(), n)
		} else {
			fmt.Fprintf(&b, "range %d | each {|%s|\nv-step %s %se$%s\n%s}\n", n, v, T, id, v, g.yield())
		}
		g.est += n
	case "pipeline":
		n := 2 + r.Intn(40) // some beyond the channel buffer
		if n > 12 && r.Intn(2) == 0 {
			n = 2 + r.Intn(8)
		}
		k := 2 + r.Intn(2)
		v := g.fresh("x")
		fmt.Fprintf(&b, "{ for %s [(range %d)] {\nv-step %s%s s$%s\n%sput $%s\n} }", v, n, T, lit("/"+id+"s0"), v, g.yield(), v)
		for j := 1; j < k; j++ {
			vv := g.fresh("x")
			out := "put $" + vv
			if j == k-1 {
				out = ""
			}
			fmt.Fprintf(&b, " | each {|%s|\nv-step %s%s r$%s\n%s%s\n}", vv, T, lit(fmt.Sprintf("/%ss%d", id, j)), vv, g.yield(), out)
		}
		b.WriteString("\n")
		g.est += n * k
	case "peach-lambda", "peach-pipe":
		n := 2 + r.Intn(8)
		bs, bn := g.boundChoice()
		if bn > 0 {
			g.bounds[id] = bn
		}
		grp := T + lit("/"+id) // dynamic: one group per execution of this peach
		v := g.fresh("p")
		ct := T + lit("/"+id+"p") + "$" + v // thread of the callback
		inner := ""
		before := g.est
		if depth < 2 && r.Intn(3) == 0 {
			inner = g.block(ct, depth+2)
		}
		g.est += (g.est - before) * (n - 1)
		body := fmt.Sprintf("{|%s|\nv-step %s a\nv-job %s %s\n%s%sv-step %s b\n}", v, ct, grp, ct, inner, g.yield(), ct)
		if kind == "peach-pipe" {
			fmt.Fprintf(&b, "range %d | peach &num-workers=(num %s) %s\n", n, bs, body)
		} else {
			fmt.Fprintf(&b, "peach &num-workers=(num %s) %s [(range %d)]\n", bs, body, n)
		}
		g.est += n * 4
	case "peach-go":
		// the callback is a Go builtin: it runs even after the interrupt, so
		// the concurrency bound stays observable while being interrupted
		n := 3 + r.Intn(14)
		bs, bn := g.boundChoice()
		if bn == 0 && r.Intn(2) == 0 {
			bs, bn = "2", 2
		}
		if bn > 0 {
			g.bounds[id] = bn
		}
		var items []string
		for j := 0; j < n; j++ {
			// "<thread of the caller>/<block id>:<x>"; v-job1 uses the part before ':' as the group
			items = append(items, T+lit(fmt.Sprintf("/%s:%d", id, j)))
		}
		fmt.Fprintf(&b, "peach &num-workers=(num %s) $v-job1~ [%s]\n", bs, strings.Join(items, " "))
		g.est += n * 2
	case "run-parallel":
		k := 2 + r.Intn(2)
		b.WriteString("run-parallel")
		for j := 0; j < k; j++ {
			ct := T + lit(fmt.Sprintf("/%sr%d", id, j))
			fmt.Fprintf(&b, " {\n%s%s}", g.steps(ct, 1, "a"), g.block(ct, depth+1))
		}
		b.WriteString("\n")
	case "sleepy":
		// one function sleeps "forever"; only the interrupt can end it
		g.hasSleep = true
		c0, c1 := T+lit("/"+id+"r0"), T+lit("/"+id+"r1")
		if r.Intn(2) == 0 {
			fmt.Fprintf(&b, "run-parallel {\nv-step %s a\nsleep 100000\nv-step %s b\n} {\n%s%s}\n", c0, c0, g.steps(c1, 2, "a"), g.block(c1, depth+1))
		} else {
			fmt.Fprintf(&b, "{ v-step %s a; sleep 100000; v-step %s b } | {\n%s%s}\n", c0, c0, g.steps(c1, 2, "a"), g.block(c1, depth+1))
		}
		g.est += 2
	case "fn":
		f := g.fresh("f")
		d := 1 + r.Intn(4)
		fmt.Fprintf(&g.defs, "fn %s {|t d|\nv-step $t %sd$d\nif (> $d 0) { %s $t (- $d 1) }\nv-step $t %su$d\n}\n", f, id, f, id)
		fmt.Fprintf(&b, "%s %s %d\n", f, T, d)
		g.est += 2 * (d + 1)
	case "try-finally":
		fmt.Fprintf(&b, "try {\n%s%s%s} finally {\n%s}\n", g.steps(T, 1, id+"t"), g.block(T, depth+1), g.steps(T, 1, id+"u"), g.steps(T, 1, id+"fin"))
	case "try-catch":
		fmt.Fprintf(&b, "try {\n%s%s} catch e {\n%s}\n", g.steps(T, 1, id+"t"), g.block(T, depth+1), g.steps(T, 1, id+"caught"))
	case "bg":
		bt := lit("bg/" + id)
		fmt.Fprintf(&b, "{ v-step %s 1; v-yield %d; v-step %s 2; v-step %s 3 } &\n", bt, 1+r.Intn(5), bt, bt)
		g.est += 3
	case "capture":
		n := 2 + r.Intn(4)
		v := g.fresh("c")
		fmt.Fprintf(&b, "var %s = [(each {|%s|\nv-step %s %sc$%s\nput $%s\n} [(range %d)])]\n", g.fresh("cv"), v, T, id, v, v, n)
		g.est += n
	case "defer":
		f := g.fresh("g")
		fmt.Fprintf(&g.defs, "fn %s {|t|\ndefer { v-step $t %sdeferred }\nv-step $t %sbody1\nv-step $t %sbody2\n}\n", f, id, id, id)
		fmt.Fprintf(&b, "%s %s\n", f, T)
		g.est += 3
	case "short-sleep":
		fmt.Fprintf(&b, "v-step %s %sa\nsleep %s\nv-step %s %sb\n", T, id, []string{"0", "0.0002", "0.001"}[r.Intn(3)], T, id)
		g.est += 2
	}
	return b.String()
}

type prog struct {
	Code     string         `json:"program"`
	Est      int            `json:"estimated_events"`
	Bounds   map[string]int `json:"peach_bounds"`
	HasSleep bool           `json:"has_endless_sleep"`
	Features []string       `json:"features"`
	// NoEnd: the program has no final `v-step m END` (every chunk is exactly
	// one pipeline); Events is then the exact number of events of a full run.
	NoEnd  bool `json:"single_pipeline_chunks,omitempty"`
	Events int  `json:"events_of_full_run,omitempty"`
}

func genProg(r *rand.Rand) *prog {
	g := &gen{r: r, bounds: map[string]int{}, feat: map[string]bool{}}
	T := lit("m")
	var body strings.Builder
	nb := 2 + r.Intn(3)
	for i := 0; i < nb; i++ {
		body.WriteString(g.steps(T, 1, fmt.Sprintf("top%d_", i)))
		body.WriteString(g.block(T, 0))
	}
	body.WriteString("v-step " + T + " END\n")
	g.est++
	p := &prog{Code: g.defs.String() + body.String(), Est: g.est, Bounds: g.bounds, HasSleep: g.hasSleep}
	for f := range g.feat {
		p.Features = append(p.Features, f)
	}
	sortStrings(p.Features)
	return p
}

func sortStrings(s []string) {
	for i := 1; i < len(s); i++ {
		for j := i; j > 0 && s[j-1] > s[j]; j-- {
			s[j-1], s[j] = s[j], s[j-1]
		}
	}
}

// ---------------------------------------------------------------------------
// running and judging

type cancelPlan struct {
	Mode   string `json:"mode"`        // sync: inside the program at the N-th event; async-events: harness goroutine after N observed events; async-delay: after D microseconds
	N      int    `json:"n,omitempty"` // event count
	DelayU int    `json:"delay_us,omitempty"`
	Gmp    int    `json:"gomaxprocs"`
}

func isBg(thread string) bool { return strings.HasPrefix(thread, "bg/") }
func isAnc(a, b string) bool  { return strings.HasPrefix(b, a+"/") }

func runOne(c *mon.Case, p *prog, plan cancelPlan) {
	old := runtime.GOMAXPROCS(plan.Gmp)
	defer runtime.GOMAXPROCS(old)
	ctx, cancel := context.WithCancel(context.Background())
	defer cancel()
	ev := eval.NewEvaler()
	rec := sched.NewRec(cancel)
	seedJ := c.Rand.Int63()
	rec.JobYield = func(thread string) int {
		h := int(uint64(seedJ+int64(len(thread))*7919+int64(thread[len(thread)-1])*104729) % 100)
		switch {
		case h < 30:
			return 1
		case h < 60:
			return 2 + h%8
		case h < 85:
			return 100 + h // ~150 us
		default:
			return 100 + 4*h // ~400 us
		}
	}
	if plan.Mode == "sync" {
		rec.CancelAtN = int64(plan.N)
	}
	sched.Install(ev, rec)
	baseline := sched.Baseline()
	evalDone := make(chan struct{})
	var res elv.Result
	// asynchronous cancellers (harness goroutines)
	stopAsync := make(chan struct{})
	asyncDone := make(chan struct{})
	go func() {
		defer close(asyncDone)
		// Only a program with an endless sleep needs a backstop interrupt (all
		// others end by themselves); it is generous so that on a loaded
		// machine the in-program cancel normally comes first.
		var backstop <-chan time.Time
		if p.HasSleep {
			backstop = time.After(1500 * time.Millisecond)
		}
		switch plan.Mode {
		case "async-events":
		spin:
			for rec.N() < int64(plan.N) {
				select {
				case <-stopAsync:
					return
				case <-backstop:
					break spin // the program never produced that many events
				default:
				}
				runtime.Gosched()
			}
			rec.DoCancel("harness")
			return
		case "async-delay":
			select {
			case <-stopAsync:
				return
			case <-time.After(time.Duration(plan.DelayU) * time.Microsecond):
			}
			rec.DoCancel("harness")
			return
		}
		// sync mode backstop: a program with an endless sleep needs an
		// interrupt to end even when the chosen event is never reached. It is
		// asynchronous, so only the timing-insensitive clauses depend on it.
		select {
		case <-stopAsync:
		case <-backstop:
			rec.DoCancel("harness-backstop")
		}
	}()
	out := sched.RunP(func() {
		res = elv.EvalCtx(ev, p.Code, ctx, nil)
		close(evalDone)
	}, baseline, 4*time.Second, 100*time.Second, rec.N)
	retStamp := sched.Tick()
	close(stopAsync)
	<-asyncDone
	wit := map[string]any{"program": p.Code, "cancel": plan, "features": p.Features}
	if out.Deadlock != nil {
		wit["goroutines"] = out.Deadlock.Dump
		if rec.CancelDone.Load() != 0 {
			c.Violation("no-return-after-interrupt:"+out.Deadlock.Sig(), "the evaluation was interrupted but never returns: every goroutine is blocked ("+out.Deadlock.Sig()+")", wit)
		} else {
			c.Violation("deadlock:"+out.Deadlock.Sig(), "evaluation blocked forever before any interrupt", wit)
		}
		return
	}
	if out.Undecided {
		c.Inconclusive("evaluation-did-not-return")
		return
	}
	// quiescent point: every goroutine the evaluation started must end
	leak := sched.Settle(baseline, 6*time.Second)
	events := rec.Events()
	cancelDone := rec.CancelDone.Load()
	cancelThread, _ := rec.CancelThread.Load().(string)
	cancelledBeforeReturn := cancelDone != 0 && cancelDone < retStamp
	c.Count("events", len(events))
	if res.Err != nil {
		wit["error"] = res.Err.Error()
	}
	wit["cancel_thread"] = cancelThread
	ok := true
	fail := func(sig, what string) {
		ok = false
		c.Violation(sig, what, wit)
	}

	// (a) no further pipeline after the interrupt was delivered
	var late []sched.Event // events that certainly happened after the cancellation completed
	endSeen := false
	var endStamp uint64
	nSteps := 0
	for _, e := range events {
		if e.Kind == "step" {
			nSteps++
			if e.Arg == "END" {
				endSeen = true
				endStamp = e.Stamp
			}
		}
		if cancelDone != 0 && e.Ret > cancelDone && e.Kind != "cancel" && !isBg(e.Thread) {
			late = append(late, e)
		}
	}
	c.Count("steps", nSteps)
	if cancelDone != 0 {
	outer:
		for _, s := range events {
			if s.Kind != "step" || isBg(s.Thread) || s.Stamp < cancelDone {
				continue
			}
			for _, e := range late {
				if e.Stamp >= s.Stamp {
					break
				}
				if e.Thread == s.Thread || isAnc(s.Thread, e.Thread) || isAnc(e.Thread, s.Thread) {
					fail("pipeline-started-after-interrupt", fmt.Sprintf("thread %s started pipeline `v-step %s` (clock %d) although event %s %s of thread %s, which happens before it, ended (clock %d) after the interrupt had been delivered (clock %d)",
						s.Thread, s.Arg, s.Stamp, e.Kind, e.Arg, e.Thread, e.Ret, cancelDone))
					break outer
				}
			}
		}
	}

	// (b) the result
	leaves := sched.Leaves(res.Err)
	interrupted := false
	var others []string
	for _, l := range leaves {
		if l.Err == eval.ErrInterrupted {
			interrupted = true
		} else {
			others = append(others, fmt.Sprintf("%T:%s", l.Err, l.Err.Error()))
		}
	}
	if len(others) > 0 {
		fail("unexpected-error", fmt.Sprintf("exceptions other than 'interrupted' were reported: %v", others))
	}
	switch {
	case plan.Mode == "sync" && cancelledBeforeReturn && cancelThread != "harness-backstop" && !isBg(cancelThread):
		// the interrupt was delivered from inside a command of the program:
		// the program cannot have finished
		c.Count("sync_cancels_delivered", 1)
		if p.NoEnd {
			c.Count("single_pipeline_chunk_cancels", 1)
			if plan.N == p.Events {
				c.Count("single_pipeline_chunk_cancels_in_last_event", 1)
			}
		}
		if !interrupted {
			fail("not-interrupted", fmt.Sprintf("the interrupt was delivered inside the program (thread %s) but Eval returned %v", cancelThread, res.Err))
		}
		if endSeen && endStamp > cancelDone { // (the END step itself may be the event that delivered the interrupt)
			fail("ran-to-end-after-interrupt", "the program's last statement ran although the interrupt was delivered before")
		}
	default:
		if res.Err == nil && !endSeen && !p.NoEnd {
			fail("cut-short-without-exception", "Eval returned no exception although the program did not reach its last statement")
		}
		if res.Err != nil && !interrupted && len(others) == 0 {
			fail("exception-without-reason", "Eval returned an exception without an 'interrupted' reason: "+res.Err.Error())
		}
		if res.Err != nil && cancelDone == 0 {
			fail("interrupted-without-interrupt", "Eval returned 'interrupted' although the context was never cancelled")
		}
	}
	if interrupted {
		c.Count("runs_interrupted", 1)
	} else if res.Err == nil {
		c.Count("runs_finished_before_interrupt", 1)
	}

	// (c) nothing of the evaluation is still active after Eval returned
	for _, e := range events {
		if e.Ret > retStamp && !isBg(e.Thread) && e.Kind != "cancel" {
			fail("activity-after-return", fmt.Sprintf("event %s %s of thread %s happened (clock %d) after Eval had returned (clock %d)", e.Kind, e.Arg, e.Thread, e.Ret, retStamp))
			break
		}
	}
	// (c) goroutines
	if len(leak.Surplus) > 0 {
		if leak.Undecided {
			c.Inconclusive("goroutines-still-running-at-census")
		} else {
			wit["goroutines"] = sched.Describe(leak.Surplus)
			fail("goroutine-leak", fmt.Sprintf("%d goroutines started by the evaluation are still blocked in pkg/eval code long after Eval returned", len(leak.Surplus)))
		}
	}
	if n := rec.Running(); n != 0 && len(leak.Surplus) == 0 {
		fail("callback-still-running", fmt.Sprintf("%d Go callbacks are still between enter and leave after all goroutines ended", n))
	}

	// (d) concurrency bounds, also while being interrupted
	for _, grp := range rec.Groups() {
		// dynamic group name = <thread label>/<block id>; the bound belongs to the block
		bound, bounded := p.Bounds[grp[strings.LastIndexByte(grp, '/')+1:]]
		if !bounded {
			continue
		}
		m := rec.GroupMax(grp)
		c.Max("concurrency_seen_in_bounded_peach", m)
		if m > bound {
			sig := "peach-bound-exceeded"
			if cancelDone != 0 {
				sig = "peach-bound-exceeded-while-interrupted"
			}
			fail(sig, fmt.Sprintf("peach &num-workers=%d ran %d callbacks at once (group %s)", bound, m, grp))
		}
	}
	if !ok {
		return
	}
	c.Distinct("interleavings", p.Code, sched.Projection(events))
	c.Distinct("cancel_positions", p.Code, plan.Mode, len(events))
	if cancelDone != 0 && len(late) > 0 {
		c.Count("runs_with_events_after_interrupt", 1)
	}
	if cancelledBeforeReturn && (nSteps > 0 || p.NoEnd) {
		c.Nontrivial(p.Code, plan.Mode, plan.N, plan.DelayU)
	}
	for _, f := range p.Features {
		c.Count("feature_"+f, 1)
	}
	c.Sample("interrupt-"+plan.Mode, map[string]any{"program": p.Code, "cancel": plan, "events": len(events), "result": fmt.Sprint(res.Err)})
}

const positions = 16 // cancel positions swept per program in the sync phase

func progFor(c *mon.Case, phase string, idx int) *prog {
	h := int64(0)
	for _, ch := range phase {
		h = h*131 + int64(ch)
	}
	return genProg(rand.New(rand.NewSource(c.Env.Seed*1000003 + h*7919 + int64(idx))))
}

// sync phase: program = c.I / positions, cancel position swept over the
// program's events.
func runSync(c *mon.Case) {
	p := progFor(c, "sync", c.I/positions)
	j := c.I % positions
	// positions spread over [1, Est], plus jitter
	n := 1 + (j*p.Est)/positions + c.Rand.Intn(p.Est/positions+1)
	if n > p.Est {
		n = p.Est
	}
	runOne(c, p, cancelPlan{Mode: "sync", N: n, Gmp: []int{1, 4, 16}[c.Rand.Intn(3)]})
}

// single phase: programs in which EVERY chunk (top level and every body) is
// exactly one pipeline, interrupted from inside in the last events of the
// run (last iteration, last callback, last command) and at earlier ones.
// The interrupt is delivered inside a command of the program, before the
// program has finished, so Eval must return the interrupted exception.
func singleProg(r *rand.Rand, k int) *prog {
	n := 1 + r.Intn(4)
	items := func(g string) string {
		var it []string
		for j := 0; j < n; j++ {
			it = append(it, fmt.Sprintf(`"m/%s:%d"`, g, j))
		}
		return strings.Join(it, " ")
	}
	bs, bn := "+inf", 0
	if r.Intn(3) > 0 {
		bn = 1 + r.Intn(3)
		bs = fmt.Sprint(bn)
	}
	p := &prog{NoEnd: true, Bounds: map[string]int{}}
	name := ""
	switch k % 16 {
	case 0:
		name, p.Code, p.Events = "lone-step", `v-step "m" only`, 1
	case 1:
		name, p.Code, p.Events = "lone-cancel", `v-cancel "m"`, 0
	case 2:
		name, p.Code, p.Events = "lone-job", `v-job1 "m/g:0"`, 2
	case 3:
		name, p.Code, p.Events = "each-go", "each $v-job1~ ["+items("g")+"]", 2*n
	case 4:
		name, p.Code, p.Events = "each-lambda", "each {|x| v-job1 $x } ["+items("g")+"]", 2*n
	case 5:
		name, p.Code, p.Events = "for", fmt.Sprintf(`for x [(range %d)] { v-step "m" f$x }`, n), n
	case 6:
		name, p.Code, p.Events = "peach-lambda", "peach &num-workers=(num "+bs+") {|x| v-job1 $x } ["+items("g")+"]", 2*n
	case 7:
		name, p.Code, p.Events = "peach-go", "peach &num-workers=(num "+bs+") $v-job1~ ["+items("g")+"]", 2*n
	case 8:
		name, p.Code, p.Events = "try-finally", `try { v-step "m" a } finally { v-step "m" b }`, 2
	case 9:
		name, p.Code, p.Events = "pipeline-each", fmt.Sprintf(`range %d | each {|x| v-step "m/s1" r$x }`, n), n
	case 10:
		name, p.Code, p.Events = "nested-each", `each {|x| each {|y| v-job1 $y } ["m/h"$x":0" "m/h"$x":1"] } [0 1]`, 8
	case 11:
		name, p.Code, p.Events = "lambda-call", `{ v-step "m" inner }`, 1
	case 12:
		name, p.Code, p.Events = "for-cancel", fmt.Sprintf(`for x [(range %d)] { v-cancel "m" }`, n), 0
	case 13:
		name, p.Code, p.Events = "run-parallel", `run-parallel { v-step "m/r0" a } { v-job1 "m/g:1" }`, 3
	case 14:
		name, p.Code, p.Events = "capture", `put (v-job1 "m/g:0")`, 2
	default:
		name, p.Code, p.Events = "try-catch", `try { v-step "m" a } catch e { v-step "m" c }`, 1
	}
	if bn > 0 && (k%16 == 6 || k%16 == 7) {
		p.Bounds["g"] = bn
	}
	p.Code += "\n"
	p.Est = p.Events
	p.Features = []string{"single:" + name}
	return p
}

func runSingle(c *mon.Case) {
	p := singleProg(rand.New(rand.NewSource(c.Env.Seed*7919+int64(c.I/64))), c.I)
	// positions: the last event, the one before, ... (c.I/16 cycles through 4)
	n := p.Events - (c.I/16)%4
	if n < 1 {
		n = p.Events // (0 = the program cancels explicitly with v-cancel)
	}
	runOne(c, p, cancelPlan{Mode: "sync", N: n, Gmp: []int{1, 4, 16}[c.Rand.Intn(3)]})
}

func runAsync(c *mon.Case) {
	p := progFor(c, "async", c.I/4)
	plan := cancelPlan{Gmp: []int{1, 4, 16}[c.Rand.Intn(3)]}
	if c.Rand.Intn(2) == 0 {
		plan.Mode = "async-events"
		plan.N = 1 + c.Rand.Intn(p.Est)
	} else {
		plan.Mode = "async-delay"
		plan.DelayU = []int{0, 5, 20, 50, 100, 200, 400, 800, 1500, 3000, 6000}[c.Rand.Intn(11)] + c.Rand.Intn(20)
	}
	runOne(c, p, plan)
}

func Spec() *mon.Spec {
	return &mon.Spec{
		ID: "C19", Level: "exploration", Race: true,
		Rule: "program = 2..4 blocks drawn from 18 templates (step sequences, for/while/each loops, 2-3 stage pipelines with up to 40 items, peach with lambda callbacks, peach with a Go-builtin callback, peach fed by a pipeline, bounds 1..4 and +inf, run-parallel, an endless `sleep` next to a sibling, recursive function calls, try/finally, try/catch, background job, output capture, defer, short sleeps; nested up to depth 2), every statement being `v-step <thread> <id>` or a construct of such statements. sync phase: each program is interrupted from INSIDE (the harness builtin that records the N-th event cancels the Interrupts context before it returns), N swept over 16 positions of the program's events; single phase: 16 templates in which EVERY chunk (top level and every body) is exactly one pipeline (a lone command, each/for/peach with one-pipeline bodies, try/finally, nested each, run-parallel, capture, explicit v-cancel as the only/last command), interrupted inside the last event of the run and the three before; async phase: a harness goroutine cancels after N observed events or after a swept delay (0..6 ms). GOMAXPROCS from {1,4,16}, race detector on. Non-trivial = run in which the interrupt was delivered before Eval returned and at least one step had run; distinct by (program, mode, position).",
		Assumptions: []string{
			"'no further pipeline starts' is decided on the logical clock only: a step S violates it if some event E that happens-before S's pipeline start (same thread label, a descendant thread that the thread waited for, or an ancestor thread blocked on it) returned after the cancellation had completed; a pipeline whose start check raced with the interrupt on another goroutine is not a violation",
			"background jobs (`... &`) are exempt from the step rule, as the property says; they only record events and end by themselves",
			"Elvish lambdas cannot run anything after the interrupt, so the running-callback counter uses Go-builtin callbacks (v-job / $v-job1~), which - like every builtin - run regardless of the interrupt",
			"a program containing `sleep 100000` gets an asynchronous backstop interrupt after 1.5 s (needed when the chosen cancel position is never reached); only the timing-insensitive clauses apply to runs in which the backstop fired",
			"an evaluation that does not return is judged inside the case: interrupted + every goroutine blocked in two identical censuses 1 s apart = violation; otherwise inconclusive",
		},
		Phases: []mon.Phase{
			{Name: "sync", Quick: 320, Thorough: 4000, Run: runSync, GoMaxProcs: 16, Timeout: 150 * time.Second, Batch: 16},
			{Name: "single", Quick: 192, Thorough: 1200, Run: runSingle, GoMaxProcs: 16, Timeout: 150 * time.Second, Batch: 16},
			{Name: "async", Quick: 160, Thorough: 2000, Run: runAsync, GoMaxProcs: 16, Timeout: 150 * time.Second, Batch: 16},
		},
		HangViolation: true,
		Floors: map[string]int{"distinct_nontrivial": 60, "sync_cancels_delivered": 40, "runs_interrupted": 90, "steps": 700,
			"cancel_positions": 60, "runs_with_events_after_interrupt": 40, "feature_peach-go": 16, "feature_peach-lambda": 8, "feature_sleepy": 8,
			"feature_pipeline": 8, "feature_run-parallel": 8, "feature_try-finally": 8, "concurrency_seen_in_bounded_peach": 2,
			"single_pipeline_chunk_cancels": 60, "single_pipeline_chunk_cancels_in_last_event": 25},
	}
}
