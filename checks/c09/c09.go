// Package c09 monitors the algebra of eq and compare (property C09): eq is
// an equivalence (except around NaN), compare follows the documented per-type
// orders, compare &total is a total preorder grouping values by type.
package c09

import (
	"fmt"
	"math"
	"math/big"
	"math/rand"
	"sort"

	"src.elv.sh/pkg/cli/clitest"
	"src.elv.sh/pkg/edit"
	"src.elv.sh/pkg/eval"
	"src.elv.sh/pkg/eval/vals"
	"verifharness/internal/elv"
	"verifharness/internal/elvq"
	"verifharness/internal/gen"
	"verifharness/internal/mon"
)

var (
	ev      *eval.Evaler
	opaques []*gen.Model   // closures, builtin functions, a namespace
	ranks   map[string]int // type name -> position in this process's order of types
	// a complex candidate and the equivalent map (for the symmetry law)
	complexCand, complexMap any
)

const knownFloatUnify = "cmp-mixed-exact-inexact-float-unify"
const knownListRep = "cmptotal-list-representation"

func elvishKind(typeName string) string {
	switch typeName {
	case "closure", "builtin-fn":
		return "fn"
	}
	return typeName
}

func setup(e *mon.Env) {
	ev = elv.New()
	tty, _ := clitest.NewFakeTTY()
	ed := edit.NewEditor(tty, ev, nil)
	ev.ExtendBuiltin(eval.BuildNs().AddNs("edit", ed))
	vs, err := elvq.Values(ev, `use str; put {|x| put $x } {|x| put $x } $put~ $nop~ $str:
var c = (edit:complex-candidate foo); put $c [&stem=$c[stem] &code-suffix=$c[code-suffix] &display=$c[display]]`)
	if err != nil || len(vs) != 7 {
		panic(fmt.Sprint("setup: ", err, len(vs)))
	}
	tags := []string{"closure", "closure", "builtin-fn", "builtin-fn", "ns"}
	for i, t := range tags {
		opaques = append(opaques, gen.Opaque(vs[i], i+1, t))
	}
	complexCand, complexMap = vs[5], vs[6]
	// learn this process's order of types from one representative each
	reps := []*gen.Model{gen.Nil(), gen.Bool(true), gen.Str("s"), gen.Int(1), gen.List(), gen.Map(nil, nil), opaques[0], opaques[2], opaques[4]}
	ranks = map[string]int{}
	for _, a := range reps {
		n := 0
		for _, b := range reps {
			if vals.CmpTotal(a.Value(), b.Value()) == vals.CmpMore {
				n++
			}
		}
		ranks[gen.TypeName(a)] = n
	}
}

func rank(t string) int { return ranks[t] }

type entry struct {
	m *gen.Model
	v any
}

// ---------------------------------------------------------------------------
// pools

func specials(r *rand.Rand) *gen.Model {
	return []*gen.Model{gen.Float(math.NaN()), gen.Float(math.Inf(1)), gen.Float(math.Inf(-1)), gen.Float(0), gen.Float(math.Copysign(0, -1)),
		gen.Int(0), gen.Int(1), gen.Int(-1), gen.Float(1), gen.Float(math.Float64frombits(0x7ff8000000000abc))}[r.Intn(10)]
}

var centers = []*big.Int{pow2(53), neg(pow2(53)), pow2(63), neg(pow2(63)), pow2(64), pow2(1024), big.NewInt(0), big.NewInt(1), pow2(31), pow2(54), pow2(62), pow2(100)}

func pow2(n int) *big.Int     { return new(big.Int).Lsh(big.NewInt(1), uint(n)) }
func neg(z *big.Int) *big.Int { return new(big.Int).Neg(z) }

func numberPool(r *rand.Rand, n int) []*gen.Model {
	cl := gen.ClusterNums(centers[r.Intn(len(centers))])
	out := make([]*gen.Model, 0, n)
	for len(out) < n {
		switch k := r.Intn(10); {
		case k < 7:
			out = append(out, cl[r.Intn(len(cl))])
		case k < 9:
			out = append(out, specials(r))
		default:
			out = append(out, gen.GenNum(r))
		}
	}
	return out
}

var strAtoms = []string{"", "a", "ab", "abc", "ab\x00", "ab\xff", "b", "B", "a好", "a\xe5", "a\xe5\xa5", "好", "10", "9", "1", "-1", "\xff", "\x00", "~", "é", "é"}

func atom(r *rand.Rand, atoms []*gen.Model) *gen.Model { return atoms[r.Intn(len(atoms))] }

// listOver builds a random list over a small set of atoms, so that equal
// lists, proper prefixes and first-difference-at-position-k pairs are frequent.
func listOver(r *rand.Rand, atoms []*gen.Model, depth int) *gen.Model {
	n := r.Intn(5)
	l := &gen.Model{Kind: gen.KList, Sub: r.Intn(12) == 0}
	for i := 0; i < n; i++ {
		if depth < 2 && r.Intn(5) == 0 {
			l.Elems = append(l.Elems, listOver(r, atoms, depth+1))
		} else {
			l.Elems = append(l.Elems, atom(r, atoms))
		}
	}
	return l
}

func mapOver(r *rand.Rand, atoms []*gen.Model) *gen.Model {
	m := &gen.Model{Kind: gen.KMap}
	for i := r.Intn(4); i > 0; i-- {
		k := atom(r, atoms)
		if gen.HasNaN(k) {
			continue
		}
		dup := false
		for _, k0 := range m.Keys {
			if gen.Eq(k0, k) {
				dup = true
			}
		}
		if dup {
			continue
		}
		m.Keys = append(m.Keys, k)
		m.Vals = append(m.Vals, atom(r, atoms))
	}
	return m
}

func genPool(r *rand.Rand) ([]entry, string) {
	const n = 12
	var ms []*gen.Model
	kind := []string{"number-cluster", "numbers", "strings", "lists", "lists-of-numbers", "maps", "mixed", "mixed"}[r.Intn(8)]
	switch kind {
	case "number-cluster":
		ms = numberPool(r, n)
	case "numbers":
		for len(ms) < n {
			ms = append(ms, gen.GenNum(r))
		}
	case "strings":
		for len(ms) < n {
			if r.Intn(4) == 0 {
				ms = append(ms, gen.Str(gen.GenStr(r)))
			} else {
				ms = append(ms, gen.Str(strAtoms[r.Intn(len(strAtoms))]+strAtoms[r.Intn(len(strAtoms))]))
			}
		}
	case "lists", "lists-of-numbers":
		var atoms []*gen.Model
		if kind == "lists" {
			for i := 0; i < 5; i++ {
				atoms = append(atoms, gen.GenScalar(r))
			}
			atoms = append(atoms, gen.Str("a"), gen.Str("b"), gen.Bool(true), gen.Bool(false))
		} else {
			atoms = numberPool(r, 6)
		}
		for len(ms) < n {
			ms = append(ms, listOver(r, atoms, 0))
		}
	case "maps":
		atoms := []*gen.Model{gen.Str("a"), gen.Str("b"), gen.Int(1), gen.Float(1), gen.Float(0), gen.Float(math.Copysign(0, -1)), gen.Float(math.NaN()), gen.Nil(), gen.List(gen.Str("a"))}
		for len(ms) < n {
			ms = append(ms, mapOver(r, atoms))
		}
	default:
		atoms := append(numberPool(r, 3), gen.Str("a"), gen.Str("b"), gen.Bool(false))
		for len(ms) < n {
			switch r.Intn(10) {
			case 0:
				ms = append(ms, gen.Nil())
			case 1:
				ms = append(ms, gen.Bool(r.Intn(2) == 0))
			case 2:
				ms = append(ms, gen.Str(strAtoms[r.Intn(len(strAtoms))]))
			case 3:
				ms = append(ms, atom(r, atoms))
			case 4:
				ms = append(ms, listOver(r, atoms, 0))
			case 5:
				ms = append(ms, mapOver(r, atoms))
			case 6:
				ms = append(ms, opaques[r.Intn(len(opaques))])
			case 7:
				ms = append(ms, gen.GenValue(r, gen.ValueCfg{MaxDepth: 3, MaxWidth: 3, NaNKeys: true, SubLists: 0.05}))
			default:
				ms = append(ms, gen.GenScalar(r))
			}
		}
	}
	// some entries become differently constructed copies of other entries
	for i := range ms {
		if r.Intn(5) == 0 {
			ms[i] = gen.EqVariant(r, ms[r.Intn(len(ms))])
		}
	}
	es := make([]entry, len(ms))
	for i, m := range ms {
		if r.Intn(2) == 0 {
			es[i] = entry{m, m.Value()}
		} else {
			es[i] = entry{m, m.ValueVariant(r)}
		}
	}
	return es, kind
}

// ---------------------------------------------------------------------------

func ordOf(o vals.Ordering) (int, bool) {
	switch o {
	case vals.CmpLess:
		return -1, true
	case vals.CmpEqual:
		return 0, true
	case vals.CmpMore:
		return 1, true
	}
	return 0, false
}

func typePair(a, b *gen.Model) string {
	d := func(m *gen.Model) string {
		if m.Kind == gen.KNum {
			return m.Rep.String()
		}
		return gen.TypeName(m)
	}
	ts := []string{d(a), d(b)}
	sort.Strings(ts)
	return ts[0] + "," + ts[1]
}

// zeroSignKeyIssue: the two values are Eq, and somewhere a map key is (or
// contains) a float zero — the constellation in which the hash of ±0.0
// (known finding of C08) makes map lookups, and therefore eq on maps, fail.
func zeroSignKeyIssue(a, b *gen.Model) bool {
	has := func(m *gen.Model) bool {
		found := false
		gen.Walk(m, func(x *gen.Model) {
			if x.Kind == gen.KMap {
				for _, k := range x.Keys {
					gen.Walk(k, func(y *gen.Model) {
						if y.Kind == gen.KNum && y.Rep == gen.RepFloat && y.F == 0 {
							found = true
						}
					})
				}
			}
		})
		return found
	}
	return gen.Eq(a, b) && !gen.Same(a, b) && has(a) && has(b)
}

func fmtOrd(o int, ok bool) string {
	if !ok {
		return "uncomparable"
	}
	return fmt.Sprint(o)
}

func runPool(c *mon.Case) {
	r := c.Rand
	es, kind := genPool(r)
	n := len(es)
	type cell struct {
		eq       bool
		cmp, tot int
		cmpOK    bool
		lossy    bool // the pair is in the mixed exact/inexact region
	}
	g := make([][]cell, n)
	desc := func(i int) string { return gen.Describe(es[i].m) }
	nontrivial := false
	for i := 0; i < n; i++ {
		g[i] = make([]cell, n)
		for j := 0; j < n; j++ {
			a, b := es[i], es[j]
			wit := map[string]any{"a": desc(i), "b": desc(j), "pool": kind}
			cl := &g[i][j]
			cl.eq = vals.Equal(a.v, b.v)
			cl.cmp, cl.cmpOK = ordOf(vals.Cmp(a.v, b.v))
			tot, totOK := ordOf(vals.CmpTotal(a.v, b.v))
			cl.tot = tot
			cl.lossy = gen.AnyLossyPair(a.m, b.m)
			c.Evals(3)

			// eq against the documented definition
			if want := gen.Eq(a.m, b.m); cl.eq != want {
				sig := "eq-differs-from-model:" + typePair(a.m, b.m)
				if zeroSignKeyIssue(a.m, b.m) {
					sig = "eq-map-with-zero-key-of-other-sign"
				}
				c.Violation(sig, fmt.Sprintf("eq %s %s = %v, by 'same type and value' it is %v", desc(i), desc(j), cl.eq, want), wit)
			}
			// compare against the documented orders
			ref := gen.RefCmp(a.m, b.m)
			if ref.OK != cl.cmpOK || (ref.OK && ref.Ord != cl.cmp) {
				sig := "compare-differs:" + typePair(a.m, b.m)
				if ref.Lossy || cl.lossy {
					sig = knownFloatUnify
				}
				c.Violation(sig, fmt.Sprintf("compare %s %s = %s, documented order gives %s", desc(i), desc(j), fmtOrd(cl.cmp, cl.cmpOK), fmtOrd(ref.Ord, ref.OK)), wit)
			}
			if cl.eq && !(cl.cmpOK && cl.cmp == 0) {
				c.Violation("eq-but-compare-nonzero:"+typePair(a.m, b.m), fmt.Sprintf("eq %s %s is true but compare gives %s", desc(i), desc(j), fmtOrd(cl.cmp, cl.cmpOK)), wit)
			}
			// compare &total
			if !totOK {
				c.Violation("total-raises:"+typePair(a.m, b.m), fmt.Sprintf("compare &total %s %s is uncomparable", desc(i), desc(j)), wit)
				continue
			}
			rt := gen.RefCmpTotal(a.m, b.m, rank)
			ka, kb := elvishKind(gen.TypeName(a.m)), elvishKind(gen.TypeName(b.m))
			if ka != kb && tot == 0 {
				c.Violation("total-different-types-compare-0:"+typePair(a.m, b.m), fmt.Sprintf("compare &total %s %s = 0 for values of different types", desc(i), desc(j)), wit)
			} else if rt.Ord != tot {
				sig := "total-differs:" + typePair(a.m, b.m)
				switch {
				case rt.Lossy || cl.lossy:
					sig = knownFloatUnify
				case gen.HasSubList(a.m) || gen.HasSubList(b.m):
					// the same comparison with the lists built plainly
					if p, _ := ordOf(vals.CmpTotal(gen.Plain(a.m).Value(), gen.Plain(b.m).Value())); p == rt.Ord {
						sig = knownListRep
					}
				case ka != kb:
					sig = "total-type-order-inconsistent:" + typePair(a.m, b.m)
				}
				c.Violation(sig, fmt.Sprintf("compare &total %s %s = %d, expected %d (types ordered as observed at start, documented order within a type)", desc(i), desc(j), tot, rt.Ord), wit)
			}
			if cl.cmpOK && cl.cmp != tot && !(gen.HasSubList(a.m) || gen.HasSubList(b.m)) && !cl.lossy {
				c.Violation("total-disagrees-with-compare:"+typePair(a.m, b.m), fmt.Sprintf("compare %s %s = %d but compare &total = %d", desc(i), desc(j), cl.cmp, tot), wit)
			}
			if cl.eq && i != j && !gen.Same(a.m, b.m) || (i != j && cl.eq && a.m.Kind >= gen.KList) {
				nontrivial = true
			}
			if ref.OK && ref.Ord != 0 {
				c.Count("ordered_pairs", 1)
			}
			if ref.Lossy {
				c.Count("pairs_in_float_unify_region", 1)
			}
			if !ref.OK {
				c.Count("uncomparable_pairs", 1)
			}
			if cl.eq && i != j {
				c.Count("eq_pairs_distinct_entries", 1)
			}
			if a.m.Kind == gen.KNum && b.m.Kind == gen.KNum && a.m.Rep != b.m.Rep {
				c.Count("number_pairs_mixed_representation", 1)
			}
		}
	}
	subOrLossy := func(idx ...int) (lossy, sub bool) {
		for _, i := range idx {
			for _, j := range idx {
				if g[i][j].lossy {
					lossy = true
				}
			}
			if gen.HasSubList(es[i].m) {
				sub = true
			}
		}
		return
	}
	zeroKey := func(idx ...int) bool {
		for _, i := range idx {
			for _, j := range idx {
				if zeroSignKeyIssue(es[i].m, es[j].m) {
					return true
				}
			}
		}
		return false
	}
	law := func(name string, total bool, idx ...int) {
		lossy, sub := subOrLossy(idx...)
		sig := "law:" + name
		switch {
		case lossy:
			sig = knownFloatUnify
		case total && sub:
			sig = knownListRep
		case zeroKey(idx...):
			sig = "eq-map-with-zero-key-of-other-sign"
		}
		var ds []string
		for _, i := range idx {
			ds = append(ds, desc(i))
		}
		c.Violation(sig, fmt.Sprintf("%s fails for %v", name, ds), map[string]any{"values": ds, "pool": kind})
	}
	for i := 0; i < n; i++ {
		for j := 0; j < n; j++ {
			a, b := g[i][j], g[j][i]
			if a.eq != b.eq {
				law("eq-symmetry", false, i, j)
			}
			if a.cmpOK != b.cmpOK || (a.cmpOK && a.cmp != -b.cmp) {
				law("compare-antisymmetry", false, i, j)
			}
			if a.tot != -b.tot {
				law("total-antisymmetry", true, i, j)
			}
			for k := 0; k < n; k++ {
				bc, ac := g[j][k], g[i][k]
				if a.eq && bc.eq && !ac.eq {
					law("eq-transitivity", false, i, j, k)
				}
				if a.cmpOK && bc.cmpOK {
					// a ≤ b ≤ c ⇒ a ≤ c, with strictness preserved
					if a.cmp <= 0 && bc.cmp <= 0 {
						switch {
						case !ac.cmpOK:
							law("compare-transitivity(comparability)", false, i, j, k)
						case ac.cmp > 0:
							law("compare-transitivity", false, i, j, k)
						case (a.cmp < 0 || bc.cmp < 0) && ac.cmp == 0:
							law("compare-transitivity(strict)", false, i, j, k)
						}
					}
				}
				if a.tot <= 0 && bc.tot <= 0 {
					if ac.tot > 0 {
						law("total-transitivity", true, i, j, k)
					} else if (a.tot < 0 || bc.tot < 0) && ac.tot == 0 {
						law("total-transitivity(strict)", true, i, j, k)
					}
				}
				c.Count("triples", 1)
			}
		}
	}
	c.Count("pools_"+kind, 1)
	if nontrivial || kind != "mixed" {
		var ds []string
		for i := range es {
			ds = append(ds, desc(i))
		}
		c.Nontrivial(ds)
		c.Sample("pool-"+kind, ds)
	}
	if c.I%8 == 0 {
		builtins(c, es)
	}
}

// builtins runs a sample of pairs through the interpreter.
func builtins(c *mon.Case, es []entry) {
	r := c.Rand
	for t := 0; t < 16; t++ {
		i, j := r.Intn(len(es)), r.Intn(len(es))
		a, b := es[i], es[j]
		elv.SetVar(ev, "a", a.v)
		elv.SetVar(ev, "b", b.v)
		vs, err := elvq.Values(ev, `eq $a $b; not-eq $a $b
try { compare $a $b } catch e { put $e[reason] }
compare &total $a $b`)
		c.Evals(1)
		c.Count("pairs_via_builtins", 1)
		wit := map[string]any{"a": gen.Describe(a.m), "b": gen.Describe(b.m)}
		if err != nil || len(vs) != 4 {
			c.Violation("builtin-error", fmt.Sprintf("eq/compare on %s %s: %d values, error %v", gen.Describe(a.m), gen.Describe(b.m), len(vs), err), wit)
			continue
		}
		wantEq := vals.Equal(a.v, b.v)
		co, cok := ordOf(vals.Cmp(a.v, b.v))
		to, _ := ordOf(vals.CmpTotal(a.v, b.v))
		ok := vs[0] == wantEq && vs[1] == !wantEq && vs[3] == to
		if cok {
			ok = ok && vs[2] == co
		} else {
			_, isInt := vs[2].(int)
			ok = ok && !isInt && vals.ReprPlain(vs[2]) == vals.ReprPlain(eval.ErrUncomparable)
		}
		if !ok {
			c.Violation("builtin-differs-from-vals", fmt.Sprintf("builtins eq/not-eq/compare/compare &total on %s %s give %v; vals gives eq=%v cmp=%s total=%d",
				gen.Describe(a.m), gen.Describe(b.m), elv.Reprs(vs), wantEq, fmtOrd(co, cok), to), wit)
		}
		// documented: compare on typed numbers is consistent with < and <= (NaN aside)
		if a.m.Kind == gen.KNum && b.m.Kind == gen.KNum && !a.m.IsNaN() && !b.m.IsNaN() {
			vs, err := elvq.Values(ev, `< $a $b; <= $a $b; == $a $b; > $a $b; >= $a $b; != $a $b`)
			c.Evals(1)
			c.Count("number_pairs_via_lt_le_eq", 1)
			want := []any{co < 0, co <= 0, co == 0, co > 0, co >= 0, co != 0}
			good := err == nil && len(vs) == 6 && cok
			if good {
				for k := range want {
					if vs[k] != want[k] {
						good = false
					}
				}
			}
			if !good {
				c.Violation("compare-inconsistent-with-lt-le:"+typePair(a.m, b.m), fmt.Sprintf("< <= == > >= != on %s %s give %v (error %v) while compare gives %s",
					gen.Describe(a.m), gen.Describe(b.m), elv.Reprs(vs), err, fmtOrd(co, cok)), wit)
			}
			// and, outside the float-unification region, with the mathematical order
			if !gen.AnyLossyPair(a.m, b.m) {
				if o, _ := gen.NumCmp(a.m, b.m); err == nil && len(vs) == 6 && (vs[0] != (o < 0) || vs[2] != (o == 0)) {
					c.Violation("lt-eq-differs-from-value:"+typePair(a.m, b.m), fmt.Sprintf("< / == on %s %s give %v / %v, by value %v / %v", gen.Describe(a.m), gen.Describe(b.m), vs[0], vs[2], o < 0, o == 0), wit)
				}
			}
		}
	}
}

// runComplex checks the symmetry of eq between an edit:complex-candidate
// (kind "map") and the map with the same entries.
func runComplex(c *mon.Case) {
	ab, ba := vals.Equal(complexCand, complexMap), vals.Equal(complexMap, complexCand)
	c.Count("complex_candidate_pairs", 1)
	if ab != ba {
		c.Violation("eq-asymmetric:complex-candidate-vs-map", fmt.Sprintf("eq $candidate $map = %v but eq $map $candidate = %v for %s and %s", ab, ba, vals.ReprPlain(complexCand), vals.ReprPlain(complexMap)),
			map[string]any{"candidate": vals.ReprPlain(complexCand), "map": vals.ReprPlain(complexMap)})
	}
	for _, p := range [][2]any{{complexCand, complexMap}, {complexMap, complexCand}} {
		eq := vals.Equal(p[0], p[1])
		o, ok := ordOf(vals.Cmp(p[0], p[1]))
		if eq && !(ok && o == 0) {
			c.Violation("eq-but-compare-nonzero:complex-candidate-vs-map", "eq is true but compare is "+fmtOrd(o, ok), nil)
		}
	}
	c.Nontrivial("complex", c.I)
}

func Spec() *mon.Spec {
	return &mon.Spec{
		ID:            "C09",
		SpinViolation: true, Level: "exploration",
		Rule: "case = a pool of 12 values (clusters of numbers around 2^53, 2^63, 2^64, 2^1024, 0 in all four representations plus ±0, ±Inf, NaN; strings with shared prefixes and invalid UTF-8; lists over a few atoms so that equal lists, prefixes and late differences are frequent, some built by slicing; small maps incl. NaN values; $nil, bools, closures, builtin functions, a namespace; 1/5 of the entries are differently constructed copies of other entries). For all 144 ordered pairs vals.Equal, vals.Cmp and vals.CmpTotal are compared with reference relations written from the documentation (eq = same type and value; compare = per-type orders with numbers by exact rational value, NaN lowest; &total = types in the order observed at process start, then the documented order, 0 for unordered types), and for all 1728 ordered triples the laws are checked on the real results: eq reflexive (unless NaN inside) / symmetric / transitive, eq ⇒ compare 0, compare antisymmetric and transitive (incl. strictness and comparability), &total never raises, antisymmetric, transitive, never 0 across types, equal to compare where that is defined. Every 8th pool also goes through the builtins eq, not-eq, compare, compare &total, < <= == > >= !=. Non-trivial = pool other than 'mixed', or containing two distinct entries that are eq; distinct by the pool's values.",
		Assumptions: []string{
			"the order of types under &total is unspecified; it is observed once per process on one representative per type and then required to stay the same",
			"closures and builtin functions are both kind fn; whether &total separates them is not asserted, only that it is consistent",
			"pairs of one exact and one inexact number whose exact member is not exactly representable as a float64 (or is beyond int64) are reported under the known-finding signature " + knownFloatUnify,
		},
		ChildSetup: setup,
		Phases: []mon.Phase{
			{Name: "pool", Quick: 12000, Thorough: 80000, Run: runPool},
			{Name: "complex-candidate", Quick: 4, Thorough: 16, Run: runComplex},
		},
		Floors: map[string]int{"distinct_nontrivial": 1000, "triples": 2000000, "ordered_pairs": 100000, "uncomparable_pairs": 20000, "eq_pairs_distinct_entries": 5000,
			"number_pairs_mixed_representation": 20000, "pairs_in_float_unify_region": 3000, "pairs_via_builtins": 2500, "number_pairs_via_lt_le_eq": 500,
			"pools_number-cluster": 150, "pools_lists": 150, "pools_maps": 150, "pools_strings": 150, "pools_mixed": 300, "complex_candidate_pairs": 1},
	}
}
