// Package c02 monitors the "partial" flag of parse errors on prefixes of valid
// programs and the Enter decision of the editor (property C02).
package c02

import (
	"fmt"
	"time"
	"unicode/utf8"

	"src.elv.sh/pkg/cli/clitest"
	"src.elv.sh/pkg/cli/term"
	"src.elv.sh/pkg/edit"
	"src.elv.sh/pkg/eval"
	"src.elv.sh/pkg/parse"
	"src.elv.sh/pkg/ui"
	"verifharness/internal/elv"
	"verifharness/internal/gen"
	"verifharness/internal/mon"
)

func parseErrs(code string) []*parse.Error {
	_, err := parse.Parse(parse.Source{Name: "[c02]", Code: code}, parse.Config{})
	return parse.UnpackErrors(err)
}

func errList(errs []*parse.Error) []string {
	var out []string
	for i, e := range errs {
		if i == 6 {
			out = append(out, "...")
			break
		}
		out = append(out, fmt.Sprintf("[%d,%d) partial=%v %s", e.Context.From, e.Context.To, e.Partial, e.Message))
	}
	return out
}

// checkAny applies the parts of the property that hold for every input:
// a partial error starts at the very end, and the Enter decision (newline
// instead of submit) is taken exactly when some error is partial.
func checkAny(c *mon.Case, kind, code string, errs []*parse.Error) (anyPartial bool) {
	for _, e := range errs {
		if e.Partial {
			anyPartial = true
			if e.Context.From != len(code) {
				c.Violation("partial-error-not-at-end", fmt.Sprintf("parse error %q is marked partial but starts at %d in a %d-byte input",
					e.Message, e.Context.From, len(code)), map[string]any{"input": mon.Q(code), "errors": errList(errs), "generator": kind})
			}
		}
	}
	complete := edit.VerifIsSyntaxComplete(code)
	c.Count("enter_decisions_checked", 1)
	if anyPartial && complete {
		c.Violation("enter:submits-code-with-partial-error", "the Enter decision is 'submit' although the code has a partial parse error",
			map[string]any{"input": mon.Q(code), "errors": errList(errs), "generator": kind})
	}
	if !anyPartial && !complete {
		sig := "enter:newline-without-partial-error"
		if len(errs) == 0 {
			sig = "enter:newline-on-clean-code"
		}
		c.Violation(sig, "the Enter decision is 'insert newline' although no parse error is partial",
			map[string]any{"input": mon.Q(code), "errors": errList(errs), "generator": kind})
	}
	if anyPartial {
		c.Count("inputs_with_partial_error", 1)
	}
	for _, e := range errs {
		if e.Partial {
			c.Distinct("partial_error_messages", e.Message)
		}
	}
	return anyPartial
}

func genProgram(c *mon.Case) string {
	r := c.Rand
	o := gen.SyntaxOpt{MaxForms: 1 + r.Intn(3)}
	switch r.Intn(6) {
	case 0:
		o.Budget = 6
	case 1:
		o.Budget = 15
	case 2:
		o.Budget = 30
	}
	return gen.ElvProgramTree(r, o).Source()
}

// checkPrefixes checks every proper prefix of a valid program.
func checkPrefixes(c *mon.Case, kind, prog string) {
	if !utf8.ValidString(prog) {
		c.Count("programs_skipped_invalid_utf8", 1)
		return
	}
	if errs := parseErrs(prog); len(errs) > 0 {
		// not a valid program: no premise. (Still an input.)
		c.Count("generated_programs_with_parse_error", 1)
		checkAny(c, kind, prog, errs)
		return
	}
	c.Count("valid_programs", 1)
	c.Max("program_bytes", len(prog))
	nprefix, nerr := 0, 0
	for i := range prog { // rune boundaries, including 0
		p := prog[:i]
		errs := parseErrs(p)
		nprefix++
		for _, e := range errs {
			if !e.Partial {
				c.Violation("prefix:non-partial-error", fmt.Sprintf("prefix of %d bytes of a valid program has the non-partial parse error %q at [%d,%d)",
					len(p), e.Message, e.Context.From, e.Context.To),
					map[string]any{"prefix": mon.Q(p), "program": mon.Q(prog), "errors": errList(errs), "generator": kind})
				break
			}
		}
		checkAny(c, kind, p, errs)
		if len(errs) > 0 {
			nerr++
			c.Nontrivial(p)
			if len(p) > 8 {
				c.Sample("prefix-with-partial-error", map[string]any{"prefix": mon.Q(p), "program": mon.Q(prog), "errors": errList(errs)})
			}
		}
	}
	c.Count("prefixes", nprefix)
	c.Count("prefixes_with_error", nerr)
	c.Count("prefixes_clean", nprefix-nerr)
	c.Evals(nprefix)
}

func runPrefixes(c *mon.Case) {
	for i := 0; i < 4; i++ {
		checkPrefixes(c, "grammar", genProgram(c))
	}
}

// Hand-written valid programs that end in, or cut through, every construct
// with its own end-of-input error path.
var seedPrograms = []string{
	"echo 'a''b'", "echo \"a\\n\\x41\\101\\u00e9\\U0001F600\\^I\\cA\\\\\"", "put $x $@x $'a b' $\"a\\tb\" $x:y~",
	"put [a b] [&k=v] [&] [&k= v] [&k]", "put {a,b} {a b} {,a} {}", "put (echo a) ?(fail x)", "put { echo } {|a &o=1 @r| put $a }",
	"echo a > f 2>&1 >&- < in >> out <> rw", "echo a ^\n b ^\r\n c", "echo a # comment\necho b", "a | b |\n c &", "a; b\nc\r\nd\re",
	"put $x[0][1..2] [a b][0] (f)[k]", "put ~ ~/a ~user *a ?b **", "if $a { b } elif $c { d } else { e }", "e &k=v &f", "put a$x'b'\"c\"(d){e,f}[g]",
	"fn f {|a|\n  put $a\n}\n", "put [\n a\n b\n]", "put [&a=\n 1 &b=2\n]", "echo \"multi\nline\" 'multi\nline'", "{ a; b }", "put {\n a }", "x=1 y=2 cmd",
	"put 好 é😀 $好", "^ a", "a^b c", "echo \\", "put 1e3 0x1F 3/4 -1 +inf", "try { a } catch e { b } finally { c }", "put [[a][b]][0][0]",
	"put (put ?(put {a,[b c]}))", "echo >(f) <[&r=$p]", "put 'a'[0]", "echo a;", "echo a &", "\n\n", " ", "", "#c", "#c\n",
}

func runSeeds(c *mon.Case) {
	if c.I < len(seedPrograms) {
		checkPrefixes(c, "seed", seedPrograms[c.I])
		return
	}
	// suffix-extended seeds: a seed followed by a generated program
	r := c.Rand
	s := seedPrograms[r.Intn(len(seedPrograms))]
	sep := []string{"\n", ";", " ; ", "\r\n", " | "}[r.Intn(5)]
	checkPrefixes(c, "seed+grammar", s+sep+genProgram(c))
}

// runAny: arbitrary inputs (not prefixes of anything valid).
func runAny(c *mon.Case) {
	r := c.Rand
	const n = 150
	for i := 0; i < n; i++ {
		var s, kind string
		switch i % 3 {
		case 0:
			s, kind = gen.BytesAdv(r, 24), "adversarial"
		case 1:
			s, kind = gen.RandomBytes(r, 32), "random"
		default:
			s, kind = genProgram(c), "mutated"
			for j := 1 + r.Intn(2); j > 0; j-- {
				s = gen.ElvMutate(r, s)
			}
		}
		errs := parseErrs(s)
		if checkAny(c, kind, s, errs) {
			c.Nontrivial(s)
		}
		c.Count("arbitrary_inputs", 1)
		if len(errs) > 0 {
			np := 0
			for _, e := range errs {
				if !e.Partial {
					np++
				}
			}
			if np > 0 {
				c.Count("arbitrary_inputs_with_nonpartial_error", 1)
			}
		}
	}
	c.Evals(n - 1)
}

// tails enumerates inputs that end inside an unterminated construct: every
// backslash escape (complete, truncated at each position, out of range)
// inside an open double-quoted string, and every opener of the grammar.
var tails = func() []string {
	var ts []string
	for b := 0; b < 256; b++ { // "\<byte>
		ts = append(ts, "\"\\"+string([]byte{byte(b)}))
	}
	for a := 0; a < 8; a++ { // octal escapes of 1..3 digits, including > \377
		ts = append(ts, fmt.Sprintf("\"\\%d", a))
		for b := 0; b < 8; b++ {
			ts = append(ts, fmt.Sprintf("\"\\%d%d", a, b))
			for d := 0; d < 8; d++ {
				ts = append(ts, fmt.Sprintf("\"\\%d%d%d", a, b, d), fmt.Sprintf("\"x\\%d%d%dy", a, b, d))
			}
		}
	}
	for _, lead := range []string{"x", "u", "U", "c", "^"} {
		for _, digits := range []string{"", "4", "41", "0041", "00000041", "0010ffff", "00110000", "d800", "g", "zz", "@", "?", "[", "~"} {
			for k := 0; k <= len(digits); k++ {
				ts = append(ts, "\"\\"+lead+digits[:k])
			}
		}
	}
	ts = append(ts, "'", "'it''s", "'a\n", "\"", "\"a\nb", "(", "?(", "[", "[&", "[&k=", "{", "{|x|", "{ ", "a |", "a | ", "a >", "a > ", "a 2>", "a 2>&", "a >&",
		"a <", "$", "$x[", "$x[0", "$@", "$ns:", "~", "a ^", "a ^\r", "a ^\n", "a &", "a;", "if a {", "if a { } el", "a[", "a[&", "x=", "x = ", "&k=", "a &k", "a &k=", "*[", "**[se", "#", "# c")
	return ts
}()

func runTails(c *mon.Case) {
	prefixes := []string{"", "echo ", "put a; echo ", "e |\n", "fn f {\n  echo ", "x=(", "[\"ok\" "}
	t := tails[c.I%len(tails)]
	for _, p := range prefixes {
		s := p + t
		errs := parseErrs(s)
		if checkAny(c, "tail", s, errs) {
			c.Nontrivial(s)
		}
		c.Count("tail_inputs", 1)
	}
	c.Evals(len(prefixes) - 1)
	c.Sample("tail", map[string]any{"input": mon.Q("echo " + t), "errors": errList(parseErrs("echo " + t))})
}

// ---- end to end: a real editor on a fake terminal -----------------------------------

// enterOutcome types p into a fresh editor, presses Enter and reports what
// happened: "newline" (buffer is p+"\n", still reading), "submit" (ReadCode
// returned) or "" (undecided within the patience budget).
func enterOutcome(p string) (outcome string, detail string) {
	tty, ctrl := clitest.NewFakeTTY()
	ev := eval.NewEvaler()
	ed := edit.NewEditor(tty, ev, nil)
	ev.ExtendBuiltin(eval.BuildNs().AddNs("edit", ed))
	elv.SetVar(ev, "verif-code", p)
	if res := elv.Eval(ev, "set edit:prompt = { put '> ' }; set edit:rprompt = { }; set edit:current-command = $verif-code"); res.Err != nil {
		return "", "setup failed: " + res.Err.Error()
	}
	codeCh, _ := clitest.StartReadCode(ed.ReadCode)
	ctrl.Inject(term.K(ui.Enter))
	deadline := time.Now().Add(30 * time.Second)
	for time.Now().Before(deadline) {
		select {
		case code := <-codeCh:
			return "submit", code
		default:
		}
		res := elv.Eval(ev, "put $edit:current-command")
		if res.Err == nil && len(res.Values) == 1 {
			if s, ok := res.Values[0].(string); ok && s == p+"\n" {
				outcome = "newline"
				break
			} else if ok && s != p {
				// Something else happened to the buffer. ReadCode may have
				// just returned and reset it; look at the channel once more.
				select {
				case code := <-codeCh:
					return "submit", code
				default:
				}
				if s != "" {
					outcome, detail = "other", s
					break
				}
			}
		}
		time.Sleep(2 * time.Millisecond)
	}
	// end the session
	elv.Eval(ev, "edit:return-eof")
	select {
	case <-codeCh:
	case <-time.After(30 * time.Second):
		if outcome == "" {
			detail = "editor did not stop"
		}
	}
	return outcome, detail
}

func runEditor(c *mon.Case) {
	r := c.Rand
	// pick prefixes of small valid programs, balanced between clean and partial
	var wantNewline, wantSubmit []string
	for tries := 0; tries < 200 && (len(wantNewline) < 4 || len(wantSubmit) < 4); tries++ {
		prog := gen.ElvProgramTree(r, gen.SyntaxOpt{MaxForms: 2, Budget: 8}).Source()
		if c.I%4 == 0 && tries < len(seedPrograms) {
			prog = seedPrograms[(c.I/4+tries)%len(seedPrograms)]
		}
		if !utf8.ValidString(prog) || len(parseErrs(prog)) > 0 || prog == "" {
			continue
		}
		i := r.Intn(len(prog))
		for i > 0 && !utf8.RuneStart(prog[i]) {
			i--
		}
		p := prog[:i]
		if r.Intn(6) == 0 {
			p = prog
		}
		errs := parseErrs(p)
		partial := false
		for _, e := range errs {
			partial = partial || e.Partial
		}
		if partial && len(wantNewline) < 4 {
			wantNewline = append(wantNewline, p)
		} else if len(errs) == 0 && len(wantSubmit) < 4 && p != "" {
			wantSubmit = append(wantSubmit, p)
		}
	}
	run := func(p string, want string) {
		got, detail := enterOutcome(p)
		c.Evals(1)
		switch {
		case got == "":
			c.Inconclusive("editor-undecided")
			return
		case got == want:
			c.Count("editor_enter_"+want, 1)
			c.Nontrivial("editor", p)
			c.Sample("editor-"+want, map[string]any{"typed": mon.Q(p), "outcome": got})
		default:
			c.Violation("editor:enter-"+got+"-expected-"+want,
				fmt.Sprintf("real editor: Enter on %s gave %q (expected %q)", mon.Q(p), got, want),
				map[string]any{"typed": mon.Q(p), "outcome": got, "detail": mon.Q(detail), "errors": errList(parseErrs(p))})
		}
	}
	for _, p := range wantNewline {
		run(p, "newline")
	}
	for _, p := range wantSubmit {
		run(p, "submit")
	}
}

func Spec() *mon.Spec {
	return &mon.Spec{
		ID: "C02", Level: "exploration",
		Rule: "phase prefixes/seeds: a generated (gen.ElvProgramTree) or hand-written program that the real parser accepts without error (validity is never assumed) and every prefix of it cut at a rune boundary: all parse errors of the prefix must be partial, each partial error must start at len(prefix), and edit's Enter decision (isSyntaxComplete, via the verif hook) must be 'newline' iff the prefix has a (partial) error. Phase arbitrary: adversarial / random / mutated inputs: every partial error starts at the end and the Enter decision is 'newline' iff some error is partial. Phase editor: a real edit.Editor on a fake TTY, buffer set to the prefix, Enter key injected, outcome (buffer got a newline vs. ReadCode returned) compared with the partial flag. Non-trivial = prefix (or input) that has at least one partial parse error; distinct by text.",
		Assumptions: []string{
			"programs containing invalid UTF-8 are not used as premises (the language reference requires UTF-8 source); prefixes are cut at rune boundaries",
			"only parse errors are considered; partial flags of compilation errors are out of scope (the property speaks of parse errors)",
			"for inputs that are not prefixes of a valid program the check demands 'Enter inserts a newline iff some parse error is partial', from the documentation of edit:smart-enter (syntactically incomplete code gets a newline, otherwise the line is accepted) and of diag.Error.Partial",
			"in the editor phase 'submitted' means ReadCode returned; the returned text is not compared (autofix may legitimately change it); an outcome not observed within 30 s is inconclusive",
		},
		Phases: []mon.Phase{
			{Name: "seeds", Quick: 200, Thorough: 2000, Run: runSeeds},
			{Name: "prefixes", Quick: 500, Thorough: 5000, Run: runPrefixes},
			{Name: "arbitrary", Quick: 600, Thorough: 6000, Run: runAny},
			{Name: "tails", Quick: len(tails), Thorough: len(tails), Run: runTails},
			{Name: "editor", Quick: 40, Thorough: 400, Run: runEditor, Batch: 2},
		},
		Floors: map[string]int{
			"valid_programs": 700, "prefixes": 100000, "prefixes_with_error": 20000, "prefixes_clean": 20000,
			"enter_decisions_checked": 140000, "arbitrary_inputs": 30000, "inputs_with_partial_error": 30000,
			"arbitrary_inputs_with_nonpartial_error": 10000, "partial_error_messages": 6,
			"editor_enter_newline": 40, "editor_enter_submit": 40, "distinct_nontrivial": 20000,
		},
	}
}
