// Package c25 kills a process that uses the history store at every
// write/sync system call it makes (enumerated with strace, injected with
// strace's fault injection) and at random acknowledged-operation counts, and
// checks that the reopened database is the reference model after a prefix of
// the attempted operations that contains every acknowledged one
// (property C25).
package c25

import (
	"math/rand"
	"bufio"
	"bytes"
	"fmt"
	"os"
	"os/exec"
	"path/filepath"
	"regexp"
	"sort"
	"strconv"
	"strings"
	"syscall"
	"time"

	"src.elv.sh/pkg/store"
	"verifharness/internal/mon"
	"verifharness/internal/refstore"
)

// Traced system calls: everything bbolt uses to change or sync the file.
var crashSyscalls = []string{"pwrite64", "fdatasync", "fsync", "ftruncate"}

// ---------------------------------------------------------------------------
// scenario = script + model after every prefix

type scenario struct {
	dir    string
	ops    []refstore.Op
	models []*refstore.Store // models[i] = state after ops[:i]
	expSeq []int             // expected AddCmd result per op (0 for others)
	script string
	db     string
	nrun   int
}

func newScenario(c *mon.Case) *scenario { return newScenarioRand(c, c.Rand) }

func newScenarioRand(c *mon.Case, r *rand.Rand) *scenario {
	w := [refstore.NumKinds]int{refstore.OpAdd: 40, refstore.OpDel: 14, refstore.OpAddDir: 22, refstore.OpDelDir: 4,
		refstore.OpNextSeq: 3, refstore.OpPrev: 3, refstore.OpDirs: 2, refstore.OpList: 2}
	g := refstore.NewGen(r, w, 3+r.Intn(12))
	g.BigTexts = r.Intn(3) == 0
	n := 18 + r.Intn(c.Env.Pick(22, 40))
	sc := &scenario{dir: filepath.Join(c.Dir, fmt.Sprintf("%s%d", c.Phase[:1], c.I))}
	os.MkdirAll(sc.dir, 0o755)
	m := refstore.New()
	sc.models = append(sc.models, m.Clone())
	for i := 0; i < n; i++ {
		o := g.Next(m)
		if o.K == refstore.OpDel && r.Intn(3) == 0 && m.MaxSeq() >= 1 {
			o.A = m.MaxSeq() - r.Intn(2) // delete the newest entries: the counter must not fall back after a crash
		}
		res := m.Apply(o)
		sc.ops = append(sc.ops, o)
		seq := 0
		if o.K == refstore.OpAdd {
			seq = res.Seq
		}
		sc.expSeq = append(sc.expSeq, seq)
		sc.models = append(sc.models, m.Clone())
	}
	sc.script = filepath.Join(sc.dir, "script.gob")
	sc.db = filepath.Join(sc.dir, "db")
	return sc
}

func (sc *scenario) cleanup() { os.RemoveAll(sc.dir) }

// dbFiles lists the database file and anything created next to it under a
// derived name (a fixed store might create the file under a temporary name).
func (sc *scenario) dbFiles() []string {
	fs, _ := filepath.Glob(sc.db + "*")
	return fs
}

func (sc *scenario) removeDB() {
	for _, f := range sc.dbFiles() {
		os.Remove(f)
	}
}

func (sc *scenario) dbSizes() map[string]int64 {
	m := map[string]int64{}
	for _, f := range sc.dbFiles() {
		if fi, err := os.Stat(f); err == nil {
			m[filepath.Base(f)] = fi.Size()
		}
	}
	return m
}

// tearCreationImage simulates a SIGKILL that interrupts bbolt's creation
// write (one pwrite64 of 4 pages at offset 0): on Linux a fatal signal stops
// a multi-page write between pages, leaving a prefix. The process has been
// killed right after that write (at the first fdatasync), so the file that
// received it holds exactly the 4-page image; it is cut to `pages` pages.
func (sc *scenario) tearCreationImage(pages int) bool {
	ps := int64(os.Getpagesize())
	for _, f := range sc.dbFiles() {
		if fi, err := os.Stat(f); err == nil && fi.Size() == 4*ps {
			return os.Truncate(f, int64(pages)*ps) == nil
		}
	}
	return false
}

// ---------------------------------------------------------------------------
// running the child

type plan struct {
	kind  string // "", "trace", "inject", "sigkill"
	sys   string // inject: system call
	when  int    // inject: ordinal (per thread)
	after int    // sigkill: kill when the journal has this many lines
	torn  int    // >0: after the kill, cut the file that holds bbolt's 4-page creation image down to this many pages
}

func (p plan) String() string {
	switch p.kind {
	case "inject":
		if p.torn > 0 {
			return fmt.Sprintf("SIGKILL at %s #%d + creation write cut after %d of 4 pages", p.sys, p.when, p.torn)
		}
		return fmt.Sprintf("SIGKILL at %s #%d", p.sys, p.when)
	case "sigkill":
		return fmt.Sprintf("SIGKILL after journal line %d", p.after)
	}
	return "no kill"
}

type childResult struct {
	killed  bool
	exit    int
	stderr  string
	trace   string // path of the strace output ("" if not traced)
	ackPath string
	harness string // non-empty: machinery problem (inconclusive)
}

func (sc *scenario) runChild(start int, p plan) childResult {
	sc.nrun++
	res := childResult{ackPath: filepath.Join(sc.dir, fmt.Sprintf("ack%d", sc.nrun))}
	os.Remove(res.ackPath)
	self, err := os.Executable()
	if err != nil {
		res.harness = "os.Executable"
		return res
	}
	var cmd *exec.Cmd
	switch p.kind {
	case "trace":
		res.trace = filepath.Join(sc.dir, fmt.Sprintf("trace%d", sc.nrun))
		cmd = exec.Command("strace", "-f", "-y", "-s", "0", "--seccomp-bpf", "-e", "signal=none",
			"-e", "trace="+strings.Join(crashSyscalls, ",")+",write", "-o", res.trace, self)
	case "inject":
		// no --seccomp-bpf here: with it strace 6.1 does not deliver the injected signal (observed; the floors caught it)
		cmd = exec.Command("strace", "-f", "-e", "signal=none", "-e", "trace="+p.sys,
			"-e", fmt.Sprintf("inject=%s:signal=KILL:when=%d", p.sys, p.when), "-o", "/dev/null", self)
	default:
		cmd = exec.Command(self)
	}
	var errb bytes.Buffer
	cmd.Stderr = &errb
	cmd.Env = append(os.Environ(), envChild+"=1", envDB+"="+sc.db, envScript+"="+sc.script, envAck+"="+res.ackPath,
		envStart+"="+strconv.Itoa(start), "GOMAXPROCS=1", "GOTRACEBACK=single", "GORACE=", "GODEBUG=asyncpreemptoff=1")
	if err := cmd.Start(); err != nil {
		res.harness = "start: " + err.Error()
		return res
	}
	done := make(chan error, 1)
	go func() { done <- cmd.Wait() }()
	var werr error
	if p.kind == "sigkill" {
		tick := time.NewTicker(100 * time.Microsecond)
		defer tick.Stop()
	poll:
		for {
			select {
			case werr = <-done:
				break poll
			case <-tick.C:
				if b, err := os.ReadFile(res.ackPath); err == nil && bytes.Count(b, []byte("\n")) >= p.after {
					cmd.Process.Kill()
					werr = <-done
					break poll
				}
			}
		}
	} else {
		select {
		case werr = <-done:
		case <-time.After(100 * time.Second):
			cmd.Process.Kill()
			<-done
			res.harness = "child-timeout"
			return res
		}
	}
	res.stderr = errb.String()
	if werr != nil {
		if ee, ok := werr.(*exec.ExitError); ok {
			ws := ee.Sys().(syscall.WaitStatus)
			switch {
			case ws.Signaled() && ws.Signal() == syscall.SIGKILL:
				res.killed = true
			case ws.Signaled():
				res.exit = 128 + int(ws.Signal())
			default:
				res.exit = ws.ExitStatus()
				if res.exit == 137 {
					res.killed = true
				}
			}
		} else {
			res.harness = "wait: " + werr.Error()
		}
	}
	return res
}

// ---------------------------------------------------------------------------
// journal

type ackLine struct {
	i, seq int
	err    string
}

type journal struct {
	opened, done bool
	acks         []ackLine
}

func readJournal(path string) journal {
	var j journal
	b, err := os.ReadFile(path)
	if err != nil {
		return j
	}
	for _, line := range strings.Split(string(b), "\n") {
		switch {
		case line == "open":
			j.opened = true
		case line == "done":
			j.done = true
		case strings.HasPrefix(line, "ack "):
			f := strings.SplitN(line, " ", 4)
			if len(f) != 4 {
				continue
			}
			i, e1 := strconv.Atoi(f[1])
			s, e2 := strconv.Atoi(f[2])
			msg, e3 := strconv.Unquote(f[3])
			if e1 != nil || e2 != nil || e3 != nil {
				continue // torn last line cannot happen (one write(2) per line), but be safe
			}
			j.acks = append(j.acks, ackLine{i, s, msg})
		}
	}
	return j
}

// ---------------------------------------------------------------------------
// strace output

type tline struct {
	tid   string
	sys   string
	path  string
	off   int64
	n     int64
	isDB  bool
	isAck bool
}

var traceRe = regexp.MustCompile(`^(\d+)\s+(\w+)\((\d+)<([^>]*)>(.*)$`)
var pwriteArgsRe = regexp.MustCompile(`,\s*(\d+),\s*(\d+)\)?\s*(=|<unfinished)`)

func parseTrace(path, db, ack string) ([]tline, error) {
	f, err := os.Open(path)
	if err != nil {
		return nil, err
	}
	defer f.Close()
	var out []tline
	sc := bufio.NewScanner(f)
	sc.Buffer(make([]byte, 1<<20), 1<<24)
	for sc.Scan() {
		line := sc.Text()
		if strings.Contains(line, " resumed>") {
			continue
		}
		m := traceRe.FindStringSubmatch(line)
		if m == nil {
			continue
		}
		t := tline{tid: m[1], sys: m[2], path: m[4]}
		t.isDB = t.path == db
		t.isAck = t.path == ack
		if t.sys == "pwrite64" {
			if a := pwriteArgsRe.FindStringSubmatch(m[5]); a != nil {
				t.n, _ = strconv.ParseInt(a[1], 10, 64)
				t.off, _ = strconv.ParseInt(a[2], 10, 64)
			}
		}
		out = append(out, t)
	}
	return out, sc.Err()
}

func isMetaWrite(t tline) bool {
	return t.sys == "pwrite64" && t.isDB && t.n == 4096 && (t.off == 0 || t.off == 4096)
}

// ---------------------------------------------------------------------------
// observing and matching the reopened state

type observed struct {
	cmds refstore.Result
	next refstore.Result
	dirs refstore.Result
}

func observe(st store.DBStore) observed {
	return observed{
		cmds: refstore.Exec(st, refstore.Op{K: refstore.OpList, A: 0, B: -1}),
		next: refstore.Exec(st, refstore.Op{K: refstore.OpNextSeq}),
		dirs: refstore.Exec(st, refstore.Op{K: refstore.OpDirs}),
	}
}

// differs returns "" if the observed state equals the model.
func (o observed) differs(m *refstore.Store) string {
	mm := m.Clone()
	if cl, what := mm.Check(refstore.Op{K: refstore.OpNextSeq}, o.next); cl != "" {
		return what
	}
	if cl, what := mm.Check(refstore.Op{K: refstore.OpList, A: 0, B: -1}, o.cmds); cl != "" {
		return what
	}
	if cl, what := mm.Check(refstore.Op{K: refstore.OpDirs}, o.dirs); cl != "" {
		return what
	}
	return ""
}

type stats struct {
	crashes, rolledBack, committedUnacked, betweenOps, duringOpen, completed, secondCrashes, reopenOK, tornApplied, probes int
	execPer                                                                                           map[string]int
	landedPer                                                                                         map[string]int
}

func newStats() *stats { return &stats{execPer: map[string]int{}, landedPer: map[string]int{}} }

// crashRun runs the script from scratch on a fresh database, killing the
// child according to plans[0], continuing after each crash with the next
// plan (no kill once the plans are used up), and checks the oracle after
// every round. Returns false after a violation or an inconclusive run.
func (sc *scenario) crashRun(c *mon.Case, plans []plan, st *stats) bool {
	sc.removeDB()
	start := 0
	maxAcked := 0
	everOpened := false
	var story []string
	wit := func(extra map[string]any) map[string]any {
		w := map[string]any{"rounds": story, "script": opStrings(sc.ops)}
		for k, v := range extra {
			w[k] = v
		}
		return w
	}
	for round := 0; ; round++ {
		p := plan{}
		if round < len(plans) {
			p = plans[round]
		}
		res := sc.runChild(start, p)
		if res.harness != "" {
			c.Inconclusive("harness:" + strings.SplitN(res.harness, ":", 2)[0])
			return false
		}
		j := readJournal(res.ackPath)
		story = append(story, fmt.Sprintf("round %d: start at op %d, %v -> killed=%v exit=%d opened=%v acks=%d done=%v", round, start, p, res.killed, res.exit, j.opened, len(j.acks), j.done))
		everOpened = everOpened || j.opened
		if res.killed && p.torn > 0 {
			if everOpened || !sc.tearCreationImage(p.torn) {
				c.Inconclusive("torn:no-creation-image")
				return false
			}
			st.tornApplied++
		}
		if res.killed && !everOpened {
			// The process died while the database was being created. Open it
			// in a separate process first: a half-created file can make
			// bbolt fault (SIGBUS), which must not take this worker down.
			pr := sc.runChild(len(sc.ops), plan{})
			if pr.harness != "" {
				c.Inconclusive("harness:probe")
				return false
			}
			sim := ""
			if p.torn > 0 {
				sim = "-simulated"
			}
			story = append(story, fmt.Sprintf("probe: exit=%d killed=%v %s", pr.exit, pr.killed, lastLine(pr.stderr)))
			switch {
			case pr.exit == 4:
				c.Violation("torn-creation"+sim+":reopen-failed", fmt.Sprintf("the process was killed while the database file was being created (%v); store.NewStore now fails: %s", p, lastLine(pr.stderr)), wit(map[string]any{"file_sizes": sc.dbSizes()}))
				return false
			case pr.exit != 0 || pr.killed:
				c.Violation("torn-creation"+sim+":reopen-crashed", fmt.Sprintf("the process was killed while the database file was being created (%v); a process that opens it now crashes: %s", p, firstPanic(pr.stderr)), wit(map[string]any{"file_sizes": sc.dbSizes(), "stderr": tailStr(pr.stderr, 3000)}))
				return false
			}
			st.probes++
		}
		if !res.killed && res.exit != 0 {
			switch res.exit {
			case 4:
				c.Violation("reopen-failed-in-child", "store.NewStore failed in a new process after a crash: "+lastLine(res.stderr), wit(map[string]any{"stderr": res.stderr}))
			case 2:
				c.Violation("child-panic", "the process using the store panicked: "+firstPanic(res.stderr), wit(map[string]any{"stderr": tailStr(res.stderr, 4000)}))
			case 5:
				c.Violation("close-failed", "Close failed: "+lastLine(res.stderr), wit(nil))
			default:
				if strings.Contains(res.stderr, "strace:") {
					c.Inconclusive("strace-failed")
				} else {
					c.Inconclusive(fmt.Sprintf("child-exit-%d", res.exit))
				}
			}
			return false
		}
		// acknowledged results must be the model's, and consecutive
		for k, a := range j.acks {
			if a.i != start+k {
				c.Inconclusive("journal-not-consecutive")
				return false
			}
			if a.err != "" && (sc.ops[a.i].K == refstore.OpAdd || sc.ops[a.i].K == refstore.OpAddDir) {
				c.Violation("op-error", fmt.Sprintf("%v returned error %q in the child", sc.ops[a.i], a.err), wit(nil))
				return false
			}
			if sc.ops[a.i].K == refstore.OpAdd {
				if a.seq != sc.expSeq[a.i] {
					c.Violation("acked-seq", fmt.Sprintf("op %d %v was acknowledged with seq %d, reference %d", a.i, sc.ops[a.i], a.seq, sc.expSeq[a.i]), wit(nil))
					return false
				}
				if a.seq <= maxAcked && round > 0 {
					c.Violation("seq-reused-after-crash", fmt.Sprintf("after reopening, AddCmd returned %d although %d had been acknowledged before the crash", a.seq, maxAcked), wit(nil))
					return false
				}
			}
		}
		for _, a := range j.acks {
			if sc.ops[a.i].K == refstore.OpAdd && a.seq > maxAcked {
				maxAcked = a.seq
			}
		}
		acks := len(j.acks)
		// reopen (in this process) and observe
		db, err := store.NewStore(sc.db)
		if err != nil {
			c.Violation("reopen-failed", fmt.Sprintf("store.NewStore failed after %v: %v", p, err), wit(nil))
			return false
		}
		st.reopenOK++
		obs := observe(db)
		if cerr := db.Close(); cerr != nil {
			c.Violation("close-failed", "Close after reopening failed: "+cerr.Error(), wit(nil))
			return false
		}
		if obs.next.Err == "" && obs.next.Seq <= maxAcked {
			c.Violation("counter-behind-acked", fmt.Sprintf("after reopening NextCmdSeq is %d, but %d was acknowledged", obs.next.Seq, maxAcked), wit(nil))
			return false
		}
		// which prefix?
		cands := []int{acks}
		if j.opened && start+acks < len(sc.ops) && !j.done {
			cands = append(cands, acks+1)
		}
		pfx := -1
		var diffs []string
		for _, k := range cands {
			d := obs.differs(sc.models[start+k])
			if d == "" {
				pfx = k
				break
			}
			diffs = append(diffs, fmt.Sprintf("vs prefix of %d ops: %s", start+k, d))
		}
		if pfx < 0 {
			sig := "state-not-a-prefix"
			if !res.killed {
				sig = "state-wrong-without-crash"
			}
			c.Violation(sig, fmt.Sprintf("after %v (%d operations acknowledged since op %d) the reopened store equals neither the model after the acknowledged operations nor after one more: %s",
				p, acks, start, strings.Join(diffs, "; ")), wit(map[string]any{"observed_cmds": obs.cmds.String(), "observed_next": obs.next.Seq, "in_flight": opAt(sc.ops, start+acks)}))
			return false
		}
		if res.killed {
			st.crashes++
			if round > 0 {
				st.secondCrashes++
			}
			if p.kind == "inject" {
				st.landedPer[p.sys]++
			}
			inflight := start+acks < len(sc.ops)
			switch {
			case !j.opened:
				st.duringOpen++
			case pfx == acks+1 && sc.ops[start+acks].Mutates():
				st.committedUnacked++
			case pfx == acks && inflight && sc.ops[start+acks].Mutates() && p.kind == "inject":
				st.rolledBack++ // the kill hit a write/sync call of the in-flight transaction
			default:
				st.betweenOps++
			}
		} else {
			if !j.done || start+acks != len(sc.ops) {
				c.Inconclusive("child-ended-early")
				return false
			}
			st.completed++
		}
		if p.kind == "inject" {
			st.execPer[p.sys]++
		}
		start += pfx
		if !res.killed {
			break
		}
		if start >= len(sc.ops) && round >= len(plans)-1 {
			break
		}
	}
	// continue on the reopened store in this process: new numbers are above everything acknowledged
	db, err := store.NewStore(sc.db)
	if err != nil {
		c.Violation("reopen-failed", "store.NewStore failed at the end: "+err.Error(), wit(nil))
		return false
	}
	defer db.Close()
	m := sc.models[len(sc.ops)].Clone()
	for k := 0; k < 2; k++ {
		o := refstore.Op{K: refstore.OpAdd, S: fmt.Sprintf("after-crash-%d", k)}
		got := refstore.Exec(db, o)
		if got.Err == "" && got.Seq <= maxAcked {
			c.Violation("seq-reused-after-crash", fmt.Sprintf("AddCmd after the crash returned %d, but %d had been acknowledged", got.Seq, maxAcked), wit(nil))
			return false
		}
		if cl, what := m.Check(o, got); cl != "" {
			c.Violation("after-crash:"+cl, what, wit(nil))
			return false
		}
	}
	return true
}

func opStrings(ops []refstore.Op) []string {
	out := make([]string, len(ops))
	for i, o := range ops {
		out[i] = fmt.Sprintf("%d: %v", i, o)
	}
	return out
}

func opAt(ops []refstore.Op, i int) string {
	if i < len(ops) {
		return ops[i].String()
	}
	return "(none)"
}

func lastLine(s string) string {
	s = strings.TrimSpace(s)
	if k := strings.LastIndex(s, "\n"); k >= 0 {
		s = s[k+1:]
	}
	return s
}

func firstPanic(s string) string {
	for _, l := range strings.Split(s, "\n") {
		if strings.HasPrefix(l, "panic:") || strings.HasPrefix(l, "fatal error:") || strings.Contains(l, "SIGSEGV") || strings.Contains(l, "SIGBUS") {
			return l
		}
	}
	return lastLine(s)
}

func tailStr(s string, n int) string {
	if len(s) > n {
		return s[len(s)-n:]
	}
	return s
}

func (st *stats) flush(c *mon.Case) {
	c.Count("crashes", st.crashes)
	c.Count("crashes_rolled_back_in_flight_op", st.rolledBack)
	c.Count("crashes_committed_but_unacknowledged_op", st.committedUnacked)
	c.Count("crashes_between_ops", st.betweenOps)
	c.Count("crashes_during_open_or_create", st.duringOpen)
	c.Count("second_crashes_in_one_history", st.secondCrashes)
	c.Count("runs_completed_without_kill", st.completed)
	c.Count("reopens_ok", st.reopenOK)
	c.Count("creation_image_cut", st.tornApplied)
	c.Count("reopen_probes_after_kill_during_creation", st.probes)
	for k, v := range st.execPer {
		c.Count("points_executed_"+k, v)
	}
	for k, v := range st.landedPer {
		c.Count("points_killed_"+k, v)
	}
	c.Evals(st.crashes + st.completed)
}

// ---------------------------------------------------------------------------
// phase inject: enumerate with strace, then kill at the enumerated points

const chunks = 4 // crash points of one history are spread over this many cases

func runInject(c *mon.Case) {
	// case = (history, chunk): the history is generated from a generator
	// that depends on the history number only.
	hist, chunk := c.I/chunks, c.I%chunks
	r := rand.New(rand.NewSource(c.Env.Seed*1000003 + int64(hist)*7919 + 17))
	sc := newScenarioRand(c, r)
	defer sc.cleanup()
	if err := writeScript(sc.script, sc.ops); err != nil {
		c.Inconclusive("harness:script")
		return
	}
	st := newStats()
	defer st.flush(c)

	// Pass 1: no kill, full trace.
	os.Remove(sc.db)
	res := sc.runChild(0, plan{kind: "trace"})
	if res.harness != "" || res.killed || res.exit != 0 {
		if res.exit == 2 || res.exit == 4 {
			c.Violation("pass1-child-failed", "child failed without any fault: "+firstPanic(res.stderr), map[string]any{"stderr": tailStr(res.stderr, 3000)})
		} else {
			c.Inconclusive("pass1-failed")
		}
		return
	}
	tr, err := parseTrace(res.trace, sc.db, res.ackPath)
	if err != nil || len(tr) == 0 {
		c.Inconclusive("pass1-no-trace")
		return
	}
	j := readJournal(res.ackPath)
	if !j.done || len(j.acks) != len(sc.ops) {
		c.Inconclusive("pass1-incomplete")
		return
	}
	// per-thread counts (strace's when=N counts per thread)
	per := map[string]map[string]int{} // sys -> tid -> count
	var mainTid string
	for _, t := range tr {
		if t.sys == "write" {
			if t.isAck && mainTid == "" {
				mainTid = t.tid
			}
			continue
		}
		if per[t.sys] == nil {
			per[t.sys] = map[string]int{}
		}
		per[t.sys][t.tid]++
	}
	maxPer := map[string]int{}
	otherThreads := 0
	for sys, m := range per {
		for tid, n := range m {
			if n > maxPer[sys] {
				maxPer[sys] = n
			}
			if tid != mainTid {
				otherThreads += n
			}
		}
	}
	if chunk == 0 {
		c.Count("pass1_db_syscalls_from_other_threads", otherThreads)
		for _, sys := range crashSyscalls {
			c.Count("points_enumerated_"+sys, maxPer[sys])
		}
	}
	// Sync discipline seen in the trace: whenever the database file was
	// written since the previous acknowledgement, the last database call
	// before the acknowledgement must be a sync (acknowledged => on disk).
	wrote, synced, ackN := false, true, -1 // ackN: -1 = the "open" line
	window := 0
	windowPts := map[string]map[int]bool{"pwrite64": {}, "fdatasync": {}}
	ord := map[string]int{}
	var dbCalls []tline
	for _, t := range tr {
		switch {
		case t.sys == "write" && t.isAck:
			if wrote && !synced {
				what := "opening the database"
				if ackN >= 0 && ackN < len(sc.ops) {
					what = sc.ops[ackN].String()
				}
				c.Violation("ack-before-sync", fmt.Sprintf("%s was acknowledged although the last write to the database file was not followed by fsync/fdatasync", what),
					map[string]any{"journal_line": ackN + 1})
				return
			}
			if wrote && chunk == 0 {
				c.Count("pass1_acks_after_synced_write", 1)
			}
			wrote, synced = false, true
			ackN++
		case t.isDB && (t.sys == "pwrite64" || t.sys == "ftruncate"):
			wrote, synced = true, false
		case t.isDB && (t.sys == "fdatasync" || t.sys == "fsync"):
			synced = true
		}
		if t.sys != "write" && t.tid == mainTid {
			ord[t.sys]++
			dbCalls = append(dbCalls, t)
			// classify crash points of the interesting window
			if isMetaWrite(t) {
				windowPts["pwrite64"][ord["pwrite64"]] = true
			}
		}
	}
	{ // fdatasync whose next database call is the meta page write
		o := 0
		for i, t := range dbCalls {
			if t.sys == "fdatasync" {
				o++
				if i+1 < len(dbCalls) && isMetaWrite(dbCalls[i+1]) {
					windowPts["fdatasync"][o] = true
				}
			}
		}
	}
	// the run without a crash ends in the final model state
	db, err := store.NewStore(sc.db)
	if err != nil {
		c.Violation("reopen-failed", "store.NewStore failed after a clean run: "+err.Error(), nil)
		return
	}
	obs := observe(db)
	db.Close()
	if d := obs.differs(sc.models[len(sc.ops)]); d != "" {
		c.Violation("state-wrong-without-crash", "after a complete run without any crash the store differs from the model: "+d, map[string]any{"script": opStrings(sc.ops)})
		return
	}
	for k, a := range j.acks {
		if sc.ops[k].K == refstore.OpAdd && a.seq != sc.expSeq[k] {
			c.Violation("acked-seq", fmt.Sprintf("op %d %v returned seq %d, reference %d", k, sc.ops[k], a.seq, sc.expSeq[k]), nil)
			return
		}
	}

	// crash points
	type point struct {
		sys  string
		when int
	}
	var pts []point
	budget := map[string]int{"pwrite64": c.Env.Pick(22, 1 << 30), "fdatasync": c.Env.Pick(22, 1 << 30), "fsync": c.Env.Pick(4, 1 << 30), "ftruncate": c.Env.Pick(4, 1 << 30)}
	for _, sys := range crashSyscalls {
		n := maxPer[sys]
		idx := r.Perm(n)
		if n > budget[sys] {
			idx = idx[:budget[sys]]
		}
		sort.Ints(idx)
		for _, k := range idx {
			pts = append(pts, point{sys, k + 1})
		}
	}
	for pi, pt := range pts {
		if pi%chunks != chunk {
			continue
		}
		plans := []plan{{kind: "inject", sys: pt.sys, when: pt.when}}
		if r.Intn(5) == 0 { // a second crash while continuing
			if r.Intn(2) == 0 {
				plans = append(plans, plan{kind: "inject", sys: []string{"pwrite64", "fdatasync"}[r.Intn(2)], when: 1 + r.Intn(12)})
			} else {
				plans = append(plans, plan{kind: "sigkill", after: 1 + r.Intn(6)})
			}
		}
		before := st.crashes
		if !sc.crashRun(c, plans, st) {
			return
		}
		if st.crashes > before && windowPts[pt.sys] != nil && windowPts[pt.sys][pt.when] {
			window++
		}
	}
	c.Count("crashes_between_data_write_and_meta_write", window)
	c.Nontrivial("inject", c.I, len(sc.ops), len(pts), st.crashes)
	c.Sample("inject", map[string]any{"ops": len(sc.ops), "enumerated": maxPer, "points_executed": len(pts), "crashes": st.crashes,
		"rolled_back": st.rolledBack, "committed_unacked": st.committedUnacked, "script_head": opStrings(sc.ops)[:6]})
}

// ---------------------------------------------------------------------------
// phase sigkill: plain SIGKILL from the parent after the j-th journal line

func runSigkill(c *mon.Case) {
	r := c.Rand
	sc := newScenario(c)
	defer sc.cleanup()
	if err := writeScript(sc.script, sc.ops); err != nil {
		c.Inconclusive("harness:script")
		return
	}
	st := newStats()
	defer st.flush(c)
	n := c.Env.Pick(8, 20)
	for k := 0; k < n; k++ {
		plans := []plan{{kind: "sigkill", after: r.Intn(len(sc.ops) + 1)}}
		for r.Intn(3) == 0 && len(plans) < 4 {
			plans = append(plans, plan{kind: "sigkill", after: 1 + r.Intn(8)})
		}
		if !sc.crashRun(c, plans, st) {
			return
		}
	}
	c.Count("sigkill_runs", n)
	c.Nontrivial("sigkill", c.I, len(sc.ops), st.crashes)
}

// ---------------------------------------------------------------------------
// phase torn: the creation write interrupted between pages

func runTorn(c *mon.Case) {
	sc := newScenario(c)
	defer sc.cleanup()
	if len(sc.ops) > 20 {
		sc.ops, sc.models, sc.expSeq = sc.ops[:20], sc.models[:21], sc.expSeq[:20]
	}
	if err := writeScript(sc.script, sc.ops); err != nil {
		c.Inconclusive("harness:script")
		return
	}
	st := newStats()
	defer st.flush(c)
	for pages := 1; pages <= 3; pages++ {
		// fdatasync #1 is bbolt's sync right after the creation write
		// all three cuts are tried even if one of them fails
		sc.crashRun(c, []plan{{kind: "inject", sys: "fdatasync", when: 1, torn: pages}}, st)
	}
	c.Nontrivial("torn", c.I)
}

func Spec() *mon.Spec {
	return &mon.Spec{
		ID: "C25", Level: "fault_enumeration",
		Rule: "case (phase inject) = one random script of 18..40 (thorough ..58) store operations (AddCmd incl. ~10 KB texts, DelCmd incl. the newest entries, AddDir, DelDir, a few reads) executed by a child process (this binary, GOMAXPROCS=1, main goroutine locked to its thread) that appends 'ack i result' to an O_SYNC journal after every returned operation. Pass 1 runs it under strace -f (pwrite64, fdatasync, fsync, ftruncate, write) and enumerates the write/sync calls per thread; then for every enumerated (syscall, ordinal) (quick: up to 22 pwrite64 + 22 fdatasync + 4 fsync + 4 ftruncate per script, thorough: all) the script is re-run from scratch with strace inject=<syscall>:signal=KILL:when=<ordinal>; every 5th run gets a second kill while continuing. Phase sigkill kills the untraced child from the parent once the journal has j lines (j random), up to 4 times per run. After every kill: store.NewStore must succeed, the complete state (CmdsWithSeq(0,-1), NextCmdSeq, Dirs) must equal the refstore model after acks or acks+1 operations, NextCmdSeq must exceed every acknowledged number; the script is continued in a new child from that prefix, and finally AddCmd on the reopened store must return numbers above everything acknowledged. Pass 1 additionally checks in the trace that every acknowledgement following a database write is preceded by fsync/fdatasync. Phase torn simulates a SIGKILL that interrupts bbolt's one 4-page creation write between pages (observed for real in phase sigkill): the child is killed at its first fdatasync (right after that write) and the file that received the write is cut to 1, 2 or 3 pages; the reopen is first tried in a separate process. An inject case covers one quarter of the sampled crash points of one script. Non-trivial = a case whose crash runs all finished.",
		Assumptions: []string{
			"kill granularity is the system call: torn page writes and power-loss reordering of unsynced pages are not simulated (that needs a block-level fault injector); the 'ack-before-sync' trace check is the only evidence about power loss",
			"strace's when=N counts per thread; the child keeps all store calls on one locked thread, calls from other threads are counted in evidence; the oracle does not depend on where exactly the kill landed",
			"directory scores compared with relative tolerance 1e-6*(visits+1) (see C24)",
			"database and journal live on tmpfs (/dev/shm): fsync is cheap there, but the calls are still made and traced",
		},
		Phases: []mon.Phase{
			{Name: "inject", Quick: 14 * chunks, Thorough: 28 * chunks, Run: runInject, Batch: 1, Timeout: 600 * time.Second},
			{Name: "sigkill", Quick: 14, Thorough: 28, Run: runSigkill, Batch: 1, Timeout: 600 * time.Second},
			{Name: "torn", Quick: 2, Thorough: 4, Run: runTorn, Batch: 1, Timeout: 600 * time.Second},
		},
		Floors: map[string]int{
			"crashes": 300, "points_enumerated_pwrite64": 350, "points_enumerated_fdatasync": 250, "points_executed_pwrite64": 100, "points_executed_fdatasync": 100,
			"points_killed_pwrite64": 100, "points_killed_fdatasync": 100,
			"crashes_rolled_back_in_flight_op": 150, "crashes_committed_but_unacknowledged_op": 40, "crashes_between_data_write_and_meta_write": 80,
			"crashes_during_open_or_create": 20, "second_crashes_in_one_history": 40, "pass1_acks_after_synced_write": 120, "sigkill_runs": 35, "distinct_nontrivial": 20,
			"creation_image_cut": 3,
		},
	}
}
