package c25

import (
	"encoding/gob"
	"fmt"
	"os"
	"runtime"
	"strconv"

	"src.elv.sh/pkg/store"
	"verifharness/internal/refstore"
)

// The crash child is this same binary started with C25_CHILD=1 (see
// cmd/c25/main.go). It executes ops[start:] of a script against a store file
// and, after every operation that returned, appends one line to a journal
// opened with O_SYNC|O_APPEND:
//
//	open                  the database was opened (or created)
//	ack <i> <seq> <err>   operation i returned; seq = AddCmd's number (0 otherwise)
//	done                  the script is finished and the store was closed
//
// All store calls are made from the main goroutine, which is locked to the
// main OS thread from init time on, so that strace's per-thread "when=N"
// counts the calls of one thread.

func init() {
	if os.Getenv("C25_CHILD") != "" {
		runtime.LockOSThread()
	}
}

// Environment of the child.
const (
	envChild  = "C25_CHILD"
	envDB     = "C25_DB"
	envScript = "C25_SCRIPT"
	envAck    = "C25_ACK"
	envStart  = "C25_START"
)

func writeScript(path string, ops []refstore.Op) error {
	f, err := os.Create(path)
	if err != nil {
		return err
	}
	defer f.Close()
	return gob.NewEncoder(f).Encode(ops)
}

func readScript(path string) ([]refstore.Op, error) {
	f, err := os.Open(path)
	if err != nil {
		return nil, err
	}
	defer f.Close()
	var ops []refstore.Op
	err = gob.NewDecoder(f).Decode(&ops)
	return ops, err
}

// RunChild is the body of the crash child. It never returns.
func RunChild() {
	fail := func(what string, err error) {
		fmt.Fprintf(os.Stderr, "c25 child: %s: %v\n", what, err)
		os.Exit(3)
	}
	ops, err := readScript(os.Getenv(envScript))
	if err != nil {
		fail("read script", err)
	}
	start, _ := strconv.Atoi(os.Getenv(envStart))
	j, err := os.OpenFile(os.Getenv(envAck), os.O_CREATE|os.O_WRONLY|os.O_APPEND|os.O_SYNC, 0o644)
	if err != nil {
		fail("open journal", err)
	}
	st, err := store.NewStore(os.Getenv(envDB))
	if err != nil {
		// Reported through the exit status: the parent treats a failing
		// open as a violation.
		fmt.Fprintf(os.Stderr, "c25 child: NewStore: %v\n", err)
		os.Exit(4)
	}
	if _, err := j.WriteString("open\n"); err != nil {
		fail("journal", err)
	}
	for i := start; i < len(ops); i++ {
		res := refstore.Exec(st, ops[i])
		line := fmt.Sprintf("ack %d %d %s\n", i, res.Seq, strconv.Quote(res.Err))
		if _, err := j.WriteString(line); err != nil {
			fail("journal", err)
		}
	}
	if err := st.Close(); err != nil {
		fmt.Fprintf(os.Stderr, "c25 child: Close: %v\n", err)
		os.Exit(5)
	}
	j.WriteString("done\n")
	os.Exit(0)
}
