package c38

import (
	"fmt"
	"os"
	"strconv"
	"strings"

	"src.elv.sh/pkg/cli"
	"src.elv.sh/pkg/edit"
	"src.elv.sh/pkg/eval"
	"src.elv.sh/pkg/eval/vals"
	"src.elv.sh/pkg/getopt"
	"src.elv.sh/pkg/parse"
	"verifharness/internal/elv"
	"verifharness/internal/mon"
)

// The Elvish-level completion entry point edit:complete-getopt (always GNU
// configuration). What is observable: which callback runs (the completer of
// the option still waiting for its argument, or the handler of the n-th
// non-option argument) and with which text, and which option candidates are
// offered when the last word starts with a dash.

func installEdit(ev *eval.Evaler) {
	dn, _ := os.OpenFile(os.DevNull, os.O_RDWR, 0)
	ed := edit.NewEditor(cli.NewTTY(dn, dn), ev, nil)
	ev.ExtendBuiltin(eval.BuildNs().AddNs("edit", ed))
}

func runEditComplete(c *mon.Case) {
	r := c.Rand
	cfg := getopt.GNU
	specs := genSpecs(r)
	args := genArgs(r, specs, cfg)
	if len(args) == 0 || r.Intn(3) == 0 {
		args = append(args, []string{"", "-", "--", "--f", "-a", "x"}[r.Intn(6)])
	}
	m, mc := refComplete(args, specs, cfg)
	last := args[len(args)-1]
	if m.Ambiguous || m.EmptyLongName || (last == "--" && !m.Stopped && mc.Type != getopt.OptionArgument) {
		c.Count("edit_skipped", 1)
		return
	}
	hasCompleter := make([]bool, len(specs))
	var sb strings.Builder
	sb.WriteString("edit:complete-getopt $args [")
	for i, s := range specs {
		sb.WriteString("[")
		if s.Short != 0 {
			sb.WriteString("&short=" + parse.Quote(string(s.Short)) + " ")
		}
		if s.Long != "" {
			sb.WriteString("&long=" + parse.Quote(s.Long) + " ")
		}
		switch s.Arity {
		case getopt.RequiredArgument:
			sb.WriteString("&arg-required=$true ")
		case getopt.OptionalArgument:
			sb.WriteString("&arg-optional=$true ")
		}
		if r.Intn(4) != 0 {
			hasCompleter[i] = true
			sb.WriteString("&completer={|x| put [opt " + strconv.Itoa(i) + " $x] } ")
		}
		sb.WriteString("] ")
	}
	sb.WriteString("] [")
	nh := r.Intn(4)
	for i := 0; i < nh; i++ {
		sb.WriteString("{|x| put [arg " + strconv.Itoa(i) + " $x] } ")
	}
	variadic := nh > 0 && r.Intn(2) == 0
	if variadic {
		sb.WriteString("...")
	}
	sb.WriteString("]")
	ev := evaler
	var argv []any
	for _, a := range args {
		argv = append(argv, a)
	}
	elv.SetVar(ev, "args", vals.MakeList(argv...))
	res := elv.Eval(ev, sb.String())
	c.Count("edit_calls", 1)

	var want []string
	stem := func(s string) string { return "stem " + s }
	switch mc.Type {
	case getopt.OptionArgument:
		if !mc.Option.Unknown && hasCompleter[mc.Option.Spec] {
			want = append(want, fmt.Sprintf("opt %d %s", mc.Option.Spec, mc.Option.Arg))
		}
	case getopt.Argument, getopt.OptionOrArgument:
		k := len(m.Args)
		switch {
		case k < nh:
			want = append(want, fmt.Sprintf("arg %d %s", k, mc.Text))
		case variadic:
			want = append(want, fmt.Sprintf("arg %d %s", nh-1, mc.Text))
		}
	case getopt.AnyOption:
		for _, s := range specs {
			if s.Short != 0 {
				want = append(want, stem("-"+string(s.Short)))
			}
			if s.Long != "" {
				want = append(want, stem("--"+s.Long))
			}
		}
	case getopt.LongOption:
		for _, s := range specs {
			if s.Long != "" && strings.HasPrefix(s.Long, mc.Text) {
				want = append(want, stem("--"+s.Long))
			}
		}
	case getopt.ChainShortOption:
		for _, s := range specs {
			if s.Short != 0 {
				want = append(want, stem("-"+string(s.Short)))
			}
		}
	}
	var got []string
	for _, v := range res.Values {
		if l, ok := v.(vals.List); ok {
			var parts []string
			for it := l.Iterator(); it.HasElem(); it.Next() {
				parts = append(parts, vals.ToString(it.Elem()))
			}
			got = append(got, strings.Join(parts, " "))
			continue
		}
		if st, err := vals.Index(v, "stem"); err == nil {
			got = append(got, stem(vals.ToString(st)))
			continue
		}
		got = append(got, "? "+vals.ReprPlain(v))
	}
	if res.Err != nil || !sameStrings(got, want) {
		c.Violation("edit-complete:"+mc.Type.String(), fmt.Sprintf("edit:complete-getopt %q with specs %v: produced %q (err %v); the reference classification (%v, %d non-option args before) gives %q",
			args, specsStr(specs), got, res.Err, mc.Type, len(m.Args), want),
			map[string]any{"args": qs(args), "specs": specsStr(specs), "code": sb.String(), "got": qs(got), "want": qs(want), "err": fmt.Sprint(res.Err)})
		return
	}
	c.Count("edit_ctx_"+mc.Type.String(), 1)
	if len(want) > 0 {
		c.Count("edit_nonempty_result", 1)
		c.Nontrivial("edit", specsStr(specs), args)
	}
}
