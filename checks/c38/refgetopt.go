package c38

import (
	"unicode/utf8"

	"src.elv.sh/pkg/getopt"
)

// The reference option parser. Written from getopt_long(3) conventions as
// selected by Config, from website/ref/flag.md "Getopt convention" and from
// the doc comments of the getopt package (Config bits, Arity values, "unknown
// options are assumed to take optional arguments").

type mOpt struct {
	Spec    int    // index into specs, -1 for an unknown option
	Short   rune   // name of an unknown short option
	Name    string // name of an unknown long option
	Long    bool   // given in long form
	Arg     string
	Unknown bool
}

type mResult struct {
	Opts    []mOpt
	Args    []string
	Pending *mOpt // an option that requires an argument which has not been seen
	Stopped bool  // option parsing has been switched off
	// the word list contains --name=value for a long option taking no
	// argument: conventions differ, nothing is demanded
	Ambiguous bool
	// the defect class "--=x is matched against a spec without long name"
	// was exercised (the model says: unknown option with empty name)
	EmptyLongName bool
	// "-\x00" exercised against a spec without short name
	NulShort bool
	// which conventions this input exercised (for the evidence counters)
	Feat map[string]int
}

func (m *mResult) feat(k string) {
	if m.Feat == nil {
		m.Feat = map[string]int{}
	}
	m.Feat[k]++
}

func (m *mResult) errExpected() bool {
	if m.Pending != nil {
		return true
	}
	for _, o := range m.Opts {
		if o.Unknown {
			return true
		}
	}
	return false
}

func has(cfg, bit getopt.Config) bool { return cfg&bit != 0 }

func findLong(name string, specs []*getopt.OptionSpec) int {
	if name == "" {
		return -1 // Long == "" means "no long form", it is not a name
	}
	for i, s := range specs {
		if s.Long == name {
			return i
		}
	}
	return -1
}

func findShort(r rune, specs []*getopt.OptionSpec) int {
	if r == 0 {
		return -1 // Short == 0 means "no short form"
	}
	for i, s := range specs {
		if s.Short == r {
			return i
		}
	}
	return -1
}

// cutEq splits "name=value" at the first '='.
func cutEq(s string) (name, val string, hasVal bool) {
	for i := 0; i < len(s); i++ {
		if s[i] == '=' {
			return s[:i], s[i+1:], true
		}
	}
	return s, "", false
}

// refLong interprets the text after the dashes of a long option.
func refLong(body string, specs []*getopt.OptionSpec, m *mResult) (o mOpt, needArg bool) {
	name, val, hasVal := cutEq(body)
	k := findLong(name, specs)
	if name == "" {
		for _, s := range specs {
			if s.Long == "" {
				m.EmptyLongName = true
			}
		}
	}
	if k < 0 {
		// unknown: assumed to take an optional argument
		return mOpt{Spec: -1, Name: name, Long: true, Arg: val, Unknown: true}, false
	}
	o = mOpt{Spec: k, Long: true}
	switch specs[k].Arity {
	case getopt.NoArgument:
		if hasVal {
			m.Ambiguous = true
		}
	case getopt.RequiredArgument:
		if hasVal {
			o.Arg = val
			m.feat("long_required_eq_value")
		} else {
			needArg = true
			m.feat("long_required_detached")
		}
	case getopt.OptionalArgument:
		o.Arg = val // only the attached form
		if hasVal {
			m.feat("long_optional_eq_value")
		} else {
			m.feat("long_optional_bare")
		}
	}
	return o, needArg
}

// refShort interprets a cluster of short options (text after the dash).
func refShort(rest string, specs []*getopt.OptionSpec, m *mResult) (os []mOpt, needArg bool) {
	for rest != "" {
		r, size := utf8.DecodeRuneInString(rest)
		rest = rest[size:]
		k := findShort(r, specs)
		if r == 0 {
			for _, s := range specs {
				if s.Short == 0 {
					m.NulShort = true
				}
			}
		}
		if k < 0 {
			os = append(os, mOpt{Spec: -1, Short: r, Arg: rest, Unknown: true})
			return os, false
		}
		switch specs[k].Arity {
		case getopt.NoArgument:
			os = append(os, mOpt{Spec: k})
			if len(os) == 2 {
				m.feat("short_chain")
			}
		case getopt.RequiredArgument:
			os = append(os, mOpt{Spec: k, Arg: rest})
			if rest != "" {
				m.feat("short_required_attached")
			} else {
				m.feat("short_required_detached")
			}
			if len(os) >= 2 {
				m.feat("short_chain_ending_in_argument_option")
			}
			return os, rest == ""
		case getopt.OptionalArgument:
			os = append(os, mOpt{Spec: k, Arg: rest})
			if rest != "" {
				m.feat("short_optional_attached")
			} else {
				m.feat("short_optional_bare")
			}
			return os, false
		}
	}
	return os, false
}

// isOptionWord: starts with a dash and is neither "-" nor "--".
func isOptionWord(w string) bool {
	return len(w) >= 2 && w[0] == '-' && w != "--"
}

func longBody(w string, cfg getopt.Config) (string, bool) {
	if len(w) >= 2 && w[0] == '-' && w[1] == '-' {
		return w[2:], true
	}
	if has(cfg, getopt.LongOnly) {
		return w[1:], true
	}
	return "", false
}

func refParse(args []string, specs []*getopt.OptionSpec, cfg getopt.Config) *mResult {
	m := &mResult{}
	for i := 0; i < len(args); i++ {
		w := args[i]
		switch {
		case m.Stopped:
			m.Args = append(m.Args, w)
		case w == "--" && has(cfg, getopt.StopAfterDoubleDash):
			m.Stopped = true
			m.feat("double_dash_terminator")
		case !isOptionWord(w):
			m.Args = append(m.Args, w)
			if w == "--" {
				m.feat("double_dash_as_plain_word")
			}
			if w == "-" {
				m.feat("single_dash_word")
			}
			if has(cfg, getopt.StopBeforeFirstNonOption) {
				m.Stopped = true
				m.feat("stopped_at_first_non_option")
			}
		default:
			var os []mOpt
			var needArg bool
			if body, ok := longBody(w, cfg); ok {
				var o mOpt
				o, needArg = refLong(body, specs, m)
				os = []mOpt{o}
				if w[1] != '-' && !o.Unknown {
					m.feat("long_only_single_dash_known")
				}
			} else {
				os, needArg = refShort(w[1:], specs, m)
			}
			if needArg {
				last := os[len(os)-1]
				if i+1 < len(args) {
					i++
					last.Arg = args[i] // the next word, whatever it looks like
					os[len(os)-1] = last
				} else {
					m.Pending = &last
					os = os[:len(os)-1]
				}
			}
			m.Opts = append(m.Opts, os...)
		}
	}
	return m
}

// context of the last word, as documented on ContextType.
type mContext struct {
	Type   getopt.ContextType
	Text   string
	Option *mOpt
}

func refComplete(args []string, specs []*getopt.OptionSpec, cfg getopt.Config) (*mResult, mContext) {
	m := refParse(args[:len(args)-1], specs, cfg)
	last := args[len(args)-1]
	switch {
	case m.Pending != nil:
		o := *m.Pending
		o.Arg = last
		m.Pending = nil
		return m, mContext{Type: getopt.OptionArgument, Option: &o}
	case m.Stopped:
		return m, mContext{Type: getopt.Argument, Text: last}
	case last == "":
		return m, mContext{Type: getopt.OptionOrArgument}
	case last == "-":
		return m, mContext{Type: getopt.AnyOption}
	case len(last) >= 1 && last[0] == '-':
		if body, ok := longBody(last, cfg); ok {
			if _, _, hasVal := cutEq(body); !hasVal {
				return m, mContext{Type: getopt.LongOption, Text: body}
			}
			o, _ := refLong(body, specs, m)
			return m, mContext{Type: getopt.OptionArgument, Option: &o}
		}
		os, _ := refShort(last[1:], specs, m)
		lo := os[len(os)-1]
		if !lo.Unknown && specs[lo.Spec].Arity == getopt.NoArgument {
			m.Opts = append(m.Opts, os...)
			return m, mContext{Type: getopt.ChainShortOption}
		}
		m.Opts = append(m.Opts, os[:len(os)-1]...)
		return m, mContext{Type: getopt.OptionArgument, Option: &lo}
	default:
		return m, mContext{Type: getopt.Argument, Text: last}
	}
}
