// Package c38 monitors getopt.Parse / getopt.Complete (and the Elvish-level
// flag:parse-getopt) against a reference option parser written from the
// getopt_long conventions selected by Config (property C38).
package c38

import (
	"fmt"
	"math/rand"
	"strings"

	"src.elv.sh/pkg/eval"
	"src.elv.sh/pkg/eval/vals"
	"src.elv.sh/pkg/getopt"
	"verifharness/internal/elv"
	"verifharness/internal/mon"
)

// ---------------------------------------------------------------------------
// generators

var shortPool = []rune{'a', 'b', 'c', 'x', 'y', 'z', 'v', 'n', '1', '好', '=', '?', ':', '+', 'é'}
var longPool = []string{"foo", "bar", "long", "v", "x", "a-b", "好名", "verbose", "no", "n", "f", "file", "foo-bar", "a"}
var unknownLongPool = []string{"unk", "zz", "fo", "q", "ver", "-", "--x", "好", "FOO", "foo2", "b"}
var unknownShortPool = []rune{'q', 'w', 'Q', '0', '世', '-', '.', 'ß'}
var valuePool = []string{"v", "val", "", "-v", "--", "-", "--foo", "a=b", "好", "=x", "-", "1", "--foo=1", "-ab"}
var plainPool = []string{"file", "好", "", "a=b", "x-y", "f", "foo", "v", "0", "a b", "=", "+x"}

func genSpecs(r *rand.Rand) []*getopt.OptionSpec {
	n := r.Intn(7)
	specs := make([]*getopt.OptionSpec, 0, n)
	usedS, usedL := map[rune]bool{}, map[string]bool{}
	for len(specs) < n {
		s := &getopt.OptionSpec{Arity: getopt.Arity(r.Intn(3))}
		form := r.Intn(3) // 0 short only, 1 long only, 2 both
		if form != 1 {
			s.Short = shortPool[r.Intn(len(shortPool))]
			if usedS[s.Short] && r.Intn(8) != 0 { // duplicates are rare: the first one wins
				continue
			}
		}
		if form != 0 {
			s.Long = longPool[r.Intn(len(longPool))]
			if usedL[s.Long] && r.Intn(8) != 0 {
				continue
			}
		}
		usedS[s.Short], usedL[s.Long] = true, true
		specs = append(specs, s)
	}
	return specs
}

func isPrefixOfAnyLong(name string, specs []*getopt.OptionSpec) bool {
	for _, s := range specs {
		if s.Long != "" && strings.HasPrefix(s.Long, name) {
			return true
		}
	}
	return false
}

// genWord makes one command-line word.
func genWord(r *rand.Rand, specs []*getopt.OptionSpec, cfg getopt.Config) string {
	pickSpec := func(ok func(*getopt.OptionSpec) bool) *getopt.OptionSpec {
		var c []*getopt.OptionSpec
		for _, s := range specs {
			if ok(s) {
				c = append(c, s)
			}
		}
		if len(c) == 0 {
			return nil
		}
		return c[r.Intn(len(c))]
	}
	value := func() string { return valuePool[r.Intn(len(valuePool))] }
	for {
		switch k := r.Intn(20); {
		case k < 6: // short cluster
			var sb strings.Builder
			sb.WriteByte('-')
			for i, n := 0, r.Intn(4); i < n; i++ {
				if s := pickSpec(func(s *getopt.OptionSpec) bool { return s.Short != 0 && s.Arity == getopt.NoArgument }); s != nil {
					sb.WriteRune(s.Short)
				}
			}
			switch r.Intn(5) {
			case 0, 1: // an option taking an argument, attached or not
				if s := pickSpec(func(s *getopt.OptionSpec) bool { return s.Short != 0 && s.Arity != getopt.NoArgument }); s != nil {
					sb.WriteRune(s.Short)
					if r.Intn(2) == 0 {
						sb.WriteString(value())
					}
				}
			case 2: // an unknown one, possibly followed by more text
				if r.Intn(3) == 0 {
					sb.WriteRune(unknownShortPool[r.Intn(len(unknownShortPool))])
					if r.Intn(2) == 0 {
						sb.WriteString(value())
					}
				}
			}
			if sb.Len() >= 2 && sb.String() != "--" {
				return sb.String()
			}
		case k < 11: // long option
			s := pickSpec(func(s *getopt.OptionSpec) bool { return s.Long != "" })
			if s == nil {
				continue
			}
			dash := "--"
			if cfg&getopt.LongOnly != 0 && r.Intn(2) == 0 {
				dash = "-"
			}
			w := dash + s.Long
			if s.Arity != getopt.NoArgument && r.Intn(2) == 0 {
				w += "=" + value()
			}
			return w
		case k < 13: // unknown long option
			name := unknownLongPool[r.Intn(len(unknownLongPool))]
			if isPrefixOfAnyLong(name, specs) { // would be an abbreviation under GNU rules
				continue
			}
			w := "--" + name
			if cfg&getopt.LongOnly != 0 && r.Intn(2) == 0 && name != "-" {
				w = "-" + name
			}
			if r.Intn(3) == 0 {
				w += "=" + value()
			}
			return w
		case k < 14:
			return "-"
		case k < 16:
			return "--"
		case k < 17: // long option with empty name
			return []string{"--=x", "--=", "-=x", "-="}[r.Intn(4)]
		case k < 18:
			return value()
		default:
			return plainPool[r.Intn(len(plainPool))]
		}
	}
}

func genArgs(r *rand.Rand, specs []*getopt.OptionSpec, cfg getopt.Config) []string {
	n := r.Intn(9)
	args := make([]string, n)
	for i := range args {
		args[i] = genWord(r, specs, cfg)
	}
	return args
}

// ---------------------------------------------------------------------------
// comparison

func specStr(s *getopt.OptionSpec) string {
	sh := "0"
	if s.Short != 0 {
		sh = string(s.Short)
	}
	return fmt.Sprintf("{%s %q %v}", sh, s.Long, s.Arity)
}

func specsStr(specs []*getopt.OptionSpec) []string {
	out := make([]string, len(specs))
	for i, s := range specs {
		out[i] = specStr(s)
	}
	return out
}

func optStr(o *getopt.Option, specs []*getopt.OptionSpec) string {
	if o == nil {
		return "<nil>"
	}
	idx := -1
	for i, s := range specs {
		if s == o.Spec {
			idx = i
		}
	}
	sp := "<nil>"
	if o.Spec != nil {
		sp = specStr(o.Spec)
	}
	return fmt.Sprintf("{spec#%d %s unknown=%v long=%v arg=%q}", idx, sp, o.Unknown, o.Long, o.Argument)
}

func mOptStr(o *mOpt, specs []*getopt.OptionSpec) string {
	if o == nil {
		return "<nil>"
	}
	if o.Unknown {
		if o.Long {
			return fmt.Sprintf("{unknown long %q arg=%q}", o.Name, o.Arg)
		}
		return fmt.Sprintf("{unknown short %q arg=%q}", string(o.Short), o.Arg)
	}
	return fmt.Sprintf("{spec#%d %s long=%v arg=%q}", o.Spec, specStr(specs[o.Spec]), o.Long, o.Arg)
}

func optsStr(os []*getopt.Option, specs []*getopt.OptionSpec) []string {
	out := make([]string, len(os))
	for i, o := range os {
		out[i] = optStr(o, specs)
	}
	return out
}

func mOptsStr(os []mOpt, specs []*getopt.OptionSpec) []string {
	out := make([]string, len(os))
	for i := range os {
		out[i] = mOptStr(&os[i], specs)
	}
	return out
}

// sameOpt: does the real option equal the model option?
func sameOpt(o *getopt.Option, m *mOpt, specs []*getopt.OptionSpec) bool {
	if o == nil || o.Spec == nil {
		return false
	}
	if o.Unknown != m.Unknown || o.Long != m.Long || o.Argument != m.Arg {
		return false
	}
	if m.Unknown {
		if m.Long {
			return o.Spec.Long == m.Name
		}
		return o.Spec.Short == m.Short
	}
	return o.Spec == specs[m.Spec] // identity: the caller's spec, not a copy
}

type witness struct {
	Config   string   `json:"config"`
	Specs    []string `json:"specs"`
	Args     []string `json:"args_quoted"`
	GotOpts  []string `json:"got_options"`
	WantOpts []string `json:"want_options"`
	GotArgs  []string `json:"got_args_quoted"`
	WantArgs []string `json:"want_args_quoted"`
	Extra    string   `json:"extra,omitempty"`
}

func qs(ss []string) []string {
	out := make([]string, len(ss))
	for i, s := range ss {
		out[i] = mon.Q(s)
	}
	return out
}

func sameStrings(a, b []string) bool {
	if len(a) != len(b) {
		return false
	}
	for i := range a {
		if a[i] != b[i] {
			return false
		}
	}
	return true
}

// classify gives the signature class of an option-list disagreement.
func classify(opts []*getopt.Option, m *mResult, specs []*getopt.OptionSpec, cfg getopt.Config) string {
	n := len(opts)
	if len(m.Opts) < n {
		n = len(m.Opts)
	}
	for i := 0; i < n; i++ {
		if sameOpt(opts[i], &m.Opts[i], specs) {
			continue
		}
		o, w := opts[i], &m.Opts[i]
		switch {
		case w.Unknown && w.Long && w.Name == "" && !o.Unknown && o.Spec != nil && o.Spec.Long == "":
			return "empty-long-name-matches-short-only-spec"
		case w.Unknown && !w.Long && w.Short == 0 && !o.Unknown && o.Spec != nil && o.Spec.Short == 0:
			return "nul-short-matches-long-only-spec"
		case o.Unknown != w.Unknown:
			return "unknown-flag"
		case o.Long != w.Long:
			return "long-flag"
		case !w.Unknown && o.Spec != specs[w.Spec]:
			return "spec"
		case o.Argument != w.Arg:
			return "argument"
		}
		return "option"
	}
	if len(opts) != len(m.Opts) {
		return "option-count"
	}
	return ""
}

func sameOpts(opts []*getopt.Option, m *mResult, specs []*getopt.OptionSpec) bool {
	if len(opts) != len(m.Opts) {
		return false
	}
	for i := range opts {
		if !sameOpt(opts[i], &m.Opts[i], specs) {
			return false
		}
	}
	return true
}

func cfgStr(cfg getopt.Config) string {
	var parts []string
	if cfg&getopt.StopAfterDoubleDash != 0 {
		parts = append(parts, "StopAfterDoubleDash")
	}
	if cfg&getopt.StopBeforeFirstNonOption != 0 {
		parts = append(parts, "StopBeforeFirstNonOption")
	}
	if cfg&getopt.LongOnly != 0 {
		parts = append(parts, "LongOnly")
	}
	if len(parts) == 0 {
		return "0"
	}
	return strings.Join(parts, "|")
}

// checkParse runs getopt.Parse on one input and compares with the model.
func checkParse(c *mon.Case, specs []*getopt.OptionSpec, cfg getopt.Config, args []string) (*mResult, bool) {
	m := refParse(args, specs, cfg)
	if m.Ambiguous {
		c.Count("skipped_value_for_noarg_long", 1)
		return m, true
	}
	in := append([]string(nil), args...)
	opts, rest, err := getopt.Parse(in, specs, cfg)
	wit := func(extra string) witness {
		return witness{cfgStr(cfg), specsStr(specs), qs(args), optsStr(opts, specs), mOptsStr(m.Opts, specs), qs(rest), qs(m.Args), extra}
	}
	if !sameStrings(in, args) {
		c.Violation("parse:mutates-input", "Parse modified the argument slice it was given", wit(""))
		return m, false
	}
	// an option whose required argument is missing may or may not be listed
	gotOpts := opts
	if m.Pending != nil && len(opts) == len(m.Opts)+1 {
		p := *m.Pending
		if sameOpt(opts[len(opts)-1], &p, specs) {
			gotOpts = opts[:len(opts)-1]
		}
	}
	if !sameOpts(gotOpts, m, specs) {
		cl := classify(gotOpts, m, specs, cfg)
		c.Violation("parse:"+cl, fmt.Sprintf("Parse(%q, cfg=%s): options %v, conventions give %v", args, cfgStr(cfg), optsStr(opts, specs), mOptsStr(m.Opts, specs)), wit(""))
		return m, false
	}
	if !sameStrings(rest, m.Args) {
		c.Violation("parse:non-option-args", fmt.Sprintf("Parse(%q, cfg=%s): non-option arguments %q, conventions give %q", args, cfgStr(cfg), rest, m.Args), wit(""))
		return m, false
	}
	if (err != nil) != m.errExpected() {
		c.Violation("parse:error", fmt.Sprintf("Parse(%q, cfg=%s): error %v, but unknown-option/missing-argument expected = %v", args, cfgStr(cfg), err, m.errExpected()), wit(fmt.Sprint(err)))
		return m, false
	}
	return m, true
}

func checkComplete(c *mon.Case, specs []*getopt.OptionSpec, cfg getopt.Config, args []string) bool {
	m, mc := refComplete(args, specs, cfg)
	if m.Ambiguous {
		c.Count("skipped_value_for_noarg_long", 1)
		return true
	}
	in := append([]string(nil), args...)
	opts, rest, ctx := getopt.Complete(in, specs, cfg)
	wit := func(extra string) witness {
		return witness{cfgStr(cfg), specsStr(specs), qs(args), optsStr(opts, specs), mOptsStr(m.Opts, specs), qs(rest), qs(m.Args), extra}
	}
	if !sameOpts(opts, m, specs) {
		cl := classify(opts, m, specs, cfg)
		c.Violation("complete:"+cl, fmt.Sprintf("Complete(%q, cfg=%s): options %v, conventions give %v", args, cfgStr(cfg), optsStr(opts, specs), mOptsStr(m.Opts, specs)), wit(""))
		return false
	}
	if !sameStrings(rest, m.Args) {
		c.Violation("complete:non-option-args", fmt.Sprintf("Complete(%q, cfg=%s): non-option arguments %q, conventions give %q", args, cfgStr(cfg), rest, m.Args), wit(""))
		return false
	}
	last := args[len(args)-1]
	// "--" as the last word could be the terminator or the start of a long
	// option; the ContextType docs do not say. Not checked.
	if last != "--" || m.Stopped || mc.Type == getopt.OptionArgument {
		got := fmt.Sprintf("{%v text=%q option=%s}", ctx.Type, ctx.Text, optStr(ctx.Option, specs))
		want := fmt.Sprintf("{%v text=%q option=%s}", mc.Type, mc.Text, mOptStr(mc.Option, specs))
		bad := ctx.Type != mc.Type
		if !bad {
			switch mc.Type {
			case getopt.LongOption, getopt.Argument:
				bad = ctx.Text != mc.Text
			case getopt.OptionArgument:
				bad = !sameOpt(ctx.Option, mc.Option, specs)
			}
		}
		if bad {
			cl := "context"
			if ctx.Type == mc.Type && mc.Type == getopt.OptionArgument && ctx.Option != nil && ctx.Option.Spec != nil &&
				mc.Option.Unknown && mc.Option.Long && mc.Option.Name == "" && !ctx.Option.Unknown && ctx.Option.Spec.Long == "" {
				cl = "empty-long-name-matches-short-only-spec"
			}
			c.Violation("complete:"+cl, fmt.Sprintf("Complete(%q, cfg=%s): context %s, documented classification gives %s", args, cfgStr(cfg), got, want), wit(got+" vs "+want))
			return false
		}
		c.Count("ctx_"+mc.Type.String(), 1)
	}
	// the direct statement: all but the last element are interpreted as Parse does
	mp := refParse(args[:len(args)-1], specs, cfg)
	if !mp.Ambiguous {
		popts, prest, _ := getopt.Parse(args[:len(args)-1], specs, cfg)
		n := len(popts)
		if mp.Pending != nil && n == len(mp.Opts)+1 {
			n-- // an option still waiting for its argument
		}
		okPrefix := n <= len(opts)
		for i := 0; okPrefix && i < n; i++ {
			a, b := popts[i], opts[i]
			if a.Spec == nil || b.Spec == nil || a.Unknown != b.Unknown || a.Long != b.Long || a.Argument != b.Argument ||
				(!a.Unknown && a.Spec != b.Spec) || (a.Unknown && (a.Spec.Short != b.Spec.Short || a.Spec.Long != b.Spec.Long)) {
				okPrefix = false
			}
		}
		if !okPrefix || !sameStrings(prest, rest) {
			c.Violation("complete:differs-from-parse", fmt.Sprintf("Complete(%q) yields options %v / args %q, Parse of all but the last word yields %v / %q", args, optsStr(opts, specs), rest, optsStr(popts, specs), prest), wit(""))
			return false
		}
	}
	return true
}

func countFeatures(c *mon.Case, m *mResult, specs []*getopt.OptionSpec, cfg getopt.Config, args []string) {
	for _, o := range m.Opts {
		switch {
		case o.Unknown && o.Long:
			c.Count("unknown_long", 1)
		case o.Unknown:
			c.Count("unknown_short", 1)
		case o.Long:
			c.Count("known_long", 1)
		default:
			c.Count("known_short", 1)
		}
		if !o.Unknown && o.Arg != "" {
			c.Count("option_with_argument", 1)
			if len(o.Arg) > 0 && o.Arg[0] == '-' {
				c.Count("argument_looks_like_option", 1)
			}
		}
	}
	for k, n := range m.Feat {
		c.Count(k, n)
	}
	if m.Pending != nil {
		c.Count("missing_argument", 1)
	}
	if m.Stopped {
		c.Count("parsing_stopped", 1)
	}
	if m.EmptyLongName {
		c.Count("empty_long_name_vs_short_only_spec", 1)
	}
	// permutation: an option recognised after a non-option word
	seenPlain := false
	for _, w := range args {
		if !isOptionWord(w) {
			seenPlain = true
		} else if seenPlain && cfg&getopt.StopBeforeFirstNonOption == 0 && len(m.Opts) > 0 {
			c.Count("option_after_non_option", 1)
			break
		}
	}
}

func runParse(c *mon.Case) {
	r := c.Rand
	cfg := getopt.Config(c.I % 8)
	specs := genSpecs(r)
	for k := 0; k < 12; k++ {
		args := genArgs(r, specs, cfg)
		c.Evals(1)
		m, ok := checkParse(c, specs, cfg, args)
		if !ok {
			continue // violations are recorded (3 witnesses per class); the other lists are still checked
		}
		if !m.Ambiguous {
			countFeatures(c, m, specs, cfg, args)
			if len(m.Opts) > 0 && (len(m.Args) > 0 || m.Pending != nil) {
				c.Nontrivial(int(cfg), specsStr(specs), args)
			}
		}
		if len(args) > 0 {
			c.Evals(1)
			checkComplete(c, specs, cfg, args)
		}
		if k == 0 {
			c.Sample("parse-"+cfgStr(cfg), map[string]any{"specs": specsStr(specs), "args": qs(args), "model_options": mOptsStr(m.Opts, specs), "model_args": qs(m.Args)})
		}
	}
}

// ---------------------------------------------------------------------------
// through the interpreter: flag:parse-getopt

var evaler *eval.Evaler

func specMap(s *getopt.OptionSpec, r *rand.Rand) vals.Map {
	m := vals.EmptyMap
	if s.Short != 0 {
		m = m.Assoc("short", string(s.Short))
	}
	if s.Long != "" {
		m = m.Assoc("long", s.Long)
	}
	switch s.Arity {
	case getopt.RequiredArgument:
		m = m.Assoc("arg-required", true)
	case getopt.OptionalArgument:
		m = m.Assoc("arg-optional", true)
	default:
		if r.Intn(2) == 0 {
			m = m.Assoc("arg-required", false)
		}
	}
	return m
}

func runElvish(c *mon.Case) {
	r := c.Rand
	cfg := getopt.Config(c.I % 8)
	specs := genSpecs(r)
	args := genArgs(r, specs, cfg)
	m := refParse(args, specs, cfg)
	if m.Ambiguous {
		c.Count("skipped_value_for_noarg_long", 1)
		return
	}
	ev := evaler
	var maps []any
	for _, s := range specs {
		maps = append(maps, specMap(s, r))
	}
	var argv []any
	for _, a := range args {
		argv = append(argv, a)
	}
	elv.SetVar(ev, "specs", vals.MakeList(maps...))
	elv.SetVar(ev, "args", vals.MakeList(argv...))
	b := func(bit getopt.Config) string {
		if cfg&bit != 0 {
			return "$true"
		}
		return "$false"
	}
	code := "use flag; flag:parse-getopt $args $specs &stop-after-double-dash=" + b(getopt.StopAfterDoubleDash) +
		" &stop-before-non-flag=" + b(getopt.StopBeforeFirstNonOption) + " &long-only=" + b(getopt.LongOnly)
	res := elv.Eval(ev, code)
	wit := map[string]any{"config": cfgStr(cfg), "specs": specsStr(specs), "args": qs(args), "model_options": mOptsStr(m.Opts, specs), "model_args": qs(m.Args), "got": elv.Reprs(res.Values), "err": fmt.Sprint(res.Err)}
	if m.errExpected() {
		if !elv.IsException(res.Err) {
			sig := "elvish:no-error"
			if m.EmptyLongName {
				sig = "elvish:empty-long-name-matches-short-only-spec"
			}
			c.Violation(sig, fmt.Sprintf("flag:parse-getopt %q: an unknown option or missing argument must raise, got %v / %v", args, elv.Reprs(res.Values), res.Err), wit)
		}
		c.Count("elvish_error_cases", 1)
		return
	}
	if res.Err != nil {
		c.Violation("elvish:unexpected-error", fmt.Sprintf("flag:parse-getopt %q raised %v", args, res.Err), wit)
		return
	}
	if len(res.Values) != 2 {
		c.Violation("elvish:output-shape", "flag:parse-getopt must output two values", wit)
		return
	}
	flags, ok1 := res.Values[0].(vals.List)
	rest, ok2 := res.Values[1].(vals.List)
	if !ok1 || !ok2 {
		c.Violation("elvish:output-shape", "flag:parse-getopt must output two lists", wit)
		return
	}
	bad := flags.Len() != len(m.Opts)
	i := 0
	for it := flags.Iterator(); !bad && it.HasElem(); it.Next() {
		fm, ok := it.Elem().(vals.Map)
		if !ok {
			bad = true
			break
		}
		o := m.Opts[i]
		sp, _ := fm.Index("spec")
		arg, _ := fm.Index("arg")
		long, _ := fm.Index("long")
		if !vals.Equal(sp, maps[o.Spec]) || arg != any(o.Arg) || long != any(o.Long) {
			bad = true
		}
		i++
	}
	if bad {
		c.Violation("elvish:flags", fmt.Sprintf("flag:parse-getopt %q (cfg=%s): flags %s, conventions give %v", args, cfgStr(cfg), vals.ReprPlain(flags), mOptsStr(m.Opts, specs)), wit)
		return
	}
	var restS []string
	for it := rest.Iterator(); it.HasElem(); it.Next() {
		s, _ := it.Elem().(string)
		restS = append(restS, s)
	}
	if !sameStrings(restS, m.Args) {
		c.Violation("elvish:non-flag-args", fmt.Sprintf("flag:parse-getopt %q (cfg=%s): non-flag arguments %q, conventions give %q", args, cfgStr(cfg), restS, m.Args), wit)
		return
	}
	c.Count("elvish_ok_cases", 1)
	if len(m.Opts) > 0 {
		c.Nontrivial("elvish", int(cfg), specsStr(specs), args)
	}
}

// ---------------------------------------------------------------------------
// hostile words: invalid UTF-8 and NUL in option words. Only totality and
// conservation of the non-option words are demanded.

var hostilePool = []string{"-\xff", "-a\xff", "-\xffa", "--\xff", "-\xe4\xb8", "-\xc0\x80x", "-\x00", "-a\x00", "--\x00", "-\xed\xa0\x80", "-x\xff=1", "--foo\xff", "--\xff=\xff", "-\xf0\x9f"}

func runHostile(c *mon.Case) {
	r := c.Rand
	cfg := getopt.Config(c.I % 8)
	specs := genSpecs(r)
	args := genArgs(r, specs, cfg)
	k := 1 + r.Intn(2)
	for i := 0; i < k; i++ {
		w := hostilePool[r.Intn(len(hostilePool))]
		if len(args) == 0 {
			args = append(args, w)
		} else {
			args[r.Intn(len(args))] = w
		}
	}
	m := refParse(args, specs, cfg)
	if m.NulShort {
		c.Count("nul_short_vs_long_only_spec", 1)
	}
	opts, rest, _ := getopt.Parse(args, specs, cfg)
	_, _, _ = getopt.Complete(append(args, ""), specs, cfg)
	_, _, _ = getopt.Complete(args, specs, cfg)
	c.Evals(2)
	// every non-option word reported must be one of the input words
	for _, w := range rest {
		found := false
		for _, a := range args {
			if a == w {
				found = true
			}
		}
		if !found {
			c.Violation("hostile:invented-argument", fmt.Sprintf("Parse(%q) reports non-option argument %q that is not an input word", args, w), map[string]any{"args": qs(args)})
			return
		}
	}
	// a NUL "short option" must not match a spec that has no short form
	for _, o := range opts {
		if !o.Unknown && !o.Long && o.Spec != nil && o.Spec.Short == 0 {
			c.Violation("hostile:nul-short-matches-long-only-spec", fmt.Sprintf("Parse(%q): the word -\\x00 is reported as the known option %s, which has no short form", args, specStr(o.Spec)), map[string]any{"args": qs(args), "specs": specsStr(specs)})
			return
		}
	}
	c.Count("hostile_cases", 1)
}

func Spec() *mon.Spec {
	return &mon.Spec{
		ID:            "C38",
		SpinViolation: true, Level: "exploration",
		Rule: "case = option spec set (0..6 options: short-only, long-only, both; all arities; rare duplicates) under one of the 8 configurations and 12 argument lists of 0..8 words (short clusters, attached/detached arguments incl. values that look like options, long options with = and detached values, single-dash long options under LongOnly, unknown options, '-', '--', '--=x', plain and empty words); Parse and Complete are compared with a reference parser written from the getopt_long conventions (options with spec identity, Long flag, Argument, Unknown; non-option arguments; error presence; completion context); Complete is also compared directly with Parse of all but the last word. Phase elvish does the same through flag:parse-getopt in the interpreter, phase edit-complete checks which callback / candidates edit:complete-getopt produces. Non-trivial = argument list with at least one parsed option and a non-option argument or a pending argument.",
		Assumptions: []string{
			"--name=value for a long option that takes no argument is not checked (GNU: error; conventions differ)",
			"abbreviated long options are not generated (unknown names are never a prefix of a spec's long name)",
			"unknown options are taken to accept an optional (attached) argument, as the doc comment of Complete says; the rest of a short cluster after an unknown option is its argument",
			"an option whose required argument is missing at the end may be listed (with empty argument) or omitted; the error must be reported",
			"the completion context of a final '--' is not checked (terminator or start of a long option: docs silent)",
			"degenerate specs (empty long name together with no short rune, '-' or NUL as short rune, '=' in long names) are not generated; with duplicate names the first spec wins",
			"words with invalid UTF-8 or NUL: only totality (no panic) and conservation of non-option words are checked",
			"edit:complete-getopt (GNU configuration): the completer of the pending option / the handler of the n-th non-option argument is called with the partial text; for a last word starting with a dash the candidates are all options (\"-\"), the long options whose name starts with the partial name, or all short options (chain), in spec order (.d.elv: 'Matching options will be provided as completions when the last element of $args starts with a dash')",
		},
		Phases: []mon.Phase{
			{Name: "parse", Quick: 24000, Thorough: 600000, Run: runParse},
			{Name: "elvish", Quick: 6000, Thorough: 60000, Run: runElvish},
			{Name: "hostile", Quick: 4000, Thorough: 40000, Run: runHostile},
			{Name: "edit-complete", Quick: 6000, Thorough: 60000, Run: runEditComplete},
		},
		ChildSetup: func(e *mon.Env) { evaler = elv.New(); installEdit(evaler) },
		Floors: map[string]int{"distinct_nontrivial": 20000, "known_long": 30000, "known_short": 25000, "unknown_long": 30000, "unknown_short": 5000,
			"option_with_argument": 20000, "argument_looks_like_option": 10000, "missing_argument": 1500, "option_after_non_option": 12000,
			"short_chain": 2000, "short_chain_ending_in_argument_option": 500, "short_required_attached": 1000, "short_required_detached": 1000,
			"short_optional_attached": 1000, "short_optional_bare": 1000, "long_required_eq_value": 2000, "long_required_detached": 2000,
			"long_optional_eq_value": 2000, "long_optional_bare": 2000, "double_dash_terminator": 5000, "double_dash_as_plain_word": 5000,
			"stopped_at_first_non_option": 5000, "long_only_single_dash_known": 2000, "single_dash_word": 3000,
			"ctx_AnyOption": 2000, "ctx_Argument": 30000, "ctx_ChainShortOption": 1200, "ctx_LongOption": 10000, "ctx_OptionArgument": 9000, "ctx_OptionOrArgument": 500,
			"elvish_ok_cases": 800, "elvish_error_cases": 700, "hostile_cases": 800,
			"edit_calls": 1500, "edit_ctx_AnyOption": 100, "edit_ctx_Argument": 700, "edit_ctx_ChainShortOption": 60, "edit_ctx_LongOption": 250,
			"edit_ctx_OptionArgument": 250, "edit_ctx_OptionOrArgument": 80, "edit_nonempty_result": 800},
	}
}
