// Package c39 monitors concurrent use of ONE interpreter from many goroutines
// (property C39). The Go race detector is the primary oracle (the framework
// turns every report with a src.elv.sh frame into a violation, fatal errors
// such as "concurrent map writes" kill the child and are attributed through
// the journal); the secondary oracle is serialisability, kept decidable by
// construction: each goroutine's program touches only names with a
// goroutine-unique prefix plus commutative shared effects, so in every
// sequential order each program must produce exactly what it produces when
// run alone on a fresh interpreter.
package c39

import (
	"fmt"
	"os"
	"path/filepath"
	"runtime"
	"sort"
	"strings"
	"sync"
	"sync/atomic"
	"syscall"
	"time"

	"src.elv.sh/pkg/eval"
	"src.elv.sh/pkg/eval/vals"
	"src.elv.sh/pkg/eval/vars"
	"src.elv.sh/pkg/parse"
	"src.elv.sh/pkg/verifhook"
	"verifharness/internal/elv"
	"verifharness/internal/mon"
)

// ---------------------------------------------------------------------------
// harness state (all atomics / mutex protected)

var (
	libDir    string
	pauseMode atomic.Int32 // 0 off, 1 yield, 2 sleep: behaviour of the evalModule pause point
	pauseHits atomic.Int64
	yieldSeq  atomic.Uint64
)

type recorder struct {
	mu     sync.Mutex
	loaded map[string]int
	incs   int
}

func (rc *recorder) counts() (map[string]int, int) {
	rc.mu.Lock()
	defer rc.mu.Unlock()
	m := map[string]int{}
	for k, v := range rc.loaded {
		m[k] = v
	}
	return m, rc.incs
}

func perturb() {
	n := yieldSeq.Add(1)
	switch n % 4 {
	case 0:
		time.Sleep(50 * time.Microsecond)
	default:
		for i := uint64(0); i < n%3+1; i++ {
			runtime.Gosched()
		}
	}
}

func newEvaler() (*eval.Evaler, *recorder) {
	ev := elv.New()
	ev.LibDirs = []string{libDir}
	rc := &recorder{loaded: map[string]int{}}
	ev.ExtendBuiltin(eval.BuildNs().
		AddGoFn("v-loaded", func(name string) {
			rc.mu.Lock()
			rc.loaded[name]++
			rc.mu.Unlock()
		}).
		AddGoFn("v-inc", func() {
			rc.mu.Lock()
			rc.incs++
			rc.mu.Unlock()
		}).
		AddGoFn("v-yield", func() {
			if pauseMode.Load() != 0 {
				perturb()
			}
		}))
	return ev, rc
}

// Race reports in which one access stack is inside evalModule -> PrepareEval
// (compiling / allocating a module namespace before it is installed) are the
// same defect as the unguarded module cache: the namespace is published to
// other goroutines through an unsynchronised map, so the reader's accesses
// race with the initialising writes. The top-frame signature does not show
// that, so these reports are re-labelled with one named signature.
var (
	derivRaces  atomic.Int64
	derivSample atomic.Value
)

const sigDerived = "race:module-namespace-published-through-unguarded-cache"

func raceFilter(blk string) bool {
	for i, para := range strings.Split(strings.TrimSpace(blk), "\n\n") {
		if i > 1 {
			break
		}
		if strings.Contains(para, "pkg/eval.evalModule()") && strings.Contains(para, "pkg/eval.(*Frame).PrepareEval()") {
			derivRaces.Add(1)
			if len(blk) > 6000 {
				blk = blk[:6000]
			}
			derivSample.Store(blk)
			return false
		}
	}
	return true
}

func finish(e *mon.Env) {
	if n := derivRaces.Load(); n > 0 {
		smp, _ := derivSample.Load().(string)
		e.AddViolation(sigDerived, fmt.Sprintf("%d race reports between the initialisation of a module namespace (evalModule -> PrepareEval) and a goroutine that obtained it from Evaler.modules without synchronisation", n),
			map[string]any{"report": smp})
	}
}

func childSetup(e *mon.Env) {
	// The race runtime makes a process that reported races exit with status 66
	// even after os.Exit(0); the framework would take that for a crash and skip
	// a case. Re-exec once with exitcode=0 appended to GORACE.
	if g := os.Getenv("GORACE"); e.IsChild && g != "" && !strings.Contains(g, "exitcode=") {
		if exe, err := os.Executable(); err == nil {
			os.Setenv("GORACE", g+" exitcode=0")
			syscall.Exec(exe, os.Args, os.Environ())
		}
	}
	libDir = filepath.Join(e.Scratch, "c39lib")
	if err := writeLib(libDir); err != nil {
		fmt.Fprintln(os.Stderr, "c39: cannot write module library:", err)
		os.Exit(2)
	}
	verifhook.Set(func(point string) {
		if point != "eval.evalModule.beforeInstall" {
			return
		}
		switch pauseMode.Load() {
		case 1:
			pauseHits.Add(1)
			perturb()
		case 2:
			pauseHits.Add(1)
			time.Sleep(300 * time.Microsecond)
		}
	})
}

// ---------------------------------------------------------------------------
// executing one op

type opResult struct {
	Vals  []string `json:"values,omitempty"`
	Bytes string   `json:"bytes,omitempty"`
	Err   string   `json:"err,omitempty"`
}

func (a opResult) equal(b opResult) bool {
	if a.Bytes != b.Bytes || a.Err != b.Err || len(a.Vals) != len(b.Vals) {
		return false
	}
	for i := range a.Vals {
		if a.Vals[i] != b.Vals[i] {
			return false
		}
	}
	return true
}

func errString(err error) string {
	if err == nil {
		return ""
	}
	if r := elv.Reason(err); r != nil {
		if f, ok := r.(eval.FailError); ok {
			return "fail:" + vals.ToString(f.Content)
		}
		return "exception:" + r.Error()
	}
	return err.Error()
}

func privateNs(p string) *eval.Ns {
	return eval.BuildNs().AddVar(p+"-pv", vars.FromInit("pv0")).Ns()
}

type runner struct {
	ev   *eval.Evaler
	priv *eval.Ns
	p    program
}

func (rn *runner) exec(o op) opResult {
	ev := rn.ev
	switch o.Kind {
	case "eval", "eval-private", "call":
		port1, collect, err := eval.CapturePort()
		if err != nil {
			return opResult{Err: "harness:captureport:" + err.Error()}
		}
		cfg := eval.EvalCfg{Ports: []*eval.Port{nil, port1, nil}}
		if o.Kind == "eval-private" {
			cfg.Global = rn.priv
		}
		var rerr error
		if o.Kind == "call" {
			v := ev.Global().IndexString(o.Fn)
			if v == nil {
				collect()
				return opResult{Err: "harness:function variable not found in Global(): " + o.Fn}
			}
			f, ok := v.Get().(eval.Callable)
			if !ok {
				collect()
				return opResult{Err: "harness:not callable: " + o.Fn}
			}
			args := make([]any, len(o.Args))
			for i, a := range o.Args {
				args[i] = a
			}
			rerr = ev.Call(f, eval.CallCfg{Args: args, From: "[c39 call]"}, cfg)
		} else {
			src := parse.Source{Name: "[c39 " + rn.p.Prefix + "]", Code: o.Code}
			if o.File {
				src = parse.Source{Name: filepath.Join(libDir, "script-"+rn.p.Prefix+".elv"), Code: o.Code, IsFile: true}
			}
			rerr = ev.Eval(src, cfg)
		}
		vs, bs := collect()
		return opResult{Vals: elv.Reprs(vs), Bytes: string(bs), Err: errString(rerr)}
	case "check":
		perr, fixes, cerr := ev.Check(parse.Source{Name: "[c39 check]", Code: o.Code}, nil)
		r := opResult{Vals: append([]string{}, fixes...)}
		if perr != nil {
			r.Err = "parse:" + perr.Error()
		}
		if cerr != nil {
			r.Err += "compile:" + cerr.Error()
		}
		return r
	case "extend":
		ev.ExtendGlobal(eval.BuildNs().AddVar(o.Name, vars.FromInit(o.Val)))
		return opResult{}
	case "delete":
		ev.DeleteFromGlobal(map[string]struct{}{o.Name: {}})
		return opResult{}
	case "scan":
		// every name visible in Global() must resolve; report this goroutine's names
		g := ev.Global()
		var mine []string
		bad := ""
		g.IterateKeysString(func(name string) {
			if g.IndexString(name) == nil {
				bad = name
			}
			if strings.HasPrefix(name, rn.p.Prefix+"-") {
				mine = append(mine, name)
			}
		})
		sort.Strings(mine)
		r := opResult{Vals: mine}
		if bad != "" {
			r.Err = "unresolvable name in Global(): " + bad
		}
		return r
	}
	return opResult{Err: "harness:unknown op"}
}

func preload(ev *eval.Evaler, flavour int) {
	if flavour != flavPreloaded {
		return
	}
	var b strings.Builder
	for _, m := range sharedMods {
		fmt.Fprintf(&b, "{ use %s }\n", m.spec)
	}
	if err := ev.Eval(parse.Source{Name: "[c39 preload]", Code: b.String()}, eval.EvalCfg{}); err != nil {
		panic("c39 preload failed: " + err.Error())
	}
}

// runSerial runs the programs one after another on a fresh interpreter.
func runSerial(progs []program, flavour int) ([][]opResult, map[string]int, int) {
	ev, rc := newEvaler()
	preload(ev, flavour)
	res := make([][]opResult, len(progs))
	for k, p := range progs {
		rn := &runner{ev: ev, priv: privateNs(p.Prefix), p: p}
		res[k] = make([]opResult, len(p.Ops))
		for i, o := range p.Ops {
			res[k][i] = rn.exec(o)
		}
	}
	loaded, incs := rc.counts()
	// generator guard: everything the programs declared in the shared global
	// namespace must carry a goroutine-unique prefix (or be one of the
	// idempotent pre-defined module aliases); otherwise two programs would
	// communicate through it and the serialisability oracle would be unsound
	ev.Global().IterateKeysString(func(name string) {
		switch name {
		case "str:", "math:", "re:", "path:":
			return
		}
		ok := false
		for _, p := range progs {
			if strings.HasPrefix(name, p.Prefix+"-") {
				ok = true
			}
		}
		if !ok {
			loaded["!shared-global-name "+name] = 1
		}
	})
	return res, loaded, incs
}

func closure(mods []string) map[string]bool {
	out := map[string]bool{}
	for _, s := range mods {
		if m := modByName(s); m != nil {
			for _, d := range m.deps {
				out[d] = true
			}
		}
	}
	return out
}

// ---------------------------------------------------------------------------

const (
	sigDup     = "use-concurrent-module-cache:evaluated-more-than-once"
	sigPartial = "use-concurrent-module-cache:importer-result-differs"
)

func runBatch(mode int) func(c *mon.Case) {
	return func(c *mon.Case) {
		r := c.Rand
		G := 2 + r.Intn(7)
		flavour := r.Intn(3)
		storm := mode == modeUseStorm
		if storm {
			G = 4 + r.Intn(5)
			flavour = flavContended
			if r.Intn(4) == 0 {
				flavour = flavDisjoint
			}
		}
		if mode == modeGlobalStorm {
			G = 4 + r.Intn(5)
			flavour = flavDisjoint
		}
		pm := int32(r.Intn(3))
		progs := genPrograms(r, G, flavour, mode)

		// sequential reference: ONE sequential order of all evaluations (program 0
		// completely, then program 1, ...) on a fresh interpreter. The programs
		// are commutative by construction, so every sequential order gives each
		// op the same result; this is cross-checked on a sample of cases by
		// additionally running a program ALONE on a fresh interpreter.
		pauseMode.Store(0)
		solo, soloLoaded, wantIncs := runSerial(progs, flavour)
		for name := range soloLoaded {
			if strings.HasPrefix(name, "!shared-global-name ") {
				c.Inconclusive("generator-guard:" + name)
				return
			}
		}
		touched := map[string]int{} // module -> number of goroutines whose program may evaluate it
		for k := range progs {
			var all []string
			for _, o := range progs[k].Ops {
				all = append(all, o.Mods...)
			}
			for m := range closure(all) {
				touched[m]++
			}
		}
		if c.I%8 == 0 { // generator self-check
			k := r.Intn(G)
			alone, _, _ := runSerial(progs[k:k+1], flavour)
			for i := range alone[0] {
				if !alone[0][i].equal(solo[k][i]) {
					c.Inconclusive("generator-self-check:program-alone-differs-from-serial-order")
					c.Sample("self-check-failure", map[string]any{"op": progs[k].Ops[i], "alone": alone[0][i], "serial": solo[k][i]})
					return
				}
			}
			c.Count("self_checks_alone_vs_serial", 1)
		}
		contended := map[string]bool{}
		if flavour != flavPreloaded {
			for m, n := range touched {
				if n >= 2 {
					contended[m] = true
				}
			}
		}

		// the concurrent run
		ev, rc := newEvaler()
		preload(ev, flavour)
		res := make([][]opResult, G)
		var wg sync.WaitGroup
		start := make(chan struct{})
		var inflight, maxInflight, overlapped atomic.Int64
		pauseHits.Store(0)
		pauseMode.Store(pm)
		for k := 0; k < G; k++ {
			res[k] = make([]opResult, len(progs[k].Ops))
			rn := &runner{ev: ev, priv: privateNs(progs[k].Prefix), p: progs[k]}
			wg.Add(1)
			go func(k int, rn *runner) {
				defer wg.Done()
				<-start
				for i, o := range rn.p.Ops {
					n := inflight.Add(1)
					for {
						m := maxInflight.Load()
						if n <= m || maxInflight.CompareAndSwap(m, n) {
							break
						}
					}
					if n >= 2 {
						overlapped.Add(1)
					}
					res[k][i] = rn.exec(o)
					inflight.Add(-1)
				}
			}(k, rn)
		}
		close(start)
		wg.Wait()
		pauseMode.Store(0)
		loaded, incs := rc.counts()

		witness := func(k, i int) map[string]any {
			w := map[string]any{"goroutines": G, "flavour": []string{"preloaded", "disjoint", "contended"}[flavour],
				"programs": progs, "module_evaluations": loaded}
			if k >= 0 {
				w["goroutine"] = k
				w["op_index"] = i
				w["op"] = progs[k].Ops[i]
				w["alone"] = solo[k][i]
				w["concurrent"] = res[k][i]
			}
			return w
		}

		// (1) per-goroutine results equal the sequential results
		nops, tainted := 0, 0
		for k := range progs {
			for i, o := range progs[k].Ops {
				nops++
				isTainted := false
				for m := range closure(o.Mods) {
					if contended[m] {
						isTainted = true
					}
				}
				if isTainted {
					tainted++
				}
				if res[k][i].equal(solo[k][i]) {
					continue
				}
				if strings.HasPrefix(res[k][i].Err, "harness:") {
					c.Violation("harness-lookup:"+o.Kind, "op could not be started: "+res[k][i].Err, witness(k, i))
					continue
				}
				if isTainted {
					c.Violation(sigPartial, fmt.Sprintf("goroutine %d op %d (%s) touching a module that another goroutine first-imports concurrently: sequentially %v, concurrently %v",
						k, i, o.Kind, solo[k][i], res[k][i]), witness(k, i))
					continue
				}
				c.Violation("not-serialisable:"+o.Kind, fmt.Sprintf("goroutine %d op %d (%s) %s: sequentially %v, concurrently %v",
					k, i, o.Kind, mon.Q(o.Code), solo[k][i], res[k][i]), witness(k, i))
			}
		}
		// (2) commutative shared effects
		if incs != wantIncs && len(contended) == 0 {
			c.Violation("shared-counter", fmt.Sprintf("v-inc ran %d times, sequentially %d", incs, wantIncs), witness(-1, 0))
		}
		dups := 0
		for m := range touched {
			if modByName(m).bundled {
				continue // no v-loaded inside
			}
			want := soloLoaded[m]
			got := loaded[m]
			switch {
			case got == want:
			case got > want && contended[m]:
				dups++
				c.Violation(sigDup, fmt.Sprintf("module %s was evaluated %d times by %d goroutines importing it concurrently (any sequential order: %d)", m, got, touched[m], want), witness(-1, 0))
			case contended[m] && got >= 1 && got < want:
				// an importer was served a cached, still-evaluating instance
				c.Violation(sigPartial, fmt.Sprintf("module %s evaluated %d times, sequentially %d", m, got, want), witness(-1, 0))
			default:
				c.Violation("module-evalcount", fmt.Sprintf("module %s was evaluated %d times, expected %d", m, got, want), witness(-1, 0))
			}
		}

		// coverage
		c.Evals(nops * 2)
		c.Count("batches", 1)
		c.Count("ops", nops)
		c.Count("ops_overlapping_another", int(overlapped.Load()))
		c.Count("ops_touching_contended_module", tainted)
		c.Count("contended_modules", len(contended))
		c.Count("duplicate_module_evaluations_seen", dups)
		c.Count("pause_hook_hits", int(pauseHits.Load()))
		c.Count("flavour_"+[]string{"preloaded", "disjoint", "contended"}[flavour], 1)
		for _, p := range progs {
			for _, o := range p.Ops {
				c.Count("op_"+o.Kind, 1)
			}
		}
		c.Max("concurrent_ops", int(maxInflight.Load()))
		c.Max("goroutines", G)
		if maxInflight.Load() >= 2 {
			var key []string
			for _, p := range progs {
				for _, o := range p.Ops {
					key = append(key, o.Kind+o.Code+o.Fn+o.Name)
				}
			}
			c.Nontrivial(key)
		}
		if c.I < 8 {
			kind := "batch-" + []string{"preloaded", "disjoint", "contended"}[flavour]
			if storm {
				kind = "use-storm-" + kind
			}
			if mode == modeGlobalStorm {
				kind = "global-storm"
			}
			c.Sample(kind, map[string]any{"programs": progs[:2], "goroutines": G, "sequential_results_goroutine0": solo[0]})
		}
	}
}

// Spec returns the check for C39.
func Spec() *mon.Spec {
	return &mon.Spec{
		ID: "C39", Level: "exploration", Race: true, HangViolation: true,
		Rule: "case = batch of 2..8 goroutines on ONE Evaler (race-detector build), each running a generated program of 4..12 API calls: Eval on the default global, Eval with a private EvalCfg.Global, Call of closures fetched from Global(), Check, ExtendGlobal/DeleteFromGlobal, Global() scans; program texts use peach, run-parallel, pipelines, closures, try/fail, tmp, defer, pragma, eval, del, deprecate, E: variables, `use`/`use-mod` of library modules (own, shared, circular, nested, relative-from-file, failing) and bundled/pre-defined modules. Names are goroutine-unique and shared effects commutative, so each op's (values, bytes, error) must equal the same program run ALONE on a fresh Evaler; shared counter = sum; each module evaluated exactly once. Flavours: shared modules preloaded / first-imported by one goroutine only / first-imported concurrently (pause point eval.evalModule.beforeInstall yields or sleeps in 2/3 of the cases). Oracle 1 = Go race detector reports with a src.elv.sh frame + fatal errors; oracle 2 = the serialisability comparison. Non-trivial = batch in which >= 2 ops were observed in flight at the same time; distinct by program texts.",
		Assumptions: []string{
			"serialisability is decided only for programs that are commutative by construction (goroutine-unique names, shared counter, idempotent imports); read-modify-write races on shared Elvish variables are legal and not generated",
			"module top levels produce no output and do not read a circular partner's variables (both depend on which importer is first)",
			"ops touching a module that >= 2 goroutines may first-import concurrently are compared too, but a difference there is attributed to the known module-cache finding (signature use-concurrent-module-cache:*), not to a new violation",
			"process-global state (cwd, umask) is not touched; externals are not run",
		},
		ChildSetup: childSetup, RaceFilter: raceFilter, Finish: finish,
		Phases: []mon.Phase{
			{Name: "mixed2", Quick: 20, Thorough: 1200, Run: runBatch(modeMixed), GoMaxProcs: 2, Timeout: 300 * time.Second},
			{Name: "mixed8", Quick: 20, Thorough: 1200, Run: runBatch(modeMixed), GoMaxProcs: 8, Timeout: 300 * time.Second},
			{Name: "storm4", Quick: 16, Thorough: 800, Run: runBatch(modeUseStorm), GoMaxProcs: 4, Timeout: 300 * time.Second},
			{Name: "storm16", Quick: 8, Thorough: 400, Run: runBatch(modeUseStorm), GoMaxProcs: 16, Timeout: 300 * time.Second},
			{Name: "globals4", Quick: 16, Thorough: 1000, Run: runBatch(modeGlobalStorm), GoMaxProcs: 4, Timeout: 300 * time.Second},
			{Name: "globals16", Quick: 8, Thorough: 400, Run: runBatch(modeGlobalStorm), GoMaxProcs: 16, Timeout: 300 * time.Second},
		},
		Floors: map[string]int{"batches": 25, "ops": 1200, "ops_overlapping_another": 600, "concurrent_ops": 4,
			"op_eval": 600, "op_eval-private": 40, "op_call": 20, "op_check": 40, "op_extend": 20, "op_delete": 5, "op_scan": 100,
			"contended_modules": 20, "ops_touching_contended_module": 40, "pause_hook_hits": 40,
			"flavour_preloaded": 4, "flavour_disjoint": 10, "flavour_contended": 6, "distinct_nontrivial": 25},
	}
}
