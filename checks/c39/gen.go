package c39

import (
	"fmt"
	"math/rand"
	"strings"
)

// op is one call on the shared interpreter made by a goroutine.
type op struct {
	Kind string   `json:"kind"`           // eval | eval-private | call | check | extend | delete | scan
	Code string   `json:"code,omitempty"` // eval, eval-private, check
	File bool     `json:"file,omitempty"` // evaluate as a file located in the library directory (relative imports)
	Fn   string   `json:"fn,omitempty"`   // call: name of the function variable in the default global
	Args []string `json:"args,omitempty"`
	Name string   `json:"name,omitempty"` // extend, delete
	Val  string   `json:"val,omitempty"`  // extend
	Mods []string `json:"mods,omitempty"` // library/bundled modules the op may import or reach through an alias
}

type program struct {
	K      int    `json:"goroutine"`
	Prefix string `json:"prefix"`
	Ops    []op   `json:"ops"`
}

// modUse says how a goroutine may use a module in this case.
type modUse struct {
	m        *modInfo
	stateful bool // module state may be written and re-read across imports (module is never contended)
}

const (
	modeMixed       = 0
	modeUseStorm    = 1 // programs consist of module imports only
	modeGlobalStorm = 2 // programs are many tiny operations on the default global namespace
)

const (
	flavPreloaded = 0 // all shared modules imported sequentially before the goroutines start
	flavDisjoint  = 1 // every module is first-imported by at most one goroutine
	flavContended = 2 // goroutines first-import the same modules concurrently
)

type pgen struct {
	r       *rand.Rand
	k       int
	P       string // goroutine-unique prefix
	PU      string // for environment variable names
	budget  []modUse
	aliases map[string]string // spec -> alias bound in the default global by an earlier op
	fns     []string          // functions defined in the default global, callable through Evaler.Call
	fnMods  map[string][]string
	exts    []string // names added with ExtendGlobal and not deleted
	n       int      // op counter
	ops     []op
}

func sub(t string, kv ...string) string {
	return strings.NewReplacer(kv...).Replace(t)
}

func (g *pgen) emit(o op) { g.ops = append(g.ops, o); g.n++ }

// plain snippets: only goroutine-unique names (prefix S) and builtins.
func (g *pgen) snippet(private bool) string {
	r := g.r
	S := fmt.Sprintf("%s-%d", g.P, g.n)
	n := fmt.Sprint(1 + r.Intn(50))
	n8 := fmt.Sprint(2 + r.Intn(7))
	var t string
	switch r.Intn(24) {
	case 0:
		t = "var {S}-a = (+ {n} 2)\nset {S}-a = (* ${S}-a 3)\nput ${S}-a"
	case 1:
		t = "var {S}-l = [a b c d]\nset {S}-l[{i}] = x{n}\nput $@{S}-l (count ${S}-l)\nvar {S}-m = [&k=v &{n}=w]\nset {S}-m[z] = [1 2]\nput ${S}-m[z] (has-key ${S}-m k)\nkeys ${S}-m | order"
	case 2:
		t = "fn {S}-f {|a b| put (+ $a $b) }\n{S}-f {n} 2\nvar {S}-c = {|x &o=d| put [$x $o] }\n${S}-c q &o={n}\nvar {S}-mk = {|n| put { put $n } }\nvar {S}-k = (${S}-mk {n})\n${S}-k"
	case 3:
		t = "range {n} | each {|x| * $x 2 } | take 5 | put [(all)]\necho a{n} b c | each {|l| put $l }\nput a b c | count\nrange 100 | drop 95 | to-lines | from-lines | put [(all)]"
	case 4:
		t = "peach {|x| put (* $x $x) } [(range {n8})] | order | put [(all)]\nrange {n} | peach &num-workers=3 {|x| put [$x] } | count"
	case 5:
		t = "var {S}-a = 0\nvar {S}-b = 0\nrun-parallel { set {S}-a = {n} } { set {S}-b = 2 } { put rp }\nput ${S}-a ${S}-b"
	case 6:
		t = "try { fail {S} } catch {S}-x { put ${S}-x[reason][content] } finally { put fin }\nvar {S}-e = ?(fail q{n})\nput ${S}-e[reason][content]\ntry { + 1 a } catch {S}-y { put caught }"
	case 7:
		t = "put before\nfail {S}-boom"
	case 8:
		t = "var {S}-t = a\nfn {S}-g { tmp {S}-t = b{n}; put ${S}-t }\n{S}-g\nput ${S}-t\n{ defer { put deferred }; put body }"
	case 9:
		t = "pragma unknown-command = disallow\n{S}-nonexistent-cmd"
	case 10:
		t = "eval 'put (+ 1 {n})'\neval &ns=(ns [&x={n}]) 'put $x'\neval &on-end={|n| put $n[y] } 'var y = {n}'\nvar {S}-v = 5\neval 'put ${S}-v'"
	case 11:
		t = "use str\nuse math\nuse re\nuse path\nstr:join , [a b {n}]\nmath:pow 2 {n8}\nre:replace '[0-9]+' N a{n}b\npath:base /x/y{n}"
	case 12:
		t = "set E:{PU}_V = v{n}\nput $E:{PU}_V (has-env {PU}_V)\nunset-env {PU}_V\nput (has-env {PU}_V)"
	case 13:
		t = "put $value-out-indicator $notify-bg-job-success (count $args) (kind-of $pid) $num-bg-jobs"
	case 14:
		t = "v-inc\nv-inc\nv-inc"
	case 15:
		t = "var {S}-d = 1\ndel {S}-d\nvar {S}-d2 = 2\nput ${S}-d2"
	case 16:
		t = "var {S}-s = 0\nfor {S}-x [(range {n8})] { if (== ${S}-x 3) { continue }; set {S}-s = (+ ${S}-s ${S}-x) }\nput ${S}-s\nvar {S}-w = 0\nwhile (< ${S}-w 5) { set {S}-w = (+ ${S}-w 1); if (== ${S}-w 4) { break } }\nput ${S}-w"
	case 17:
		t = "deprecate {S}-old-feature\nput after-deprecate"
	case 18:
		t = "put [&a={n} &b=[1 2]] | to-json | from-json | put (all)[b]\norder [c a b]\nput (num 0x10) (+ 1/2 1/3) (* 1.5 2)\nprintf '%s-%d\\n' a {n}"
	case 19:
		t = "var {S}-l = [(peach {|x| put { put $x } } [1 2 3])]\n{ for {S}-f ${S}-l { ${S}-f } } | order | put [(all)]"
	case 20:
		t = "print a{n} | slurp\n{ echo l1; echo l{n} } | from-lines | put [(all)]\nput (styled a{n} red | to-string | count (all))"
	case 21:
		// one variable read and written by two parallel tasks of the same program
		// (legal: variables have their own lock); only the final value is output
		t = "var {S}-v = 0\nrun-parallel { for i [(range 40)] { set {S}-v = $i } } { for i [(range 40)] { nop ${S}-v } } { for i [(range 10)] { nop ${S}-v } }\nput ${S}-v"
	case 22:
		t = "var {S}-f = {|x| put [$x {n}] }\nrange {n8} | peach {|i| ${S}-f $i } | order | put [(all)]\nrun-parallel { ${S}-f a } { nop (${S}-f b) }"
	default:
		t = "var {S}-x = [(range {n8})]\nput (count ${S}-x) ${S}-x[1..]\nvar {S}-y = (put ${S}-x | each {|l| count $l })\nput ${S}-y\nnop ?(fail ignored)"
	}
	if r.Intn(4) == 0 { // the deprecation registry is shared by all evaluations
		t = "deprecate {S}-dep\n" + t
	}
	code := sub(t, "{S}", S, "{n}", n, "{n8}", n8, "{i}", fmt.Sprint(r.Intn(4)), "{PU}", g.PU)
	if private {
		code += sub("\nset {P}-pv = {S}\nput ${P}-pv", "{P}", g.P, "{S}", S)
	} else if r.Intn(2) == 0 {
		code += sub("\n{P}-bump {n}\nput ${P}-acc", "{P}", g.P, "{n}", n)
	}
	return code
}

// modSnippet produces code using a module. bind: may bind/use an alias in the
// default global.
func (g *pgen) modSnippet(private bool) (code string, file bool, mods []string) {
	r := g.r
	u := g.budget[r.Intn(len(g.budget))]
	m := u.m
	S := fmt.Sprintf("%s-%d", g.P, g.n)
	n := fmt.Sprint(1 + r.Intn(50))
	mods = []string{m.spec}
	stateVar := "s"
	if strings.HasPrefix(m.spec, "cm") || strings.HasPrefix(m.spec, "sub/") {
		stateVar = fmt.Sprintf("s%d", g.k)
	}
	if m.fails {
		return sub("try { use cmfail } catch {S}-e { put ${S}-e[reason][content] }\nput after", "{S}", S), false, mods
	}
	if m.bundled {
		if private || r.Intn(2) == 0 {
			return "{ use epm; put (kind-of $epm:managed-dir) $epm:debug-mode }", false, mods
		}
		return sub("use epm {P}-epm\nput (kind-of ${P}-epm:managed-dir) ${P}-epm:debug-mode", "{P}", g.P), false, mods
	}
	rep := func(t string, kv ...string) string {
		return sub(sub(t, kv...), "{S}", S, "{n}", n, "{spec}", m.spec, "{base}", m.base, "{sv}", stateVar, "{P}", g.P)
	}
	choice := r.Intn(6)
	if private && (choice == 0 || choice == 1) {
		choice = 2
	}
	if choice == 5 && !u.stateful {
		choice = 2 + r.Intn(3)
	}
	switch choice {
	case 0, 1: // alias in the default global, bound once, used by later ops
		if a, ok := g.aliases[m.spec]; ok {
			return rep("{a}:f {n}\nput ${a}:const\n{a}:inc", "{a}", a), false, mods
		}
		a := fmt.Sprintf("%s-m%d", g.P, len(g.aliases))
		g.aliases[m.spec] = a
		return rep("use {spec} {a}\nput ${a}:const\n{a}:f {n}\n{a}:inc", "{a}", a), false, mods
	case 2: // import in a local scope
		return rep("{ use {spec}; {base}:f {n}; put ${base}:const ${base}:last }"), false, mods
	case 3: // use-mod at run time
		return rep("var {S}-n = (use-mod {spec})\nput ${S}-n[const]\n${S}-n[f~] {n}"), false, mods
	case 4: // relative import from a file in the library directory
		return rep("{ use ./{spec} r; put $r:const; r:f {n}; r:inc }"), true, mods
	default: // module state written through one import and read through another
		return rep("{ use {spec}; set {base}:{sv} = {S} }\n{ use ./{spec} again; put $again:{sv} }\nput (is (use-mod {spec}) (use-mod {spec}))"), true, mods
	}
}

// genGlobals produces a program of many tiny operations on the shared default
// global namespace: every declaration must survive the concurrent
// declarations, extensions and deletions of the other goroutines.
func (g *pgen) genGlobals(nops int) program {
	r := g.r
	P := g.P
	var vars []string
	for len(g.ops) < nops {
		switch c := r.Intn(10); {
		case c < 5:
			name := fmt.Sprintf("%s-v%d", P, g.n)
			vars = append(vars, name)
			g.emit(op{Kind: "eval", Code: fmt.Sprintf("var %s = %d", name, g.n)})
		case c == 5:
			name := fmt.Sprintf("%s-f%d", P, g.n)
			g.emit(op{Kind: "eval", Code: fmt.Sprintf("fn %s {|a| put [$a %d] }", name, g.n)})
			g.emit(op{Kind: "call", Fn: name + "~", Args: []string{"x"}})
		case c == 6:
			name := fmt.Sprintf("%s-ext%d", P, g.n)
			g.exts = append(g.exts, name)
			vars = append(vars, name)
			g.emit(op{Kind: "extend", Name: name, Val: fmt.Sprintf("e%d", g.n)})
		case c == 7 && len(g.exts) > 0:
			name := g.exts[len(g.exts)-1]
			g.exts = g.exts[:len(g.exts)-1]
			for i, v := range vars {
				if v == name {
					vars = append(vars[:i], vars[i+1:]...)
					break
				}
			}
			g.emit(op{Kind: "delete", Name: name})
			g.emit(op{Kind: "check", Code: "put $" + name})
		case c == 8 && len(vars) > 0:
			g.emit(op{Kind: "check", Code: "put $" + strings.Join(vars, " $")})
		case c == 9 && len(vars) > 0:
			v := vars[r.Intn(len(vars))]
			g.emit(op{Kind: "eval", Code: fmt.Sprintf("set %s = [$%s]\nput $%s", v, v, v)})
		}
	}
	if len(vars) > 0 {
		g.emit(op{Kind: "eval", Code: "put $" + strings.Join(vars, " $")})
	}
	g.emit(op{Kind: "scan"})
	return program{K: g.k, Prefix: P, Ops: g.ops}
}

func (g *pgen) gen(nops int, storm bool) program {
	r := g.r
	P := g.P
	g.emit(op{Kind: "eval", Code: sub("var {P}-acc = 0\nfn {P}-bump {|n| set {P}-acc = (+ ${P}-acc $n) }", "{P}", P)})
	for len(g.ops) < nops+1 {
		choice := r.Intn(20)
		if storm {
			choice = 8 + r.Intn(4) // module imports only
		}
		switch {
		case choice < 5:
			g.emit(op{Kind: "eval", Code: g.snippet(false)})
		case choice < 8:
			g.emit(op{Kind: "eval-private", Code: g.snippet(true)})
		case choice < 11:
			code, file, mods := g.modSnippet(false)
			g.emit(op{Kind: "eval", Code: code, File: file, Mods: mods})
		case choice == 11:
			code, file, mods := g.modSnippet(true)
			g.emit(op{Kind: "eval-private", Code: code, File: file, Mods: mods})
		case choice == 12: // define a function for later Call ops
			name := fmt.Sprintf("%s-fn%d", P, g.n)
			body := sub("{P}-bump $a; put ${P}-acc [$a]", "{P}", P)
			var mods []string
			switch r.Intn(3) {
			case 0:
				u := g.budget[r.Intn(len(g.budget))]
				if u.m.hasF {
					body += sub("; use {spec}; {base}:f $a; {base}:inc", "{spec}", u.m.spec, "{base}", u.m.base)
					mods = []string{u.m.spec}
				}
			case 1:
				body += "; peach {|x| put [$x $a] } [1 2 3] | order"
			}
			g.emit(op{Kind: "eval", Code: fmt.Sprintf("fn %s {|a| %s }", name, body), Mods: mods})
			g.fns = append(g.fns, name)
			g.fnMods[name] = mods
		case choice == 13 || choice == 14:
			if len(g.fns) == 0 {
				continue
			}
			f := g.fns[r.Intn(len(g.fns))]
			g.emit(op{Kind: "call", Fn: f + "~", Args: []string{fmt.Sprint(1 + r.Intn(9))}, Mods: g.fnMods[f]})
		case choice == 15 || choice == 16:
			var code string
			switch r.Intn(6) {
			case 0:
				code = sub("put ${P}-acc; {P}-bump 1", "{P}", P)
			case 1:
				code = sub("put ${P}-undefined{n}", "{P}", P, "{n}", fmt.Sprint(g.n))
			case 2:
				code = "put ["
			case 3:
				code = sub("{P}-nonexistent-cmd a b", "{P}", P)
			case 4:
				code = "flag:call $nop~ []"
			default:
				if len(g.exts) > 0 {
					code = "put $" + g.exts[r.Intn(len(g.exts))]
				} else {
					code = "pragma unknown-command = disallow\n" + P + "-zzz"
				}
			}
			g.emit(op{Kind: "check", Code: code})
		case choice == 17:
			name := fmt.Sprintf("%s-ext%d", P, g.n)
			g.exts = append(g.exts, name)
			g.emit(op{Kind: "extend", Name: name, Val: fmt.Sprintf("e%d", r.Intn(100))})
			g.emit(op{Kind: "eval", Code: sub("put ${x}\nset {x} = z{n}\nput ${x}", "{x}", name, "{n}", fmt.Sprint(g.n))})
		case choice == 18:
			if len(g.exts) == 0 {
				continue
			}
			i := r.Intn(len(g.exts))
			name := g.exts[i]
			g.exts = append(g.exts[:i], g.exts[i+1:]...)
			g.emit(op{Kind: "delete", Name: name})
			g.emit(op{Kind: "check", Code: "put $" + name})
		default:
			g.emit(op{Kind: "scan"})
		}
	}
	// final state of the goroutine's own variables
	final := sub("put ${P}-acc", "{P}", P)
	g.emit(op{Kind: "eval", Code: final})
	g.emit(op{Kind: "scan"})
	return program{K: g.k, Prefix: P, Ops: g.ops}
}

// genPrograms builds the programs of one concurrent batch.
func genPrograms(r *rand.Rand, G, flavour int, mode int) []program {
	storm := mode == modeUseStorm
	// which goroutine may use which shared module
	budgets := make([][]modUse, G)
	for k := 0; k < G; k++ {
		for _, m := range privateMods(k) {
			budgets[k] = append(budgets[k], modUse{m, true})
		}
	}
	switch flavour {
	case flavPreloaded:
		for k := 0; k < G; k++ {
			for _, m := range sharedMods {
				budgets[k] = append(budgets[k], modUse{m, m.state})
			}
		}
	case flavDisjoint:
		for _, grp := range sharedGroups {
			k := r.Intn(G)
			for _, spec := range grp {
				m := modByName(spec)
				budgets[k] = append(budgets[k], modUse{m, m.state})
			}
		}
	default:
		for k := 0; k < G; k++ {
			for _, m := range sharedMods {
				if storm || r.Intn(3) != 0 {
					budgets[k] = append(budgets[k], modUse{m, false})
				}
			}
		}
	}
	if r.Intn(3) == 0 {
		k := r.Intn(G)
		budgets[k] = append(budgets[k], modUse{failMod, false})
	}
	if r.Intn(3) == 0 { // the bundled module: one importer, or two concurrent ones
		k := r.Intn(G)
		budgets[k] = append(budgets[k], modUse{bundledMod, false})
		if flavour == flavContended {
			k2 := r.Intn(G)
			if k2 != k {
				budgets[k2] = append(budgets[k2], modUse{bundledMod, false})
			}
		}
	}
	progs := make([]program, G)
	for k := 0; k < G; k++ {
		g := &pgen{r: r, k: k, P: fmt.Sprintf("g%d", k), PU: fmt.Sprintf("C39G%d", k), budget: budgets[k],
			aliases: map[string]string{}, fnMods: map[string][]string{}}
		if storm && flavour == flavContended {
			// keep only shared modules: every import is contended
			var b []modUse
			for _, u := range g.budget {
				if strings.HasPrefix(u.m.spec, "pm") {
					continue
				}
				b = append(b, u)
			}
			if len(b) > 0 {
				g.budget = b
			}
		}
		nops := 4 + r.Intn(7)
		if storm {
			nops = 1 + r.Intn(3)
		}
		if mode == modeGlobalStorm {
			progs[k] = g.genGlobals(8 + r.Intn(10))
			continue
		}
		progs[k] = g.gen(nops, storm)
	}
	return progs
}
