package c39

import (
	"fmt"
	"os"
	"path/filepath"
	"strings"
)

// The module library written once per child process. Shared modules cm*
// never produce output at top level (only the importer that happens to be
// first would see it) and never read a circular partner's variables at top
// level (the documented result depends on who imports first).

const maxG = 8

type modInfo struct {
	spec    string   // library spec (also usable as ./spec from a file in the lib dir)
	base    string   // derived namespace name
	deps    []string // transitive closure of file/bundled modules evaluated by importing it (incl. itself)
	hasF    bool     // exports f, inc, const
	state   bool     // exports per-goroutine slots s0..s7 (shared) or s (private)
	bundled bool
	fails   bool
}

var sharedMods = []*modInfo{
	{spec: "cm0", base: "cm0", deps: []string{"cm0"}, hasF: true, state: true},
	{spec: "cm1", base: "cm1", deps: []string{"cm1", "cm0"}, hasF: true, state: true},
	{spec: "cm2", base: "cm2", deps: []string{"cm2", "cm1", "cm0"}, hasF: true, state: true},
	{spec: "cm3", base: "cm3", deps: []string{"cm3", "cm4"}, hasF: true, state: true},
	{spec: "cm4", base: "cm4", deps: []string{"cm4", "cm3"}, hasF: true, state: true},
	{spec: "cm5", base: "cm5", deps: []string{"cm5"}, hasF: true, state: true},
	{spec: "sub/cm6", base: "cm6", deps: []string{"sub/cm6", "cm0"}, hasF: true, state: true},
}

// the bundled module written in Elvish; expensive to evaluate under the race
// detector, so it is handed out sparingly and never preloaded
var bundledMod = &modInfo{spec: "epm", base: "epm", deps: []string{"epm"}, bundled: true}

var failMod = &modInfo{spec: "cmfail", base: "cmfail", deps: []string{"cmfail"}, fails: true}

// closure-disjoint groups of the shared modules (for the "disjoint" flavour)
var sharedGroups = [][]string{{"cm0", "cm1", "cm2", "sub/cm6"}, {"cm3", "cm4"}, {"cm5"}}

func privateMods(k int) []*modInfo {
	a := fmt.Sprintf("pm%da", k)
	b := fmt.Sprintf("pm%db", k)
	return []*modInfo{
		{spec: a, base: a, deps: []string{a}, hasF: true, state: true},
		{spec: b, base: b, deps: []string{b, a}, hasF: true, state: true},
	}
}

func modByName(spec string) *modInfo {
	for _, m := range sharedMods {
		if m.spec == spec {
			return m
		}
	}
	if spec == "cmfail" {
		return failMod
	}
	if spec == "epm" {
		return bundledMod
	}
	for k := 0; k < maxG; k++ {
		for _, m := range privateMods(k) {
			if m.spec == spec {
				return m
			}
		}
	}
	return nil
}

func slots() string {
	var b strings.Builder
	for k := 0; k < maxG; k++ {
		fmt.Fprintf(&b, "var s%d = i%d\n", k, k)
	}
	return b.String()
}

func modSource(name, uses, fbody string) string {
	// v-yield widens the window in which the module is installed in the cache
	// but not completely evaluated
	return fmt.Sprintf(`v-loaded %s
%s
v-yield
var const = %s-const
%s
fn inc { v-inc }
v-yield
fn f {|x| %s }
var last = %s-last
`, name, uses, name, slots(), fbody, name)
}

func writeLib(dir string) error {
	files := map[string]string{
		"cm0.elv":     modSource("cm0", "", "put [$x cm0]"),
		"cm1.elv":     modSource("cm1", "use cm0", "cm0:f [$x cm1]"),
		"cm2.elv":     modSource("cm2", "use cm1\nuse ./cm0 c0", "put [(cm1:f $x) (c0:f $x)]"),
		"cm3.elv":     modSource("cm3", "var before = b3\nuse cm4", "put [$x cm3 (cm4:k)]") + "fn k { put k3 }\n",
		"cm4.elv":     modSource("cm4", "use ./cm3", "put [$x cm4 (cm3:k)]") + "fn k { put k4 }\n",
		"cm5.elv":     modSource("cm5", "use str\nuse math\nvar up = (str:to-upper cm5)", "put (math:pow 2 $x) $up"),
		"sub/cm6.elv": modSource("sub/cm6", "use ../cm0", "cm0:f [$x cm6]"),
		"cmfail.elv":  "v-loaded cmfail\nvar x = 1\nv-yield\nfail cmfail-boom\n",
	}
	for k := 0; k < maxG; k++ {
		a := fmt.Sprintf("pm%da", k)
		b := fmt.Sprintf("pm%db", k)
		files[a+".elv"] = fmt.Sprintf("v-loaded %s\nvar const = %s-const\nvar s = init\nfn inc { v-inc }\nfn f {|x| put [$x %s] }\nvar last = %s-last\n", a, a, a, a)
		files[b+".elv"] = fmt.Sprintf("v-loaded %s\nuse ./%s\nvar const = %s-const\nvar s = init\nfn inc { v-inc }\nfn f {|x| %s:f [$x %s] }\nvar last = %s-last\n", b, a, b, a, b, b)
	}
	for name, src := range files {
		p := filepath.Join(dir, name)
		if err := os.MkdirAll(filepath.Dir(p), 0o755); err != nil {
			return err
		}
		if err := os.WriteFile(p, []byte(src), 0o644); err != nil {
			return err
		}
	}
	return nil
}
