// Package c29 monitors history navigation (pkg/cli/histutil: hybrid store,
// database-backed store, in-memory store, de-duplicating cursor) over a real
// persistent store against a reference model of the session's view
// (property C29).
package c29

import (
	"fmt"
	"os"
	"path/filepath"
	"strings"
	"time"

	"src.elv.sh/pkg/cli/histutil"
	"src.elv.sh/pkg/store"
	"src.elv.sh/pkg/store/storedefs"
	"verifharness/internal/mon"
	"verifharness/internal/refstore"
)

type entry struct {
	Seq    int
	Text   string
	anySeq bool // sequence number not specified by the documentation (NewMemStore's initial entries)
}

// refCursor is the model of a cursor over the session's view.
type refCursor struct {
	m []entry // matching entries, oldest first
	p int     // -1 = past the oldest, len(m) = past the newest (initial)
}

func newRefCursor(view []entry, prefix string, dedup bool) *refCursor {
	var m []entry
	for _, e := range view {
		if strings.HasPrefix(e.Text, prefix) {
			m = append(m, e)
		}
	}
	if dedup { // keep only the most recent occurrence of every text
		seen := map[string]bool{}
		var d []entry
		for i := len(m) - 1; i >= 0; i-- {
			if !seen[m[i].Text] {
				seen[m[i].Text] = true
				d = append(d, m[i])
			}
		}
		for i, j := 0, len(d)-1; i < j; i, j = i+1, j-1 {
			d[i], d[j] = d[j], d[i]
		}
		m = d
	}
	return &refCursor{m, len(m)}
}

func (c *refCursor) prev() {
	if c.p >= 0 {
		c.p--
	}
}
func (c *refCursor) next() {
	if c.p < len(c.m) {
		c.p++
	}
}
func (c *refCursor) get() (entry, bool) {
	if c.p < 0 || c.p >= len(c.m) {
		return entry{}, false
	}
	return c.m[c.p], true
}

// guard is put between NewDedupCursor and the cursor it wraps. It forwards
// every call and counts the Prev calls made during one move of the outer
// cursor; when the wrapped cursor never reports end of history the
// de-duplicating cursor would loop forever, which the guard turns into a
// panic(guardTrip) that walk() reports as a violation.
type guard struct {
	c     histutil.Cursor
	n     int
	limit int
}

type guardTrip struct{}

func (g *guard) Prev() {
	g.n++
	if g.n > g.limit {
		panic(guardTrip{})
	}
	g.c.Prev()
}
func (g *guard) Next()                       { g.c.Next() }
func (g *guard) Get() (storedefs.Cmd, error) { return g.c.Get() }

type textPool struct {
	stems []string
	tails []string
}

func newPool(c *mon.Case) *textPool {
	r := c.Rand
	families := [][]string{
		{"", "e", "ec", "echo", "echo "}, {"", "p", "pu", "put "}, {"", "\xff", "\xff\x00"}, {"", "l", "ls", "ls -l"}, {"", "日", "日本"},
	}
	p := &textPool{}
	for _, k := range r.Perm(len(families))[:1+r.Intn(2)] {
		p.stems = append(p.stems, families[k]...)
	}
	for i := 0; i < 1+r.Intn(3); i++ {
		p.tails = append(p.tails, string(rune('a'+r.Intn(3))))
	}
	p.tails = append(p.tails, "")
	return p
}

func (p *textPool) text(c *mon.Case) string {
	return p.stems[c.Rand.Intn(len(p.stems))] + p.tails[c.Rand.Intn(len(p.tails))]
}

func (p *textPool) prefix(c *mon.Case, view []entry) string {
	r := c.Rand
	switch k := r.Intn(10); {
	case k < 3:
		return ""
	case k < 7:
		return p.stems[r.Intn(len(p.stems))]
	case k < 9 && len(view) > 0:
		return view[r.Intn(len(view))].Text
	}
	return "zz-absent"
}

type walkStats struct {
	walks, moves, bumpsOld, bumpsNew, fullBack, retrace, handoffs, dedupSkips, hidden int
}

// walk drives one real cursor and the model with the same random moves.
// foreign, if not nil, is called now and then to let "another session" add a
// command to the shared database in the middle of the walk.
func walk(c *mon.Case, variant string, cur histutil.Cursor, ref *refCursor, prefix string, dedup bool, gd *guard, foreign func(), st *walkStats, ctx map[string]any) (ok bool) {
	r := c.Rand
	st.walks++
	defer func() {
		if x := recover(); x != nil {
			if _, trip := x.(guardTrip); !trip {
				panic(x)
			}
			c.Violation(variant+":dedup:prev-does-not-terminate", fmt.Sprintf("one Prev() of the de-duplicating cursor made more than %d Prev() calls on the wrapped cursor without reaching end of history (prefix %s)", gd.limit, mon.Q(prefix)), ctx)
			ok = false
		}
	}()
	check := func(moves []string) bool {
		got, err := cur.Get()
		want, ok := ref.get()
		desc := ""
		class := ""
		switch {
		case !ok && err == histutil.ErrEndOfHistory:
		case !ok && err == nil:
			class, desc = "get-past-end", fmt.Sprintf("Get() = (%d, %s), reference: end of history (position %d of %d matches)", got.Seq, mon.Q(got.Text), ref.p, len(ref.m))
		case err != nil && err != histutil.ErrEndOfHistory:
			class, desc = "get-error", "Get() returned unexpected error: "+err.Error()
		case ok && err != nil:
			class, desc = "get-end-early", fmt.Sprintf("Get() = end of history, reference entry (%d, %s) at position %d of %d", want.Seq, mon.Q(want.Text), ref.p, len(ref.m))
		case got.Text != want.Text:
			class, desc = "get-text", fmt.Sprintf("Get() = (%d, %s), reference (%d, %s) at position %d of %d", got.Seq, mon.Q(got.Text), want.Seq, mon.Q(want.Text), ref.p, len(ref.m))
		case !want.anySeq && got.Seq != want.Seq:
			class, desc = "get-seq", fmt.Sprintf("Get() = (%d, %s), reference (%d, %s) at position %d of %d", got.Seq, mon.Q(got.Text), want.Seq, mon.Q(want.Text), ref.p, len(ref.m))
		}
		if class == "" {
			return true
		}
		dd := "plain"
		if dedup {
			dd = "dedup"
		}
		w := map[string]any{"variant": variant, "prefix": mon.Q(prefix), "dedup": dedup, "moves": strings.Join(moves, " ")}
		for k, v := range ctx {
			w[k] = v
		}
		c.Violation(variant+":"+dd+":"+class, desc+" after moves ["+strings.Join(lastStr(moves, 12), " ")+"] prefix "+mon.Q(prefix), w)
		return false
	}
	var moves []string
	if !check(moves) { // initial position: past the newest
		return false
	}
	n := 1 + r.Intn(80)
	mode := r.Intn(6) // 0,1 random; 2 all the way back then forward; 3 biased back; 4 biased forward; 5 zig-zag
	reachedOld := false
	for i := 0; i < n; i++ {
		back := r.Intn(2) == 0
		switch mode {
		case 2:
			back = !reachedOld
			if ref.p < 0 && r.Intn(3) > 0 {
				reachedOld = true
				back = false
			}
		case 3:
			back = r.Intn(5) > 0
		case 4:
			back = r.Intn(5) == 0
		case 5:
			back = (i/(1+r.Intn(3)))%2 == 0
		}
		if foreign != nil && r.Intn(25) == 0 {
			foreign()
			st.hidden++
			moves = append(moves, "(other-session-add)")
		}
		before := ref.p
		if gd != nil {
			gd.n = 0
		}
		if back {
			cur.Prev()
			ref.prev()
			moves = append(moves, "Prev")
			if before < 0 {
				st.bumpsOld++
			}
		} else {
			cur.Next()
			ref.next()
			moves = append(moves, "Next")
			if before >= len(ref.m) {
				st.bumpsNew++
			}
		}
		st.moves++
		if !check(moves) {
			return false
		}
		if ref.p < 0 && before >= 0 && len(ref.m) > 0 {
			st.fullBack++
		}
		if ref.p >= len(ref.m) && before < len(ref.m) && len(ref.m) > 0 {
			st.retrace++
		}
	}
	return true
}

func lastStr(s []string, n int) []string {
	if len(s) > n {
		return s[len(s)-n:]
	}
	return s
}

func viewStrings(view []entry) []string {
	var out []string
	for _, e := range view {
		out = append(out, fmt.Sprintf("%d=%s", e.Seq, mon.Q(e.Text)))
	}
	return out
}

func count(c *mon.Case, st *walkStats) {
	c.Evals(st.moves)
	c.Count("walks", st.walks)
	c.Count("moves", st.moves)
	c.Count("bumps_past_oldest", st.bumpsOld)
	c.Count("bumps_past_newest", st.bumpsNew)
	c.Count("walks_reaching_past_oldest", st.fullBack)
	c.Count("walks_returning_past_newest", st.retrace)
	c.Count("other_session_adds_during_walk", st.hidden)
}

// runHybrid: real database, stored history, session start, session and
// other-session additions, walks.
func runHybrid(c *mon.Case) {
	r := c.Rand
	path := filepath.Join(c.Dir, fmt.Sprintf("c29-%d.db", c.I))
	defer os.Remove(path)
	db, err := store.NewStore(path)
	if err != nil {
		c.Violation("open", "NewStore failed: "+err.Error(), nil)
		return
	}
	defer db.Close()
	pool := newPool(c)
	m := refstore.New() // model of the shared database
	must := func(err error, what string) bool {
		if err != nil {
			c.Inconclusive("store-error:" + what)
			return false
		}
		return true
	}
	// history stored before the session (with some deletions: gaps in the numbering)
	nstored := r.Intn(61)
	if r.Intn(8) == 0 {
		nstored = 0
	}
	for i := 0; i < nstored; i++ {
		t := pool.text(c)
		seq, err := db.AddCmd(t)
		if !must(err, "AddCmd") {
			return
		}
		if seq != m.AddCmd(t) {
			c.Inconclusive("store-disagrees-with-model (see C24)")
			return
		}
		if r.Intn(10) == 0 && m.MaxSeq() >= 1 {
			d := 1 + r.Intn(m.MaxSeq())
			if !must(db.DelCmd(d), "DelCmd") {
				return
			}
			m.DelCmd(d)
		}
	}
	var view []entry
	for _, cm := range m.AllCmds() {
		view = append(view, entry{Seq: cm.Seq, Text: cm.Text})
	}
	nshared := len(view)
	// session start
	hs, err := histutil.NewHybridStore(db)
	if err != nil {
		c.Violation("hybrid:new", "NewHybridStore over a working store failed: "+err.Error(), nil)
		return
	}
	otherAdds := 0
	foreign := func() {
		t := pool.text(c)
		if _, err := db.AddCmd(t); err == nil {
			m.AddCmd(t)
			otherAdds++
		}
	}
	// session additions interleaved with additions by other sessions
	nsess := r.Intn(25)
	if r.Intn(4) == 0 {
		nsess = 0
	}
	for i := 0; i < nsess; i++ {
		for r.Intn(3) == 0 {
			foreign()
		}
		t := pool.text(c)
		seq, err := hs.AddCmd(storedefs.Cmd{Text: t, Seq: -1})
		if !must(err, "hybrid AddCmd") {
			return
		}
		want := m.AddCmd(t)
		if seq != want {
			c.Violation("hybrid:addcmd-seq", fmt.Sprintf("hybrid AddCmd returned seq %d, database model says %d", seq, want), nil)
			return
		}
		view = append(view, entry{Seq: seq, Text: t})
	}
	for r.Intn(3) == 0 {
		foreign()
	}
	ctx := map[string]any{"view": viewStrings(view), "stored_before_session": nshared, "session_adds": nsess}
	// AllCmds is the session's view
	all, err := hs.AllCmds()
	if err != nil {
		c.Violation("hybrid:allcmds-error", "AllCmds failed: "+err.Error(), ctx)
		return
	}
	if len(all) != len(view) {
		c.Violation("hybrid:allcmds", fmt.Sprintf("AllCmds returns %d entries, the session's view has %d", len(all), len(view)), ctx)
		return
	}
	for i := range all {
		if all[i].Text != view[i].Text || all[i].Seq != view[i].Seq {
			c.Violation("hybrid:allcmds", fmt.Sprintf("AllCmds[%d] = (%d, %s), view has (%d, %s)", i, all[i].Seq, mon.Q(all[i].Text), view[i].Seq, mon.Q(view[i].Text)), ctx)
			return
		}
	}
	st := &walkStats{}
	nwalks := 12
	for w := 0; w < nwalks; w++ {
		prefix := pool.prefix(c, view)
		dedup := r.Intn(2) == 0
		ref := newRefCursor(view, prefix, dedup)
		cur := hs.Cursor(prefix)
		var gd *guard
		if dedup {
			gd = &guard{c: cur, limit: 4*len(view) + 20}
			cur = histutil.NewDedupCursor(gd)
		}
		var f func()
		if r.Intn(2) == 0 {
			f = foreign
		}
		if !walk(c, "hybrid", cur, ref, prefix, dedup, gd, f, st, ctx) {
			return
		}
		// classification for the evidence
		inShared, inSess := 0, 0
		for _, e := range ref.m {
			if e.Seq < nsharedUpper(view, nshared) {
				inShared++
			} else {
				inSess++
			}
		}
		if inShared > 0 && inSess > 0 {
			c.Count("walks_over_both_parts", 1)
		}
		if dedup && len(ref.m) < countMatches(view, prefix) {
			c.Count("dedup_walks_with_duplicates", 1)
		}
		if len(ref.m) == 0 {
			c.Count("walks_without_matches", 1)
		}
	}
	count(c, st)
	c.Count("other_session_adds", otherAdds)
	if otherAdds > 0 && nsess > 0 && nshared > 0 {
		c.Nontrivial("hybrid", viewStrings(view), otherAdds)
		c.Count("histories_with_all_three_sources", 1)
	}
	c.Sample("hybrid", map[string]any{"view": lastStr(viewStrings(view), 12), "stored": nshared, "session": nsess, "other_session": otherAdds})
}

// nsharedUpper: first session sequence number (or a huge number).
func nsharedUpper(view []entry, nshared int) int {
	if nshared < len(view) {
		return view[nshared].Seq
	}
	return int(^uint(0) >> 1)
}

func countMatches(view []entry, prefix string) int {
	n := 0
	for _, e := range view {
		if strings.HasPrefix(e.Text, prefix) {
			n++
		}
	}
	return n
}

// runMem: the in-memory store (also what NewHybridStore(nil) returns).
func runMem(c *mon.Case) {
	r := c.Rand
	pool := newPool(c)
	n := r.Intn(40)
	var texts []string
	var view []entry
	for i := 0; i < n; i++ {
		t := pool.text(c)
		texts = append(texts, t)
		view = append(view, entry{Text: t, anySeq: true})
	}
	var s histutil.Store
	variant := "mem"
	if r.Intn(3) == 0 {
		var err error
		s, err = histutil.NewHybridStore(nil)
		if err != nil {
			c.Violation("mem:new", "NewHybridStore(nil) failed: "+err.Error(), nil)
			return
		}
		variant = "hybrid-nil"
		view = nil
		texts = nil
	} else {
		s = histutil.NewMemStore(texts...)
	}
	nadd := r.Intn(25)
	for i := 0; i < nadd; i++ {
		t := pool.text(c)
		seq, err := s.AddCmd(storedefs.Cmd{Text: t, Seq: -1})
		if err != nil {
			c.Violation(variant+":addcmd", "AddCmd failed: "+err.Error(), nil)
			return
		}
		view = append(view, entry{Seq: seq, Text: t})
	}
	ctx := map[string]any{"view": viewStrings(view), "initial": len(texts)}
	all, _ := s.AllCmds()
	if len(all) != len(view) {
		c.Violation(variant+":allcmds", fmt.Sprintf("AllCmds returns %d entries, expected %d", len(all), len(view)), ctx)
		return
	}
	for i := range all {
		if all[i].Text != view[i].Text {
			c.Violation(variant+":allcmds", fmt.Sprintf("AllCmds[%d] = %s, expected %s", i, mon.Q(all[i].Text), mon.Q(view[i].Text)), ctx)
			return
		}
	}
	st := &walkStats{}
	for w := 0; w < 10; w++ {
		prefix := pool.prefix(c, view)
		dedup := r.Intn(2) == 0
		ref := newRefCursor(view, prefix, dedup)
		cur := s.Cursor(prefix)
		var gd *guard
		if dedup {
			gd = &guard{c: cur, limit: 4*len(view) + 20}
			cur = histutil.NewDedupCursor(gd)
		}
		if !walk(c, variant, cur, ref, prefix, dedup, gd, nil, st, ctx) {
			return
		}
		if dedup && len(ref.m) < countMatches(view, prefix) {
			c.Count("dedup_walks_with_duplicates", 1)
		}
	}
	count(c, st)
	c.Count("mem_histories", 1)
	if len(view) > 3 {
		c.Nontrivial(variant, viewStrings(view))
	}
}

func Spec() *mon.Spec {
	return &mon.Spec{
		ID:            "C29",
		SpinViolation: true, Level: "exploration",
		Rule: "case = one history: 0..60 commands stored in a real store.NewStore database (few distinct texts with shared prefixes, some deleted again), then histutil.NewHybridStore (session start), 0..24 session additions interleaved with additions made directly on the database ('other sessions'), then 12 cursors (prefix = empty / stem / a whole stored text / absent; plain or wrapped in NewDedupCursor) each driven by a random walk of 1..80 Prev/Next moves (random, all-the-way-back-then-forward, biased, zig-zag; other-session additions also in the middle of a walk) with Get() compared after every move with the model (view = stored entries below the frozen bound ++ session additions; dedup keeps the most recent occurrence; saturating position one step past either end). Phase 'mem' does the same over histutil.NewMemStore / NewHybridStore(nil). Non-trivial = hybrid history that has stored, session and other-session commands (distinct by view), or mem history with > 3 entries.",
		Assumptions: []string{
			"the session's view is fixed when a cursor is created: additions by the own session during a walk are not generated (undocumented); deletions during a session are not generated",
			"the value returned by Get() together with ErrEndOfHistory is not compared",
			"sequence numbers of NewMemStore's initial entries are not compared (undocumented); for added entries Get().Seq must equal what AddCmd returned",
			"the persistent store itself is assumed to follow refstore (checked by C24); a disagreement while building the history is counted inconclusive here",
		},
		Phases: []mon.Phase{
			{Name: "hybrid", Quick: 5000, Thorough: 40000, Run: runHybrid, Timeout: 60 * time.Second},
			{Name: "mem", Quick: 2000, Thorough: 10000, Run: runMem, Timeout: 60 * time.Second},
		},
		Floors: map[string]int{
			"distinct_nontrivial": 500, "walks": 10000, "moves": 300000, "bumps_past_oldest": 10000, "bumps_past_newest": 10000,
			"walks_reaching_past_oldest": 3000, "walks_returning_past_newest": 3000, "walks_over_both_parts": 2000,
			"dedup_walks_with_duplicates": 2000, "other_session_adds_during_walk": 1000, "histories_with_all_three_sources": 300,
			"walks_without_matches": 300, "mem_histories": 300,
		},
	}
}
