// Package c34 monitors width handling (property C34): wcwidth.Trim/Force,
// term.BufferBuilder wrapping, and the size of what every tk widget renders.
package c34

import (
	"fmt"
	"math/rand"
	"strings"
	"unicode/utf8"

	"src.elv.sh/pkg/cli/term"
	"src.elv.sh/pkg/cli/tk"
	"src.elv.sh/pkg/ui"
	"src.elv.sh/pkg/wcwidth"
	"verifharness/internal/gen"
	"verifharness/internal/mon"
)

// ---------------------------------------------------------------------------
// Width model: a string is the sequence of runes produced by ranging over it
// (an invalid byte is one U+FFFD); its width is the sum of the table widths.

func ofModel(s string) int {
	w := 0
	for _, r := range s {
		w += wcwidth.OfRune(r)
	}
	return w
}

// longestPrefix returns the byte length of the longest prefix of s, ending
// where a rune ends, whose width does not exceed w (w >= 0).
func longestPrefix(s string, w int) int {
	acc := 0
	for i, r := range s {
		acc += wcwidth.OfRune(r)
		if acc > w {
			return i
		}
	}
	return len(s)
}

func isBoundary(s string, n int) bool {
	if n == len(s) {
		return true
	}
	for i := range s {
		if i == n {
			return true
		}
	}
	return false
}

var widePieces = []string{"好", "世界", "ｱ", "　", "😀", "한", "𠀀", "〈"}
var zeroPieces = []string{"́", "̈", "​", "‍", "️", "\u0085", "\u009b"}
var ctlPieces = []string{"\t", "\x1b", "\x7f", "\r", "\x00", "\x01", "\n"}
var asciiPieces = []string{"a", "b", "c", "x", "yz", " ", "  ", "foo", "bar", "0", "1", "-", ".", "/", "~", "é", "ß", "Ω", "ж", "𝒜"}
var invalidPieces = []string{"\xff", "\xc0\x80", "\xe4\xb8", "\xed\xa0\x80", "\xf0\x9f", "\x80"}

func pieces(r *rand.Rand, n int, classes ...[]string) string {
	var sb strings.Builder
	for i := 0; i < n; i++ {
		cl := classes[r.Intn(len(classes))]
		sb.WriteString(cl[r.Intn(len(cl))])
	}
	return sb.String()
}

func randString(r *rand.Rand) string {
	switch r.Intn(8) {
	case 0:
		return gen.BytesAdv(r, 20)
	case 1:
		return gen.PrintableText(r, 30)
	case 2:
		return gen.RandomBytes(r, 24)
	case 3:
		return pieces(r, r.Intn(20), widePieces)
	case 4:
		return pieces(r, r.Intn(24), asciiPieces, widePieces, zeroPieces)
	case 5:
		return pieces(r, r.Intn(24), asciiPieces, ctlPieces, widePieces)
	case 6:
		return pieces(r, r.Intn(24), asciiPieces, widePieces, zeroPieces, ctlPieces, invalidPieces)
	default:
		return pieces(r, r.Intn(30), asciiPieces, asciiPieces, widePieces)
	}
}

// ---------------------------------------------------------------------------
// Phase wcwidth.

func runWcwidth(c *mon.Case) {
	r := c.Rand
	s := randString(r)
	if r.Intn(10) == 0 {
		s = gen.Mutate(r, s)
	}
	full := ofModel(s)
	if got := wcwidth.Of(s); got != full {
		c.Violation("of:sum", fmt.Sprintf("wcwidth.Of(%s) = %d, the rune widths add up to %d", mon.Q(s), got, full), s)
	}
	// an overridden rune: the same table is used by every function
	if rs := []rune(strings.ReplaceAll(s, " ", "")); r.Intn(8) == 0 && len(rs) > 0 {
		// (the space is left alone: Force pads with spaces)
		or := rs[r.Intn(len(rs))]
		ow := r.Intn(3)
		wcwidth.Override(or, ow)
		defer wcwidth.Unoverride(or)
		if got := wcwidth.OfRune(or); got != ow {
			c.Violation("override:ofrune", fmt.Sprintf("after Override(%q, %d) OfRune returns %d", or, ow, got), s)
		}
		full = ofModel(s)
		c.Count("override_cases", 1)
	}
	maxW := full + 3
	if maxW > 60 {
		maxW = 60
	}
	wideEdge, zeroTail, trimmed, padded := false, false, false, false
	for w := 0; w <= maxW; w++ {
		// Trim
		got := wcwidth.Trim(s, w)
		want := longestPrefix(s, w)
		wit := map[string]any{"s": mon.Q(s), "width": w, "got": mon.Q(got)}
		switch {
		case !strings.HasPrefix(s, got):
			c.Violation("trim:not-prefix", fmt.Sprintf("Trim(%s, %d) = %s is not a prefix", mon.Q(s), w, mon.Q(got)), wit)
		case !isBoundary(s, len(got)):
			c.Violation("trim:mid-rune", fmt.Sprintf("Trim(%s, %d) = %s cuts inside a character", mon.Q(s), w, mon.Q(got)), wit)
		case ofModel(got) > w:
			c.Violation("trim:too-wide", fmt.Sprintf("Trim(%s, %d) = %s has width %d", mon.Q(s), w, mon.Q(got), ofModel(got)), wit)
		case len(got) != want:
			c.Violation("trim:not-longest", fmt.Sprintf("Trim(%s, %d) = %s; the longest fitting prefix is %s", mon.Q(s), w, mon.Q(got), mon.Q(s[:want])), wit)
		}
		if want < len(s) {
			trimmed = true
			if ofModel(s[:want]) < w {
				wideEdge = true
			}
			if want > 0 {
				lr, _ := utf8.DecodeLastRuneInString(s[:want])
				if wcwidth.OfRune(lr) == 0 {
					zeroTail = true
				}
			}
		}
		// Force
		f := wcwidth.Force(s, w)
		fw := map[string]any{"s": mon.Q(s), "width": w, "got": mon.Q(f)}
		if ofModel(f) != w {
			c.Violation("force:width", fmt.Sprintf("Force(%s, %d) = %s has width %d", mon.Q(s), w, mon.Q(f), ofModel(f)), fw)
		} else if f != s[:want]+strings.Repeat(" ", w-ofModel(s[:want])) {
			c.Violation("force:content", fmt.Sprintf("Force(%s, %d) = %s is not the trimmed string padded with spaces", mon.Q(s), w, mon.Q(f)), fw)
		}
		if ofModel(s[:want]) < w {
			padded = true
		}
	}
	c.Evals(2*(maxW+1) - 1)
	c.Count("trim_force_calls", 2*(maxW+1))
	// TrimEachLine: every line is trimmed on its own.
	if strings.Contains(s, "\n") || r.Intn(4) == 0 {
		w := r.Intn(full + 2)
		got := strings.Split(wcwidth.TrimEachLine(s, w), "\n")
		lines := strings.Split(s, "\n")
		ok := len(got) == len(lines)
		for i := 0; ok && i < len(lines); i++ {
			ok = got[i] == lines[i][:longestPrefix(lines[i], w)]
		}
		if !ok {
			c.Violation("trimeachline:content", fmt.Sprintf("TrimEachLine(%s, %d) = %s", mon.Q(s), w, mon.Q(strings.Join(got, "\n"))), s)
		}
		c.Count("trimeachline_calls", 1)
	}
	if wideEdge {
		c.Count("trim_wide_rune_does_not_fit", 1)
	}
	if zeroTail {
		c.Count("trim_keeps_trailing_zero_width", 1)
	}
	if padded {
		c.Count("force_pads", 1)
	}
	if !utf8.ValidString(s) {
		c.Count("invalid_utf8_strings", 1)
	}
	if trimmed && len(s) >= 3 {
		c.Nontrivial("w", s)
	}
	c.Sample("string", mon.Q(s))
}

// ---------------------------------------------------------------------------
// Phase bufbuilder: an event stream is written to a BufferBuilder; afterwards
// the lines are walked alongside the stream.

type bbEvent struct {
	kind   int // 0 cell, 1 explicit newline, 2 set indent, 3 set eager wrap, 4 dot here
	text   string
	style  string
	indent int
	eager  bool
}

func cellFor(r rune, style string) (string, string) {
	if r < 0x20 || r == 0x7f {
		// documented: control characters are written in caret notation and
		// get reverse video in addition to the style
		st := "7"
		if style != "" {
			st = style + ";7"
		}
		return "^" + string(r^0x40), st
	}
	return string(r), style
}

func lineWidth(cells []term.Cell) int {
	w := 0
	for _, cell := range cells {
		w += ofModel(cell.Text)
	}
	return w
}

var bbStylings = [][]ui.Styling{nil, {ui.Bold}, {ui.FgRed}, {ui.Inverse, ui.FgBlue}, {ui.Bg(ui.XTerm256Color(7))}}

func runBufBuilder(c *mon.Case) {
	r := c.Rand
	width := 2 + r.Intn(39)
	if r.Intn(3) == 0 {
		width = 2 + r.Intn(5)
	}
	bb := term.NewBufferBuilder(width)
	var evs []bbEvent
	indent, eager := 0, false
	addText := func(s, style string) {
		for _, rn := range s {
			if rn == '\n' {
				evs = append(evs, bbEvent{kind: 1})
				continue
			}
			t, st := cellFor(rn, style)
			evs = append(evs, bbEvent{kind: 0, text: t, style: st})
		}
	}
	n := 1 + r.Intn(12)
	var trace []string
	wantDot := -1 // index into evs of the dot marker
	for i := 0; i < n; i++ {
		switch r.Intn(12) {
		case 0:
			if width >= 3 {
				indent = r.Intn(width - 1) // a 2-column cell must still fit after the indent
				if indent > width-2 {
					indent = width - 2
				}
				bb.SetIndent(indent)
				evs = append(evs, bbEvent{kind: 2, indent: indent})
				trace = append(trace, fmt.Sprintf("SetIndent(%d)", indent))
			}
		case 1:
			eager = !eager
			bb.SetEagerWrap(eager)
			evs = append(evs, bbEvent{kind: 3, eager: eager})
			trace = append(trace, fmt.Sprintf("SetEagerWrap(%v)", eager))
		case 2:
			bb.Newline()
			evs = append(evs, bbEvent{kind: 1})
			trace = append(trace, "Newline()")
		case 3:
			bb.SetDotHere()
			wantDot = len(evs)
			evs = append(evs, bbEvent{kind: 4})
			trace = append(trace, "SetDotHere()")
		case 4:
			k := r.Intn(width + 3)
			bb.WriteSpaces(k)
			addText(strings.Repeat(" ", k), "")
			trace = append(trace, fmt.Sprintf("WriteSpaces(%d)", k))
		case 5:
			s := randString(r)
			st := []string{"", "1", "7;31"}[r.Intn(3)]
			bb.WriteStringSGR(s, st)
			addText(s, st)
			trace = append(trace, fmt.Sprintf("WriteStringSGR(%s, %q)", mon.Q(s), st))
		case 6:
			rs := []rune(randString(r) + "a")
			rn := rs[r.Intn(len(rs))]
			bb.WriteRuneSGR(rn, "4")
			addText(string(rn), "4")
			trace = append(trace, fmt.Sprintf("WriteRuneSGR(%q, \"4\")", rn))
		case 7:
			var t ui.Text
			for j, m := 0, r.Intn(4); j < m; j++ {
				t = ui.Concat(t, ui.T(randString(r), bbStylings[r.Intn(len(bbStylings))]...))
			}
			bb.WriteStyled(t)
			for _, seg := range t {
				addText(seg.Text, seg.Style.SGR())
			}
			trace = append(trace, "WriteStyled("+mon.Q(t.String())+")")
		default:
			s := randString(r)
			sty := bbStylings[r.Intn(len(bbStylings))]
			bb.Write(s, sty...)
			addText(s, ui.ApplyStyling(ui.Style{}, sty...).SGR())
			trace = append(trace, "Write("+mon.Q(s)+")")
		}
	}
	c.Count("bufbuilder_ops", n)
	c.Evals(n - 1)
	buf := bb.Buffer()
	wit := map[string]any{"width": width, "ops": trace}
	// 1. every line fits
	for i, line := range buf.Lines {
		if lw := lineWidth(line); lw > width {
			c.Violation("bufbuilder:width", fmt.Sprintf("line %d of a BufferBuilder of width %d is %d columns wide", i, width, lw), wit)
			return
		}
	}
	if got, want := bb.Col, lineWidth(buf.Lines[len(buf.Lines)-1]); got != want {
		c.Violation("bufbuilder:col", fmt.Sprintf("Col = %d but the last line is %d columns wide", got, want), wit)
	}
	// 2. walk lines against the event stream
	wk := &bbWalker{evs: evs, lines: buf.Lines, width: width, dot: buf.Dot, wantDot: wantDot}
	ok, st := wk.walk(0, 0, bbState{})
	if !ok {
		c.Violation("bufbuilder:"+wk.failKind, wk.failMsg, wit)
		return
	}
	c.Count("bufbuilder_wraps", st.wraps)
	c.Count("bufbuilder_eager_wraps", st.eagerWraps)
	c.Count("bufbuilder_explicit_newlines", st.explicit)
	if wantDot >= 0 {
		c.Count("bufbuilder_dot_checked", 1)
	}
	if st.wraps > 0 {
		c.Nontrivial("bb", width, trace)
	}
}

type bbState struct {
	indent, lineIndent          int
	eager                       bool
	wraps, eagerWraps, explicit int
}

// bbWalker explains the lines of a buffer from the written event stream. A
// full line in eager-wrap mode may or may not have been wrapped eagerly (both
// are accepted), so the walk backtracks over that choice.
type bbWalker struct {
	evs      []bbEvent
	lines    [][]term.Cell
	width    int
	dot      term.Pos
	wantDot  int
	failLine int
	failKind string
	failMsg  string
}

func (wk *bbWalker) fail(li int, kind, msg string) bool {
	if wk.failKind == "" || li >= wk.failLine {
		wk.failLine, wk.failKind, wk.failMsg = li, kind, msg
	}
	return false
}

// skipMeta consumes indent / eager / dot events at position (li, col).
func (wk *bbWalker) skipMeta(ei int, st *bbState, li, col int) (int, bool) {
	for ei < len(wk.evs) && wk.evs[ei].kind >= 2 {
		switch wk.evs[ei].kind {
		case 2:
			st.indent = wk.evs[ei].indent
		case 3:
			st.eager = wk.evs[ei].eager
		case 4:
			if ei == wk.wantDot && wk.dot != (term.Pos{Line: li, Col: col}) {
				return ei, wk.fail(li, "dot", fmt.Sprintf("SetDotHere recorded %v, the cursor was at line %d col %d", wk.dot, li, col))
			}
		}
		ei++
	}
	return ei, true
}

func (wk *bbWalker) walk(li, ei int, st bbState) (bool, bbState) {
	line := wk.lines[li]
	ci := 0
	if li > 0 {
		for k := 0; k < st.lineIndent; k++ {
			if ci >= len(line) || line[ci] != (term.Cell{Text: " "}) {
				return wk.fail(li, "indent", fmt.Sprintf("line %d does not start with %d indent cells", li, st.lineIndent)), st
			}
			ci++
		}
	}
	col := lineWidth(line[:ci])
	for ci < len(line) {
		var ok bool
		if ei, ok = wk.skipMeta(ei, &st, li, col); !ok {
			return false, st
		}
		if ei >= len(wk.evs) || wk.evs[ei].kind != 0 {
			return wk.fail(li, "content", fmt.Sprintf("line %d has cell %q that was not written at this point", li, line[ci].Text)), st
		}
		if line[ci].Text != wk.evs[ei].text || line[ci].Style != wk.evs[ei].style {
			return wk.fail(li, "content", fmt.Sprintf("line %d cell %d is %q style %q, written was %q style %q", li, ci, line[ci].Text, line[ci].Style, wk.evs[ei].text, wk.evs[ei].style)), st
		}
		col += ofModel(line[ci].Text)
		ci++
		ei++
	}
	if li == len(wk.lines)-1 {
		var ok bool
		if ei, ok = wk.skipMeta(ei, &st, li, col); !ok {
			return false, st
		}
		if ei != len(wk.evs) {
			return wk.fail(li, "content", fmt.Sprintf("%d written items are missing from the buffer", len(wk.evs)-ei)), st
		}
		return true, st
	}
	// Why did this line end?
	if st.eager && col == wk.width {
		// wrapped as soon as the right edge was reached; later events belong to the next line
		n := st
		n.lineIndent = n.indent
		n.eagerWraps++
		if ok, res := wk.walk(li+1, ei, n); ok {
			return true, res
		}
	}
	var ok bool
	if ei, ok = wk.skipMeta(ei, &st, li, col); !ok {
		return false, st
	}
	st.lineIndent = st.indent
	switch {
	case ei < len(wk.evs) && wk.evs[ei].kind == 1:
		st.explicit++
		return wk.walk(li+1, ei+1, st)
	case ei < len(wk.evs) && wk.evs[ei].kind == 0:
		nw := ofModel(wk.evs[ei].text)
		if col+nw > wk.width {
			st.wraps++
			return wk.walk(li+1, ei, st)
		}
		return wk.fail(li, "spurious-wrap", fmt.Sprintf("line %d (%d of %d columns used) was wrapped although the next cell %q (%d columns) fits", li, col, wk.width, wk.evs[ei].text, nw)), st
	}
	return wk.fail(li, "spurious-wrap", fmt.Sprintf("line %d ends although nothing was written after it", li)), st
}

// ---------------------------------------------------------------------------
// Widgets.

type widgetCase struct {
	c         *mon.Case
	name      string
	ctl       bool // content may contain control characters
	multiline bool // some list item has more than one line
	desc      func() any
}

// hasCtl reports whether s contains a character that BufferBuilder writes in
// caret notation.
func hasCtl(s string) bool {
	for _, r := range s {
		if r < 0x20 || r == 0x7f {
			return true
		}
	}
	return false
}

func textsHaveCtl(ts []ui.Text) bool {
	for _, t := range ts {
		if hasCtl(strings.ReplaceAll(plainOf(t), "\n", "")) {
			return true
		}
	}
	return false
}

func linesHaveCtl(ls []string) bool {
	for _, l := range ls {
		if hasCtl(l) {
			return true
		}
	}
	return false
}

// render calls Render and turns a panic into a violation with a narrow
// signature, so that the size sweep can continue.
func (wc *widgetCase) render(w tk.Renderer, width, height int) (buf *term.Buffer) {
	defer func() {
		if p := recover(); p != nil {
			msg := strings.SplitN(fmt.Sprint(p), "\n", 2)[0]
			wc.c.Violation(wc.name+":panic:"+msg, fmt.Sprintf("%s.Render(%d, %d) panics: %v", wc.name, width, height, p),
				map[string]any{"width": width, "height": height, "widget": wc.desc()})
			buf = nil
		}
	}()
	return w.Render(width, height)
}

func (wc *widgetCase) suffix() string {
	switch {
	case wc.ctl:
		return ":control-chars"
	case wc.multiline:
		return ":multiline-item"
	}
	return ""
}

// check applies the property to one rendered buffer.
func (wc *widgetCase) check(buf *term.Buffer, width, height int) {
	c := wc.c
	c.Count("renders_"+wc.name, 1)
	if buf == nil {
		return
	}
	wit := func() any {
		return map[string]any{"width": width, "height": height, "widget": wc.desc(), "rendered": buf.TTYString()}
	}
	if len(buf.Lines) > height {
		c.Violation(wc.name+":height"+wc.suffix(), fmt.Sprintf("%s.Render(%d, %d) returns %d lines", wc.name, width, height, len(buf.Lines)), wit())
	}
	for i, line := range buf.Lines {
		if lw := lineWidth(line); lw > width {
			c.Violation(wc.name+":width"+wc.suffix(), fmt.Sprintf("%s.Render(%d, %d): line %d is %d columns wide", wc.name, width, height, i, lw), wit())
			break
		}
	}
	nl := len(buf.Lines)
	if nl == 0 {
		nl = 1
	}
	if buf.Dot.Line < 0 || buf.Dot.Line >= nl || buf.Dot.Col < 0 || buf.Dot.Col > width {
		c.Violation(wc.name+":dot"+wc.suffix(), fmt.Sprintf("%s.Render(%d, %d): dot %v is outside the %d rendered lines", wc.name, width, height, buf.Dot, len(buf.Lines)), wit())
	}
	if len(buf.Lines) == height {
		c.Count("full_height_"+wc.name, 1)
	}
}

const (
	minW, maxW = 2, 40
	minH, maxH = 1, 12
)

// sweep renders at every size; order is lexicographic or shuffled.
func (wc *widgetCase) sweep(mk func() tk.Renderer, reuse bool, between func(tk.Renderer)) {
	r := wc.c.Rand
	type size struct{ w, h int }
	var sizes []size
	for w := minW; w <= maxW; w++ {
		for h := minH; h <= maxH; h++ {
			sizes = append(sizes, size{w, h})
		}
	}
	if r.Intn(2) == 0 {
		r.Shuffle(len(sizes), func(i, j int) { sizes[i], sizes[j] = sizes[j], sizes[i] })
	}
	if wc.ctl {
		wc.c.Count("widget_cases_with_control_chars", 1)
	}
	var w tk.Renderer
	for _, sz := range sizes {
		if w == nil || !reuse {
			w = mk()
		} else if between != nil {
			between(w)
		}
		wc.check(wc.render(w, sz.w, sz.h), sz.w, sz.h)
	}
	wc.c.Evals(len(sizes) - 1)
}

var wStyles = [][]ui.Styling{nil, nil, {ui.Bold}, {ui.FgGreen}, {ui.Inverse}, {ui.FgRed, ui.Underlined}, {ui.Bg(ui.Blue)}}

// wLine returns one line (no newline) of 0..maxPieces pieces.
func wLine(r *rand.Rand, maxPieces int, ctl bool) string {
	n := r.Intn(maxPieces + 1)
	if ctl {
		return strings.ReplaceAll(pieces(r, n, asciiPieces, asciiPieces, widePieces, zeroPieces, ctlPieces[:6]), "\n", "")
	}
	switch r.Intn(4) {
	case 0:
		return pieces(r, n, asciiPieces)
	case 1:
		return pieces(r, n, widePieces, asciiPieces)
	default:
		return pieces(r, n, asciiPieces, asciiPieces, widePieces, zeroPieces)
	}
}

// wText returns a styled text of nLines lines.
func wText(r *rand.Rand, nLines, maxPieces int, ctl bool) ui.Text {
	var t ui.Text
	for l := 0; l < nLines; l++ {
		if l > 0 {
			t = ui.Concat(t, ui.T("\n"))
		}
		for j, m := 0, 1+r.Intn(3); j < m; j++ {
			t = ui.Concat(t, ui.T(wLine(r, maxPieces, ctl), wStyles[r.Intn(len(wStyles))]...))
		}
	}
	return t
}

func hasMultiline(items []ui.Text) bool {
	for _, it := range items {
		if it.CountLines() > 1 {
			return true
		}
	}
	return false
}

type sliceItems []ui.Text

func (s sliceItems) Show(i int) ui.Text { return s[i] }
func (s sliceItems) Len() int           { return len(s) }

type listSpec struct {
	items       []ui.Text
	horizontal  bool
	padding     int
	extendStyle bool
	selected    int
	first       int
	placeholder ui.Text
	nilItems    bool
}

func (ls *listSpec) describe() any {
	its := make([]string, len(ls.items))
	for i, it := range ls.items {
		its[i] = plainOf(it)
	}
	return map[string]any{"items": its, "horizontal": ls.horizontal, "padding": ls.padding, "extendStyle": ls.extendStyle, "selected": ls.selected, "first": ls.first}
}

func plainOf(t ui.Text) string {
	var sb strings.Builder
	for _, seg := range t {
		sb.WriteString(seg.Text)
	}
	return sb.String()
}

func genList(r *rand.Rand, horizontal, ctl bool) *listSpec {
	ls := &listSpec{horizontal: horizontal}
	n := r.Intn(31)
	switch r.Intn(4) {
	case 0:
		n = r.Intn(4)
	case 1:
		n = 1 + r.Intn(8)
	}
	multi := !horizontal && r.Intn(3) != 0
	for i := 0; i < n; i++ {
		lines := 1
		if multi && r.Intn(3) == 0 {
			lines = 1 + r.Intn(4)
		}
		mp := 6
		if horizontal {
			mp = 4
		}
		it := wText(r, lines, mp, ctl)
		if r.Intn(12) == 0 {
			it = nil // an empty item
		}
		ls.items = append(ls.items, it)
	}
	switch r.Intn(5) {
	case 0:
		ls.padding = 1
	case 1:
		ls.padding = 2 + r.Intn(2)
	}
	ls.extendStyle = r.Intn(2) == 0
	if n > 0 {
		ls.selected = r.Intn(n)
		ls.first = r.Intn(n + 1)
		if !horizontal && r.Intn(20) == 0 {
			ls.selected = r.Intn(n+4) - 2 // out of range; the vertical window clamps it
		}
	}
	if r.Intn(2) == 0 {
		ls.placeholder = wText(r, 1+r.Intn(2), 5, ctl)
	}
	ls.nilItems = n == 0 && r.Intn(2) == 0
	return ls
}

func (ls *listSpec) build() tk.ListBox {
	var items tk.Items // nil for a list box that was never given items
	if !ls.nilItems {
		items = sliceItems(ls.items)
	}
	return tk.NewListBox(tk.ListBoxSpec{
		Horizontal: ls.horizontal, Padding: ls.padding, ExtendStyle: ls.extendStyle, Placeholder: ls.placeholder,
		State: tk.ListBoxState{Items: items, Selected: ls.selected, First: ls.first},
	})
}

var moves = []func(tk.ListBoxState) int{tk.Next, tk.Prev, tk.NextPage, tk.PrevPage, tk.NextWrap, tk.PrevWrap, tk.Left, tk.Right}

func moveSelection(r *rand.Rand) func(tk.Renderer) {
	return func(w tk.Renderer) {
		lb, ok := w.(tk.ListBox)
		if !ok || r.Intn(3) != 0 {
			return
		}
		if st := lb.CopyState(); st.Items == nil || st.Items.Len() == 0 {
			return
		}
		lb.Select(moves[r.Intn(len(moves))])
	}
}

func runListBox(horizontal bool) func(c *mon.Case) {
	name := "listbox-vertical"
	if horizontal {
		name = "listbox-horizontal"
	}
	return func(c *mon.Case) {
		r := c.Rand
		ctl := r.Intn(6) == 0
		ls := genList(r, horizontal, ctl)
		wc := &widgetCase{c: c, name: name, ctl: textsHaveCtl(ls.items), multiline: hasMultiline(ls.items), desc: ls.describe}
		reuse := r.Intn(2) == 0
		wc.sweep(func() tk.Renderer {
			if !reuse && len(ls.items) > 0 {
				ls.selected = r.Intn(len(ls.items))
				ls.first = r.Intn(len(ls.items) + 1)
			}
			return ls.build()
		}, reuse, moveSelection(r))
		if ls.padding > 0 {
			c.Count("lists_with_padding", 1)
		}
		if wc.multiline {
			c.Count("lists_with_multiline_items", 1)
		}
		if len(ls.items) >= 2 {
			c.Nontrivial(name, ls.describe())
		}
		c.Sample(name, ls.describe())
	}
}

// --- code area

type codeSpec struct {
	prompt, rprompt ui.Text
	content         string
	dot             int
	pending         tk.PendingCode
	hideR, hideTips bool
	tips            []ui.Text
	highlight       bool
	regions         []int // style switch points
}

func (cs *codeSpec) describe() any {
	tips := make([]string, len(cs.tips))
	for i, t := range cs.tips {
		tips[i] = plainOf(t)
	}
	return map[string]any{"prompt": plainOf(cs.prompt), "rprompt": plainOf(cs.rprompt), "content": cs.content, "dot": cs.dot,
		"pending": fmt.Sprintf("%+v", cs.pending), "hideRPrompt": cs.hideR, "hideTips": cs.hideTips, "tips": tips, "highlight": cs.highlight}
}

func genCode(r *rand.Rand, ctl bool) *codeSpec {
	cs := &codeSpec{}
	switch r.Intn(4) {
	case 0:
	case 1:
		cs.prompt = wText(r, 1, 3, ctl)
	case 2:
		cs.prompt = wText(r, 1+r.Intn(3), 4, ctl)
	default:
		cs.prompt = ui.T("~> ")
	}
	if r.Intn(2) == 0 {
		cs.rprompt = wText(r, 1+r.Intn(2), 3, ctl)
	}
	var sb strings.Builder
	for i, n := 0, r.Intn(5); i < n; i++ {
		if i > 0 && r.Intn(2) == 0 {
			sb.WriteString("\n")
		}
		sb.WriteString(wLine(r, 12, ctl || r.Intn(4) == 0))
	}
	cs.content = sb.String()
	cs.dot = r.Intn(len(cs.content) + 1)
	for cs.dot < len(cs.content) && !utf8.RuneStart(cs.content[cs.dot]) {
		cs.dot++
	}
	switch r.Intn(5) {
	case 0: // valid pending
		from := r.Intn(len(cs.content) + 1)
		to := from + r.Intn(len(cs.content)-from+1)
		cs.pending = tk.PendingCode{From: from, To: to, Content: wLine(r, 5, ctl)}
	case 1: // invalid pending is ignored
		cs.pending = tk.PendingCode{From: len(cs.content) + 1 + r.Intn(3), To: r.Intn(3), Content: "zz"}
	}
	cs.hideR, cs.hideTips = r.Intn(4) == 0, r.Intn(4) == 0
	for i, n := 0, r.Intn(4); i < n && r.Intn(2) == 0; i++ {
		cs.tips = append(cs.tips, wText(r, 1+r.Intn(3), 6, ctl))
	}
	cs.highlight = r.Intn(2) == 0
	return cs
}

func (cs *codeSpec) spec() tk.CodeAreaSpec {
	spec := tk.CodeAreaSpec{
		State: tk.CodeAreaState{Buffer: tk.CodeBuffer{Content: cs.content, Dot: cs.dot}, Pending: cs.pending,
			HideRPrompt: cs.hideR, HideTips: cs.hideTips},
	}
	if cs.prompt != nil {
		spec.Prompt = func() ui.Text { return cs.prompt }
	}
	if cs.rprompt != nil {
		spec.RPrompt = func() ui.Text { return cs.rprompt }
	}
	if cs.highlight || len(cs.tips) > 0 {
		spec.Highlighter = func(code string) (ui.Text, []ui.Text) {
			if !cs.highlight {
				return ui.T(code), cs.tips
			}
			// style alternating chunks of 3 runes; same content as the code
			var t ui.Text
			k := 0
			for len(code) > 0 {
				j := 0
				for n := 0; n < 3 && j < len(code); n++ {
					_, sz := utf8.DecodeRuneInString(code[j:])
					j += sz
				}
				t = ui.Concat(t, ui.T(code[:j], wStyles[k%len(wStyles)]...))
				code = code[j:]
				k++
			}
			return t, cs.tips
		}
	}
	return spec
}

func runCodeArea(c *mon.Case) {
	r := c.Rand
	ctl := r.Intn(3) == 0
	cs := genCode(r, ctl)
	wc := &widgetCase{c: c, name: "codearea", ctl: false, desc: cs.describe}
	wc.sweep(func() tk.Renderer { return tk.NewCodeArea(cs.spec()) }, true, func(w tk.Renderer) {
		if r.Intn(4) != 0 {
			return
		}
		// move the dot to another character boundary
		w.(tk.CodeArea).MutateState(func(s *tk.CodeAreaState) {
			d := r.Intn(len(s.Buffer.Content) + 1)
			for d < len(s.Buffer.Content) && !utf8.RuneStart(s.Buffer.Content[d]) {
				d++
			}
			s.Buffer.Dot = d
		})
		c.Count("codearea_dot_moves", 1)
	})
	if strings.Contains(cs.content, "\n") {
		c.Count("codearea_multiline_buffers", 1)
	}
	if cs.pending.Content != "" && cs.pending.From <= cs.pending.To {
		c.Count("codearea_with_pending", 1)
	}
	if len(cs.tips) > 0 && !cs.hideTips {
		c.Count("codearea_with_tips", 1)
	}
	if cs.rprompt != nil && !cs.hideR {
		c.Count("codearea_with_rprompt", 1)
	}
	if len(cs.content) > 0 {
		c.Nontrivial("codearea", cs.describe())
	}
	c.Sample("codearea", cs.describe())
}

// --- text view

func runTextView(c *mon.Case) {
	r := c.Rand
	ctl := r.Intn(6) == 0
	n := r.Intn(31)
	if r.Intn(4) == 0 {
		n = r.Intn(3)
	}
	if r.Intn(8) == 0 {
		n = 0 // a view without lines
	}
	lines := make([]string, n)
	for i := range lines {
		lines[i] = wLine(r, 16, ctl)
	}
	scrollable := r.Intn(3) != 0
	first := 0
	if n > 0 && r.Intn(2) == 0 {
		first = r.Intn(n + 3)
	}
	scrolls := r.Intn(2) == 0
	desc := func() any {
		return map[string]any{"lines": lines, "scrollable": scrollable, "first": first, "scrolled_between_renders": scrolls}
	}
	wc := &widgetCase{c: c, name: "textview", ctl: linesHaveCtl(lines), desc: desc}
	wc.sweep(func() tk.Renderer {
		return tk.NewTextView(tk.TextViewSpec{Scrollable: scrollable, State: tk.TextViewState{Lines: lines, First: first}})
	}, true, func(w tk.Renderer) {
		if scrolls && r.Intn(3) == 0 {
			w.(tk.TextView).ScrollBy(r.Intn(9) - 4)
			c.Count("textview_scrolls", 1)
		}
	})
	if scrollable {
		c.Count("textviews_scrollable", 1)
	}
	if n == 0 && scrolls {
		c.Count("textviews_empty_scrolled", 1)
	}
	if n >= 2 {
		c.Nontrivial("textview", lines, scrollable, first)
	}
}

// --- label

func runLabel(c *mon.Case) {
	r := c.Rand
	ctl := r.Intn(4) == 0
	t := wText(r, 1+r.Intn(5), 14, ctl)
	if r.Intn(10) == 0 {
		t = nil
	}
	wc := &widgetCase{c: c, name: "label", desc: func() any { return plainOf(t) }}
	wc.sweep(func() tk.Renderer { return tk.Label{Content: t} }, true, nil)
	if r.Intn(4) == 0 {
		we := &widgetCase{c: c, name: "empty", desc: func() any { return "tk.Empty" }}
		ew, eh := 2+r.Intn(39), 1+r.Intn(12)
		we.check(we.render(tk.Empty{}, ew, eh), ew, eh)
	}
	if len(t) > 1 {
		c.Nontrivial("label", plainOf(t))
	}
}

// --- combo box

func runComboBox(c *mon.Case) {
	r := c.Rand
	ctl := r.Intn(8) == 0
	cs := genCode(r, ctl)
	ls := genList(r, r.Intn(2) == 0, ctl)
	desc := func() any { return map[string]any{"codearea": cs.describe(), "listbox": ls.describe()} }
	wc := &widgetCase{c: c, name: "combobox", ctl: textsHaveCtl(ls.items), multiline: hasMultiline(ls.items), desc: desc}
	wc.sweep(func() tk.Renderer {
		lb := tk.ListBoxSpec{Horizontal: ls.horizontal, Padding: ls.padding, ExtendStyle: ls.extendStyle, Placeholder: ls.placeholder,
			State: tk.ListBoxState{Items: sliceItems(ls.items), Selected: ls.selected, First: ls.first}}
		return tk.NewComboBox(tk.ComboBoxSpec{CodeArea: cs.spec(), ListBox: lb})
	}, r.Intn(2) == 0, func(w tk.Renderer) {
		moveSelection(r)(w.(tk.ComboBox).ListBox())
	})
	if len(ls.items) == 0 {
		c.Count("combobox_empty_list", 1)
	}
	if len(ls.items) >= 2 {
		c.Nontrivial("combobox", desc())
	}
}

// --- column view

// columnWidths is the documented distribution: each column in turn gets
// floor(remaining width * weight / remaining weight).
func columnWidths(width int, weights []int) []int {
	full := width - (len(weights) - 1) // one column of gap between columns
	remW := 0
	for _, w := range weights {
		remW += w
	}
	out := make([]int, len(weights))
	for i, w := range weights {
		out[i] = full * w / remW
		full -= out[i]
		remW -= w
	}
	return out
}

func runColView(c *mon.Case) {
	r := c.Rand
	ctl := r.Intn(8) == 0
	ncols := 1 + r.Intn(4)
	if r.Intn(12) == 0 {
		ncols = 0
	}
	var weights []int
	if r.Intn(2) == 0 {
		if ncols == 3 && r.Intn(2) == 0 {
			weights = []int{1, 3, 4} // navigation mode
		} else {
			for i := 0; i < ncols; i++ {
				weights = append(weights, 1+r.Intn(4))
			}
		}
	}
	type col struct {
		kind string
		mk   func() tk.Widget
		d    any
	}
	cols := make([]col, ncols)
	multiline, anyCtl := false, false
	for i := range cols {
		switch r.Intn(5) {
		case 0:
			t := wText(r, 1+r.Intn(3), 8, ctl)
			cols[i] = col{"label", func() tk.Widget { return tk.Label{Content: t} }, plainOf(t)}
		case 1:
			n := r.Intn(20)
			lines := make([]string, n)
			for j := range lines {
				lines[j] = wLine(r, 10, ctl)
			}
			anyCtl = anyCtl || linesHaveCtl(lines)
			cols[i] = col{"textview", func() tk.Widget {
				return tk.NewTextView(tk.TextViewSpec{Scrollable: true, State: tk.TextViewState{Lines: lines}})
			}, lines}
		case 2:
			cols[i] = col{"empty", func() tk.Widget { return tk.Empty{} }, "empty"}
		default:
			ls := genList(r, false, ctl)
			if r.Intn(2) == 0 {
				ls.padding, ls.extendStyle = 1, true // navigation mode
			}
			if hasMultiline(ls.items) {
				multiline = true
			}
			anyCtl = anyCtl || textsHaveCtl(ls.items)
			cols[i] = col{"listbox", func() tk.Widget { return ls.build() }, ls.describe()}
		}
	}
	desc := func() any {
		ds := make([]any, len(cols))
		for i, cl := range cols {
			ds[i] = map[string]any{cl.kind: cl.d}
		}
		return map[string]any{"columns": ds, "weights": weights}
	}
	wc := &widgetCase{c: c, name: "colview", ctl: anyCtl, multiline: multiline, desc: desc}
	mk := func() tk.Renderer {
		ws := make([]tk.Widget, len(cols))
		for i, cl := range cols {
			ws[i] = cl.mk()
		}
		spec := tk.ColViewSpec{State: tk.ColViewState{Columns: ws, FocusColumn: r.Intn(ncols + 1)}}
		if weights != nil {
			spec.Weights = func(n int) []int { return weights }
		}
		return tk.NewColView(spec)
	}
	if wc.ctl {
		c.Count("widget_cases_with_control_chars", 1)
	}
	w := mk()
	eff := weights
	if eff == nil {
		eff = make([]int, ncols)
		for i := range eff {
			eff[i] = 1
		}
	}
	n := 0
	for width := minW; width <= maxW; width++ {
		// The property speaks of widgets rendered at >= 2 columns; a column
		// view hands each child its share, so only sizes at which every
		// child gets at least 2 columns are decided.
		narrow := false
		if ncols > 0 && width >= ncols {
			for _, cw := range columnWidths(width, eff) {
				if cw < 2 {
					narrow = true
				}
			}
		} else if ncols > 0 {
			narrow = true
		}
		for height := minH; height <= maxH; height++ {
			if narrow {
				c.Count("colview_sizes_skipped_child_narrower_than_2", 1)
				continue
			}
			wc.check(wc.render(w, width, height), width, height)
			n++
		}
	}
	c.Evals(n)
	if ncols >= 2 {
		c.Nontrivial("colview", desc())
	}
}

// Spec returns the C34 check.
func Spec() *mon.Spec {
	return &mon.Spec{
		ID:            "C34",
		SpinViolation: true, Level: "exploration",
		Rule: "phase wcwidth: one string (ASCII, wide, zero-width/combining, control, invalid UTF-8, mutated) x every width 0..min(width+3,60): Trim must be a prefix cut at a rune boundary, not wider than the width and the longest such; Force must have exactly the width and be the trimmed string plus spaces; Of must be the sum of the rune widths; also TrimEachLine and Override. phase bufbuilder: 1..12 random writes (Write, WriteStyled, WriteStringSGR, WriteRuneSGR, WriteSpaces, Newline, SetIndent <= width-2, SetEagerWrap, SetDotHere) at width 2..40; every line must fit, and walking the lines against the written cell stream every cell must appear once in order (caret notation for controls), every line break must be an explicit newline, a cell that did not fit, or an eager wrap of a full line. widget phases: one random widget state rendered at every width 2..40 x height 1..12 (468 sizes, lexicographic or shuffled, widget reused so that scrolling state carries over, selection moved / text scrolled in between through the public methods): lines <= height, every line <= width, dot inside. Non-trivial = string that is actually trimmed at some width; buffer with a forced wrap; widget state with content (>= 2 items / lines / columns).",
		Assumptions: []string{
			"negative widths are not used for Trim/Force",
			"BufferBuilder.Indent is kept <= Width-2 so that a two-column cell fits after the indent (the code area does the same)",
			"horizontal list boxes get single-line items (documented requirement) and a Selected index inside the list; vertical list boxes also get out-of-range Selected (the window computation clamps it)",
			"TextView.First starts >= 0 and is then only changed through ScrollBy",
			"ComboBox always has a non-nil Items",
			"ColView sizes at which some column would be narrower than 2 columns are not decided (a child rendered at 1 column cannot hold a wide character)",
			"the dot check (Dot.Line inside the returned lines, 0 <= Dot.Col <= width) is an addition from the design, not part of the statement",
		},
		Phases: []mon.Phase{
			{Name: "wcwidth", Quick: 20000, Thorough: 400000, Run: runWcwidth},
			{Name: "bufbuilder", Quick: 30000, Thorough: 600000, Run: runBufBuilder},
			{Name: "listbox-vertical", Quick: 400, Thorough: 8000, Run: runListBox(false)},
			{Name: "listbox-horizontal", Quick: 250, Thorough: 5000, Run: runListBox(true)},
			{Name: "codearea", Quick: 300, Thorough: 6000, Run: runCodeArea},
			{Name: "textview", Quick: 200, Thorough: 4000, Run: runTextView},
			{Name: "label", Quick: 60, Thorough: 1200, Run: runLabel},
			{Name: "combobox", Quick: 200, Thorough: 4000, Run: runComboBox},
			{Name: "colview", Quick: 200, Thorough: 4000, Run: runColView},
		},
		Floors: map[string]int{
			"distinct_nontrivial": 10000,
			"trim_force_calls":    200000, "trim_wide_rune_does_not_fit": 3000, "trim_keeps_trailing_zero_width": 2000, "invalid_utf8_strings": 1500,
			"bufbuilder_wraps": 50000, "bufbuilder_eager_wraps": 10000, "bufbuilder_explicit_newlines": 8000, "bufbuilder_dot_checked": 3000,
			"renders_codearea": 40000, "renders_colview": 20000, "renders_combobox": 30000, "renders_label": 9000,
			"renders_listbox-horizontal": 35000, "renders_listbox-vertical": 60000, "renders_textview": 18000,
			"full_height_listbox-vertical": 20000, "full_height_listbox-horizontal": 10000, "full_height_codearea": 12000, "full_height_textview": 8000,
			"lists_with_multiline_items": 50, "lists_with_padding": 60, "codearea_with_pending": 15, "codearea_with_tips": 20,
			"codearea_multiline_buffers": 35, "codearea_dot_moves": 5000, "textview_scrolls": 2000, "textviews_empty_scrolled": 7,
		},
	}
}
