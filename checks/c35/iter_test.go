package c35

import (
	"fmt"
	"math/rand"
	"os"
	"sort"
	"strconv"
	"testing"
	"time"

	"src.elv.sh/pkg/md"
)

// scratch iteration driver (removed before delivery)
func TestIter(t *testing.T) {
	n, _ := strconv.Atoi(os.Getenv("N"))
	seed, _ := strconv.Atoi(os.Getenv("SEED"))
	r := rand.New(rand.NewSource(int64(seed)))
	md.UnescapeHTML = defaultUnescape
	seen := map[string]int{}
	first := map[string]string{}
	rej := map[string]int{}
	ok := 0
	t0 := time.Now()
	for i := 0; i < n; i++ {
		doc, _ := genDoc(r)
		if why := comparable(doc); why != "" {
			rej[why]++
			continue
		}
		if !disagree(doc) {
			ok++
			continue
		}
		small := Shrink(doc, 1500, func(s string) bool { return comparable(s) == "" && disagree(s) })
		sig := classify(small)
		seen[sig]++
		if _, ok := first[sig]; !ok {
			ref, _ := Reference(small)
			first[sig] = fmt.Sprintf("%q\n   elv %q\n   ref %q", small, Elvish(small), ref)
		}
	}
	fmt.Println("agree", ok, "rejected", rej, time.Since(t0))
	var sigs []string
	for s := range seen {
		sigs = append(sigs, s)
	}
	sort.Strings(sigs)
	for _, s := range sigs {
		fmt.Printf("%s x%d: %s\n", s, seen[s], first[s])
	}
}
