// Package c35 monitors pkg/md's Markdown-to-HTML rendering (property C35):
// totality on arbitrary input, agreement with an independent CommonMark
// implementation on the documented subset, and the container-composition
// identities of the CommonMark spec over the spec's own examples.
package c35

import (
	"fmt"
	"html"
	"math/rand"
	"regexp"
	"sort"
	"strings"
	"syscall"
	"time"

	"src.elv.sh/pkg/md"
	"verifharness/internal/gen"
	"verifharness/internal/mon"
)

var defaultUnescape = md.UnescapeHTML

// Elvish renders src with the code under test.
func Elvish(src string) string { return md.RenderString(src, &md.HTMLCodec{}) }

// ---------------------------------------------------------------------------
// shrinking

// Shrink greedily removes line ranges and then byte ranges from doc while
// bad stays true. It evaluates bad at most budget times.
func Shrink(doc string, budget int, bad func(string) bool) string {
	try := func(s string) bool {
		if budget <= 0 || s == doc {
			return false
		}
		budget--
		return bad(s)
	}
	for progress := true; progress && budget > 0; {
		progress = false
		// line ranges
		lines := strings.SplitAfter(doc, "\n")
		for size := len(lines); size >= 1; size /= 2 {
			for i := 0; i+size <= len(lines); {
				cand := strings.Join(lines[:i], "") + strings.Join(lines[i+size:], "")
				if try(cand) {
					doc, progress = cand, true
					lines = strings.SplitAfter(doc, "\n")
				} else {
					i++
				}
			}
		}
		// byte ranges
		for size := 16; size >= 1; size /= 2 {
			for i := 0; i+size <= len(doc); {
				cand := doc[:i] + doc[i+size:]
				if try(cand) {
					doc, progress = cand, true
				} else {
					i++
				}
			}
		}
	}
	return doc
}

// constructs names the block and inline constructs pkg/md itself sees in doc
// (the class signature of a disagreement).
func constructs(doc string) string {
	var tc md.TraceCodec
	md.Render(doc, &tc)
	set := map[string]bool{}
	for _, op := range tc.Ops() {
		n := strings.TrimPrefix(op.Type.String(), "Op")
		n = strings.TrimSuffix(strings.TrimSuffix(n, "Start"), "End")
		if n != "Paragraph" && n != "ListItem" {
			set[n] = true
		}
		for _, in := range op.Content {
			m := strings.TrimPrefix(in.Type.String(), "Op")
			m = strings.TrimSuffix(strings.TrimSuffix(m, "Start"), "End")
			if m != "Text" {
				set[m] = true
			}
		}
	}
	var names []string
	for n := range set {
		names = append(names, n)
	}
	sort.Strings(names)
	if len(names) == 0 {
		return "Text"
	}
	return strings.Join(names, "+")
}

// ---------------------------------------------------------------------------
// phase diff: Elvish vs the independent implementation on subset documents

func genDoc(r *rand.Rand) (string, string) {
	switch k := r.Intn(20); {
	case k < 9:
		return gen.MdDoc(r, 4, 3), "grammar"
	case k < 13:
		return gen.MdInlineDoc(r, 8), "inline"
	case k < 17:
		return gen.MdSoup(r, 5, 10), "soup"
	case k < 19:
		return gen.MdDoc(r, 2, 2), "grammar-small"
	default: // two generated documents glued without separation
		return gen.MdInlineDoc(r, 4) + gen.MdDoc(r, 2, 2), "glued"
	}
}

// comparable says whether doc is inside the subset and the reference is
// trusted on it.
func comparable(doc string) string {
	if why := gen.MdInSubset(doc); why != "" {
		return why
	}
	if why := RefReliable(doc); why != "" {
		return "ref-" + why
	}
	return ""
}

func disagree(doc string) bool {
	w, err := Reference(doc)
	return err == nil && Elvish(doc) != w
}

var (
	contIndentRe   = regexp.MustCompile(`\n +`)
	markerSpacesRe = regexp.MustCompile(`(?m)^([ >]*(?:[-+*]|[0-9]{1,9}[.)])) +$`)
	quoteAfterText = regexp.MustCompile(`(?m)^([^ >\n][^\n]*\n) {0,3}>`)
)

// classify names the defect class of a shrunk disagreement. The known
// classes are decided by a repair experiment: a rewrite of the *input* that
// the spec says does not change the meaning makes pkg/md agree with the
// reference, whose own output is unaffected by the rewrite.
func classify(small string) string {
	ref, _ := Reference(small)
	repaired := func(alt string) bool {
		if alt == small {
			return false
		}
		r2, err := Reference(alt)
		return err == nil && r2 == ref && Elvish(alt) == r2
	}
	switch {
	case strings.ReplaceAll(Elvish(small), "\x00", "\uFFFD") == ref:
		// "&#0;" must become U+FFFD
		return "numeric-ref-nul"
	case contIndentRe.MatchString(small) && strings.ContainsAny(small, "`<\"'(") && (repaired(contIndentRe.ReplaceAllString(small, "\n")) || spanSpaces(Elvish(small)) == spanSpaces(ref)):
		// leading spaces of a continuation line are not part of the paragraph's
		// raw content (spec 4.8, example 222), also inside code spans / raw HTML
		return "continuation-indent-kept-in-inline-span"
	case repaired(markerSpacesRe.ReplaceAllString(small, "$1")):
		// "a\n- " : an empty list item cannot interrupt a paragraph, with or
		// without spaces after the marker
		return "empty-item-with-trailing-space-interrupts-paragraph"
	case repaired(quoteAfterText.ReplaceAllString(small, "$1\n>")):
		// "a\n> 2. x": the list item starts a fresh container, it does not
		// interrupt the paragraph before the block quote
		return "list-item-after-interrupting-quote-marker"
	}
	if type1NoDelim.MatchString(small) {
		// HTML block start condition 1 requires a space, tab, '>' or the end of
		// the line after the tag name ("<preface>" is not "<pre")
		return "html-block-1-start-without-delimiter"
	}
	if type7Type1Name.MatchString(small) {
		// HTML block start condition 7 excludes the tag names of condition 1
		return "html-block-7-with-pre-script-style-textarea"
	}
	return "diff:" + constructs(small)
}

var (
	type1NoDelim   = regexp.MustCompile(`(?im)^[ >]*<(?:pre|script|style|textarea)[^ \t>\n]`)
	type7Type1Name = regexp.MustCompile(`(?im)^[ >]*</(?:pre|script|style|textarea)[ ]*>[ ]*$`)
	inlineCodeRe   = regexp.MustCompile(`(?s)<code>.*?</code>`)
	spaceRunRe     = regexp.MustCompile(` +`)
)

// spanSpaces collapses what the kept continuation indentation changes: space
// runs inside <code> and after a newline.
func spanSpaces(html string) string {
	html = inlineCodeRe.ReplaceAllStringFunc(html, func(c string) string { return spaceRunRe.ReplaceAllString(c, " ") })
	return contIndentRe.ReplaceAllString(html, "\n")
}

func runDiff(c *mon.Case) {
	md.UnescapeHTML = defaultUnescape
	per := c.Env.Pick(100, 400)
	for k := 0; k < per; k++ {
		doc, kind := genDoc(c.Rand)
		if why := comparable(doc); why != "" {
			c.Count("rejected_"+why, 1)
			c.Count("rejected", 1)
			continue
		}
		c.Evals(1)
		c.Count("docs_"+kind, 1)
		got := Elvish(doc)
		want, err := Reference(doc)
		if err != nil {
			c.Inconclusive("reference-error")
			continue
		}
		// What was exercised (as seen by pkg/md itself).
		cs := constructs(doc)
		c.Distinct("construct_sets", cs)
		for _, n := range strings.Split(cs, "+") {
			c.Count("seen_"+n, 1)
		}
		if strings.Contains(got, "<li>") && strings.Contains(got, "<blockquote>") {
			c.Count("seen_nested_containers", 1)
		}
		if len(got) > 0 && got != "<p>"+html.EscapeString(strings.TrimSpace(doc))+"</p>\n" {
			c.Nontrivial(doc)
		}
		c.Sample(kind, map[string]string{"markdown": doc, "html": got})
		if got == want {
			c.Count("agree", 1)
			continue
		}
		c.Count("disagree", 1)
		small := Shrink(doc, 1500, func(s string) bool { return comparable(s) == "" && disagree(s) })
		sw, _ := Reference(small)
		c.Violation(classify(small), fmt.Sprintf("pkg/md and the CommonMark reference disagree on %s: elvish %s, reference %s", mon.Q(small), mon.Q(Elvish(small)), mon.Q(sw)),
			map[string]string{"markdown": small, "elvish": Elvish(small), "reference": sw, "original": doc})
	}
}

// ---------------------------------------------------------------------------
// phase spec: the spec's own examples (both entity configurations)

func runSpec(c *mon.Case) {
	exs := AllExamples()
	ex := exs[c.I%len(exs)]
	full := c.I >= len(exs)
	md.UnescapeHTML = defaultUnescape
	if full {
		md.UnescapeHTML = html.UnescapeString
	}
	defer func() { md.UnescapeHTML = defaultUnescape }()
	want, ok := ex.Supported(full)
	if !ok {
		c.Count("spec_unsupported", 1)
		// totality still applies
		Elvish(ex.Markdown)
		return
	}
	c.Count("spec_supported", 1)
	got := Elvish(ex.Markdown)
	if got == want {
		c.Nontrivial(ex.Example)
		return
	}
	sig := "spec:" + ex.Section
	if strings.ReplaceAll(got, "\x00", "\uFFFD") == want {
		sig = "numeric-ref-nul"
	}
	c.Violation(sig, fmt.Sprintf("spec example %d (%s): %s renders as %s, spec says %s", ex.Example, ex.Section, mon.Q(ex.Markdown), mon.Q(got), mon.Q(want)),
		map[string]any{"example": ex.Example, "markdown": ex.Markdown, "got": got, "want": want, "full_entities": full})
}

// ---------------------------------------------------------------------------
// phase compose: container/sequence identities over spec examples

type piece struct {
	md, html string
	ids      []int
}

var (
	closedByBlank = []string{"</p>\n", "</h1>\n", "</h2>\n", "</h3>\n", "</h4>\n", "</h5>\n", "</h6>\n", "<hr />\n", "</blockquote>\n"}
)

// basePieces returns the supported examples with their (loosified) expected
// HTML under full entity support.
func basePieces() []piece {
	var ps []piece
	for _, ex := range AllExamples() {
		want, ok := ex.Supported(true)
		if !ok || !strings.HasSuffix(ex.Markdown, "\n") || strings.TrimSpace(ex.Markdown) == "" {
			continue
		}
		ps = append(ps, piece{ex.Markdown, want, []int{ex.Example}})
	}
	return ps
}

func firstLine(s string) string {
	if i := strings.IndexByte(s, '\n'); i >= 0 {
		return s[:i]
	}
	return s
}

// seqOK: may b follow a after a blank line with html(a)+html(b) as result?
// (consequence of: a blank line ends a paragraph; headings, thematic breaks
// and block quotes are closed by it; lists and indented code only if the next
// line is not indented / not a list marker.)
func seqOK(a, b piece) bool {
	fl := firstLine(b.md)
	low := strings.ToLower(a.md)
	for _, open := range []string{"<pre", "<script", "<style", "<textarea", "<!", "<?"} {
		if strings.Contains(low, open) {
			return false // HTML blocks of types 1-5 are not ended by a blank line
		}
	}
	for _, suf := range closedByBlank {
		if strings.HasSuffix(a.html, suf) {
			return true
		}
	}
	if fl == "" || fl[0] == ' ' {
		return false
	}
	if strings.HasSuffix(a.html, "</code></pre>\n") && !strings.Contains(a.md, "```") && !strings.Contains(a.md, "~~~") {
		return true // indented code ended by a non-indented line after the blank
	}
	if strings.HasSuffix(a.html, "</ul>\n") || strings.HasSuffix(a.html, "</ol>\n") {
		if strings.Contains(a.md, "```") || strings.Contains(a.md, "~~~") {
			return false // a fence left open inside the item would swallow the blank line
		}
		c := fl[0]
		return !(c == '-' || c == '+' || c == '*' || (c >= '0' && c <= '9'))
	}
	return false
}

func prefixLines(s, first, rest string) string {
	lines := strings.Split(strings.TrimSuffix(s, "\n"), "\n")
	for i, l := range lines {
		switch {
		case i == 0:
			lines[i] = first + l
		case l == "":
			// a blank line stays blank (it still belongs to the container)
			if strings.TrimSpace(rest) != "" {
				lines[i] = strings.TrimRight(rest, " ")
			}
		default:
			lines[i] = rest + l
		}
	}
	return strings.Join(lines, "\n") + "\n"
}

func quote(p piece, marker string) piece {
	return piece{prefixLines(p.md, marker, marker), "<blockquote>\n" + p.html + "</blockquote>\n", p.ids}
}

func itemOK(p piece) bool {
	fl := firstLine(p.md)
	if fl == "" || fl[0] == ' ' {
		return false
	}
	return strings.Trim(fl, "- ") != "" && strings.Trim(fl, "* ") != "" && strings.Trim(fl, "_ ") != ""
}

func item(p piece, r *rand.Rand) piece {
	if r.Intn(3) == 0 {
		n := []int{1, 2, 10, 0, 999}[r.Intn(5)]
		m := fmt.Sprintf("%d%s ", n, []string{".", ")"}[r.Intn(2)])
		open := "<ol>\n"
		if n != 1 {
			open = fmt.Sprintf("<ol start=\"%d\">\n", n)
		}
		return piece{prefixLines(p.md, m, strings.Repeat(" ", len(m))), open + "<li>\n" + p.html + "</li>\n</ol>\n", p.ids}
	}
	m := []string{"- ", "* ", "+ "}[r.Intn(3)]
	return piece{prefixLines(p.md, m, "  "), "<ul>\n<li>\n" + p.html + "</li>\n</ul>\n", p.ids}
}

var pieces []piece

func compose(r *rand.Rand, depth int) piece {
	p := pieces[r.Intn(len(pieces))]
	for tries := 0; tries < 4; tries++ {
		switch r.Intn(5) {
		case 0, 1: // sequence
			q := pieces[r.Intn(len(pieces))]
			if depth > 0 && r.Intn(2) == 0 {
				q = compose(r, depth-1)
			}
			if seqOK(p, q) {
				p = piece{p.md + "\n" + q.md, p.html + q.html, append(append([]int{}, p.ids...), q.ids...)}
			}
		case 2, 3:
			marker := []string{"> ", "> ", ">"}[r.Intn(3)]
			if strings.HasPrefix(p.md, " ") || strings.Contains(p.md, "\n ") {
				marker = "> " // the optional space after '>' would eat indentation
			}
			p = quote(p, marker)
		case 4:
			if itemOK(p) {
				p = item(p, r)
			}
		}
		if r.Intn(2) == 0 {
			break
		}
	}
	return p
}

func runCompose(c *mon.Case) {
	md.UnescapeHTML = html.UnescapeString
	defer func() { md.UnescapeHTML = defaultUnescape }()
	per := c.Env.Pick(30, 200)
	for k := 0; k < per; k++ {
		p := compose(c.Rand, 2)
		if len(p.ids) == 0 || len(p.md) > 4000 {
			continue
		}
		c.Evals(1)
		got := Elvish(p.md)
		c.Nontrivial(p.md)
		c.Count("compositions", 1)
		if strings.Count(p.html, "<blockquote>")+strings.Count(p.html, "<li>") >= 2 {
			c.Count("compositions_nested", 1)
		}
		c.Sample("composition", map[string]any{"markdown": p.md, "html": got, "examples": p.ids})
		if got == p.html {
			continue
		}
		c.Violation("compose:"+constructs(p.md), fmt.Sprintf("composition of spec examples %v: %s renders as %s, the spec's container rules give %s", p.ids, mon.Q(p.md), mon.Q(got), mon.Q(p.html)),
			map[string]any{"examples": p.ids, "markdown": p.md, "got": got, "want": p.html})
	}
}

// ---------------------------------------------------------------------------
// phase total: arbitrary input terminates without crashing

type runaway struct{ ops, limit int }

// boundedCodec aborts a rendering that emits more block operations than any
// input of that length can contain (a logical, not a wall-clock, bound).
type boundedCodec struct {
	md.HTMLCodec
	ops, limit int
}

func (b *boundedCodec) Do(op md.Op) {
	b.ops++
	if b.ops > b.limit {
		panic(runaway{b.ops, b.limit})
	}
	b.HTMLCodec.Do(op)
}

var mdBombs = []func(n int) string{
	func(n int) string { return strings.Repeat("> ", n) + "a" },
	func(n int) string { return strings.Repeat("- ", n) + "a" },
	func(n int) string { return strings.Repeat("*", n) + "a" + strings.Repeat("*", n) },
	func(n int) string { return strings.Repeat("*a ", n) },
	func(n int) string { return strings.Repeat("a* ", n) },
	func(n int) string { return strings.Repeat("_a*", n) },
	func(n int) string { return strings.Repeat("[", n) + "a" + strings.Repeat("]", n) },
	func(n int) string { return strings.Repeat("[a](", n) },
	func(n int) string { return strings.Repeat("![", n) + strings.Repeat("](x)", n) },
	func(n int) string { return strings.Repeat("`", n) + "a" + strings.Repeat("` ``", n/4) },
	func(n int) string { return strings.Repeat("<", n) + strings.Repeat("a b=", n) },
	func(n int) string { return strings.Repeat("&", n) + strings.Repeat("#", n) },
	func(n int) string { return strings.Repeat("\\", n) },
	func(n int) string { return strings.Repeat("1. ", n) + "\n" + strings.Repeat(" ", n) + "x" },
	func(n int) string { return strings.Repeat("\n", n) },
	func(n int) string { return strings.Repeat(">\n", n) },
	func(n int) string { return "```\n" + strings.Repeat("`\n", n) },
	func(n int) string { return strings.Repeat("<!--", n) },
	func(n int) string { return strings.Repeat("- a\n", n) + strings.Repeat(" ", n) },
	func(n int) string { return "[a](" + strings.Repeat("(", n) + strings.Repeat(")", n) + ")" },
}

func totalInput(c *mon.Case) (string, string) {
	r := c.Rand
	exs := AllExamples()
	switch k := r.Intn(20); {
	case k < 3:
		return gen.RandomBytes(r, 120), "random-bytes"
	case k < 6:
		return gen.BytesAdv(r, 40), "adversarial-pieces"
	case k < 11:
		s := exs[r.Intn(len(exs))].Markdown
		for n := 1 + r.Intn(5); n > 0; n-- {
			s = gen.Mutate(r, s)
		}
		return s, "mutated-spec-example"
	case k < 14:
		s := gen.MdDoc(r, 4, 3)
		for n := r.Intn(4); n > 0; n-- {
			s = gen.Mutate(r, s)
		}
		return s, "mutated-grammar"
	case k < 17:
		s := gen.MdSoup(r, 6, 14)
		if r.Intn(2) == 0 {
			s = strings.NewReplacer(" ", "\t", "\n", "\r\n").Replace(s)
		}
		return s, "soup"
	case k < 19:
		a, b := exs[r.Intn(len(exs))].Markdown, exs[r.Intn(len(exs))].Markdown
		return a + []string{"", "\n", "> ", "- ", "    "}[r.Intn(5)] + b, "spliced-spec-examples"
	default:
		n := []int{1, 2, 3, 7, 50, 200, 700}[r.Intn(7)]
		return mdBombs[r.Intn(len(mdBombs))](n), "repetition"
	}
}

func runTotal(c *mon.Case) {
	md.UnescapeHTML = defaultUnescape
	if c.I%4 == 3 {
		md.UnescapeHTML = html.UnescapeString
	}
	defer func() { md.UnescapeHTML = defaultUnescape }()
	per := c.Env.Pick(100, 500)
	for k := 0; k < per; k++ {
		in, kind := totalInput(c)
		c.Evals(1)
		c.Count("total_started", 1)
		c.Count("total_"+kind, 1)
		c.Max("total_input_bytes", len(in))
		// every 2 bytes of input can open at most one list (2 ops) and close
		// it again (2 ops); leaf blocks need at least one byte each.
		bc := &boundedCodec{limit: 8*len(in) + 64}
		func() {
			defer func() {
				if x := recover(); x != nil {
					ra, ok := x.(runaway)
					if !ok {
						panic(x) // a panic of the code under test: the framework reports it
					}
					c.Violation("runaway-ops", fmt.Sprintf("rendering %d bytes emitted more than %d block operations", len(in), ra.limit), map[string]string{"input": mon.Q(in)})
				}
			}()
			md.Render(in, bc)
		}()
		out := bc.String()
		c.Max("total_output_bytes", len(out))
		c.Count("total_finished", 1)
		if k < 3 {
			c.Nontrivial(in)
		} else if len(out) > 0 {
			c.Nontrivial(in)
		}
		c.Sample("totality-"+kind, map[string]string{"input": mon.Q(in), "html": mon.Q(out)})
	}
}

// ---------------------------------------------------------------------------

// Spec returns the check.
func Spec() *mon.Spec {
	return &mon.Spec{
		ID:            "C35",
		SpinViolation: true,
		Level:         "exploration",
		Rule: "diff: grammar-generated / token-soup Markdown documents, kept by the textual guard gen.MdInSubset inside the documented and version-stable subset, rendered by pkg/md (default UnescapeHTML) and by goldmark with every list forced loose; byte-exact comparison; disagreements are shrunk inside the subset. " +
			"spec: every example of the CommonMark 0.31.2 example file, under both entity configurations. compose: sequence / block-quote / list-item compositions of spec examples whose expected HTML follows from the spec's container rules. " +
			"total: random bytes, adversarial pieces, mutated and spliced spec examples, mutated grammar documents, tab/CRLF soups and repetition bombs rendered under a block-operation bound. " +
			"Non-trivial: distinct documents whose rendering is more than the escaped text in one paragraph (diff), distinct examples/compositions (spec, compose), distinct inputs with non-empty output (total).",
		Assumptions: []string{
			"goldmark v1.4.13 (CommonMark 0.30, html.WithUnsafe, html.WithXHTML) is trusted as the CommonMark reference on the generated subset; pkg/md targets 0.31.2.",
			"'Lists are always considered loose' (package doc): the reference renders every list loose (TextBlock rendered as <p>, newline after every <li>).",
			"Excluded from the differential generator because they are documented omissions: tabs, CR, setext underline shapes, link reference definition shapes (any ']:'), named entities other than lt gt amp apos nbsp Tab NewLine, trailing {...} on heading lines (Elvish's attribute extension).",
			"Excluded because CommonMark 0.30 and 0.31.2 differ (confirmed against spec examples 354, 625, 626): non-ASCII characters that are not letters (0.31 counts symbols as punctuation), HTML comments other than '<!-- words -->', HTML tag names search/source.",
			"Excluded because serialisation differs deliberately (html.go: only a fixed ASCII set is percent-encoded in URLs): destinations with non-ASCII or other characters that the reference percent-encodes; spec examples whose expected HTML contains %C2/%C3.",
			"Not compared because goldmark v1.4.13 itself deviates from the spec or reference implementations differ (each class seen as a disagreement and triaged against the spec text; see RefReliable in oracle.go): emphasis delimiters in a paragraph with two or more '[' and an inline link; an empty list item followed by a blank line or by a list; HTML blocks of types 1-5 inside containers or running to the end of their container; whitespace-only lines together with code blocks; two or more backslashes at a line end; an escape at the start of the line after a hard break; empty link titles; a backslash-escaped '&'; character references inside autolinks and references to control / non-ASCII characters inside destinations; entities, backslashes, raw HTML or line breaks inside image descriptions; '>' directly followed by an emphasis delimiter; lower-case <!declarations; unbalanced '(' in a destination; '<' inside a <destination>; character references on fence lines; a tag whose '>' or '/>' starts the next line; </textarea.",
			"Raw control characters (including U+0000, which the spec replaces by U+FFFD) are not generated in the differential phase.",
			"An endless loop without output is only detected by the framework watchdog (inconclusive); the floor all_total_cases_finished then makes the run exit 2.",
		},
		ChildSetup: func(e *mon.Env) {
			// a rendering that needs gigabytes for a few hundred bytes of
			// input dies with 'out of memory' instead of taking the machine down
			lim := syscall.Rlimit{Cur: 6 << 30, Max: 6 << 30}
			_ = syscall.Setrlimit(syscall.RLIMIT_AS, &lim)
			pieces = basePieces()
		},
		Phases: []mon.Phase{
			{Name: "spec", Quick: 2 * len(examples), Thorough: 2 * len(examples), Run: runSpec, Timeout: 300 * time.Second},
			{Name: "diff", Quick: 2000, Thorough: 4000, Run: runDiff, Timeout: 300 * time.Second},
			{Name: "compose", Quick: 400, Thorough: 1200, Run: runCompose, Timeout: 300 * time.Second},
			{Name: "total", Quick: 1600, Thorough: 4000, Run: runTotal, Timeout: 300 * time.Second},
		},
		Finish: func(e *mon.Env) {
			if e.Counter("total_started") == e.Counter("total_finished") && e.Counter("total_started") > 0 {
				want := int64(e.Pick(1600*100, 4000*500))
				if e.Counter("total_finished") == want {
					e.Count("all_total_cases_finished", 1)
				}
			}
		},
		Floors: map[string]int{
			"all_total_cases_finished": 1,
			"spec_supported":           1000,
			"agree":                    25000,
			"compositions":             3000,
			"compositions_nested":      1500,
			"distinct_nontrivial":      60000,
			"seen_Emphasis":            5000,
			"seen_StrongEmphasis":      4000,
			"seen_Link":                4000,
			"seen_Image":               1200,
			"seen_CodeSpan":            4000,
			"seen_Autolink":            2500,
			"seen_RawHTML":             4000,
			"seen_HTMLBlock":           2500,
			"seen_CodeBlock":           3500,
			"seen_Blockquote":          3500,
			"seen_BulletList":          2500,
			"seen_OrderedList":         1500,
			"seen_HardLineBreak":       1500,
			"seen_nested_containers":   1500,
		},
	}
}
