package c35

import (
	"fmt"
	"os"
	"strings"
	"testing"
)

func TestProbe(t *testing.T) {
	b, _ := os.ReadFile("/tmp/c35probe.txt")
	for _, doc := range strings.Split(string(b), "\n%%\n") {
		doc = strings.ReplaceAll(doc, "\\n", "\n")
		e := Elvish(doc)
		g, _ := Reference(doc)
		st := "SAME"
		if e != g {
			st = "DIFF"
		}
		fmt.Printf("%s %q\n   elv %q\n   ref %q\n", st, doc, e, g)
	}
}
