package c35

import (
	"bytes"
	_ "embed"
	"encoding/json"
	"regexp"
	"strings"

	"github.com/yuin/goldmark"
	"github.com/yuin/goldmark/ast"
	"github.com/yuin/goldmark/renderer"
	ghtml "github.com/yuin/goldmark/renderer/html"
	"github.com/yuin/goldmark/util"
)

// ---------------------------------------------------------------------------
// Independent implementation: goldmark (CommonMark 0.30) with every list
// rendered loose, because Elvish documents "Lists are always considered
// loose". The loosening is done on the AST level: the paragraphs of a tight
// list item are TextBlock nodes; they are rendered exactly like Paragraph
// nodes, and every <li> is followed by a newline.

type looseLists struct{}

func (looseLists) RegisterFuncs(reg renderer.NodeRendererFuncRegisterer) {
	reg.Register(ast.KindListItem, func(w util.BufWriter, _ []byte, _ ast.Node, entering bool) (ast.WalkStatus, error) {
		if entering {
			_, _ = w.WriteString("<li>\n")
		} else {
			_, _ = w.WriteString("</li>\n")
		}
		return ast.WalkContinue, nil
	})
	reg.Register(ast.KindTextBlock, func(w util.BufWriter, _ []byte, n ast.Node, entering bool) (ast.WalkStatus, error) {
		if entering {
			_, _ = w.WriteString("<p>")
		} else {
			_, _ = w.WriteString("</p>\n")
		}
		return ast.WalkContinue, nil
	})
}

var gm = goldmark.New(goldmark.WithRendererOptions(
	ghtml.WithUnsafe(), ghtml.WithXHTML(),
	renderer.WithNodeRenderers(util.Prioritized(looseLists{}, 100))))

// Reference renders src with the independent implementation. The end of
// the input ends the last line (spec 2.1); goldmark drops the final newline of
// a last raw line (HTML block, indented code) otherwise.
func Reference(src string) (string, error) {
	if src != "" && !strings.HasSuffix(src, "\n") {
		src += "\n"
	}
	var buf bytes.Buffer
	if err := gm.Convert([]byte(src), &buf); err != nil {
		return "", err
	}
	return buf.String(), nil
}

// ---------------------------------------------------------------------------
// The CommonMark 0.31.2 example file (a copy of /repo/pkg/md/spec/spec.json;
// the spec, not the repository, is the authority).

//go:embed spec.json
var specJSON []byte

// Example is one spec example.
type Example struct {
	Markdown string `json:"markdown"`
	HTML     string `json:"html"`
	Example  int    `json:"example"`
	Section  string `json:"section"`
}

var examples []Example

func init() {
	if err := json.Unmarshal(specJSON, &examples); err != nil {
		panic(err)
	}
}

// AllExamples returns every example of the spec file.
func AllExamples() []Example { return examples }

// Documented omissions of pkg/md (package doc + the list in
// testutils_test.go that the package doc points to).
var skipExamples = map[int]string{}

func init() {
	for _, n := range []int{59, 115, 141, 300} {
		skipExamples[n] = "setext heading"
	}
	for _, n := range []int{23, 33, 317,
		527, 528, 529, 530, 531, 532, 533, 534, 535, 536, 537, 538, 539, 540, 541, 542, 543, 544, 545, 549, 550, 553, 554, 555, 556, 557, 558, 559, 560, 561, 562, 563, 564, 565, 566, 567, 568, 569, 570, 571, 573, 576, 577,
		582, 583, 584, 585, 586, 587, 588, 589, 591, 592, 593} {
		skipExamples[n] = "link reference definition"
	}
	for _, n := range []int{294, 296, 307, 318, 319, 320, 321, 323} {
		skipExamples[n] = "tight list"
	}
}

var (
	namedEntityRe = regexp.MustCompile(`&([a-zA-Z][a-zA-Z0-9]*);`)
	// the named entities of the default md.UnescapeHTML that HTML5 shares
	// (the table spells "quote", which is not an HTML5 entity: never used).
	supportedEntity = map[string]bool{"lt": true, "gt": true, "amp": true, "apos": true, "nbsp": true, "Tab": true, "NewLine": true}
	tightItemRe     = regexp.MustCompile(`<li>([^<\n]+)</li>`)
	nonLooseItemRe  = regexp.MustCompile(`<li>[^\n]`)
)

// UnsupportedEntity reports whether s contains a named character reference
// outside the documented supported set.
func UnsupportedEntity(s string) bool {
	for _, m := range namedEntityRe.FindAllStringSubmatch(s, -1) {
		if !supportedEntity[m[1]] {
			return true
		}
	}
	return false
}

// Loosify turns the expected HTML of single-line tight list items into the
// loose form (the same narrow rewrite the package documents for its own
// tests); the second result is false if a tight item of another shape remains.
func Loosify(html string) (string, bool) {
	html = tightItemRe.ReplaceAllString(html, "<li>\n<p>$1</p>\n</li>")
	html = strings.ReplaceAll(html, "<li></li>", "<li>\n</li>")
	return html, !nonLooseItemRe.MatchString(html)
}

// Supported reports whether a spec example avoids the documented omissions;
// fullEntities says whether md.UnescapeHTML is html.UnescapeString.
func (ex *Example) Supported(fullEntities bool) (string, bool) {
	switch ex.Section {
	case "Tabs", "Setext headings", "Link reference definitions":
		return "", false
	}
	if _, skip := skipExamples[ex.Example]; skip {
		return "", false
	}
	if strings.ContainsAny(ex.Markdown, "\t\r") {
		return "", false
	}
	if !fullEntities && UnsupportedEntity(ex.Markdown) {
		return "", false
	}
	// pkg/md escapes only a fixed ASCII set in URLs (html.go: "Modern
	// browsers will happily accept almost anything"); the reference
	// percent-encodes non-ASCII bytes. Examples relying on that are out.
	if strings.Contains(ex.HTML, "%C3") || strings.Contains(ex.HTML, "%C2") {
		return "", false
	}
	want, ok := Loosify(ex.HTML)
	if !ok {
		return "", false
	}
	return want, true
}

// ---------------------------------------------------------------------------
// Where the independent implementation is NOT trusted. Every class below was
// seen as a disagreement on the unchanged tree and triaged against the spec
// text / the spec's example file: pkg/md follows the spec (or cmark), goldmark
// v1.4.13 does not, or the behaviour differs between reference
// implementations. Documents in these classes are not compared.

var (
	emptyItemLine   = regexp.MustCompile(`^(?:[ >]|[-+*] +|[0-9]{1,9}[.)] +)*(?:[-+*]|[0-9]{1,9}[.)]) *$`)
	startsWithItem  = regexp.MustCompile(`^(?:[-+*]|[0-9]{1,9}[.)])(?: |$)`)
	nonASCIIInURL   = regexp.MustCompile(`\]\([ \n]*<?[^ \n]*[^\x00-\x7f]|\]\([ \n]*<[^>\n]*[^\x00-\x7f]|<[a-zA-Z][a-zA-Z0-9+.-]{1,31}:[^ <>\n]*[^\x00-\x7f]`)
	spaceOnlyLine   = regexp.MustCompile(`(?m)^(?:[ >]*[^>\n])? $`)
	codeBlockShape  = regexp.MustCompile("(?m)```|~~~|^(?:[ >]|[-+*] +|[0-9]{1,9}[.)] +)*    ")
	blankishLine    = regexp.MustCompile(`^[ >]*$`)
	emptyTitle      = regexp.MustCompile(`[ \n>](?:""|''|\(\))`)
	entityInAuto    = regexp.MustCompile(`<[a-zA-Z][a-zA-Z0-9+.-]{1,31}:[^ <>\n]*&[a-zA-Z0-9#]+;[^ <>\n]*>`)
	tagEndOnNewLine = regexp.MustCompile(`(?m)^[ >]*/>|^(?: {0,3}> ?)* {4,}>`)
	oddEntityInDest = regexp.MustCompile(`\]\([ \n]*<?[^ \n)]*&(?:#|Tab;|NewLine;|nbsp;)|\]\([ \n]*<[^>\n]*&(?:#|Tab;|NewLine;|nbsp;)`)
	ltInPointyDest  = regexp.MustCompile(`\]\([ \n]*<[^\n]*<`)
	entityOnFence   = regexp.MustCompile("(?m)^.*(?:```|~~~).*&.*$")
	quoteThenDelim  = regexp.MustCompile(`(?m)^[ >]*>[*_]`)
	lowerDecl       = regexp.MustCompile(`<![a-z]`)
	htmlOpen15      = regexp.MustCompile(`(?i)^(?:<(?:pre|script|style|textarea)(?:[ \t>]|$)|<!--|<\?|<![a-z]|<!\[CDATA\[)`)
	htmlClose1      = regexp.MustCompile(`(?i)</(?:pre|script|style|textarea)`)
	linePrefix      = regexp.MustCompile(`^(?:[ >]|[-+*] |[0-9]{1,9}[.)] )*`)
	trailingSlashes = regexp.MustCompile(`(?m)\\\\$`)
)

var codeSpanShape = regexp.MustCompile("`+[^`]*`+")

// hideCodeBrackets replaces brackets inside code-span shapes, which do not
// take part in link parsing.
func hideCodeBrackets(doc string) string {
	return codeSpanShape.ReplaceAllStringFunc(doc, func(c string) string {
		return strings.NewReplacer("[", "x", "]", "x").Replace(c)
	})
}

// altHasEscape: an image description containing an entity, a backslash, raw
// HTML or a line break.
func altHasEscape(doc string) bool {
	for _, para := range strings.Split(doc, "\n\n") {
		// backticks can hide the real end of the description from a textual scan
		if i := strings.Index(para, "!["); i >= 0 && strings.Contains(para, "`") && strings.ContainsAny(para[i:], "&\\<\n") {
			return true
		}
	}
	return altHasEscape1(doc) || altHasEscape1(hideCodeBrackets(doc))
}

func altHasEscape1(doc string) bool {
	for i := 0; ; {
		j := strings.Index(doc[i:], "![")
		if j < 0 {
			return false
		}
		depth := 1
		for k := i + j + 2; k < len(doc) && depth > 0; k++ {
			switch doc[k] {
			case '[':
				depth++
			case ']':
				depth--
			case '&', '\\', '<', '\n':
				return true
			}
		}
		i += j + 2
	}
}

// RefReliable returns "" if the reference is trusted on doc, else the class.
func RefReliable(doc string) string {
	// goldmark mis-processes emphasis delimiters around nested brackets
	// ("[_[a]_](b)", "*[![a](b)](c)*"); pkg/md follows the spec's algorithm.
	for _, para := range strings.Split(doc, "\n\n") {
		if !strings.Contains(para, "](") || !strings.ContainsAny(para, "*_") || strings.Count(para, "[") < 2 {
			continue
		}
		if strings.ContainsAny(para, "`\\<") {
			// code spans, escapes and raw HTML can hide brackets from a
			// textual scan: be conservative
			return "nested-brackets-with-emphasis"
		}
		depth := 0
		for i := 0; i < len(para); i++ {
			switch para[i] {
			case '[':
				depth++
				if depth >= 2 {
					return "nested-brackets-with-emphasis"
				}
			case ']':
				if depth > 0 {
					depth--
				}
			}
		}
	}
	lines := strings.Split(doc, "\n")
	for i, l := range lines {
		// goldmark keeps the backslash of an escape at the start of the line
		// after a hard line break ("\\  \n\\`").
		if i > 0 && strings.Contains(l, "\\") &&
			(strings.HasSuffix(lines[i-1], "  ") || strings.HasSuffix(lines[i-1], "\\")) {
			return "escape-after-hard-break"
		}
		// goldmark ends the enclosing list item after a nested empty item that
		// is followed by a blank line ("- x\n\n  -\n\n  y").
		// ... and does not put a list that starts on the next line into the
		// empty item ("+\n  7.", spec example 278 shape with a list as content).
		if emptyItemLine.MatchString(l) && i+1 < len(lines) {
			next := lines[i+1]
			if blankishLine.MatchString(next) {
				for _, rest := range lines[i+2:] {
					if !blankishLine.MatchString(rest) || strings.Count(rest, ">") > strings.Count(l, ">") {
						return "empty-item-then-blank"
					}
				}
			} else if startsWithItem.MatchString(next[len(linePrefix.FindString(next)):]) || startsWithItem.MatchString(strings.TrimLeft(next, " >")) {
				return "empty-item-then-list"
			}
		}
		// HTML blocks of types 1-5 that run to the end of their container:
		// implementations differ on trailing blank lines.
		body := l[len(linePrefix.FindString(l)):]
		if m := htmlOpen15.FindString(body); m != "" {
			if len(body) < len(l) {
				// goldmark treats the line after a closed HTML block inside a
				// block quote or list item as lazy continuation ("><?\n>?>\nb",
				// "* <?\n  ?>\nb"); laziness only applies to paragraphs.
				return "html-block-1-5-in-container"
			}
			rest := body[len(m):] + "\n" + strings.Join(lines[i+1:], "\n")
			closed := false
			switch {
			case m == "<!--":
				closed = strings.Contains(rest, "-->")
			case m == "<?":
				closed = strings.Contains(rest, "?>")
			case strings.HasPrefix(m, "<![") || strings.HasPrefix(m, "<!["):
				closed = strings.Contains(rest, "]]>")
			case strings.HasPrefix(m, "<!"):
				closed = strings.Contains(rest, ">")
			default:
				closed = htmlClose1.MatchString(rest)
			}
			if !closed {
				return "unclosed-html-block"
			}
		}
	}
	switch {
	case strings.Contains(doc, "\\&"):
		return "escaped-ampersand" // goldmark resolves "\\&amp;" as an entity after unescaping
	case nonASCIIInURL.MatchString(doc):
		return "non-ascii-in-url" // pkg/md deliberately percent-encodes only a fixed ASCII set
	case spaceOnlyLine.MatchString(doc) && codeBlockShape.MatchString(doc):
		// whitespace-only lines inside code blocks: goldmark keeps spaces that
		// the fence indentation rule removes; inside list items cmark drops
		// all of them, the spec text does not say
		return "space-only-line-with-code-block"
	case tagEndOnNewLine.MatchString(doc):
		return "tag-end-on-next-line" // goldmark rejects "<b\n/>", a valid open tag
	case oddEntityInDest.MatchString(doc):
		return "non-ascii-in-url" // a reference to a control / non-ASCII character in a destination: same serialisation difference
	case ltInPointyDest.MatchString(doc):
		return "lt-in-pointy-destination" // goldmark accepts "[](<<>)"; the spec forbids an unescaped '<'
	case entityOnFence.MatchString(doc):
		return "entity-on-fence-line" // trimming vs. decoding order of the info string is implementation specific
	case trailingSlashes.MatchString(doc):
		return "backslash-run-at-line-end" // goldmark: "\\\\\\\n" is not a hard break
	case emptyTitle.MatchString(doc):
		return "empty-link-title" // goldmark prints title="", cmark/commonmark.js omit it
	case entityInAuto.MatchString(doc):
		return "entity-in-autolink" // cmark decodes, commonmark.js/goldmark do not
	case altHasEscape(doc):
		return "escape-in-image-alt" // goldmark leaves escapes/entities undecoded in alt and drops raw HTML (under-specified) and line breaks
	case quoteThenDelim.MatchString(doc):
		return "delimiter-after-quote-marker" // goldmark takes '>' as the preceding character
	case lowerDecl.MatchString(doc):
		return "lowercase-declaration" // goldmark requires upper case; 0.31.2: any ASCII letter
	}
	// goldmark accepts an unbalanced '(' in a bare destination.
	for i := 0; ; {
		j := strings.Index(doc[i:], "](")
		if j < 0 {
			break
		}
		k := i + j + 2
		for k < len(doc) && (doc[k] == ' ' || doc[k] == '\n') {
			k++
		}
		depth := 0
		if k < len(doc) && doc[k] != '<' {
		scan:
			for ; k < len(doc); k++ {
				switch doc[k] {
				case '\\':
					k++
				case '(':
					depth++
				case ')':
					if depth == 0 {
						break scan
					}
					depth--
				case ' ', '\n':
					break scan
				}
			}
			if depth > 0 {
				return "unbalanced-destination"
			}
		}
		i += j + 2
	}
	return ""
}
