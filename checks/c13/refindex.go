package c13

// Reference model of list / string indexing, written from
// /repo/website/ref/language.md (§ String, § List, § Indexing, § set) and the
// documentation of the assoc builtin. It works on the *structure* of an index
// (which the generator renders into the index string), with arbitrary
// precision integers, and never looks at the implementation.
//
//   - "A non-negative integer, an offset counting from the beginning of the
//     list"; "A negative integer, an offset counting from the back".
//   - "A slice $a..$b ... sublist of $li[$a] up to, but not including,
//     $li[$b] ... Both integers may be omitted; $a defaults to 0 while $b
//     defaults to the length of the list."
//   - "A slice $a..=$b, which is similar to $a..$b, but includes $li[$b]."
//   - Strings: "indexed with a byte index where a codepoint starts, which
//     results in the codepoint that starts there"; slices: "interpreted as
//     byte indices, and the range must begin and end at codepoint boundaries".
//   - assoc: "$k may be a negative index. However, slice is not yet supported."
//
// An index that names no element (out of range in either direction), a slice
// whose bounds, after counting negative ones from the back, are not
// 0 <= lower <= upper <= length, and anything that is not an integer or a
// slice of integers is "ruled out" and must raise.

import "math/big"

// Bound is one integer of an index.
type Bound struct {
	Present bool
	V       *big.Int
	// Plain: written in the uncontroversial syntax, decimal digits with an
	// optional minus sign and no leading zeros. Other number-like spellings
	// (+5, 0x5, 0b101, 5_0, 5.0, 10/2 …) denote the same integer according to
	// "the index can be given either as a typed number or a number-like
	// string", but the reference does not say which spellings an index
	// accepts; for those, raising is accepted as well.
	Plain bool
}

// Idx is the structure of an index.
type Idx struct {
	Junk  bool // not an integer and not a slice of integers: must raise
	Slice bool
	Incl  bool  // a..=b
	A, B  Bound // non-slice: A only
}

type Kind int

const (
	Invalid Kind = iota // must raise
	Elem                // element I
	Range               // elements [Lo, Hi)
)

// Res is what the reference demands.
type Res struct {
	Kind      Kind
	I, Lo, Hi int
	// OrRaise: the reference is silent or contradictory for this index
	// class; raising is accepted in addition to the result above.
	OrRaise bool
	Class   string // why OrRaise / why Invalid (for counters)
}

func adj(v *big.Int, n int) *big.Int {
	if v.Sign() < 0 {
		return new(big.Int).Add(v, big.NewInt(int64(n)))
	}
	return new(big.Int).Set(v)
}

func inRange(v *big.Int, lo, hi int) bool { // lo <= v <= hi
	return v.Cmp(big.NewInt(int64(lo))) >= 0 && v.Cmp(big.NewInt(int64(hi))) <= 0
}

// Ref evaluates an index against a container of length n.
func Ref(ix Idx, n int) Res {
	if ix.Junk {
		return Res{Class: "not-an-index"}
	}
	if !ix.Slice {
		i := adj(ix.A.V, n)
		if !inRange(i, 0, n-1) {
			return Res{Class: "element-out-of-range"}
		}
		r := Res{Kind: Elem, I: int(i.Int64())}
		if !ix.A.Plain {
			r.OrRaise, r.Class = true, "number-like-spelling"
		}
		return r
	}
	r := Res{Kind: Range}
	lo := big.NewInt(0)
	if ix.A.Present {
		lo = adj(ix.A.V, n)
		if !ix.A.Plain {
			r.OrRaise, r.Class = true, "number-like-spelling"
		}
	}
	hi := big.NewInt(int64(n))
	switch {
	case ix.B.Present:
		hi = adj(ix.B.V, n)
		if !ix.B.Plain {
			r.OrRaise, r.Class = true, "number-like-spelling"
		}
		if ix.Incl {
			// "includes $li[$b]": one past the element $b names
			if !inRange(hi, 0, n-1) {
				// $li[$b] does not exist (e.g. ..=-1 on an empty list, or
				// ..=(-n-1)); whether the slice ending just after that
				// position is still meant is not said
				r.OrRaise, r.Class = true, "inclusive-bound-names-no-element"
			}
			hi.Add(hi, big.NewInt(1))
		}
	case ix.Incl:
		// "a..=" with the bound omitted: omission is described for a..b only
		r.OrRaise, r.Class = true, "inclusive-without-bound"
	}
	if !inRange(lo, 0, n) || !inRange(hi, 0, n) || lo.Cmp(hi) > 0 {
		return Res{Class: "slice-out-of-range"}
	}
	r.Lo, r.Hi = int(lo.Int64()), int(hi.Int64())
	return r
}

// Str is a string container described by its runes, so that codepoint
// boundaries are known by construction.
type Str struct {
	S      string
	Starts map[int]int // byte offset of a rune start -> its byte length
	Bounds map[int]bool
	FFFD   map[int]bool // rune starts holding U+FFFD
}

func NewStr(runes []string) *Str {
	s := &Str{Starts: map[int]int{}, Bounds: map[int]bool{0: true}, FFFD: map[int]bool{}}
	off := 0
	for _, r := range runes {
		s.Starts[off] = len(r)
		if r == "�" {
			s.FFFD[off] = true
		}
		off += len(r)
		s.Bounds[off] = true
		s.S += r
	}
	return s
}

// RefStr refines a result for a string container: byte offsets must be
// codepoint boundaries.
func RefStr(r Res, s *Str) Res {
	switch r.Kind {
	case Elem:
		sz, ok := s.Starts[r.I]
		if !ok {
			return Res{Class: "inside-codepoint"}
		}
		r.Lo, r.Hi = r.I, r.I+sz
	case Range:
		if !s.Bounds[r.Lo] || !s.Bounds[r.Hi] {
			return Res{Class: "inside-codepoint"}
		}
	}
	return r
}
