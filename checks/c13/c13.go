// Package c13 monitors list and string indexing (property C13): vals.Index,
// vals.Assoc, vals.ConvertListIndex and the Elvish constructs $x[i],
// set x[i] = v and assoc are compared with a reference model of the language
// reference, exhaustively for all lengths 0..N and all index and slice strings
// with bounds in [-N-2, N+2], plus random large / overflowing / malformed
// indices.
package c13

import (
	"fmt"
	"math/big"
	"math/rand"
	"strconv"
	"strings"

	"src.elv.sh/pkg/eval"
	"src.elv.sh/pkg/eval/vals"
	"src.elv.sh/pkg/parse"
	"verifharness/internal/elv"
	"verifharness/internal/mon"
)

const (
	quickN    = 9
	thoroughN = 14
	strChunk  = 12 // multibyte strings per sweep case
)

// ---------------------------------------------------------------------------
// enumeration of index structures

type index struct {
	ix  Idx
	raw any // string or typed value handed to the implementation
}

func plain(v int) Bound { return Bound{Present: true, V: big.NewInt(int64(v)), Plain: true} }

func render(ix Idx) string {
	if !ix.Slice {
		return ix.A.V.String()
	}
	s := ""
	if ix.A.Present {
		s = ix.A.V.String()
	}
	s += ".."
	if ix.Incl {
		s += "="
	}
	if ix.B.Present {
		s += ix.B.V.String()
	}
	return s
}

// allIndices enumerates every index structure with bounds in [-N-2, N+2]:
// i, a..b, a.., ..b, .., a..=b, ..=b, a..=, ..= — as strings; and the single
// integers also as typed ints, and "-0".
func allIndices(N int) []index {
	var out []index
	lo, hi := -N-2, N+2
	for v := lo; v <= hi; v++ {
		ix := Idx{A: plain(v)}
		out = append(out, index{ix, render(ix)}, index{ix, v})
	}
	out = append(out, index{Idx{A: plain(0)}, "-0"})
	bounds := []Bound{{}}
	for v := lo; v <= hi; v++ {
		bounds = append(bounds, plain(v))
	}
	for _, incl := range []bool{false, true} {
		for _, a := range bounds {
			for _, b := range bounds {
				ix := Idx{Slice: true, Incl: incl, A: a, B: b}
				out = append(out, index{ix, render(ix)})
			}
		}
	}
	return out
}

var indexCache = map[int][]index{}

func indices(N int) []index {
	if indexCache[N] == nil {
		indexCache[N] = allIndices(N)
	}
	return indexCache[N]
}

// ---------------------------------------------------------------------------
// containers

var runeBySize = map[int][]string{1: {"a", "b", "z", "0", "~"}, 2: {"é", "ß", "ж"}, 3: {"世", "界", "€"}, 4: {"😀", "𝒜", "\U00020000"}}

// compositions of n into parts 1..4, as rune-size sequences.
func compositions(n int) [][]int {
	if n == 0 {
		return [][]int{{}}
	}
	var out [][]int
	for p := 1; p <= 4 && p <= n; p++ {
		for _, rest := range compositions(n - p) {
			out = append(out, append([]int{p}, rest...))
		}
	}
	return out
}

// multibyteStrings returns, for byte length n, one string per composition of
// n into codepoint sizes that has at least one multi-byte codepoint, plus a
// variant in which every 3-byte codepoint is U+FFFD itself.
var mbCache = map[int][]*Str{}

func multibyteStrings(n int) []*Str {
	if out, ok := mbCache[n]; ok {
		return out
	}
	out := buildMultibyteStrings(n)
	mbCache[n] = out
	return out
}

func buildMultibyteStrings(n int) []*Str {
	var out []*Str
	for ci, comp := range compositions(n) {
		multi, three := false, false
		for _, p := range comp {
			if p > 1 {
				multi = true
			}
			if p == 3 {
				three = true
			}
		}
		if !multi {
			continue
		}
		runes := make([]string, len(comp))
		for i, p := range comp {
			rs := runeBySize[p]
			runes[i] = rs[(ci+i)%len(rs)]
		}
		out = append(out, NewStr(runes))
		if three {
			fr := append([]string{}, runes...)
			k := 0
			for i, p := range comp {
				if p == 3 {
					// every 3-byte codepoint, or every other one when there are several
					if k%2 == 0 || ci%2 == 0 {
						fr[i] = "�"
					}
					k++
				}
			}
			out = append(out, NewStr(fr))
		}
	}
	return out
}

func asciiStr(n int) *Str {
	runes := make([]string, n)
	for i := range runes {
		runes[i] = string(rune('a' + i%26))
	}
	return NewStr(runes)
}

func listOf(n int) (vals.List, []string) {
	elems := make([]string, n)
	anys := make([]any, n)
	for i := range elems {
		elems[i] = "e" + strconv.Itoa(i)
		anys[i] = elems[i]
	}
	return vals.MakeList(anys...), elems
}

func listElems(v any) ([]string, bool) {
	l, ok := v.(vals.List)
	if !ok {
		return nil, false
	}
	var out []string
	for it := l.Iterator(); it.HasElem(); it.Next() {
		s, ok := it.Elem().(string)
		if !ok {
			return nil, false
		}
		out = append(out, s)
		if len(out) > l.Len()+2 {
			return nil, false
		}
	}
	if len(out) != l.Len() {
		return nil, false
	}
	return out, true
}

func eqStrs(a, b []string) bool {
	if len(a) != len(b) {
		return false
	}
	for i := range a {
		if a[i] != b[i] {
			return false
		}
	}
	return true
}

// ---------------------------------------------------------------------------
// work units of the exhaustive sweeps

type unit struct {
	n     int
	kind  string // list | ascii | multibyte
	chunk int
}

var unitCache = map[int][]unit{}

func sweepUnits(N int) []unit {
	if us, ok := unitCache[N]; ok {
		return us
	}
	us := buildSweepUnits(N)
	unitCache[N] = us
	return us
}

func buildSweepUnits(N int) []unit {
	var us []unit
	for n := 0; n <= N; n++ {
		us = append(us, unit{n, "list", 0}, unit{n, "ascii", 0})
		m := len(multibyteStrings(n))
		for c := 0; c*strChunk < m; c++ {
			us = append(us, unit{n, "multibyte", c})
		}
	}
	return us
}

func elvishUnits(N int) []unit {
	var us []unit
	for n := 0; n <= N; n++ {
		us = append(us, unit{n, "list", 0}, unit{n, "ascii", 0}, unit{n, "multibyte", 0})
	}
	return us
}

func tierN(c *mon.Case) int { return c.Env.Pick(quickN, thoroughN) }

// expected numbers of (container, index) pairs, for the completeness check
func expectedPairs(N int, elvish bool) int64 {
	var total int64
	per := int64(len(indices(N)))
	for n := 0; n <= N; n++ {
		total += 2 * per
		if elvish {
			total += int64(len(elvishStrs(n))) * per
		} else {
			total += int64(len(multibyteStrings(n))) * per
		}
	}
	return total
}

// the multibyte strings taken through the interpreter: a few per length,
// preferring ones with U+FFFD
func elvishStrs(n int) []*Str {
	all := multibyteStrings(n)
	if len(all) <= 3 {
		return all
	}
	var out []*Str
	for _, s := range all {
		if len(s.FFFD) > 0 {
			out = append(out, s)
			break
		}
	}
	out = append(out, all[len(all)/2], all[len(all)-1])
	return out
}

// ---------------------------------------------------------------------------
// judging

type verdict struct {
	sig, what string
}

func showRaw(raw any) string {
	switch v := raw.(type) {
	case string:
		return "string " + mon.Q(v)
	case int:
		return "int " + strconv.Itoa(v)
	case float64:
		return "float64 " + strconv.FormatFloat(v, 'g', -1, 64)
	case *big.Int:
		return "*big.Int " + v.String()
	case *big.Rat:
		return "*big.Rat " + v.RatString()
	}
	return fmt.Sprintf("%T %v", raw, raw)
}

func isBoundaryErr(err error) bool {
	return err != nil && strings.Contains(err.Error(), "not at rune boundary")
}

// touchesFFFD reports whether the byte range demanded by the reference starts
// at, or ends right after, a U+FFFD codepoint.
func touchesFFFD(s *Str, want Res) bool {
	if s.FFFD[want.Lo] {
		return true
	}
	for off := range s.FFFD {
		if off+3 == want.Hi && want.Kind == Range {
			return true
		}
	}
	return false
}

// judgeList compares the outcome of indexing a list.
func judgeList(elems []string, want Res, got any, err error) *verdict {
	switch {
	case err != nil:
		if want.Kind == Invalid || want.OrRaise {
			return nil
		}
		return &verdict{"index:list:unexpected-exception", fmt.Sprintf("raised %q; the reference demands %s", err, showWant(want))}
	case want.Kind == Invalid:
		return &verdict{"index:list:missing-exception", fmt.Sprintf("returned %s for an index the reference rules out (%s)", vals.ReprPlain(got), want.Class)}
	case want.Kind == Elem:
		if s, ok := got.(string); !ok || s != elems[want.I] {
			return &verdict{"index:list:wrong-element", fmt.Sprintf("returned %s; the reference demands element %d", vals.ReprPlain(got), want.I)}
		}
	default:
		es, ok := listElems(got)
		if !ok || !eqStrs(es, elems[want.Lo:want.Hi]) {
			return &verdict{"index:list:wrong-slice", fmt.Sprintf("returned %s; the reference demands elements [%d,%d)", vals.ReprPlain(got), want.Lo, want.Hi)}
		}
	}
	return nil
}

func showWant(w Res) string {
	switch w.Kind {
	case Elem:
		return fmt.Sprintf("element %d", w.I)
	case Range:
		return fmt.Sprintf("the range [%d,%d)", w.Lo, w.Hi)
	}
	return "an exception (" + w.Class + ")"
}

func judgeStr(s *Str, want Res, got any, err error) *verdict {
	switch {
	case err != nil:
		if want.Kind == Invalid || want.OrRaise {
			return nil
		}
		if isBoundaryErr(err) && touchesFFFD(s, want) {
			return &verdict{"index:string-ufffd", fmt.Sprintf("raised %q although bytes [%d,%d) of %s begin and end at codepoint boundaries (next to a literal U+FFFD)", err, want.Lo, want.Hi, mon.Q(s.S))}
		}
		return &verdict{"index:string:unexpected-exception", fmt.Sprintf("raised %q; the reference demands bytes [%d,%d)", err, want.Lo, want.Hi)}
	case want.Kind == Invalid:
		return &verdict{"index:string:missing-exception", fmt.Sprintf("returned %s for an index the reference rules out (%s)", vals.ReprPlain(got), want.Class)}
	default:
		if g, ok := got.(string); !ok || g != s.S[want.Lo:want.Hi] {
			return &verdict{"index:string:wrong-part", fmt.Sprintf("returned %s; the reference demands bytes [%d,%d) = %s", vals.ReprPlain(got), want.Lo, want.Hi, mon.Q(s.S[want.Lo:want.Hi]))}
		}
	}
	return nil
}

// judgeAssocList: replacing an element changes exactly that element.
func judgeAssocList(elems []string, want Res, repl string, got any, err error) *verdict {
	switch {
	case err != nil:
		if want.Kind != Elem || want.OrRaise {
			return nil
		}
		return &verdict{"assoc:list:unexpected-exception", fmt.Sprintf("raised %q; the reference demands element %d replaced", err, want.I)}
	case want.Kind == Invalid:
		return &verdict{"assoc:list:missing-exception", fmt.Sprintf("returned %s for an index the reference rules out (%s)", vals.ReprPlain(got), want.Class)}
	case want.Kind == Range:
		return &verdict{"assoc:list:slice-accepted", fmt.Sprintf("returned %s although assoc does not support slices", vals.ReprPlain(got))}
	}
	exp := append([]string{}, elems...)
	exp[want.I] = repl
	if es, ok := listElems(got); !ok || !eqStrs(es, exp) {
		return &verdict{"assoc:list:wrong-result", fmt.Sprintf("returned %s; the reference demands exactly element %d replaced", vals.ReprPlain(got), want.I)}
	}
	return nil
}

// judgeAssocStr: element assignment on strings is not described by the
// reference; raising is always accepted, but a result must be the string with
// exactly the addressed part replaced, and ruled-out indices must raise.
func judgeAssocStr(s *Str, want Res, repl string, got any, err error) *verdict {
	switch {
	case err != nil:
		return nil
	case want.Kind == Invalid:
		return &verdict{"assoc:string:missing-exception", fmt.Sprintf("returned %s for an index the reference rules out (%s)", vals.ReprPlain(got), want.Class)}
	}
	exp := s.S[:want.Lo] + repl + s.S[want.Hi:]
	if g, ok := got.(string); !ok || g != exp {
		return &verdict{"assoc:string:wrong-result", fmt.Sprintf("returned %s; exactly bytes [%d,%d) replaced would be %s", vals.ReprPlain(got), want.Lo, want.Hi, mon.Q(exp))}
	}
	return nil
}

func judgeConvert(want Res, got *vals.ListIndex, err error) *verdict {
	switch {
	case err != nil:
		if want.Kind == Invalid || want.OrRaise {
			return nil
		}
		return &verdict{"convert:unexpected-error", fmt.Sprintf("error %q; the reference demands %s", err, showWant(want))}
	case got == nil:
		return &verdict{"convert:nil", "returned nil without an error"}
	case want.Kind == Invalid:
		return &verdict{"convert:missing-error", fmt.Sprintf("returned %+v for an index the reference rules out (%s)", *got, want.Class)}
	case want.Kind == Elem:
		if got.Slice || got.Lower != want.I {
			return &verdict{"convert:wrong", fmt.Sprintf("returned %+v; the reference demands element %d", *got, want.I)}
		}
	default:
		if !got.Slice || got.Lower != want.Lo || got.Upper != want.Hi {
			return &verdict{"convert:wrong", fmt.Sprintf("returned %+v; the reference demands the range [%d,%d)", *got, want.Lo, want.Hi)}
		}
	}
	return nil
}

func report(c *mon.Case, v *verdict, container string, n int, raw any, extra map[string]any) {
	if v == nil {
		return
	}
	w := map[string]any{"container": container, "length": n, "index": showRaw(raw)}
	for k, x := range extra {
		w[k] = x
	}
	c.Violation(v.sig, fmt.Sprintf("%s (length %d) indexed with %s: %s", container, n, showRaw(raw), v.what), w)
}

func classify(c *mon.Case, want Res, prefix string) {
	switch {
	case want.Kind == Invalid:
		c.Count(prefix+"_expect_exception", 1)
	case want.OrRaise:
		c.Count(prefix+"_tolerated_"+want.Class, 1)
	case want.Kind == Elem:
		c.Count(prefix+"_expect_element", 1)
	default:
		c.Count(prefix+"_expect_slice", 1)
	}
}

// ---------------------------------------------------------------------------
// direct API sweep

func checkListDirect(c *mon.Case, n int, idxs []index) {
	l, elems := listOf(n)
	for _, ix := range idxs {
		want := Ref(ix.ix, n)
		got, err := vals.Index(l, ix.raw)
		report(c, judgeList(elems, want, got, err), "list", n, ix.raw, nil)
		li, cerr := vals.ConvertListIndex(ix.raw, n)
		report(c, judgeConvert(want, li, cerr), "ConvertListIndex", n, ix.raw, nil)
		na, aerr := vals.Assoc(l, ix.raw, "NEW")
		report(c, judgeAssocList(elems, want, "NEW", na, aerr), "list", n, ix.raw, nil)
		classify(c, want, "list")
	}
	// the original list was not modified by any of the replacements
	if es, ok := listElems(l); !ok || !eqStrs(es, elems) {
		c.Violation("assoc:list:original-modified", fmt.Sprintf("after vals.Assoc calls the original list of length %d reads %s", n, vals.ReprPlain(l)), nil)
	}
	c.Count("pairs_list", len(idxs))
	c.Count("sweep_pairs", len(idxs))
	c.Evals(3 * len(idxs))
}

func checkStrDirect(c *mon.Case, s *Str, idxs []index, kind string) {
	n := len(s.S)
	for _, ix := range idxs {
		want := RefStr(Ref(ix.ix, n), s)
		got, err := vals.Index(s.S, ix.raw)
		report(c, judgeStr(s, want, got, err), "string "+mon.Q(s.S), n, ix.raw, nil)
		na, aerr := vals.Assoc(s.S, ix.raw, "NEW")
		report(c, judgeAssocStr(s, want, "NEW", na, aerr), "string "+mon.Q(s.S), n, ix.raw, nil)
		if want.Kind != Invalid && !want.OrRaise && len(s.FFFD) > 0 && touchesFFFD(s, want) {
			c.Count("valid_positions_next_to_ufffd", 1)
		}
		if want.Class == "inside-codepoint" {
			c.Count("str_expect_exception_inside_codepoint", 1)
		}
		classify(c, want, "str")
	}
	c.Count("pairs_"+kind, len(idxs))
	c.Count("sweep_pairs", len(idxs))
	c.Evals(2 * len(idxs))
}

func runSweep(c *mon.Case) {
	N := tierN(c)
	us := sweepUnits(N)
	if c.I >= len(us) {
		return
	}
	u := us[c.I]
	idxs := indices(N)
	c.Max("exhaustive_bound_N", N)
	switch u.kind {
	case "list":
		checkListDirect(c, u.n, idxs)
		c.Nontrivial("list", u.n, len(idxs))
		c.Sample("list", map[string]any{"length": u.n, "indices_enumerated": len(idxs), "bounds": []int{-N - 2, N + 2}, "first": showRaw(idxs[0].raw), "last": showRaw(idxs[len(idxs)-1].raw)})
	case "ascii":
		checkStrDirect(c, asciiStr(u.n), idxs, "ascii")
		c.Nontrivial("ascii", u.n, len(idxs))
	default:
		all := multibyteStrings(u.n)
		for i := u.chunk * strChunk; i < (u.chunk+1)*strChunk && i < len(all); i++ {
			checkStrDirect(c, all[i], idxs, "multibyte")
			c.Nontrivial("multibyte", all[i].S, len(idxs))
			c.Count("multibyte_strings", 1)
			if len(all[i].FFFD) > 0 {
				c.Count("multibyte_strings_with_ufffd", 1)
				c.Sample("multibyte-ufffd", map[string]any{"string": mon.Q(all[i].S), "bytes": len(all[i].S), "indices_enumerated": len(idxs)})
			} else {
				c.Sample("multibyte", map[string]any{"string": mon.Q(all[i].S), "bytes": len(all[i].S), "indices_enumerated": len(idxs)})
			}
		}
	}
}

// ---------------------------------------------------------------------------
// language-level sweep

var ev *eval.Evaler

// evalFast evaluates code on the shared interpreter with the value output
// captured through a reusable buffered channel (no pipes, no goroutines:
// every program used here writes at most a handful of values).
var (
	outCh   = make(chan any, 1024)
	outPort *eval.Port
)

func evalFast(code string) elv.Result {
	if outPort == nil {
		outPort = &eval.Port{File: elv.DevNull(), Chan: outCh}
	}
	err := ev.Eval(parse.Source{Name: "[verif]", Code: code}, eval.EvalCfg{Ports: []*eval.Port{nil, outPort, nil}})
	var vs []any
	for {
		select {
		case v := <-outCh:
			vs = append(vs, v)
			continue
		default:
		}
		break
	}
	return elv.Result{Values: vs, Err: err}
}

func literalOK(raw any) (string, bool) {
	s, ok := raw.(string)
	if !ok || s == "" {
		return "", false
	}
	for _, ch := range s {
		if !(ch >= '0' && ch <= '9' || ch == '.' || ch == '=' || ch == '-') {
			return "", false
		}
	}
	return s, true
}

func one(res elv.Result) (any, error) {
	if res.Err != nil {
		return nil, res.Err
	}
	if len(res.Values) != 1 {
		return nil, fmt.Errorf("harness: %d values output instead of 1", len(res.Values))
	}
	return res.Values[0], nil
}

func outputCount(c *mon.Case, res elv.Result, container string, n int, raw any, code string) bool {
	if res.Err == nil && len(res.Values) != 1 {
		c.Violation("elvish:output-count", fmt.Sprintf("%s output %d values for one index", code, len(res.Values)),
			map[string]any{"container": container, "length": n, "index": showRaw(raw), "code": code})
		return false
	}
	return true
}

func checkElvish(c *mon.Case, container any, n int, s *Str, elems []string, idxs []index, r *rand.Rand) {
	name := "list"
	if s != nil {
		name = "string " + mon.Q(s.S)
	}
	elv.SetVar(ev, "v", "NEW")
	for k, ix := range idxs {
		want := Ref(ix.ix, n)
		if s != nil {
			want = RefStr(want, s)
		}
		elv.SetVar(ev, "x", container)
		elv.SetVar(ev, "i", ix.raw)
		code := "put $x[$i]"
		if lit, ok := literalOK(ix.raw); ok && (k+c.I)%3 == 0 {
			code = "put $x[" + lit + "]"
			c.Count("elvish_literal_index_in_source", 1)
		}
		extra := map[string]any{"code": code}
		res := evalFast(code)
		if outputCount(c, res, name, n, ix.raw, code) {
			got, err := one(res)
			if s != nil {
				report(c, judgeStr(s, want, got, err), name, n, ix.raw, extra)
			} else {
				report(c, judgeList(elems, want, got, err), name, n, ix.raw, extra)
			}
		}
		// element assignment
		code = "set x[$i] = $v; put $x"
		if lit, ok := literalOK(ix.raw); ok && (k+c.I)%3 == 1 {
			code = "set x[" + lit + "] = $v; put $x"
		}
		extra = map[string]any{"code": code}
		res = evalFast(code)
		if outputCount(c, res, name, n, ix.raw, code) {
			got, err := one(res)
			if s != nil {
				report(c, judgeAssocStr(s, want, "NEW", got, err), name, n, ix.raw, extra)
			} else {
				report(c, judgeAssocList(elems, want, "NEW", got, err), name, n, ix.raw, extra)
				if err != nil {
					// a failed assignment leaves the variable as it was
					cur := evalFast("put $x")
					if es, ok := listElems(first(cur.Values)); !ok || !eqStrs(es, elems) {
						c.Violation("set:list:changed-on-failure", fmt.Sprintf("after the failed %s the variable holds %s", code, elv.Reprs(cur.Values)), extra)
					}
				}
			}
		}
		// assoc builtin
		if s == nil {
			code = "assoc $x $i $v"
			res = evalFast(code)
			if outputCount(c, res, name, n, ix.raw, code) {
				got, err := one(res)
				report(c, judgeAssocList(elems, want, "NEW", got, err), name, n, ix.raw, map[string]any{"code": code})
			}
			c.Evals(1)
		}
		c.Evals(2)
		classify(c, want, "elvish")
	}
	// the value the variable was initialised from is still intact
	if s == nil {
		if es, ok := listElems(container); !ok || !eqStrs(es, elems) {
			c.Violation("set:list:original-modified", fmt.Sprintf("after element assignments the original list of length %d reads %s", n, vals.ReprPlain(container)), nil)
		}
	}
	c.Count("elvish_pairs", len(idxs))
}

func first(vs []any) any {
	if len(vs) == 0 {
		return nil
	}
	return vs[0]
}

func runElvish(c *mon.Case) {
	N := tierN(c)
	us := elvishUnits(N)
	if c.I >= len(us) {
		return
	}
	u := us[c.I]
	idxs := indices(N)
	switch u.kind {
	case "list":
		l, elems := listOf(u.n)
		checkElvish(c, l, u.n, nil, elems, idxs, c.Rand)
		c.Nontrivial("elvish-list", u.n)
	case "ascii":
		s := asciiStr(u.n)
		checkElvish(c, s.S, u.n, s, nil, idxs, c.Rand)
		c.Nontrivial("elvish-ascii", u.n)
	default:
		for _, s := range elvishStrs(u.n) {
			checkElvish(c, s.S, u.n, s, nil, idxs, c.Rand)
			c.Nontrivial("elvish-multibyte", s.S)
		}
	}
}

// ---------------------------------------------------------------------------
// random large, overflowing, oddly spelled and malformed indices

var junk = []string{"", " ", "a", "1a", "a1", "1 ", " 1", "--1", "+-1", "1-", "1...2", "1..2..3", "...", "....", "1..=..2", "..=..",
	"1.5", "-1.5", "1/2", "NaN", "Inf", "-Inf", "+Inf", "1e400", "0x", "0xg", "1__0", "_1", "1_", "1..a", "a..1", "a..", "..a", "1..=a",
	"=1", "1=", "..==1", "1..=-", "-", "+", "1,2", "[1]", "1 2", "1\n", "\x001", "１", "٣", ".1", "1..1.5", "1.5..2", "0..1/2", "١..٢"}

func bigOf(s string) *big.Int { z, _ := new(big.Int).SetString(s, 10); return z }

var bigBounds = []*big.Int{
	bigOf("9223372036854775807"), bigOf("9223372036854775806"), bigOf("9223372036854775808"),
	bigOf("-9223372036854775808"), bigOf("-9223372036854775807"), bigOf("-9223372036854775809"),
	bigOf("18446744073709551616"), bigOf("-18446744073709551616"), bigOf("4294967296"), bigOf("-4294967296"), bigOf("2147483648"),
	bigOf("1000000000000000000"), bigOf("123456789012345678901234567890"), bigOf("-123456789012345678901234567890"),
}

func randBound(r *rand.Rand, n int) Bound {
	if r.Intn(6) == 0 {
		return Bound{}
	}
	var v *big.Int
	switch r.Intn(5) {
	case 0:
		v = new(big.Int).Set(bigBounds[r.Intn(len(bigBounds))])
	case 1, 2: // around the length (computed without overflow: n may be 2^63-1)
		v = new(big.Int).Add(big.NewInt(int64(n)), big.NewInt(int64(r.Intn(5)-2)))
		if r.Intn(2) == 0 {
			v.Neg(v)
		}
	case 3:
		m := n
		if m > 1000 {
			m = 1000
		}
		v = big.NewInt(int64(r.Intn(2*m+3) - m - 1))
	default:
		v = big.NewInt(int64(r.Intn(4)))
	}
	return Bound{Present: true, V: v, Plain: true}
}

// spell writes an integer in a number-like but not plain spelling.
func spell(r *rand.Rand, v *big.Int) string {
	a := new(big.Int).Abs(v)
	sign := ""
	if v.Sign() < 0 {
		sign = "-"
	}
	switch r.Intn(7) {
	case 0:
		if v.Sign() >= 0 {
			return "+" + a.String()
		}
		return sign + "0x" + a.Text(16)
	case 1:
		return sign + "0x" + a.Text(16)
	case 2:
		return sign + "0b" + a.Text(2)
	case 3:
		return sign + "0o" + a.Text(8)
	case 4:
		d := a.String()
		if len(d) >= 2 {
			return sign + d[:1] + "_" + d[1:]
		}
		return sign + d + ".0"
	case 5:
		return sign + a.String() + ".0"
	default:
		return sign + new(big.Int).Mul(a, big.NewInt(2)).String() + "/2"
	}
}

func randIndex(r *rand.Rand, n int) index {
	switch k := r.Intn(100); {
	case k < 12:
		s := junk[r.Intn(len(junk))]
		return index{Idx{Junk: true}, s}
	case k < 30: // typed indices
		switch r.Intn(8) {
		case 0, 1, 2:
			v := []int{0, 1, -1, n, n - 1, -n, -n - 1, n + 1, 1<<63 - 1, -1 << 63, 1 << 31, -(1 << 31), 1 << 32}[r.Intn(13)]
			return index{Idx{A: plain(v)}, v}
		case 3: // a float denoting an integer: raise or behave as that integer
			m := n
			if m > 1000 {
				m = 1000
			}
			v := r.Intn(2*m+3) - m - 1
			return index{Idx{A: Bound{Present: true, V: big.NewInt(int64(v)), Plain: false}}, float64(v)}
		case 4:
			f := []float64{0.5, -1.5, 1e300, -1e300, nan(), inf(1), inf(-1), 1e-300}[r.Intn(8)]
			return index{Idx{Junk: true}, f}
		case 5:
			return index{Idx{Junk: true}, new(big.Int).Set(bigBounds[[]int{2, 5, 6, 7, 12, 13}[r.Intn(6)]])}
		case 6:
			return index{Idx{Junk: true}, big.NewRat(int64(1+2*r.Intn(5)), 2)}
		default:
			return index{Idx{Junk: true}, []any{nil, true, false, vals.EmptyList, vals.EmptyMap}[r.Intn(5)]}
		}
	}
	ix := Idx{}
	if r.Intn(4) == 0 {
		b := randBound(r, n)
		for !b.Present {
			b = randBound(r, n)
		}
		ix.A = b
	} else {
		ix.Slice, ix.Incl = true, r.Intn(2) == 0
		ix.A, ix.B = randBound(r, n), randBound(r, n)
	}
	// spelling
	sa, sb := "", ""
	if ix.A.Present {
		sa = ix.A.V.String()
		if r.Intn(6) == 0 {
			sa, ix.A.Plain = spell(r, ix.A.V), false
		}
	}
	if ix.B.Present {
		sb = ix.B.V.String()
		if r.Intn(6) == 0 {
			sb, ix.B.Plain = spell(r, ix.B.V), false
		}
	}
	if !ix.Slice {
		return index{ix, sa}
	}
	sep := ".."
	if ix.Incl {
		sep = "..="
	}
	return index{ix, sa + sep + sb}
}

func nan() float64      { var z float64; return z / z }
func inf(s int) float64 { var z float64; return float64(s) / z }
func randRunes(r *rand.Rand, k int) []string {
	out := make([]string, k)
	for i := range out {
		switch r.Intn(7) {
		case 0:
			out[i] = "�"
		case 1, 2:
			out[i] = runeBySize[1][r.Intn(5)]
		default:
			sz := 2 + r.Intn(3)
			out[i] = runeBySize[sz][r.Intn(3)]
		}
	}
	return out
}

func runLarge(c *mon.Case) {
	r := c.Rand
	for k := 0; k < 60; k++ {
		// ConvertListIndex alone can be asked about any length
		n := []int{0, 1, 2, 5, 100, 1 << 20, 1 << 31, 1<<63 - 1, 1<<63 - 2}[r.Intn(9)]
		ix := randIndex(r, n)
		want := Ref(ix.ix, n)
		li, err := vals.ConvertListIndex(ix.raw, n)
		report(c, judgeConvert(want, li, err), "ConvertListIndex", n, ix.raw, nil)
		classify(c, want, "large_convert")
		c.Evals(1)
	}
	for k := 0; k < 25; k++ {
		n := r.Intn(41)
		l, elems := listOf(n)
		ix := randIndex(r, n)
		want := Ref(ix.ix, n)
		got, err := vals.Index(l, ix.raw)
		report(c, judgeList(elems, want, got, err), "list", n, ix.raw, nil)
		na, aerr := vals.Assoc(l, ix.raw, "NEW")
		report(c, judgeAssocList(elems, want, "NEW", na, aerr), "list", n, ix.raw, nil)
		classify(c, want, "large_list")
		if ix.ix.Junk {
			c.Count("malformed_or_nonintegral_indices", 1)
		}
		c.Nontrivial("large-list", n, showRaw(ix.raw))

		s := NewStr(randRunes(r, r.Intn(9)))
		sn := len(s.S)
		ix = randIndex(r, sn)
		wantS := RefStr(Ref(ix.ix, sn), s)
		got, err = vals.Index(s.S, ix.raw)
		report(c, judgeStr(s, wantS, got, err), "string "+mon.Q(s.S), sn, ix.raw, nil)
		na, aerr = vals.Assoc(s.S, ix.raw, "NEW")
		report(c, judgeAssocStr(s, wantS, "NEW", na, aerr), "string "+mon.Q(s.S), sn, ix.raw, nil)
		classify(c, wantS, "large_str")
		c.Nontrivial("large-str", s.S, showRaw(ix.raw))
		c.Evals(4)
		if k == 0 {
			c.Sample("large", map[string]any{"list_length": n, "index": showRaw(ix.raw), "string": mon.Q(s.S)})
		}
	}
	// through the interpreter, including two indices in one expression
	for k := 0; k < 6; k++ {
		n := r.Intn(12)
		l, elems := listOf(n)
		i1, i2 := randIndex(r, n), randIndex(r, n)
		w1, w2 := Ref(i1.ix, n), Ref(i2.ix, n)
		elv.SetVar(ev, "x", l)
		elv.SetVar(ev, "i", i1.raw)
		elv.SetVar(ev, "j", i2.raw)
		res := evalFast("put $x[$i]")
		if outputCount(c, res, "list", n, i1.raw, "put $x[$i]") {
			got, err := one(res)
			report(c, judgeList(elems, w1, got, err), "list", n, i1.raw, map[string]any{"code": "put $x[$i]"})
		}
		c.Evals(2)
		res = evalFast("put $x[$i $j]")
		mustRaise := w1.Kind == Invalid || w2.Kind == Invalid
		mayRaise := mustRaise || w1.OrRaise || w2.OrRaise
		wit := map[string]any{"code": "put $x[$i $j]", "i": showRaw(i1.raw), "j": showRaw(i2.raw), "length": n}
		switch {
		case res.Err != nil && !mayRaise:
			c.Violation("elvish:multi-index:unexpected-exception", fmt.Sprintf("put $x[$i $j] with i=%s j=%s on a list of %d raised %q", showRaw(i1.raw), showRaw(i2.raw), n, res.Err), wit)
		case res.Err == nil && mustRaise:
			c.Violation("elvish:multi-index:missing-exception", fmt.Sprintf("put $x[$i $j] with i=%s j=%s on a list of %d output %v", showRaw(i1.raw), showRaw(i2.raw), n, elv.Reprs(res.Values)), wit)
		case res.Err == nil:
			if len(res.Values) != 2 {
				c.Violation("elvish:multi-index:output-count", fmt.Sprintf("put $x[$i $j] output %d values", len(res.Values)), wit)
				break
			}
			report(c, judgeList(elems, w1, res.Values[0], nil), "list", n, i1.raw, wit)
			report(c, judgeList(elems, w2, res.Values[1], nil), "list", n, i2.raw, wit)
			c.Count("multi_index_both_valid", 1)
		}
	}
}

// ---------------------------------------------------------------------------

func Spec() *mon.Spec {
	nq, nt := len(sweepUnits(quickN)), len(sweepUnits(thoroughN))
	return &mon.Spec{
		ID:            "C13",
		SpinViolation: true, Level: "exploration",
		Rule: fmt.Sprintf("Phase sweep is EXHAUSTIVE (no sampling): for every length n = 0..N and every index with integer parts in [-N-2, N+2] in the forms i (as string and as typed int, plus \"-0\"), a..b, a.., ..b, .., a..=b, ..=b, a..=, ..= (N=%d quick: %d indices per container; N=%d thorough: %d), against (1) a list of n distinct elements, (2) an ASCII string of n bytes, (3) every string of n bytes for every composition of n into codepoint sizes 1..4 containing a multi-byte codepoint, plus a variant whose 3-byte codepoints are U+FFFD itself; each pair is run through vals.Index, vals.Assoc and (lists) vals.ConvertListIndex. "+
			"Phase elvish runs the same index set through the interpreter (put $x[$i] with the index in a variable or, for a third, literally in the source; set x[$i] = $v; assoc $x $i $v) for the list, the ASCII string and up to 3 multi-byte strings per length. The run is inconclusive unless the numbers of pairs equal the enumerated totals. "+
			"Phase large: random indices with bounds around the length, ±2^31, ±2^32, ±2^63∓{0,1}, ±2^64, 30-digit numbers, other number spellings (+5, 0x, 0b, 0o, _, .0, k/2), malformed strings, typed float / big / rational / non-number indices, lengths up to 2^63-1 for ConvertListIndex, and two indices in one indexing expression. "+
			"Oracle: reference model over math/big of language.md § List / § String / § Indexing (see checks/c13/refindex.go); results compared element by element / byte by byte; replacing must change exactly the addressed element and leave the original value intact. "+
			"Non-trivial = every (container, index set) of the sweeps (each is a full enumeration) and every distinct random (container, index) of phase large.", quickN, len(allIndices(quickN)), thoroughN, len(allIndices(thoroughN))),
		Assumptions: []string{
			"the reference does not say in so many words what happens to out-of-range indices and to slices with lower > upper; they are read as ruled out (must raise), as the statement of the property says",
			"tolerated (raise or the result): spellings of an integer other than plain decimal (+5, 0x5, 0b101, 0o5, 5_0, 5.0, 10/2, typed float 5.0): the reference says number-like strings are accepted but not which ones",
			"tolerated (raise or the result): a..=b where b names no element but b+1 is a position (..=-1 on an empty container, ..=(-n-1)), and a..= / ..= with the inclusive bound omitted",
			"element assignment / assoc on strings is not described by the reference: raising is always accepted, a result must be the string with exactly the addressed bytes replaced, ruled-out indices must raise",
			"strings with invalid UTF-8 are not generated (the reference says their indexing is unspecified)",
			"the unbounded proof mentioned in the property's quantifier is out of reach of runtime monitoring; the sweep decides lengths and bounds up to N only",
		},
		ChildSetup: func(e *mon.Env) { ev = elv.New() },
		Phases: []mon.Phase{
			{Name: "sweep", Quick: nq, Thorough: nt, Batch: 3, Run: runSweep},
			{Name: "elvish", Quick: len(elvishUnits(quickN)), Thorough: len(elvishUnits(thoroughN)), Run: runElvish},
			{Name: "large", Quick: 1500, Thorough: 20000, Batch: 94, Run: runLarge},
		},
		Finish: func(e *mon.Env) {
			N := e.Pick(quickN, thoroughN)
			if e.Counter("sweep_pairs") == expectedPairs(N, false) {
				e.Count("sweep_exhaustive_complete", 1)
			}
			if e.Counter("elvish_pairs") == expectedPairs(N, true) {
				e.Count("elvish_exhaustive_complete", 1)
			}
		},
		Floors: map[string]int{"sweep_exhaustive_complete": 1, "elvish_exhaustive_complete": 1,
			"pairs_list": 11990, "pairs_ascii": 11990, "pairs_multibyte": 700000, "elvish_pairs": 50000,
			"multibyte_strings_with_ufffd": 150, "valid_positions_next_to_ufffd": 4000, "str_expect_exception_inside_codepoint": 50000,
			"str_expect_slice": 35000, "str_expect_element": 4000, "list_expect_slice": 600, "list_expect_element": 60,
			"elvish_literal_index_in_source": 5000, "elvish_expect_slice": 2000, "elvish_expect_element": 200,
			"large_convert_expect_slice": 3000, "large_convert_expect_element": 2500, "large_list_expect_slice": 1400, "large_list_expect_element": 1200,
			"large_str_expect_slice": 500, "large_str_expect_element": 500, "large_list_tolerated_number-like-spelling": 800,
			"malformed_or_nonintegral_indices": 2500, "multi_index_both_valid": 150, "distinct_nontrivial": 18000},
	}
}
