// Package c06 monitors the persistent vector (Elvish lists) against a plain
// Go slice at every length, including slices of slices, and re-checks every
// earlier version after later operations (property C06).
//
// The reference model is a []any that is copied on every operation; the
// model of the API is written from the doc comments of vector.Vector:
//
//	Index(i)        i-th element; second result false when it does not exist
//	Assoc(i, v)     copy with i-th element replaced; nil if i<0 or i>Len; i==Len is Conj
//	Conj(v)         copy with v appended
//	Pop()           copy without the last element; nil if empty
//	SubVector(i,j)  elements from i up to but not including j
//	Iterator()      HasElem/Elem/Next visit the elements in order
//
// plus, from the property text: out-of-range requests are rejected with no
// value (nil / ok=false) for whole vectors and sub-vectors alike - the bounds
// of a sub-vector are those of the sub-vector itself.
package c06

import (
	"encoding/json"
	"fmt"
	"math"
	"math/rand"
	"sort"
	"time"

	"src.elv.sh/pkg/persistent/vector"
	"verifharness/internal/mon"
)

// ---------------------------------------------------------------------------
// versions and the reference model

// ver is one vector version together with its reference copy.
type ver struct {
	v vector.Vector
	m []any // reference contents; never written after creation
	// provenance, used for coverage counters and narrow signatures only
	depth  int // number of nested SubVector calls in the lineage (0 = whole vector)
	ucount int // inferred length of the whole vector underneath
	off    int // inferred offset of element 0 within the whole vector
	born   int
	how    string
}

// Lengths at which the implementation is documented (package comment: clone
// of Clojure's PersistentVector, 32-way tree plus tail) to change shape.
// Used for workload steering and coverage counters, never in a verdict.
const (
	n1 = 33    // first leaf moves into the tree
	n2 = 65    // tree height 0 -> 1
	n3 = 1057  // tree height 1 -> 2
	n4 = 32801 // tree height 2 -> 3
)

func treeSizeOf(count int) int {
	if count < 32 {
		return 0
	}
	return ((count - 1) >> 5) << 5
}

func heightOf(count int) int {
	switch {
	case count < n2:
		return 0
	case count < n3:
		return 1
	case count < n4:
		return 2
	}
	return 3
}

// x is the per-case monitor state.
type x struct {
	c      *mon.Case
	r      *rand.Rand
	next   int
	step   int
	failed bool
	cnt    map[string]int
	ops    int
}

func newX(c *mon.Case) *x { return &x{c: c, r: c.Rand, cnt: map[string]int{}} }

func (x *x) inc(name string) { x.cnt[name]++ }

func (x *x) flush() {
	names := make([]string, 0, len(x.cnt))
	for k := range x.cnt {
		names = append(names, k)
	}
	sort.Strings(names)
	for _, k := range names {
		x.c.Count(k, x.cnt[k])
	}
	x.c.Evals(x.ops)
}

// fresh returns a value never stored before in this case (so a misplaced
// element is always visible); every 41st value is nil, which is what Elvish's
// $nil is in a list.
func (x *x) fresh() any {
	x.next++
	if x.next%41 == 0 {
		return nil
	}
	return x.next
}

func (x *x) fail(sig, what string, v *ver, extra map[string]any) {
	x.failed = true
	w := map[string]any{"step": x.step}
	if v != nil {
		w["version_born_at_step"] = v.born
		w["version_made_by"] = v.how
		w["version_len"] = len(v.m)
		w["slice_depth"] = v.depth
		w["inferred_underlying_len"] = v.ucount
		w["inferred_offset"] = v.off
	}
	for k, e := range extra {
		w[k] = e
	}
	x.c.Violation(sig, what, w)
}

func show(v any) string {
	if v == nil {
		return "nil"
	}
	return fmt.Sprint(v)
}

// verify compares one version completely with its reference copy: Len, every
// Index, rejected Index just outside, a full iteration.
func (x *x) verify(v *ver, when string) bool {
	vec, m := v.v, v.m
	n := len(m)
	if vec == nil {
		x.fail(when+":nil", "version is nil", v, nil)
		return false
	}
	if got := vec.Len(); got != n {
		x.fail(when+":len", fmt.Sprintf("Len()=%d, array copy has %d elements", got, n), v, nil)
		return false
	}
	for i := 0; i < n; i++ {
		got, ok := vec.Index(i)
		if !ok || got != m[i] {
			x.fail(when+":index", fmt.Sprintf("Index(%d) = %s,%v; array copy has %s (len %d)", i, show(got), ok, show(m[i]), n), v, map[string]any{"index": i})
			return false
		}
	}
	for _, i := range [...]int{-1, n, n + 1, -n - 1, n + 32, math.MaxInt, math.MinInt} {
		got, ok := vec.Index(i)
		if ok || got != nil {
			x.fail(when+":index-out-of-range", fmt.Sprintf("Index(%d) on length %d = %s,%v; want no value", i, n, show(got), ok), v, map[string]any{"index": i})
			return false
		}
	}
	x.cnt["index_rejected"] += 7
	i := 0
	for it := vec.Iterator(); it.HasElem(); it.Next() {
		if i >= n {
			x.fail(when+":iter-long", fmt.Sprintf("iteration yields more than the %d elements of the array copy", n), v, nil)
			return false
		}
		if got := it.Elem(); got != m[i] {
			x.fail(when+":iter", fmt.Sprintf("iteration element #%d = %s; array copy has %s (len %d)", i, show(got), show(m[i]), n), v, map[string]any{"index": i})
			return false
		}
		i++
	}
	if i != n {
		x.fail(when+":iter-short", fmt.Sprintf("iteration yields %d elements, array copy has %d", i, n), v, nil)
		return false
	}
	// what the iteration had to do (inferred from provenance)
	if v.depth > 0 && n > 0 {
		ts := treeSizeOf(v.ucount)
		switch {
		case v.off >= ts:
			x.inc("iter_range_tail_only")
		case v.off+n > ts:
			x.inc("iter_range_tree_into_tail")
		default:
			x.inc("iter_range_tree_only")
		}
		if v.off < ts && v.off&31 != 0 && (v.off>>5) != ((v.off+n-1)>>5) {
			x.inc("iter_range_unaligned_start_crossing_leaf")
		}
		if v.off < ts && (v.off>>10) != ((min(v.off+n, ts)-1)>>10) {
			x.inc("iter_range_crossing_level1_node")
		}
		if v.depth >= 2 {
			x.inc("subsub_iter")
		}
	}
	x.ops++
	return true
}

// verifyJSON checks MarshalJSON (part of the Vector interface, implemented
// with the iterator) against the encoding of the array copy.
func (x *x) verifyJSON(v *ver, when string) bool {
	got, err := v.v.MarshalJSON()
	want, _ := json.Marshal(append([]any{}, v.m...))
	if err != nil || string(got) != string(want) {
		x.fail(when+":json", fmt.Sprintf("MarshalJSON = %.80s, %v; array copy encodes as %.80s", got, err, want), v, nil)
		return false
	}
	x.inc("json_checked")
	return true
}

func cp(m []any, extra int) []any {
	n := make([]any, len(m), len(m)+extra)
	copy(n, m)
	return n
}

// after runs the checks that follow every operation: the result equals the
// array copy, and the receiver is unchanged.
func (x *x) after(nv, base *ver, op string) *ver {
	if !x.verify(nv, "new-after-"+op) {
		return nil
	}
	if !x.verify(base, "receiver-changed-by-"+op) {
		return nil
	}
	return nv
}

func (x *x) assoc(b *ver, i int) *ver {
	val := x.fresh()
	r := b.v.Assoc(i, val)
	n := len(b.m)
	if i < 0 || i > n {
		x.inc("assoc_rejected")
		if r != nil {
			x.fail("assoc:out-of-range-accepted", fmt.Sprintf("Assoc(%d, _) on length %d returned a vector of length %d; want nil", i, n, r.Len()), b, map[string]any{"index": i})
		}
		x.ops++
		return nil
	}
	if r == nil {
		x.fail("assoc:in-range-rejected", fmt.Sprintf("Assoc(%d, _) on length %d returned nil", i, n), b, map[string]any{"index": i})
		return nil
	}
	nm := cp(b.m, 1)
	nv := &ver{v: r, depth: b.depth, ucount: b.ucount, off: b.off, born: x.step, how: fmt.Sprintf("Assoc(%d)", i)}
	if i == n {
		nm = append(nm, val)
		x.inc("assoc_append")
		if b.off+n == b.ucount {
			nv.ucount++
		}
	} else {
		nm[i] = val
		p := b.off + i
		if p >= treeSizeOf(b.ucount) {
			x.inc("assoc_tail")
		} else {
			x.inc(fmt.Sprintf("assoc_tree_height%d", heightOf(b.ucount)))
		}
	}
	nv.m = nm
	if b.depth >= 2 {
		x.inc("subsub_assoc")
	}
	return x.after(nv, b, "assoc")
}

func (x *x) conj(b *ver) *ver {
	val := x.fresh()
	r := b.v.Conj(val)
	if r == nil {
		x.fail("conj:nil", fmt.Sprintf("Conj on length %d returned nil", len(b.m)), b, nil)
		return nil
	}
	nv := &ver{v: r, m: append(cp(b.m, 1), val), depth: b.depth, ucount: b.ucount, off: b.off, born: x.step, how: "Conj"}
	if b.off+len(b.m) == b.ucount {
		nv.ucount++
		switch nv.ucount {
		case n1:
			x.inc("conj_32_to_33")
		case n2:
			x.inc("conj_64_to_65_height_up")
		case n3:
			x.inc("conj_1056_to_1057_height_up")
		case n4:
			x.inc("conj_32800_to_32801_height_up")
		}
		if nv.ucount > n1 && nv.ucount&31 == 1 {
			x.inc("conj_pushes_tail_into_tree")
		}
	} else if b.depth > 0 {
		x.inc("conj_on_slice_shadowing_underlying_element")
	}
	if b.depth >= 2 {
		x.inc("subsub_conj")
	}
	return x.after(nv, b, "conj")
}

func (x *x) pop(b *ver) *ver {
	r := b.v.Pop()
	n := len(b.m)
	if n == 0 {
		x.inc("pop_rejected")
		if r != nil {
			x.fail("pop:empty-accepted", fmt.Sprintf("Pop on an empty vector returned a vector of length %d; want nil", r.Len()), b, nil)
		}
		x.ops++
		return nil
	}
	if r == nil {
		x.fail("pop:nil", fmt.Sprintf("Pop on length %d returned nil", n), b, nil)
		return nil
	}
	nv := &ver{v: r, m: cp(b.m[:n-1], 0), depth: b.depth, ucount: b.ucount, off: b.off, born: x.step, how: "Pop"}
	if b.depth == 0 {
		nv.ucount--
		switch b.ucount {
		case n1:
			x.inc("pop_33_to_32")
		case n2:
			x.inc("pop_65_to_64_height_down")
		case n3:
			x.inc("pop_1057_to_1056_height_down")
		case n4:
			x.inc("pop_32801_to_32800_height_down")
		}
		if b.ucount > n1 && b.ucount&31 == 1 {
			x.inc("pop_pulls_leaf_out_of_tree")
		}
	} else if n == 1 {
		nv.depth, nv.ucount, nv.off = 0, 0, 0
	}
	if b.depth >= 2 {
		x.inc("subsub_pop")
	}
	return x.after(nv, b, "pop")
}

// KnownSubSig is the signature of the defect class "a slice of a slice
// accepts a range that lies outside the slice but inside the vector it was
// taken from".
const KnownSubSig = "subvector-of-slice:accepts-range-outside-slice-inside-underlying"

func (x *x) sub(b *ver, i, j int) *ver {
	r := b.v.SubVector(i, j)
	n := len(b.m)
	if i < 0 || i > j || j > n {
		x.inc("subvector_rejected")
		if b.depth > 0 {
			x.inc("subvector_of_slice_rejected")
		}
		if r != nil {
			sig := "subvector:out-of-range-accepted"
			if b.depth > 0 {
				sig = "subvector-of-slice:out-of-range-accepted"
				// would the same numbers be a valid range of the vector underneath?
				lo, hi := b.off+i, b.off+j
				if i <= j && lo >= 0 && hi <= b.ucount && b.off+n <= b.ucount {
					sig = KnownSubSig
				}
			}
			var leak []string
			for k := 0; k < r.Len() && k < 4; k++ {
				e, _ := r.Index(k)
				leak = append(leak, show(e))
			}
			x.fail(sig, fmt.Sprintf("SubVector(%d, %d) on a %s of length %d returned a vector of length %d (first elements %v); want nil",
				i, j, kindName(b.depth), n, r.Len(), leak), b, map[string]any{"i": i, "j": j})
			if sig == KnownSubSig {
				x.failed = false // recorded; the rest of the case is still worth running
			}
		}
		x.ops++
		return nil
	}
	if r == nil {
		x.fail("subvector:in-range-rejected", fmt.Sprintf("SubVector(%d, %d) on length %d returned nil", i, j, n), b, map[string]any{"i": i, "j": j})
		return nil
	}
	nv := &ver{v: r, m: cp(b.m[i:j], 0), depth: b.depth + 1, ucount: b.ucount, off: b.off + i, born: x.step, how: fmt.Sprintf("SubVector(%d,%d)", i, j)}
	if b.depth >= 1 {
		x.inc("subsub_subvector")
	}
	if b.depth >= 2 {
		x.inc("subsubsub_subvector")
	}
	return x.after(nv, b, "subvector")
}

func kindName(depth int) string {
	switch depth {
	case 0:
		return "whole vector"
	case 1:
		return "slice"
	}
	return fmt.Sprintf("slice nested %d deep", depth)
}

// build makes a whole vector of length n by Conj from Empty without
// intermediate checks (the caller verifies the result).
func (x *x) build(n int) *ver {
	v := vector.Empty
	m := make([]any, 0, n)
	for i := 0; i < n; i++ {
		val := x.fresh()
		v = v.Conj(val)
		m = append(m, val)
	}
	return &ver{v: v, m: m, ucount: n, born: x.step, how: fmt.Sprintf("built by %d Conj", n)}
}

// fork grows two branches from the same receiver by k elements each,
// alternating between them, and then re-reads both branches and the
// receiver: the branches push their own tails into what starts as the same
// tree.
func (x *x) fork(b *ver, k int) bool {
	a1, a2 := b, b
	for i := 0; i < k; i++ {
		if a1 = x.conj(a1); a1 == nil {
			return false
		}
		if a2 = x.conj(a2); a2 == nil {
			return false
		}
	}
	x.inc("fork_tests")
	return x.verify(a1, "fork-first-branch") && x.verify(a2, "fork-second-branch") && x.verify(b, "fork-receiver")
}

// burst applies Conj (grow) or Pop k times in a row and returns the last version.
func (x *x) burst(b *ver, k int, grow bool) *ver {
	cur := b
	for i := 0; i < k; i++ {
		var nv *ver
		if grow {
			nv = x.conj(cur)
		} else {
			if len(cur.m) == 0 {
				break
			}
			nv = x.pop(cur)
		}
		if nv == nil {
			return nil
		}
		cur = nv
	}
	if grow {
		x.inc("conj_bursts")
	} else {
		x.inc("pop_bursts")
	}
	if !x.verify(b, "receiver-changed-by-burst") {
		return nil
	}
	return cur
}

func dedupe(a []int) []int {
	sort.Ints(a)
	out := a[:0]
	for i, v := range a {
		if i == 0 || v != a[i-1] {
			out = append(out, v)
		}
	}
	return out
}

var boundaryBase = []int{0, 1, 31, 32, 33, 63, 64, 65, 1023, 1024, 1025, 1055, 1056, 1057, 32767, 32768, 32769, 32799, 32800, 32801}

// bset is the boundary set of positions for a vector of length n.
func bset(n int) []int {
	a := []int{-1, n - 1, n, n + 1, n / 2}
	for _, b := range boundaryBase {
		if b <= n+1 {
			a = append(a, b)
		}
	}
	return dedupe(a)
}

// hostile positions for slicing a slice s: besides its own boundaries, the
// numbers that would be valid for the vector underneath.
func subset(s *ver) []int {
	n := len(s.m)
	a := []int{-1, 0, 1, n / 2, n - 1, n, n + 1}
	if s.off > 0 {
		a = append(a, -s.off)
	}
	if rest := s.ucount - s.off - n; rest > 0 {
		a = append(a, n+rest, n+rest+1)
	}
	return dedupe(a)
}

// sliceOps applies every operation to the slice s; on its sub-slices (chosen
// from the hostile set) it recurses once more.
func (x *x) sliceOps(s *ver, full bool, level int) {
	n := len(s.m)
	for _, i := range dedupe([]int{0, n / 2, n - 1, n, -1, n + 1}) {
		x.assoc(s, i)
		if x.failed {
			return
		}
	}
	if t := x.conj(s); t != nil {
		// popping the appended element gives the slice back
		x.pop(t)
		x.conj(t)
	}
	if x.failed {
		return
	}
	x.pop(s)
	if x.failed || level >= 2 {
		if level >= 2 && n >= 2 {
			x.sub(s, 1, n-1)
			x.sub(s, -1, n)
			x.sub(s, 0, n+1)
		}
		return
	}
	ps := subset(s)
	for _, p := range ps {
		for _, q := range ps {
			valid := p >= 0 && p <= q && q <= n
			if !full && valid && x.r.Intn(4) != 0 {
				continue
			}
			if !full && !valid && x.r.Intn(2) != 0 {
				continue
			}
			ss := x.sub(s, p, q)
			if x.failed {
				return
			}
			if ss != nil && (full || x.r.Intn(3) == 0) {
				x.sliceOps(ss, false, level+1)
				if x.failed {
					return
				}
			}
		}
	}
}

// ---------------------------------------------------------------------------
// phase "sweep": every length, every operation

const sweepWidth = 10

func interesting(n int) bool {
	for _, b := range [...]int{0, 32, 64, 1024, 1056, 32768, 32800} {
		if n >= b-1 && n <= b+2 {
			return true
		}
	}
	return false
}

func runSweep(c *mon.Case) {
	x := newX(c)
	defer x.flush()
	lo := c.I * sweepWidth
	hi := lo + sweepWidth
	big := lo > 1200
	cur := x.build(lo)
	if !x.verify(cur, "built") {
		return
	}
	var kept []*ver
	for n := lo; n < hi; n++ {
		x.step = n
		if n > lo {
			cur = x.conj(cur)
			if cur == nil {
				return
			}
		}
		kept = append(kept, cur)
		full := !big && (interesting(n) || n%16 == 0)
		// Assoc at the documented special positions and at the tree/tail border
		ts := treeSizeOf(n)
		for _, i := range dedupe([]int{0, n / 2, n - 1, n, -1, n + 1, ts - 1, ts, 31, 32, 1023, 1024, math.MaxInt, math.MinInt}) {
			if i > n+1 && i != math.MaxInt {
				continue
			}
			x.assoc(cur, i)
			if x.failed {
				return
			}
		}
		x.pop(cur)
		if x.failed {
			return
		}
		if n <= 200 || n%8 == 0 {
			if !x.verifyJSON(cur, "whole") {
				return
			}
		}
		// slicing
		bs := bset(n)
		for _, i := range bs {
			for _, j := range bs {
				valid := i >= 0 && i <= j && j <= n
				keep := full
				if !keep {
					if big {
						keep = x.r.Intn(12) == 0
					} else {
						keep = x.r.Intn(5) == 0
					}
				}
				if !keep {
					continue
				}
				s := x.sub(cur, i, j)
				if x.failed {
					return
				}
				if !valid || s == nil {
					continue
				}
				if full || x.r.Intn(3) == 0 {
					x.sliceOps(s, full && x.r.Intn(4) == 0, 1)
					if x.failed {
						return
					}
				}
				if len(s.m) <= 64 && !x.verifyJSON(s, "slice") {
					return
				}
			}
		}
		// two branches growing from this length
		if interesting(n) || n%4 == 0 {
			if !x.fork(cur, 70) {
				return
			}
		}
		// pop chain down to 0 with Conj back up at the shape-changing lengths
		if interesting(n) || n%97 == 0 {
			if !x.popChain(cur) {
				return
			}
		}
	}
	// every version of this case is still what it was
	for _, v := range kept {
		if !x.verify(v, "old-final") {
			return
		}
	}
	c.Nontrivial("sweep", lo, hi)
	if c.I%37 == 0 {
		c.Sample("sweep", map[string]any{"lengths": []int{lo, hi - 1}, "operations_checked": x.ops})
	}
}

// popChain pops v down to empty. The popped versions are compared completely
// at the shape-changing lengths and every 16th length, and by their last
// elements otherwise; at the shape-changing lengths it also appends again.
func (x *x) popChain(v *ver) bool {
	cur := v
	for len(cur.m) > 0 {
		n := len(cur.m) - 1
		r := cur.v.Pop()
		if r == nil {
			x.fail("pop:nil", fmt.Sprintf("Pop on length %d returned nil", n+1), cur, nil)
			return false
		}
		nv := &ver{v: r, m: cur.m[:n:n], ucount: n, born: x.step, how: "Pop chain"}
		if interesting(n) || n%16 == 0 {
			if !x.verify(nv, "pop-chain") {
				return false
			}
			if interesting(n) {
				// grow again from here: the popped vector must be a good base
				t := nv
				for k := 0; k < 3 && t != nil; k++ {
					t = x.conj(t)
				}
				if x.failed {
					return false
				}
				x.inc("conj_after_pop_chain")
			}
		} else {
			if r.Len() != n {
				x.fail("pop-chain:len", fmt.Sprintf("Len()=%d after popping from %d", r.Len(), n+1), nv, nil)
				return false
			}
			for _, i := range [...]int{0, n - 33, n - 32, n - 2, n - 1} {
				if i < 0 {
					continue
				}
				if got, ok := r.Index(i); !ok || got != nv.m[i] {
					x.fail("pop-chain:index", fmt.Sprintf("Index(%d) = %s,%v after popping to length %d; array copy has %s", i, show(got), ok, n, show(nv.m[i])), nv, nil)
					return false
				}
			}
			if got, ok := r.Index(n); ok || got != nil {
				x.fail("pop-chain:index-out-of-range", fmt.Sprintf("Index(%d) = %s,%v on length %d", n, show(got), ok, n), nv, nil)
				return false
			}
		}
		switch n + 1 {
		case n1:
			x.inc("pop_33_to_32")
		case n2:
			x.inc("pop_65_to_64_height_down")
		case n3:
			x.inc("pop_1057_to_1056_height_down")
		case n4:
			x.inc("pop_32801_to_32800_height_down")
		}
		x.ops++
		cur = nv
	}
	if r := cur.v.Pop(); r != nil {
		x.fail("pop:empty-accepted", "Pop on the emptied vector returned a vector; want nil", cur, nil)
		return false
	}
	return x.verify(v, "receiver-changed-by-pop-chain")
}

// ---------------------------------------------------------------------------
// phase "history": random operation histories over a pool of live versions

var startLens = []int{0, 1, 2, 30, 31, 32, 33, 34, 62, 63, 64, 65, 66, 95, 96, 97, 1022, 1023, 1024, 1025, 1026, 1054, 1055, 1056, 1057, 1058, 1088, 1089}

func runHistory(c *mon.Case) {
	x := newX(c)
	defer x.flush()
	r := x.r
	const maxLive = 40
	steps := 400
	var live []*ver
	add := func(v *ver) {
		if v == nil {
			return
		}
		if len(live) < maxLive {
			live = append(live, v)
			return
		}
		// keep the first (root of the history) and evict a random other one
		live[1+r.Intn(len(live)-1)] = v
	}
	start := startLens[r.Intn(len(startLens))]
	if r.Intn(4) == 0 {
		start = r.Intn(1200)
	}
	root := x.build(start)
	if !x.verify(root, "built") {
		return
	}
	add(root)
	cur := root
	heights := map[int]bool{}
	subsub := 0
	var trace []string
	mode, segLeft := 0, 0
	for s := 1; s <= steps; s++ {
		x.step = s
		if segLeft == 0 {
			segLeft = 10 + r.Intn(50)
			mode = r.Intn(5) // 0 mixed, 1 grow, 2 shrink, 3 slice-heavy, 4 branch-heavy
		}
		segLeft--
		b := cur
		if mode == 4 || r.Intn(5) == 0 {
			b = live[r.Intn(len(live))]
		}
		n := len(b.m)
		op := r.Intn(100)
		switch mode {
		case 1:
			if op >= 20 {
				op = 0
			}
		case 2:
			if op >= 20 {
				op = 30
			}
		case 3:
			if op >= 30 {
				op = 70
			}
		}
		var nv *ver
		var what string
		switch {
		case op < 30 && r.Intn(8) == 0:
			k := 33 + r.Intn(38)
			nv, what = x.burst(b, k, true), fmt.Sprintf("conj x%d", k)
		case op >= 30 && op < 50 && r.Intn(8) == 0:
			k := 33 + r.Intn(38)
			nv, what = x.burst(b, k, false), fmt.Sprintf("pop x%d", k)
		case op < 30:
			nv, what = x.conj(b), "conj"
			if mode == 4 && nv != nil { // sibling: a second Conj from the same receiver
				x.inc("sibling_conj")
				add(nv)
				nv = x.conj(b)
			}
		case op < 50:
			nv, what = x.pop(b), "pop"
		case op < 70:
			var i int
			switch r.Intn(6) {
			case 0:
				i = []int{-1, n, n + 1, n - 1, 0}[r.Intn(5)]
			case 1:
				ts := treeSizeOf(b.ucount) - b.off
				i = ts - 1 + r.Intn(3)
			default:
				if n > 0 {
					i = r.Intn(n)
				}
			}
			nv, what = x.assoc(b, i), fmt.Sprintf("assoc %d", i)
		default:
			var i, j int
			switch r.Intn(5) {
			case 0: // hostile: numbers valid for the vector underneath
				ps := subset(b)
				i, j = ps[r.Intn(len(ps))], ps[r.Intn(len(ps))]
			case 1:
				bs := bset(n)
				i, j = bs[r.Intn(len(bs))], bs[r.Intn(len(bs))]
				if i > j && r.Intn(4) != 0 {
					i, j = j, i
				}
			default:
				i = r.Intn(n + 1)
				j = i + r.Intn(n-i+1)
				if r.Intn(4) == 0 && n > 40 { // keep it long
					i = r.Intn(8)
					j = n - r.Intn(8)
				}
			}
			nv, what = x.sub(b, i, j), fmt.Sprintf("sub %d %d", i, j)
		}
		if x.failed {
			return
		}
		trace = append(trace, fmt.Sprintf("%s@%d/d%d", what, n, b.depth))
		if nv != nil {
			add(nv)
			if nv.depth >= 2 {
				subsub++
			}
			heights[heightOf(nv.ucount)] = true
			// follow the new version most of the time so that lengths drift
			if r.Intn(4) != 0 && (nv.depth == 0 || mode == 3 || r.Intn(3) == 0) {
				cur = nv
			}
			if cur.depth > 0 && mode != 3 && r.Intn(6) == 0 {
				cur = root
				for _, v := range live {
					if v.depth == 0 && r.Intn(3) == 0 {
						cur = v
					}
				}
			}
		}
		// persistence monitor: every live version is re-read completely
		for _, v := range live {
			if !x.verify(v, "old") {
				return
			}
		}
		x.cnt["old_versions_rechecked"] += len(live)
	}
	for _, v := range live {
		if !x.verifyJSON(v, "old-final") {
			return
		}
	}
	if len(heights) >= 2 || subsub > 0 {
		c.Nontrivial("history", start, len(trace), trace[0], trace[len(trace)/2], trace[len(trace)-1], x.next)
	}
	if len(heights) >= 2 {
		x.inc("histories_touching_2_heights")
	}
	if len(trace) > 14 {
		trace = trace[:14]
	}
	c.Sample("history", map[string]any{"start_len": start, "first_ops": trace})
}

// ---------------------------------------------------------------------------
// phase "tall": the third tree level (lengths around 32800/32801)

func runTall(c *mon.Case) {
	x := newX(c)
	defer x.flush()
	r := x.r
	start := n4 - 1 - r.Intn(6) // 32795..32800
	if c.I%4 == 3 {
		start = n4 + r.Intn(40)
	}
	root := x.build(start)
	if !x.verify(root, "built") {
		return
	}
	if !x.fork(root, 40) {
		return
	}
	live := []*ver{root}
	cur := root
	up := c.I%4 != 3
	for s := 1; s <= 90; s++ {
		x.step = s
		var nv *ver
		switch k := r.Intn(10); {
		case k < 6:
			if up {
				nv = x.conj(cur)
			} else {
				nv = x.pop(cur)
			}
			if nv != nil {
				cur = nv
				if len(cur.m) >= n4+6 {
					up = false
				} else if len(cur.m) <= n4-6 {
					up = true
				}
			}
		case k < 8:
			n := len(cur.m)
			cands := []int{0, 31, 32, 1023, 1024, 32767, 32768, 32799, 32800, n - 1, n, treeSizeOf(n) - 1, treeSizeOf(n), r.Intn(n)}
			nv = x.assoc(cur, cands[r.Intn(len(cands))])
		default:
			bs := bset(len(cur.m))
			i, j := bs[r.Intn(len(bs))], bs[r.Intn(len(bs))]
			if i > j {
				i, j = j, i
			}
			if j-i > 4000 && r.Intn(3) != 0 { // short ranges starting at deep boundaries
				j = i + 1 + r.Intn(70)
			}
			if s1 := x.sub(cur, i, j); s1 != nil && !x.failed {
				x.sliceOps(s1, false, 1)
			}
		}
		if x.failed {
			return
		}
		if nv != nil && len(live) < 12 {
			live = append(live, nv)
		} else if nv != nil {
			live[1+r.Intn(len(live)-1)] = nv
		}
		if s%6 == 0 {
			for _, v := range live {
				if !x.verify(v, "old") {
					return
				}
			}
			x.cnt["old_versions_rechecked"] += len(live)
		}
	}
	for _, v := range live {
		if !x.verify(v, "old-final") {
			return
		}
	}
	c.Nontrivial("tall", start, c.I)
}

// Spec is the C06 check.
func Spec() *mon.Spec {
	return &mon.Spec{
		ID:            "C06",
		SpinViolation: true, Level: "exploration",
		Rule: "Oracle: every vector version is paired with a plain []any copy; after every operation the result AND the receiver are compared completely (Len, Index of every position, rejected Index at -1/len/len+1/extremes, full iteration), out-of-range Assoc/Pop/SubVector must return nil, and all live versions are re-read after every step of a history. " +
			"Phases: sweep = case i covers lengths 10i..10i+9 (quick 0..1109, thorough 0..10999) built by Conj; at each length Assoc at {0,n/2,n-1,n,-1,n+1, tree/tail border, 31,32,1023,1024, MaxInt, MinInt}, Pop, SubVector over pairs from the boundary set {-1,0,1,31,32,33,63,64,65,1023..1025,1055..1057,32767..32769,32799..32801,n/2,n-1,n,n+1} (all pairs at lengths near 0/32/64/1024/1056/32768/32800 and multiples of 16, sampled otherwise), on each slice Assoc/Conj/Pop and slices of the slice chosen from its own boundaries and from the numbers that would be valid for the vector underneath, one more level below that; Pop chains down to 0 with Conj back up at the shape-changing lengths. " +
			"history = 400 random operations over a pool of <=40 live versions (start lengths around 0/32/64/96/1024/1056/1088, grow/shrink/slice/branch segments, sibling Conj from one receiver), every live version re-read after every step. tall = lengths around 32800/32801 (third tree level). elvish = 120 operations through a real interpreter ($x[i], $x[a..b], $x[a..=b], negative indices, conj, assoc, set x[i]=, count, all/each/for/explode, take, drop, list literal) and vals.Index/Assoc/Len/Collect, results fed back as receivers. extreme = one request with MaxInt/MinInt per case. " +
			"Non-trivial = sweep case (always contains slices of slices), history touching >=2 tree heights or >=1 slice of a slice, tall/elvish/extreme case; distinct by lengths/trace.",
		Assumptions: []string{
			"SubVector(i, j) with i > j is treated as out of range (a Go slice expression a[i:j] is rejected too); at the language level $li[a..b] with a > b may raise an exception or give an empty list (language.md is silent)",
			"element assignment set x[i] = v is only generated with non-negative i (negative indices are documented for indexing and for assoc, not for set)",
			"tree shape changes (tail/tree border, heights at 33/65/1057/32801) are inferred from the lengths as documented in the package comment (Clojure PersistentVector clone); they steer the workload and feed the coverage floors, never a verdict",
			"values stored are ints and nil (Elvish $nil); equality of results is Go ==",
		},
		Phases: []mon.Phase{
			{Name: "sweep", Quick: 111, Thorough: 1100, Run: runSweep, Batch: 1, Timeout: 10 * time.Minute},
			{Name: "history", Quick: 400, Thorough: 3000, Run: runHistory, Timeout: 10 * time.Minute},
			{Name: "tall", Quick: 16, Thorough: 100, Run: runTall, Batch: 1, Timeout: 10 * time.Minute},
			{Name: "elvish", Quick: 300, Thorough: 2500, Run: runElvish, Timeout: 10 * time.Minute},
			{Name: "extreme", Quick: 64, Thorough: 640, Run: runExtreme, Timeout: 10 * time.Minute},
		},
		Floors: map[string]int{
			"distinct_nontrivial": 250,
			"conj_32_to_33":       80, "conj_64_to_65_height_up": 100, "conj_1056_to_1057_height_up": 100, "conj_32800_to_32801_height_up": 6,
			"pop_33_to_32": 40, "pop_65_to_64_height_down": 40, "pop_1057_to_1056_height_down": 60, "pop_32801_to_32800_height_down": 5,
			"conj_pushes_tail_into_tree": 900, "pop_pulls_leaf_out_of_tree": 200, "conj_after_pop_chain": 75, "sibling_conj": 1500,
			"assoc_tail": 3000, "assoc_tree_height0": 300, "assoc_tree_height1": 10000, "assoc_tree_height2": 2000, "assoc_tree_height3": 100,
			"assoc_append": 8000, "assoc_rejected": 15000, "pop_rejected": 3000, "subvector_rejected": 100000, "subvector_of_slice_rejected": 90000,
			"iter_range_tail_only": 100000, "iter_range_tree_into_tail": 100000, "iter_range_tree_only": 400000,
			"iter_range_unaligned_start_crossing_leaf": 250000, "iter_range_crossing_level1_node": 25000,
			"subsub_assoc": 15000, "subsub_conj": 15000, "subsub_pop": 10000, "subsub_subvector": 15000, "subsub_iter": 300000, "subsubsub_subvector": 5000,
			"conj_on_slice_shadowing_underlying_element": 15000,
			"old_versions_rechecked":                     1000000, "json_checked": 5000, "histories_touching_2_heights": 60,
			"elvish_slice": 2000, "elvish_slice_of_slice": 800, "elvish_conj": 1500, "elvish_conj_across_shape_change": 100, "elvish_assoc": 1200,
			"elvish_index": 900, "elvish_iterate": 1200, "elvish_take_drop": 600, "elvish_rejected": 600, "extreme_probes": 20,
			"fork_tests": 100, "conj_bursts": 2000, "pop_bursts": 1000,
		},
	}
}
