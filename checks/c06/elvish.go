package c06

// Phase "elvish": the same persistence monitor, but the operations go through
// a real interpreter (list indexing and slicing syntax, conj, assoc, drop,
// take, count, all, each, for, element assignment) and through the vals
// functions that the interpreter uses (vals.Index/Assoc/Len/Collect).
//
// Reference (website/ref/language.md, "List"): a non-negative index counts
// from the beginning, a negative one from the back; `$a..$b` is the sublist
// from $li[$a] up to but not including $li[$b]; `$a` defaults to 0 and `$b` to
// the length; `$a..=$b` also includes $li[$b]. builtin docs: conj appends,
// assoc replaces (negative index allowed), take n / drop n output the first n
// / all but the first n elements ("if $n is larger ... outputs everything /
// nothing"), count outputs the length.

import (
	"fmt"
	"strconv"
	"sync"

	"src.elv.sh/pkg/eval"
	"src.elv.sh/pkg/eval/vals"
	"src.elv.sh/pkg/persistent/vector"
	"verifharness/internal/elv"
	"verifharness/internal/mon"
)

var (
	evOnce sync.Once
	evaler *eval.Evaler
)

func theEvaler() *eval.Evaler {
	evOnce.Do(func() { evaler = elv.New() })
	return evaler
}

// norm converts a possibly negative position to an offset; ok is false if it
// is outside [-n, n).
func norm(i, n int) int {
	if i < 0 {
		return i + n
	}
	return i
}

type sliceReq struct {
	text   string
	lo, hi int  // resolved half-open range (valid only when ok)
	ok     bool // in range
	either bool // documentation is silent: accept exception or empty list
}

// genSlice writes a slice index for a list of length n, in one of the
// documented forms, in range or just outside.
func genSlice(x *x, n int) sliceReq {
	r := x.r
	pos := func() int { // any position in [0, n]
		switch r.Intn(4) {
		case 0:
			bs := bset(n)
			p := bs[r.Intn(len(bs))]
			if p < 0 || p > n {
				p = n
			}
			return p
		default:
			return r.Intn(n + 1)
		}
	}
	a, b := pos(), pos()
	if a > b {
		a, b = b, a
	}
	// how to spell a position: from the front or from the back
	spell := func(p int, allowBack bool) string {
		if allowBack && p < n && r.Intn(3) == 0 {
			return strconv.Itoa(p - n)
		}
		return strconv.Itoa(p)
	}
	switch k := r.Intn(12); {
	case k < 4:
		return sliceReq{text: spell(a, true) + ".." + spell(b, true), lo: a, hi: b, ok: true}
	case k < 5:
		return sliceReq{text: ".." + spell(b, true), lo: 0, hi: b, ok: true}
	case k < 6:
		return sliceReq{text: spell(a, true) + "..", lo: a, hi: n, ok: true}
	case k < 7:
		return sliceReq{text: "..", lo: 0, hi: n, ok: true}
	case k < 9: // inclusive upper end: needs an existing element b with b >= a
		if n == 0 || a >= n {
			return sliceReq{text: "..", lo: 0, hi: n, ok: true}
		}
		if b >= n {
			b = n - 1
		}
		return sliceReq{text: spell(a, true) + "..=" + spell(b, true), lo: a, hi: b + 1, ok: true}
	case k < 10: // upper end beyond the list
		over := n + 1 + r.Intn(3)
		if r.Intn(2) == 0 {
			return sliceReq{text: spell(a, false) + ".." + strconv.Itoa(over)}
		}
		return sliceReq{text: spell(a, false) + "..=" + strconv.Itoa(over-1)}
	case k < 11: // lower end before the list
		under := -n - 1 - r.Intn(3)
		return sliceReq{text: strconv.Itoa(under) + ".." + spell(b, false)}
	default: // lower above upper, both inside: not specified by the reference
		if a == b {
			return sliceReq{text: spell(a, true) + ".." + spell(b, true), lo: a, hi: b, ok: true}
		}
		return sliceReq{text: strconv.Itoa(b) + ".." + strconv.Itoa(a), either: true}
	}
}

func asList(v any) (vector.Vector, bool) {
	l, ok := v.(vector.Vector)
	return l, ok && l != nil
}

func runElvish(c *mon.Case) {
	x := newX(c)
	defer x.flush()
	r := x.r
	ev := theEvaler()
	const maxLive = 24
	var live []*ver
	add := func(v *ver) {
		if len(live) < maxLive {
			live = append(live, v)
		} else {
			live[1+r.Intn(len(live)-1)] = v
		}
	}
	start := startLens[r.Intn(len(startLens))]
	root := x.build(start)
	if !x.verify(root, "built") {
		return
	}
	add(root)
	cur := root
	var trace []string
	bad := func(sig, what string, b *ver, code string, res elv.Result) {
		x.fail("elvish:"+sig, what, b, map[string]any{"code": code, "error": fmt.Sprint(res.Err), "outputs": len(res.Values)})
	}
	steps := 120
	for s := 1; s <= steps; s++ {
		x.step = s
		b := cur
		if r.Intn(4) == 0 {
			b = live[r.Intn(len(live))]
		}
		n := len(b.m)
		elv.SetVar(ev, "x", b.v)
		var nv *ver
		var code string
		// one list-valued result expected
		wantList := func(res elv.Result, m []any, depth, off int, how string) {
			if res.Err != nil || len(res.Values) != 1 {
				bad("unexpected-error", fmt.Sprintf("%s on a list of length %d: error %v, %d outputs; want one list", code, n, res.Err, len(res.Values)), b, code, res)
				return
			}
			l, ok := asList(res.Values[0])
			if !ok {
				bad("not-a-list", fmt.Sprintf("%s output %s, want a list", code, vals.ReprPlain(res.Values[0])), b, code, res)
				return
			}
			nv = &ver{v: l, m: m, depth: depth, ucount: b.ucount, off: off, born: s, how: how}
			if depth == 0 {
				nv.ucount, nv.off = len(m), 0
			}
			nv = x.after(nv, b, "elvish-"+how)
		}
		wantRejected := func(res elv.Result, what string) {
			x.inc("elvish_rejected")
			if res.Err == nil || !elv.IsException(res.Err) || len(res.Values) != 0 {
				bad("out-of-range-accepted", fmt.Sprintf("%s on a list of length %d: error %v, %d outputs; want an exception and no value (%s)", code, n, res.Err, len(res.Values), what), b, code, res)
			}
			x.verify(b, "receiver-changed-by-rejected-elvish-op")
		}
		wantElems := func(res elv.Result, m []any, what string) {
			if res.Err != nil || len(res.Values) != len(m) {
				bad(what, fmt.Sprintf("%s on a list of length %d: error %v, %d outputs; want %d", code, n, res.Err, len(res.Values), len(m)), b, code, res)
				return
			}
			for i := range m {
				if res.Values[i] != m[i] {
					bad(what, fmt.Sprintf("%s on a list of length %d: output #%d is %s, array copy has %s", code, n, i, vals.ReprPlain(res.Values[i]), show(m[i])), b, code, res)
					return
				}
			}
			x.verify(b, "receiver-changed-by-elvish-"+what)
			x.ops++
		}
		switch op := r.Intn(100); {
		case op < 18: // conj with 1..40 values
			k := 1 + r.Intn(3)
			if r.Intn(3) == 0 {
				k = 1 + r.Intn(40)
			}
			more := make([]any, k)
			for i := range more {
				more[i] = x.fresh()
			}
			elv.SetVar(ev, "more", vals.MakeList(more...))
			code = "conj $x $@more"
			x.inc("elvish_conj")
			wantList(elv.Eval(ev, code), append(cp(b.m, k), more...), b.depth, b.off, "conj")
			if nv != nil && b.depth == 0 {
				for _, h := range [...]int{n1, n2, n3} {
					if n < h && n+k >= h {
						x.inc("elvish_conj_across_shape_change")
					}
				}
			}
		case op < 40: // slicing
			q := genSlice(x, n)
			code = "put $x[" + q.text + "]"
			res := elv.Eval(ev, code)
			x.inc("elvish_slice")
			switch {
			case q.either:
				x.inc("elvish_slice_unspecified")
				if res.Err == nil {
					if l, ok := asList(res.Values[0]); len(res.Values) != 1 || !ok || l.Len() != 0 {
						bad("reversed-slice", fmt.Sprintf("%s on a list of length %d gave neither an exception nor an empty list", code, n), b, code, res)
					}
				}
			case !q.ok:
				wantRejected(res, "slice outside the list")
			default:
				wantList(res, cp(b.m[q.lo:q.hi], 0), b.depth+1, b.off+q.lo, "slice["+q.text+"]")
				if nv != nil && b.depth >= 1 {
					x.inc("elvish_slice_of_slice")
				}
			}
		case op < 50: // single index, also through vals.Index
			i := r.Intn(n + 3)
			if r.Intn(2) == 0 {
				i = -1 - r.Intn(n+3)
			}
			code = "put $x[" + strconv.Itoa(i) + "]"
			if r.Intn(4) == 0 {
				code = "put $x[(num " + strconv.Itoa(i) + ")]"
			}
			res := elv.Eval(ev, code)
			x.inc("elvish_index")
			gv, gerr := vals.Index(b.v, strconv.Itoa(i))
			if i >= n || i < -n {
				wantRejected(res, "index outside the list")
				if gerr == nil {
					bad("vals-index-out-of-range-accepted", fmt.Sprintf("vals.Index(list of length %d, %d) returned %s without error", n, i, vals.ReprPlain(gv)), b, code, res)
				}
			} else {
				wantElems(res, []any{b.m[norm(i, n)]}, "index")
				if gerr != nil || gv != b.m[norm(i, n)] {
					bad("vals-index", fmt.Sprintf("vals.Index(list of length %d, %d) = %v, %v; array copy has %s", n, i, gv, gerr, show(b.m[norm(i, n)])), b, code, res)
				}
			}
		case op < 64: // assoc builtin / element assignment / vals.Assoc
			i := r.Intn(n + 2)
			form := r.Intn(3)
			if form != 1 && r.Intn(3) == 0 { // negative indices are documented for assoc, not for set
				i = -1 - r.Intn(n+2)
			}
			val := x.fresh()
			elv.SetVar(ev, "val", val)
			how := "assoc"
			switch form {
			case 0:
				code = "assoc $x " + strconv.Itoa(i) + " $val"
			case 1:
				code = "var y = $x; set y[" + strconv.Itoa(i) + "] = $val; put $y"
				how = "set-element"
			default:
				code = "put (assoc $x (num " + strconv.Itoa(i) + ") $val)"
			}
			res := elv.Eval(ev, code)
			x.inc("elvish_assoc")
			gv, gerr := vals.Assoc(b.v, strconv.Itoa(i), val)
			if i >= n || i < -n {
				wantRejected(res, "index outside the list")
				if gerr == nil {
					bad("vals-assoc-out-of-range-accepted", fmt.Sprintf("vals.Assoc(list of length %d, %d, _) returned %s without error", n, i, vals.ReprPlain(gv)), b, code, res)
				}
			} else {
				nm := cp(b.m, 0)
				nm[norm(i, n)] = val
				wantList(res, nm, b.depth, b.off, how)
				if l, ok := asList(gv); gerr != nil || !ok {
					bad("vals-assoc", fmt.Sprintf("vals.Assoc(list of length %d, %d, _) = %v, %v", n, i, gv, gerr), b, code, res)
				} else if nv != nil {
					x.after(&ver{v: l, m: nm, depth: b.depth, ucount: b.ucount, off: b.off, born: s, how: "vals.Assoc"}, b, "vals-assoc")
				}
			}
		case op < 72: // count / vals.Len
			code = "count $x"
			res := elv.Eval(ev, code)
			x.inc("elvish_count")
			wantElems(res, []any{n}, "count")
			if vals.Len(b.v) != n {
				bad("vals-len", fmt.Sprintf("vals.Len = %d, array copy has %d", vals.Len(b.v), n), b, code, res)
			}
		case op < 86: // iteration in its various spellings
			codes := []string{"all $x", "put $@x", "for e $x { put $e }", "each {|e| put $e } $x", "put $x | each {|l| all $l }"}
			code = codes[r.Intn(len(codes))]
			x.inc("elvish_iterate")
			wantElems(elv.Eval(ev, code), b.m, "iterate")
			if got, err := vals.Collect(b.v); err != nil || len(got) != n {
				bad("vals-collect", fmt.Sprintf("vals.Collect: %d elements, %v; array copy has %d", len(got), err, n), b, code, elv.Result{})
			} else {
				for i := range got {
					if got[i] != b.m[i] {
						bad("vals-collect", fmt.Sprintf("vals.Collect element #%d = %v; array copy has %s", i, got[i], show(b.m[i])), b, code, elv.Result{})
						break
					}
				}
			}
		case op < 94: // take / drop
			k := r.Intn(n + 3)
			if r.Intn(2) == 0 {
				code = "take " + strconv.Itoa(k) + " $x"
				wantElems(elv.Eval(ev, code), b.m[:min(k, n)], "take")
			} else {
				code = "drop " + strconv.Itoa(k) + " $x"
				wantElems(elv.Eval(ev, code), b.m[min(k, n):], "drop")
			}
			x.inc("elvish_take_drop")
		default: // a list literal built from the elements: a fresh whole vector
			val := x.fresh()
			elv.SetVar(ev, "val", val)
			code = "put [$@x $val]"
			x.inc("elvish_literal")
			wantList(elv.Eval(ev, code), append(cp(b.m, 1), val), 0, 0, "literal")
		}
		if x.failed {
			return
		}
		trace = append(trace, code)
		if nv != nil {
			add(nv)
			if r.Intn(3) != 0 {
				cur = nv
			}
		}
		if len(cur.m) < 2 && r.Intn(2) == 0 {
			cur = root
		}
		for _, v := range live {
			if !x.verify(v, "old") {
				return
			}
		}
		x.cnt["old_versions_rechecked"] += len(live)
	}
	c.Nontrivial("elvish", start, trace[0], trace[len(trace)/2], trace[len(trace)-1], x.next)
	if len(trace) > 12 {
		trace = trace[:12]
	}
	c.Sample("elvish", map[string]any{"start_len": start, "first_ops": trace})
}
