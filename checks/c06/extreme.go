package c06

// Phase "extreme": out-of-range requests with the largest and smallest ints,
// one probe per case (so that a crash is attributed to exactly one request).
// The expected answer is the documented rejection (nil / ok=false).

import (
	"fmt"
	"math"

	"verifharness/internal/mon"
)

func runExtreme(c *mon.Case) {
	x := newX(c)
	defer x.flush()
	r := x.r
	n := startLens[r.Intn(len(startLens))] + 3
	whole := x.build(n)
	recv := whole
	kind := c.I % 8
	if kind != 7 { // a slice that does not start at 0, possibly nested
		i := 1 + r.Intn(n-2)
		j := i + r.Intn(n-i+1)
		recv = x.sub(whole, i, j)
		if recv != nil && len(recv.m) > 2 && r.Intn(2) == 0 {
			recv = x.sub(recv, 1, len(recv.m)-r.Intn(2))
		}
		if recv == nil {
			return
		}
	}
	ln := len(recv.m)
	what := ""
	reject := func(name string, got any, isNil bool) {
		what = name
		if !isNil {
			x.fail("extreme:out-of-range-accepted", fmt.Sprintf("%s on a %s of length %d returned %v; want no value", name, kindName(recv.depth), ln, got), recv, nil)
		}
	}
	switch kind {
	case 0:
		g := recv.v.Assoc(math.MaxInt, 1)
		reject("Assoc(MaxInt, _)", g, g == nil)
	case 1:
		i := math.MaxInt - r.Intn(recv.off+1)
		g := recv.v.Assoc(i, 1)
		reject(fmt.Sprintf("Assoc(MaxInt-%d, _)", math.MaxInt-i), g, g == nil)
	case 2:
		g := recv.v.Assoc(math.MinInt+r.Intn(3), 1)
		reject("Assoc(MinInt+k, _)", g, g == nil)
	case 3:
		g := recv.v.SubVector(math.MinInt+r.Intn(2), math.MaxInt-r.Intn(2))
		reject("SubVector(MinInt+k, MaxInt-k)", g, g == nil)
	case 4:
		g := recv.v.SubVector(r.Intn(ln+1), math.MaxInt-r.Intn(recv.off+2))
		reject("SubVector(i, MaxInt-k)", g, g == nil)
	case 5:
		g := recv.v.SubVector(math.MaxInt-r.Intn(recv.off+2), math.MaxInt)
		reject("SubVector(MaxInt-k, MaxInt)", g, g == nil)
	case 6:
		i := math.MaxInt - r.Intn(recv.off+2)
		g, ok := recv.v.Index(i)
		reject("Index(MaxInt-k)", g, g == nil && !ok)
	case 7:
		g := whole.v.Assoc(math.MaxInt, 1)
		reject("Assoc(MaxInt, _)", g, g == nil)
		g = whole.v.SubVector(0, math.MaxInt)
		reject("SubVector(0, MaxInt)", g, g == nil)
		g = whole.v.SubVector(math.MinInt, 0)
		reject("SubVector(MinInt, 0)", g, g == nil)
	}
	x.inc("extreme_probes")
	x.ops++
	if !x.failed {
		x.verify(recv, "receiver-changed-by-extreme-probe")
	}
	c.Nontrivial("extreme", kind, n, ln, recv.off, what)
}

var _ = mon.Q
