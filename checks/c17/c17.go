// Package c17 runs every builtin command and module function that exists in
// the real namespaces with adversarial arguments, options, inputs and
// redirections, and decides only one thing: did the interpreter survive
// (property C17). Evaluation ends normally or with an Elvish exception; a Go
// panic, a fatal error or an evaluation that is blocked for good is a
// violation.
package c17

import (
	"encoding/json"
	"fmt"
	"math/rand"
	"os"
	"path/filepath"
	"regexp"
	"runtime/pprof"
	"sort"
	"strconv"
	"strings"
	"syscall"
	"time"

	"src.elv.sh/pkg"
	"src.elv.sh/pkg/diag"
	"src.elv.sh/pkg/elvdoc"
	"src.elv.sh/pkg/eval"
	"src.elv.sh/pkg/eval/errs"
	"src.elv.sh/pkg/eval/vals"
	"src.elv.sh/pkg/mods"
	"src.elv.sh/pkg/parse"
	"verifharness/internal/elv"
	"verifharness/internal/evalrun"
	"verifharness/internal/mon"
)

// ---------------------------------------------------------------------------
// catalogue of callables, built by reflection over the real namespaces

type optInfo struct{ Name, Default string }

type fnInfo struct {
	Name     string // as written in code: "str:repeat", "echo"
	Mod      string // "" for builtin
	HasDoc   bool
	Req      []string
	Opt      []string
	Variadic string
	Opts     []optInfo
}

// Never called: they are supposed to end or replace the process.
var neverCall = map[string]bool{"exit": true, "exec": true}

// Modules that are not exercised: epm drives git/network through external
// commands; readline-binding needs a live editor.
var skipModules = map[string]bool{"epm": true, "readline-binding": true, "": true, "edit": true, "store": true, "daemon": true}

func stub(fm *eval.Frame, _ ...any) error {
	return fmt.Errorf("stubbed out by the harness")
}

func newPlainEvaler() *eval.Evaler { return newEvaler(false) }
func newExtraEvaler() *eval.Evaler { return newEvaler(true) }

// newEvaler builds an interpreter like the shell's. With extra it also has
// $edit: (editor on a fake TTY) and store: (real database file); those are
// only needed by the programs that name them and cost 50 ms to set up.
func newEvaler(extra bool) *eval.Evaler {
	ev := eval.NewEvaler()
	mods.AddTo(ev)
	if extra {
		addExtraModules(ev)
	}
	// exit and exec are replaced: they are meant to terminate the process.
	ev.ExtendBuiltin(eval.BuildNs().AddGoFn("exit", stub).AddGoFn("exec", stub))
	return ev
}

// sigFields splits a documented signature the way elvdoc does: by parsing it
// as the parameter list of a lambda.
func sigFields(sig string) []string {
	pn := &parse.Primary{}
	parse.ParseAs(parse.Source{Code: "{|" + sig + "|}"}, pn, parse.Config{})
	var fields []string
	for _, n := range parse.Children(pn) {
		if _, isSep := n.(*parse.Sep); isSep {
			continue
		}
		s := strings.TrimSpace(parse.SourceText(n))
		if s != "" && s != "{|" && s != "|}" && s != "|" && s != "{" && s != "}" {
			fields = append(fields, s)
		}
	}
	return fields
}

func parseSig(fi *fnInfo, sig string) {
	for _, f := range sigFields(sig) {
		switch {
		case strings.HasPrefix(f, "&"):
			name, def, _ := strings.Cut(f[1:], "=")
			fi.Opts = append(fi.Opts, optInfo{name, def})
		case strings.HasPrefix(f, "@"):
			fi.Variadic = f[1:]
		case strings.HasSuffix(f, "?") || strings.Contains(f, "="):
			fi.Opt = append(fi.Opt, f)
		default:
			fi.Req = append(fi.Req, f)
		}
	}
}

func buildCatalogue() []fnInfo {
	ev := newEvaler(true)
	docs, _ := elvdoc.ExtractAllFromFS(pkg.ElvFiles)
	sigs := map[string]string{}
	hasDoc := map[string]bool{}
	modSet := map[string]bool{}
	for pfx, d := range docs {
		modSet[strings.TrimSuffix(pfx, ":")] = true
		for _, f := range d.Fns {
			if f.Fn != nil {
				sigs[f.Name] = f.Fn.Signature
				hasDoc[f.Name] = true
			}
		}
	}
	for _, m := range []string{"str", "re", "math", "path", "file", "os", "platform", "flag", "md", "doc", "runtime", "unix"} {
		modSet[m] = true
	}
	for _, m := range extraModules {
		modSet[m] = true
	}
	var out []fnInfo
	add := func(mod string, ns *eval.Ns) {
		var names []string
		ns.IterateKeysString(func(s string) { names = append(names, s) })
		sort.Strings(names)
		for _, n := range names {
			if !strings.HasSuffix(n, eval.FnSuffix) {
				continue
			}
			bare := strings.TrimSuffix(n, eval.FnSuffix)
			if mod == "" && neverCall[bare] {
				continue
			}
			full := bare
			if mod != "" {
				full = mod + ":" + bare
			}
			if mod == "edit" && !editPure[bare] {
				continue
			}
			fi := fnInfo{Name: full, Mod: mod, HasDoc: hasDoc[full]}
			if fi.HasDoc {
				parseSig(&fi, sigs[full])
			}
			out = append(out, fi)
		}
	}
	add("", ev.Builtin())
	var ms []string
	for m := range modSet {
		ms = append(ms, m)
	}
	sort.Strings(ms)
	for _, m := range ms {
		if skipModules[m] && !isExtra(m) {
			continue
		}
		if !regexp.MustCompile(`^[a-z][a-z0-9-]*$`).MatchString(m) {
			continue
		}
		code := "use " + m + "; put $" + m + ":"
		if m == "edit" {
			code = "put $edit:" // a namespace variable in builtin, like in the interactive shell
		}
		r := elv.Eval(ev, code)
		if r.Err != nil || len(r.Values) != 1 {
			continue
		}
		if ns, ok := r.Values[0].(*eval.Ns); ok {
			add(m, ns)
		}
	}
	return out
}

// The catalogue is computed once by the parent and handed to the children
// through a file in the parent's scratch directory (a child's scratch is
// <parent scratch>/<batch>/s); replay mode and a missing file fall back to
// computing it.
func cataloguePath(e *mon.Env) string {
	if e.IsChild {
		return filepath.Join(e.Scratch, "..", "..", "c17-catalogue.json")
	}
	return filepath.Join(e.Scratch, "c17-catalogue.json")
}

func parentSetup(e *mon.Env) {
	h = &harness{root: e.Scratch}
	fns := buildCatalogue()
	if b, err := json.Marshal(fns); err == nil {
		os.WriteFile(cataloguePath(e), b, 0o644)
	}
}

func loadCatalogue(e *mon.Env) []fnInfo {
	if e.IsChild {
		if b, err := os.ReadFile(cataloguePath(e)); err == nil {
			var fns []fnInfo
			if json.Unmarshal(b, &fns) == nil && len(fns) > 0 {
				return fns
			}
		}
	}
	return buildCatalogue()
}

// ---------------------------------------------------------------------------
// per-process harness state

type harness struct {
	run  *evalrun.Runner // plain interpreter
	runX *evalrun.Runner // interpreter with $edit: and store:
	fns  []fnInfo
	root string // scratch root of this process
	n    int
}

var h *harness

func childSetup(e *mon.Env) {
	// Safety net for the shared machine: no generated program needs more
	// than a few hundred MB. (Resource exhaustion is inconclusive by policy;
	// the generators avoid it, this only protects the other users.)
	if !mon.RaceEnabled {
		lim := syscall.Rlimit{Cur: 8 << 30, Max: 8 << 30}
		syscall.Setrlimit(syscall.RLIMIT_AS, &lim)
	}
	root := e.Scratch
	if root == "" {
		root, _ = os.MkdirTemp("", "c17-")
	}
	if pf := os.Getenv("C17_PROF"); pf != "" {
		f, _ := os.Create(pf)
		pprof.StartCPUProfile(f)
		go func() { time.Sleep(8 * time.Second); pprof.StopCPUProfile(); f.Close() }()
	}
	h = &harness{root: root}
	h.resetEnv()
	h.fns = loadCatalogue(e)
	lim := evalrun.Limits{MaxValues: 10000, MaxBytes: 1 << 20, Deadline: 1500 * time.Millisecond, Grace: 1500 * time.Millisecond}
	h.run = &evalrun.Runner{New: newPlainEvaler, Limits: lim}
	h.runX = &evalrun.Runner{New: newExtraEvaler, Limits: lim}
}

func (h *harness) workDir() string { return filepath.Join(h.root, "w", "a", "b", "c") }

func (h *harness) resetEnv() {
	home := filepath.Join(h.root, "w", "home")
	os.Setenv("PATH", "")
	os.Setenv("HOME", home)
	os.Setenv("TMPDIR", filepath.Join(h.root, "w", "tmp"))
	os.Setenv("XDG_CONFIG_HOME", home)
	os.Setenv("XDG_DATA_HOME", home)
	os.Setenv("XDG_STATE_HOME", home)
	os.Unsetenv("XDG_DATA_DIRS")
	os.Unsetenv("XDG_RUNTIME_DIR")
}

// resetWorld recreates the small directory tree every program runs in. The
// working directory is four levels below the process's scratch root, and the
// generators never produce a path with more than one "..", so no program can
// reach outside the scratch root.
func (h *harness) resetWorld() {
	h.resetEnv()
	w := filepath.Join(h.root, "w")
	os.Chdir(h.root)
	os.RemoveAll(w)
	wd := h.workDir()
	os.MkdirAll(filepath.Join(wd, "d1"), 0o755)
	os.MkdirAll(filepath.Join(w, "home"), 0o755)
	os.MkdirAll(filepath.Join(w, "tmp"), 0o755)
	os.WriteFile(filepath.Join(wd, "f1"), []byte("line1\nline2\n\xff\x00tail"), 0o644)
	os.WriteFile(filepath.Join(wd, "d1", "f2"), []byte("put x\n"), 0o644)
	os.WriteFile(filepath.Join(wd, "in"), []byte("alpha\nbeta gamma\n{\"k\": [1, 2]}\n\nlast"), 0o644)
	os.Symlink("loop", filepath.Join(wd, "loop"))
	os.Symlink("nowhere", filepath.Join(wd, "dangling"))
	os.Chdir(wd)
}

// ---------------------------------------------------------------------------
// program generation

type program struct {
	Code  string
	Fn    string
	Style string
	Class []string // generation classes present (for counters / floors)
}

var (
	fnPosFds = []string{"0", "1", "2", "3", "7", "255", "1024", "stdin", "stdout", "stderr", "(num 1)", "00", "0x2", "1_0", "4096"}
	badFds   = []string{"-1", "-3", "-9223372036854775808", "1.5", "x", "18446744073709551616", "$nil", "''", "[a]", "(num 1.5)", "(num -2)", "-0"}
	hugeFds  = []string{"9223372036854775807", "4611686018427387904", "1152921504606846976"}
)

// genRedir produces one adversarial redirection. Excluded by construction
// (see Assumptions): destinations between 4097 and 2^60 (the port table is a
// slice indexed by fd: pure memory), duplicating an output port onto port 0
// (reading from a live output channel waits for its writer by design) and
// reading from a pipe whose write end stays open.
func genRedir(r *rand.Rand, classes *[]string, safe bool) string {
	dst := ""
	dstIsZero := false
	k0 := r.Intn(100)
	if safe && k0 >= 75 {
		// the form runs on a pipeline-stage goroutine, where the known
		// negative/huge-fd crashes would take the whole child down every time;
		// the same code path is exercised from last-stage forms
		k0 = 50
	}
	switch k := k0; {
	case k < 45:
	case k < 75:
		dst = fnPosFds[r.Intn(len(fnPosFds))]
	case k < 93:
		dst = badFds[r.Intn(len(badFds))]
		if strings.HasPrefix(dst, "-") && dst != "-0" {
			*classes = append(*classes, "redir-negative-dst")
		}
	default:
		dst = hugeFds[r.Intn(len(hugeFds))]
		*classes = append(*classes, "redir-huge-dst")
	}
	op := []string{"<", ">", ">>", "<>"}[r.Intn(4)]
	switch dst {
	case "0", "stdin", "00", "-0":
		dstIsZero = true
	case "":
		dstIsZero = op == "<"
	}
	if r.Intn(2) == 0 {
		var src string
		switch k := r.Intn(100); {
		case k < 55:
			src = []string{"0", "1", "2", "3", "7", "stdin", "stdout", "stderr"}[r.Intn(8)]
		case k < 70:
			src = "-"
		case k < 85 && !safe:
			src = []string{"-1", "-3", "-9223372036854775808"}[r.Intn(3)]
			*classes = append(*classes, "redir-negative-src")
		default:
			src = []string{"99999999999", "x", "1.5", "$nil", "18446744073709551616", "[a]", "1024"}[r.Intn(7)]
		}
		if dstIsZero {
			switch src {
			case "1", "2", "stdout", "stderr", "3", "7":
				// 3 and 7 may have been made duplicates of an output port by an
				// earlier redirection of the same form (3>>&stdout 0>>&3)
				src = "0"
			}
		}
		return dst + op + "&" + src
	}
	var src string
	switch k := r.Intn(100); {
	case k < 50:
		src = dq([]string{"f1", "d1", "nonexistent", "nonexistent/x", "f1/x", "", "new1", "new2", "d1/new", "in", "loop", "dangling", "\xff", strings.Repeat("n", 300)}[r.Intn(14)])
	case k < 85:
		src = []string{"$vnull", "$vclosed", "$vpw", "$vpr", "$vrw", "$vpw[w]", "$vpr[r]"}[r.Intn(7)]
		if (op == "<" || op == "<>") && strings.HasPrefix(src, "$vpw") {
			src = "$vpr"
		}
	default:
		src = []string{"$nil", "[a]", "(num 1)", "[&r=$vnull]", "[&w=x]", "[&]", "[&r=$vpr[r] &w=$vnull]", "?(fail x)", "$nop~"}[r.Intn(9)]
	}
	return dst + op + " " + src
}

// sinks that stop reading early: the pipeline machinery then tells the
// producer that its reader is gone.
var boundedSinks = []string{"nop", "take 3", "take 0", "each {|x| break }"}
var sinks = []string{"nop", "take 3", "count", "each {|x| }", "put [(all)]", "only-values | count", "to-lines", "drop 2 | count", "each {|x| fail z }"}
var sources = []string{"put a b c", "echo \"l1\\nl2\"", "put [a b] [&k=v]", "range 5", "print \"a\\x00b\\xff\"", "put (num nan) $nil", "nop", "fail x", "put a; echo b; put c",
	"echo '{\"a\": [1, 2.5, null]}'", "put [1 2] [3 4]", "print 'no newline'", "put b a c", "put (num 3) 1 2/3", "echo \"1\\n2\\n3\"", "put ''", "repeat 20 x", "put $vnull"}

func (h *harness) genArgs(r *rand.Rand, fi *fnInfo) (args []val, opts []string) {
	n := 0
	valid := fi.HasDoc && r.Intn(100) < 72
	if valid {
		n = len(fi.Req)
		for range fi.Opt {
			if r.Intn(2) == 0 {
				n++
			}
		}
		if fi.Variadic != "" {
			n += r.Intn(4)
		}
	} else {
		n = r.Intn(len(fi.Req) + 3)
		if r.Intn(20) == 0 {
			n += 5
		}
	}
	names := append(append([]string{}, fi.Req...), fi.Opt...)
	for i := 0; i < n; i++ {
		switch {
		case i < len(names):
			args = append(args, hinted(r, names[i]))
		case fi.Variadic != "":
			args = append(args, hinted(r, fi.Variadic))
		default:
			args = append(args, anyVal(r))
		}
	}
	for _, o := range fi.Opts {
		if r.Intn(100) < 30 {
			var v val
			switch {
			case o.Default == "$true" || o.Default == "$false":
				if r.Intn(4) > 0 {
					v = kindVal(r, "bool")
				} else {
					v = anyVal(r)
				}
			case o.Default == "$nil" && r.Intn(3) > 0:
				v = hinted(r, o.Name)
			default:
				v = hinted(r, o.Name)
			}
			opts = append(opts, "&"+o.Name+"="+v.Expr)
		}
	}
	if r.Intn(100) < 6 {
		opts = append(opts, "&bogus="+anyVal(r).Expr)
	}
	if r.Intn(100) < 3 {
		opts = append(opts, "&"+dq(safeRandom(r))+"="+anyVal(r).Expr)
	}
	return args, opts
}

func smallOrBad(r *rand.Rand) val {
	switch k := r.Intn(10); {
	case k < 5:
		return numVal(r, magSmall)
	case k < 7:
		return val{[]string{"-1", "-100", "(num -1)", "-9223372036854775808", "-2147483649"}[r.Intn(5)], "num", magSmall}
	case k < 8:
		return numVal(r, magNone)
	}
	v := anyVal(r)
	if v.Kind == "num" && v.Mag >= magMid {
		return numVal(r, magSmall)
	}
	return v
}

// applyPolicy enforces the resource policy of the property: inputs whose only
// effect is to use memory or time proportional to a number are not crashes.
// It returns true when the call's output must be consumed by a bounded sink.
func applyPolicy(r *rand.Rand, fi *fnInfo, args []val, opts *[]string, classes *[]string) (needBoundedSink bool) {
	bigAt := func(i int) bool { return i < len(args) && args[i].Kind == "num" && args[i].Mag >= magMid }
	switch fi.Name {
	case "read-bytes":
		if len(args) > 0 && (bigAt(0) || args[0].Kind == "num" && args[0].Mag == magNone) {
			args[0] = smallOrBad(r)
		}
		if len(args) > 0 && strings.HasPrefix(args[0].Expr, "-") || len(args) > 0 && args[0].Expr == "(num -1)" {
			*classes = append(*classes, "read-bytes-negative")
		}
	case "repeat", "range":
		for i := range args {
			if args[i].Kind == "num" && args[i].Mag != magSmall {
				needBoundedSink = true
			}
			if args[i].Kind == "str" {
				needBoundedSink = true // may parse as a number
			}
		}
		for _, o := range *opts {
			if strings.HasPrefix(o, "&step=") {
				needBoundedSink = true
			}
		}
		if fi.Name == "range" {
			needBoundedSink = true
		}
	case "str:repeat":
		if bigAt(1) {
			// keep only the class where the result length overflows: Go
			// refuses that without allocating
			if args[1].Mag == magHuge && r.Intn(2) == 0 {
				// 8 bytes times 2^61 or more always overflows int
				args[0] = val{"abcdefgh", "str", 0}
				args[1] = val{[]string{"4611686018427387904", "9223372036854775807", "2305843009213693952"}[r.Intn(3)], "num", magHuge}
				*classes = append(*classes, "str-repeat-overflow")
			} else {
				args[1] = smallOrBad(r)
			}
		}
		if len(args) > 1 && args[1].Kind == "str" {
			args[1] = smallOrBad(r)
		}
	case "math:pow":
		if len(args) > 1 && (bigAt(1) || args[1].Kind == "str") {
			args[1] = smallOrBad(r)
		}
		if len(args) > 1 && args[1].Kind == "num" && args[1].Mag == magNone && len(args) > 0 && args[0].Kind == "num" && args[0].Mag >= magMid {
			// exact rational exponents are fine (float path), keep
		}
		if len(args) == 2 && (args[0].Expr == "0" || args[0].Expr == "(num 0)") && strings.HasPrefix(strings.TrimPrefix(args[1].Expr, "(num "), "-") {
			*classes = append(*classes, "pow-zero-negative")
		}
	case "sleep":
		if len(args) > 0 {
			args[0] = val{[]string{"0", "'0s'", "'1ms'", "0.001", "-1", "'-1s'", "x", "(num nan)", "$nil", "[a]", "1e400", "(num -inf)", "''", "(num 1/1000)", "'1x'"}[r.Intn(15)], "num", magSmall}
		}
	case "benchmark":
		var keep []string
		for _, o := range *opts {
			if !strings.HasPrefix(o, "&min-time=") && !strings.HasPrefix(o, "&min-runs=") {
				keep = append(keep, o)
			}
		}
		keep = append(keep, "&min-time="+[]string{"0s", "1ms", "-1s", "x", "''", "1us"}[r.Intn(6)])
		if r.Intn(2) == 0 {
			keep = append(keep, "&min-runs="+smallOrBad(r).Expr)
		}
		*opts = keep
	}
	return needBoundedSink
}

var preludeVars = []struct{ name, def string }{
	{"$vnull", "var vnull = (file:open /dev/null)"},
	{"$vclosed", "var vclosed = (file:open /dev/null); file:close $vclosed"},
	{"$vpw", "var vpw = (file:pipe)"},
	{"$vpr", "var vpr = (file:pipe); file:close $vpr[w]"},
	{"$vrw", "var vrw = (file:open-output &also-input=$true &if-exists=append rw.tmp)"},
}

var modRefRe = regexp.MustCompile(`\b([a-z][a-z0-9-]*):[a-z~-]`)

// assemble adds the prelude (use statements and the file variables that the
// body refers to), so that the program text is self-contained.
func assemble(body string, mod string) string {
	uses := map[string]bool{}
	if mod != "" {
		uses[mod] = true
	}
	var pre []string
	for _, pv := range preludeVars {
		if strings.Contains(body, pv.name) {
			pre = append(pre, pv.def)
			uses["file"] = true
		}
	}
	for _, m := range modRefRe.FindAllStringSubmatch(body, -1) {
		switch m[1] {
		case "str", "re", "os", "math", "path", "file", "flag", "md", "doc", "platform", "runtime", "unix", "edit", "store":
			uses[m[1]] = true
		}
	}
	var us []string
	for m := range uses {
		if m == "edit" {
			continue // installed in the builtin namespace by the harness
		}
		us = append(us, "use "+m)
	}
	sort.Strings(us)
	parts := append(us, pre...)
	parts = append(parts, body)
	return strings.Join(parts, "\n")
}

var opHeadRe = regexp.MustCompile(`^[a-z][a-z0-9:-]*$`)

func head(name string) string {
	if opHeadRe.MatchString(name) {
		return name
	}
	// operators and names with a leading dash: call through the variable
	return "$'" + strings.ReplaceAll(name, "'", "''") + "~'"
}

func (h *harness) genCall(r *rand.Rand, fi *fnInfo) program {
	args, opts := h.genArgs(r, fi)
	var classes []string
	bounded := applyPolicy(r, fi, args, &opts, &classes)
	var parts []string
	parts = append(parts, head(fi.Name))
	// options may come before, between or after the arguments
	items := make([]string, 0, len(args)+len(opts))
	for _, a := range args {
		items = append(items, a.Expr)
	}
	for _, o := range opts {
		k := r.Intn(len(items) + 1)
		items = append(items[:k], append([]string{o}, items[k:]...)...)
	}
	parts = append(parts, items...)
	call := strings.Join(parts, " ")

	style := r.Intn(11)
	for _, a := range args {
		if a.Expr == "$nil" && (style == 2 || style == 4) {
			// the $nil-argument crash class is kept on the evaluation
			// goroutine, where it is classed by its input (see judge)
			style = 0
		}
	}
	if bounded {
		style = []int{2, 4}[r.Intn(2)]
	}
	var body, sname string
	switch style {
	case 0, 1:
		sname, body = "plain", call
	case 2:
		sname = "pipe-out"
		sk := sinks
		if bounded {
			sk = boundedSinks
		}
		body = call + " | " + sk[r.Intn(len(sk))]
	case 3:
		sname, body = "pipe-in", sources[r.Intn(len(sources))]+" | "+call
	case 4:
		sname = "pipe-both"
		sk := sinks
		if bounded {
			sk = boundedSinks
		}
		body = sources[r.Intn(len(sources))] + " | " + call + " | " + sk[r.Intn(len(sk))]
	case 5:
		sname, body = "capture", "nop ("+call+")"
	case 6:
		sname, body = "try", "try { "+call+" } catch e { nop $e[reason] } finally { nop }"
	case 7:
		sname, body = "exc-capture", "nop ?("+call+")"
	case 8:
		sname = "redir"
		body = call
		for k := 1 + r.Intn(3); k > 0; k-- {
			body += " " + genRedir(r, &classes, false)
		}
	case 9:
		sname = "lambda-redir"
		body = "{ " + call + " }"
		for k := 1 + r.Intn(3); k > 0; k-- {
			body += " " + genRedir(r, &classes, false)
		}
	default:
		sname = "stdin-file"
		body = call + " < in"
	}
	return program{Code: assemble(body, fi.Mod), Fn: fi.Name, Style: sname, Class: classes}
}

// ---------------------------------------------------------------------------
// running and judging one program

func classifyErr(err error) string {
	if err == nil {
		return "ok"
	}
	if elv.IsParseError(err) {
		return "parse-error"
	}
	if elv.IsCompileError(err) {
		return "compile-error"
	}
	r := elv.Reason(err)
	if r == nil {
		return "NOT-AN-EXCEPTION"
	}
	switch r := r.(type) {
	case errs.ArityMismatch:
		return "exc:arity"
	case eval.WrongArgType:
		return "exc:argtype"
	case eval.UnknownOption:
		return "exc:unknown-option"
	case errs.BadValue:
		return "exc:bad-value"
	case errs.OutOfRange:
		return "exc:out-of-range"
	case eval.FailError:
		return "exc:fail"
	case eval.PipelineError:
		return "exc:pipeline"
	case eval.InvalidFD:
		return "exc:invalid-fd"
	default:
		if r == eval.ErrNoOptAccepted {
			return "exc:no-opt"
		}
		if r == eval.ErrInterrupted {
			return "exc:interrupted"
		}
		return "exc:other"
	}
}

// bodyReached: the call got past argument binding, so the command's own
// code ran on adversarial values.
func bodyReached(class string) bool {
	switch class {
	case "exc:arity", "exc:argtype", "exc:unknown-option", "exc:no-opt", "parse-error", "compile-error", "exc:interrupted", "NOT-AN-EXCEPTION":
		return false
	}
	return true
}

// display does what the shell does with the results: values are printed with
// their repr, errors are shown. A panic here kills a real shell just the same
// (it propagates to the framework and is reported with its frame).
func display(o *evalrun.Outcome) {
	for i, v := range o.Values {
		if i >= 64 {
			break
		}
		_ = vals.ReprPlain(v)
		_ = vals.ToString(v)
	}
	if o.Err != nil {
		_ = o.Err.Error()
		if s, ok := o.Err.(diag.Shower); ok {
			_ = s.Show("")
		}
	}
}

func (h *harness) judge(c *mon.Case, p program, stdin bool) string {
	t0 := time.Now()
	h.resetWorld()
	c.Count("us_reset", int(time.Since(t0).Microseconds()))
	t0 = time.Now()
	defer func() {
		d := time.Since(t0)
		c.Count("us_judge", int(d.Microseconds()))
		if d > 25*time.Millisecond {
			c.Count("slow_cases", 1)
			c.Count("us_slow", int(d.Microseconds()))
			if os.Getenv("C17_DEBUG") != "" {
				fmt.Fprintf(os.Stderr, "SLOW %v: %s\n", d, mon.Q(p.Code))
			}
		}
	}()
	cfg := evalrun.Cfg{Global: eval.BuildNs().Ns()}
	var inF *os.File
	if stdin {
		f, err := os.Open("in")
		if err == nil {
			inF = f
			ch := make(chan any, 4)
			ch <- "v1"
			ch <- vals.MakeList("x", "y")
			ch <- 3
			close(ch)
			cfg.Stdin = &eval.Port{File: f, Chan: ch}
		}
	}
	run := h.run
	if strings.Contains(p.Code, "edit:") || strings.Contains(p.Code, "store:") {
		run = h.runX
	}
	o := run.Run(p.Code, cfg)
	if c.Env.Verbose {
		fmt.Printf("program:\n%s\n-> err=%v values=%d bytes=%q panic=%v hang=%q abandoned=%v\n", p.Code, o.Err, len(o.Values), clip(string(o.Bytes), 200), o.Panic, o.HangSig, o.Abandoned)
	}
	if inF != nil {
		inF.Close()
	}
	w := map[string]any{"program": p.Code, "fn": p.Fn, "style": p.Style, "stdin_file": stdin}
	for _, cl := range p.Class {
		c.Count("gen_"+cl, 1)
	}
	switch {
	case o.Panic != nil:
		w["stack"] = o.Stack
		if strings.Contains(o.PanicSig, "nil pointer dereference") && strings.Contains(lastLine(p.Code), "$nil") {
			// one root cause (goFn.Call hands $nil to parameters of interface
			// type), many frames: classed by the input, frame kept
			o.PanicSig = "panic:nil-argument:" + strings.TrimPrefix(o.PanicSig, "panic:")
		}
		c.Violation(o.PanicSig, fmt.Sprintf("Go panic while evaluating %s: %v", mon.Q(lastLine(p.Code)), o.Panic), w)
		c.Count("outcome_panic", 1)
		return "panic"
	case o.HangSig != "":
		w["goroutines"] = clip(o.HangDump, 6000)
		c.Violation(o.HangSig, "evaluation is blocked for good (every goroutine of it waits): "+mon.Q(lastLine(p.Code)), w)
		c.Count("outcome_hang", 1)
		return "hang"
	case o.Abandoned:
		if o.Running {
			c.Inconclusive("gave-up-still-running")
		} else {
			c.Inconclusive("gave-up-waiting-for-io")
		}
		return "abandoned"
	}
	class := classifyErr(o.Err)
	if class == "NOT-AN-EXCEPTION" {
		c.Violation("error-not-exception", fmt.Sprintf("Eval returned an error that is neither a parse error, a compilation error nor an exception: %T %v", o.Err, o.Err), w)
	}
	display(o)
	if o.TimedOut {
		c.Count("outcome_deadline", 1)
	}
	if o.Capped {
		c.Count("outcome_capped", 1)
	}
	c.Count("outcome_"+strings.ReplaceAll(class, ":", "_"), 1)
	return class
}

func lastLine(s string) string {
	if k := strings.LastIndex(s, "\n"); k >= 0 {
		return s[k+1:]
	}
	return s
}

func clip(s string, n int) string {
	if len(s) > n {
		return s[:n]
	}
	return s
}

func runCalls(c *mon.Case) {
	fi := &h.fns[c.I%len(h.fns)]
	p := h.genCall(c.Rand, fi)
	stdin := c.Rand.Intn(3) == 0
	class := h.judge(c, p, stdin)
	c.Distinct("callables_called", fi.Name)
	c.Distinct("styles", p.Style)
	if bodyReached(class) {
		c.Distinct("callables_body_reached", fi.Name)
		c.Nontrivial(p.Code)
		c.Count("body_reached", 1)
	}
	if c.I < 3*len(h.fns) && c.I%97 == 0 {
		c.Sample("call:"+fi.Name, map[string]any{"program": p.Code, "outcome": class})
	}
	if c.I == 0 {
		c.Max("catalogue_size", len(h.fns))
	}
}

// ---------------------------------------------------------------------------
// phase "redir": forms with 1..4 adversarial redirections around bodies that
// read and write

var redirBodies = []string{
	"echo a", "put a", "print x; put y", "echo a; echo b >&2", "nop", "slurp", "read-line", "read-upto x", "read-bytes 3", "only-bytes", "only-values", "all", "each {|x| put $x }",
	"from-lines", "from-json", "count", "echo a | each {|x| put $x }", "put a | only-values", "{ echo in } | slurp", "fail x", "to-lines [a b]", "pprint [a]", "show ?(fail x)",
	"put a b | to-json", "echo a >&2", "put a >&2", "{ echo deep >&3 }", "{ echo deep >&7 } 7>&1", "print a >&1 2>&1", "repeat 3 x | count", "put (echo sub)", "put ?(echo sub)",
	"file:close $vnull", "printf '%s\\n' a", "styled a red | to-string (one)", "range 3 | peach {|x| put $x }", "run-parallel { echo a } { put b }", "take 1", "drop 1", "from-terminated x",
	"tmp E:VERIF_X = 1; echo $E:VERIF_X", "eval 'echo evald'", "use-mod str", "time { echo t }", "deprecate msg", "-stack", "src",
}

func (h *harness) genRedirProgram(r *rand.Rand) program {
	var classes []string
	body := redirBodies[r.Intn(len(redirBodies))]
	form := body
	if r.Intn(3) > 0 || strings.ContainsAny(body, "|;") {
		form = "{ " + body + " }"
	}
	wrap := r.Intn(6)
	for k := 1 + r.Intn(4); k > 0; k-- {
		form += " " + genRedir(r, &classes, wrap == 1)
	}
	switch wrap {
	case 0:
		form = sources[r.Intn(len(sources))] + " | " + form
	case 1:
		form = form + " | " + sinks[r.Intn(len(sinks))]
	case 2:
		form = "nop (" + form + ")"
	case 3:
		form = "try { " + form + " } catch e { echo caught }"
	}
	return program{Code: assemble(form, ""), Fn: "(redir)", Style: "redir", Class: classes}
}

func runRedir(c *mon.Case) {
	p := h.genRedirProgram(c.Rand)
	class := h.judge(c, p, c.Rand.Intn(3) == 0)
	if class == "ok" || strings.HasPrefix(class, "exc:") {
		c.Nontrivial(p.Code)
	}
	if class == "ok" {
		c.Count("redir_forms_ok", 1)
	}
	if c.I%211 == 0 {
		c.Sample("redir", map[string]any{"program": p.Code, "outcome": class})
	}
}

// ---------------------------------------------------------------------------
// phase "lang": core-language forms with adversarial operands (indexing,
// slicing, assignment, calling values, special commands)

var langTemplates = []string{
	"put V[W]", "put V[W..X]", "put V[W..=X]", "put V[..W]", "put V[W..]", "put V[W][X]", "var a = V; set a[W] = X; put $a", "var a = V; del a[W]", "var a b = V W; put $a $b",
	"var @a = V W; put $a", "var a @b c = V W X; put $b", "for x V { put $x }", "for x V { break } else { put e }", "if V { put t } elif W { put u } else { put f }", "while V { break }",
	"and V W", "or V W", "coalesce V W", "V W X", "(V W)", "put V | W", "V", "put VW", "put V^W", "put {V,W}X", "put ~V", "nop $V", "put $@V", "put V &W=X", "echo &sep=V W X",
	"try { fail V } catch e { put $e[reason] }", "try { V } catch { } else { } finally { }", "fn f {|a &o=V| put $a $o }; f W &o=X", "fn f {|@a| put $@a }; f V W", "f = V", "tmp pwd = V",
	"with a = V { put $a }", "use V", "pragma unknown-command = V", "del V", "var a:b = V", "set V = W", "put $nonexistent-V", "put (put V W)[X]", "put ?(fail V)[reason][content]",
	"put [V W][X..Y]", "put [&k=V][W]", "put [&V=W][X]", "put [V][0][W]", "put V[W..X..Y]", "put V[]", "put V[W X]", "put (num V)", "put (exact-num V)", "* V W", "/ V W", "% V W", "+ V W X",
	"== V W", "< V W", "<s V W", "eq V W X", "compare V W", "order [V W X]", "put V | each {|x| put $x[W] }", "var x = V; set x[W][X] = Y; put $x", "var m = [&a=V]; set m[a][W] = X; put $m",
	"{ put V } W", "{|a| put $a } V W", "{|a &k=1| put $a $k } V &k=W &j=X", "call V [W] [&k=X]", "put V[W] > new1", "echo V >&W", "echo V W>&X", "echo V W> new2",
	"{ echo a >&0 }", "peach {|x| put $x[W] } [V X]", "put V | peach {|x| fail $x }", "run-parallel { put V[W] } { fail X }",
	"defer { put V }", "{ defer { fail V }; put W }", "return", "break", "continue", "fn g { return }; g; put V", "put (styled V W)", "put (styled V W)[X]", "put (styled V W)[X][Y]",
	"printf V W X", "put V..W", "put [(range W)][V..X]", "nop V[W..X] | nop", "var s = V; put $s[W] $s[X..]", "put 'abc'[W..X]", "put \"a\\xffb好\"[W]", "put \"a\\xffb好\"[W..X]",
}

var holeRe = regexp.MustCompile(`[VWXY]`)

func (h *harness) genLang(r *rand.Rand) program {
	t := langTemplates[r.Intn(len(langTemplates))]
	code := holeRe.ReplaceAllStringFunc(t, func(hole string) string {
		if hole == "W" && (strings.Contains(t, "W>") || strings.Contains(t, "W<")) {
			// a redirection destination: the port table is indexed by it
			switch k := r.Intn(10); {
			case k < 5:
				return fnPosFds[r.Intn(len(fnPosFds))]
			case k < 8:
				return badFds[r.Intn(len(badFds))]
			}
			return hugeFds[r.Intn(len(hugeFds))]
		}
		switch r.Intn(10) {
		case 0, 1, 2:
			if strings.Contains(t, "range") {
				return numVal(r, magSmall).Expr
			}
			return anyNum(r).Expr
		case 3, 4:
			return strVal(r).Expr
		default:
			v := anyVal(r)
			if v.Kind == "num" && v.Mag >= magMid && strings.Contains(t, "range") {
				return numVal(r, magSmall).Expr
			}
			return v.Expr
		}
	})
	return program{Code: assemble(code, ""), Fn: "(lang)", Style: t}
}

func runLang(c *mon.Case) {
	p := h.genLang(c.Rand)
	class := h.judge(c, p, c.Rand.Intn(4) == 0)
	c.Distinct("lang_templates", p.Style)
	if class == "ok" || strings.HasPrefix(class, "exc:") {
		c.Nontrivial(p.Code)
		c.Count("lang_evaluated", 1)
	}
	if c.I%307 == 0 {
		c.Sample("lang", map[string]any{"program": p.Code, "outcome": class})
	}
}

// ---------------------------------------------------------------------------
// phase "ports": the port table used against its direction. A port that is
// closed or redirected to a file has no value channel; an input port has a
// closed placeholder channel; a pipeline stage may redirect its own stdin.
// None of that may crash or block for good. (Kept apart from the other phases
// because every blocked evaluation costs a settle interval.)

var portReaders = []string{"only-values", "all", "each {|x| put $x }", "count", "from-lines", "keep-if {|x| put $true }", "to-lines", "take 1", "drop 1", "one", "only-bytes", "slurp", "read-line", "peach {|x| put $x }", "compact", "order"}
var portWriters = []string{"put a", "put a b", "put [a]", "echo a", "print a", "repeat 2 x", "range 3", "str:join , [a b]", "to-json", "pprint a", "put a; echo b", "all [a b]", "each $put~ [a b]"}
var chanless = []string{">&-", "> new1", ">> new1", "<> new1", "> $vnull", "> $vpw"}
var inputish = []string{"< in", "< f1", "<&0", "< $vnull", "< $vpr", "<&stdin"}

func (h *harness) genPorts(r *rand.Rand) program {
	rd := portReaders[r.Intn(len(portReaders))]
	wr := portWriters[r.Intn(len(portWriters))]
	n := []string{"1", "2", "5"}[r.Intn(3)]
	var code, class string
	switch r.Intn(8) {
	case 0: // read values from a port that has no value channel
		class = "values-from-chanless-port"
		code = "{ " + rd + " <&" + n + " } " + n + chanless[r.Intn(len(chanless))]
	case 1:
		class = "values-from-chanless-port"
		code = rd + " 0" + chanless[r.Intn(len(chanless))]
	case 2: // write values to a port that is an input port
		class = "value-to-input-port"
		code = wr + " >&0"
	case 3:
		class = "value-to-input-port"
		code = "{ " + wr + " >&" + n + " } " + n + inputish[r.Intn(len(inputish))]
	case 4:
		class = "value-to-input-port"
		code = "put x | " + wr + " >&0"
	case 5: // a pipeline stage that redirects its own stdin
		class = "stage-stdin-redirected"
		code = wr + " | " + rd + " " + []string{"< in", "<&-", "0<&-", "< $vpr", "< $vnull", "0>> new1", "0<> new1", "< in < f1", "<&0", "< nonexistent"}[r.Intn(10)]
	case 6:
		class = "stage-stdin-redirected"
		code = wr + " | { " + rd + " } " + []string{"< in", "<&-", "< $vpr", "0> new1"}[r.Intn(4)] + " | " + sinks[r.Intn(len(sinks))]
	default: // a stage that redirects its pipe output
		class = "stage-stdout-redirected"
		code = wr + " " + []string{"> new1", ">&-", ">&2", ">> new1", "> $vnull", ">&1"}[r.Intn(6)] + " | " + rd
	}
	return program{Code: assemble(code, ""), Fn: "(ports)", Style: class, Class: []string{class}}
}

func runPorts(c *mon.Case) {
	p := h.genPorts(c.Rand)
	class := h.judge(c, p, c.Rand.Intn(4) == 0)
	if class == "ok" || strings.HasPrefix(class, "exc:") {
		c.Nontrivial(p.Code)
	}
	if c.I%41 == 0 {
		c.Sample("ports:"+p.Style, map[string]any{"program": p.Code, "outcome": class})
	}
}

// ---------------------------------------------------------------------------
// phase "corpus": programs that crashed or hung an interpreter at some point
// (the design-phase candidates and everything the generators found since),
// plus close variations. They run in every tier, so that a known class is
// observed (or seen fixed) independently of the seed.

var corpus = []string{
	"echo a -1>/dev/null", "echo a 1>&-3", "echo a -9223372036854775808>&1", "echo a >&-1", "echo a 9223372036854775807> new1", "echo a 4611686018427387904>&1",
	"math:pow 0 -1", "math:pow (num 0) (num -3)", "math:pow 0 (num -1/2)", "math:pow (num 0.0) -1", "math:pow 0 -9223372036854775808", "math:pow 0 -100000000000000000000", "math:pow 0 -9223372036854775809", "math:pow (num 0) 100000000000000000000", "math:pow 1 -100000000000000000000", "math:pow -1 100000000000000000001", "math:pow 0/5 -18446744073709551616",
	"is (styled a red) (styled a red)", "var e = ?(fail x | fail y); is $e[reason] $e[reason]", "var t = (styled a red); is $t $t", "is [&a=(styled a red)] [&a=(styled a red)]", "is ?(fail x)[reason] ?(fail x)[reason]",
	"read-bytes -1", "read-bytes (num -5) < in", "str:repeat abcd 4611686018427387904", "str:repeat ab 9223372036854775807", "str:repeat '' 9223372036854775807",
	"run-parallel {|x| }", "run-parallel $nop~ {|x| }", "run-parallel { fail a } {|x| } { put b }",
	"put a >&0", "put a 1< in", "echo x | put a >&0", "{ put a >&5 } 5< in", "range 3 >&0",
	"range 5 | nop < in", "range 5 | slurp < in", "put a | nop 0<&-", "put a | { nop } 0>> new1", "echo a | { nop } < in < f1", "put a | nop < nonexistent", "put a | nop < in | nop",
	"{ only-values <&1 } > new1", "{ only-values <&1 } >&-", "{ each {|x| put $x } <&2 } 2>&-", "count 0>&-", "{ all <&1 } >> new1",
	"render-styledown (str:join '' [(repeat 31 a)])\"\u597d\\n\"(str:join '' [(repeat 31 ' ')])\"\u597d\\n\"",
	"put [a b][1..0]", "put 'abc'[1..-9223372036854775808]", "put [a b c][(num 1e18)]", "put (num 1/3)[0]", "put \"a\\xffb\"[1]", "var l = [a b]; set l[2] = c",
	"printf '%[5]d %[0]d %*d' 3", "order [(num nan) 1 a]", "order &less-than={|a b| put x } [b a]", "order &key={|x| fail k } [b a]", "compare (num nan) (num nan)", "base 1 5", "base 36 -9223372036854775808",
	"randint 5 1", "randint (num -3) 9223372036854775807", "randint -9223372036854775808 9223372036854775807", "randint -1 9223372036854775807", "echo | ns $nil | keys (one)", "randint 0 0", "randint 3 3", "randint -1 -1", "randint 9223372036854775807 9223372036854775808", "-randseed 18446744073709551616", "take -1 [a]", "drop -1 [a]", "range 1 10 &step=0 | take 1", "range 0 1 &step=(num 1e-320) | take 2",
	"from-json < f1", "echo '[1, {\"a\": null}]' | from-json", "put (num nan) | to-json", "to-json [$nop~]", "from-terminated '' < in", "to-terminated \"\\x00\\x00\" [a]", "read-upto '' < in",
	"flag:parse [-a] [[a]]", "flag:parse-getopt [--=x] [[&short=a]]", "flag:parse-getopt [-a] [[&short=ab]]", "flag:call {|&a=1 &a-b=2| } [--a-b x]", "flag:call $nop~ [a]",
	"re:replace '(' x y", "re:find 'a{1000}{1000}' a", "re:replace a {|x| put $x $x } aa", "re:replace a {|x| put [$x] } aa", "re:awk {|@a| put $a[5] } < in", "re:split &max=0 a banana",
	"str:from-codepoints 0x110000", "str:from-utf8-bytes 256", "str:split '' \"\\xff\\xfe\"", "str:replace &max=-5 '' x abc", "str:title \"\\xff\"", "str:index-any abc ''",
	"file:seek $vclosed 0", "file:seek $vnull -5 &whence=end", "file:truncate f1 -1", "file:close $vclosed", "file:is-tty (num 99999)", "file:is-tty -1", "file:open-output f1 &create-perm=(num -1)",
	"os:chmod -1 f1", "os:chmod &special-modes=[bogus] 0o644 f1", "os:stat loop", "os:eval-symlinks loop", "os:mkdir-all ''", "os:rename f1 d1", "path:temp-file 'a*b*/c'", "os:temp-dir &dir=nonexistent",
	"styled a (num 1)", "styled (styled a red) {|s| put x }", "styled-segment [a] &bold", "styled a 'bg-#ggg'", "put (styled abc red)[1..2][0]", "render-styledown \"a\\n\"", "derender-styledown (styled a '#010203')",
	"md:show &width=-1 '# a'", "doc:show &width=(num 1e18) put", "doc:show ''", "doc:source '$'", "doc:find ''", "wcswidth \"\\xff\"", "-override-wcwidth x -1",
	"eval 'put $nonexistent'", "eval '{' &on-end=$nop~", "eval &ns=(ns [&a=b]) 'put $a' &on-end={|n| fail e }", "use-mod ./f1", "use-mod ../nonexistent", "call {|a| } [a b] [&]", "call $nop~ [a] [&(num 1)=x]",
	"peach &num-workers=0 $nop~ [a]", "peach &num-workers=(num -1) $nop~ [a]", "peach &num-workers=(num nan) $nop~ [a]", "put a b | peach {|x| break }", "each {|x| fail $x } [(styled a red)]",
	"sleep -1", "sleep (num nan)", "sleep '1x'", "time &on-end={|d| fail t } { }", "benchmark &min-runs=-1 { }", "benchmark &min-time=-1s { }", "benchmark &min-runs=0 &min-time=0s { fail b }",
	"defer { }", "{ defer { fail d }; fail b }", "return", "break | continue", "fail ?(fail x)", "fail $nil", "fail [&]", "show ?(fail \"\\xff\")", "show $nil", "show ?(fail x | fail y)",
	"ns [&(num 1)=x]", "ns [&'a:b'=x]", "make-map [[a]]", "make-map [a]", "assoc [a] 5 x", "assoc abc 0 x", "dissoc [a] 0", "keys (num 1)", "has-value $nil a", "conj $nil a", "count $nop~",
	"cd nonexistent", "cd f1", "tilde-abbr \"\\xff\"", "set-env '' x", "set-env 'a=b' x", "unset-env ''", "get-env \"a\\x00b\"", "has-external ''", "search-external ''", "external '' | nop", "(external '')", "e:nonexistent-cmd",
	"resolve ''", "resolve 'a b'", "-log ''", "-log d1", "src", "-stack | nop", "-ifaddrs | nop", "edit:key \"\\xff\"", "edit:key 'Ctrl-Alt-Shift-'", "edit:binding-table [&a=b]", "edit:complex-candidate [a]",
	"edit:complete-getopt [a] [[&short=ab]] []", "edit:complete-getopt [-] [[&long='']] [$nop~]", "edit:complete-getopt [''] [[&short=a &arg-required=$true &arg-optional=$true]] [...]", "edit:wordify \"a\\xff {\"",
	"edit:match-subseq \"\\xff\" [a]", "put a \"\\xff\" | edit:match-subseq \"\\xffx\"", "edit:complete-filename", "edit:complete-filename a \"\\xff\"", "edit:complete-sudo sudo", "edit:command-history &cmd-only &dedup &newest-first",
	"range 4000 | only-values | nop", "to-lines [(range 30000)] | only-bytes | nop", "range 4000 | only-values | take 1",
	"conj $nil a", "each $nil [a]", "keep-if $nil [a]", "time $nil", "benchmark &min-time=0s $nil", "call $nil [] [&]", "call $nop~ $nil [&]", "call $nop~ [] $nil", "ns $nil", "show $nil",
	"peach $nil [a]", "run-parallel $nil", "edit:add-vars $nil", "edit:del-vars $nil", "edit:binding-table $nil", "re:awk $nil < in", "flag:call $nil []",
	"file:is-tty -1", "file:is-tty -9223372036854775808", "file:is-tty 9223372036854775807",
	"store:cmd -1", "store:cmd 9223372036854775807", "store:cmds -5 5", "store:cmds 5 -5", "store:del-cmd 0", "store:next-cmd -1 ''", "store:prev-cmd 9223372036854775807 \"\\xff\"", "store:add-dir ''", "store:del-dir nonexistent",
}

func runCorpus(c *mon.Case) {
	code := corpus[c.I%len(corpus)]
	p := program{Code: assemble(code, ""), Fn: "(corpus)", Style: "corpus"}
	class := h.judge(c, p, false)
	c.Count("corpus_programs", 1)
	if class == "ok" || strings.HasPrefix(class, "exc:") {
		c.Nontrivial(p.Code)
	}
	if c.I%37 == 0 {
		c.Sample("corpus", map[string]any{"program": p.Code, "outcome": class})
	}
}

// ---------------------------------------------------------------------------

// scale divides the case counts (development aid: C17_SCALE=10 runs a tenth).
func scale(n int) int {
	if v, err := strconv.Atoi(os.Getenv("C17_SCALE")); err == nil && v > 1 {
		return n / v
	}
	return n
}

// Spec returns the C17 check.
func Spec() *mon.Spec {
	return &mon.Spec{
		ID:    "C17",
		Level: "exploration",
		Rule: "Phase calls: case i calls callable number i mod N of the catalogue obtained by reflection over the real builtin namespace and every loadable module namespace " +
			"(arity and option names are taken from the embedded .d.elv documentation when present), with arguments/options from an adversarial value pool, in one of 10 form styles " +
			"(plain, pipelines with sources/sinks, captures, try, 1..3 adversarial redirections, file stdin). Phase redir: reader/writer bodies under 1..4 adversarial redirections. " +
			"Phase lang: core-language templates (indexing, slicing, assignment, calls, special commands) with pool operands. Phase ports: readers on ports without a value channel, writers on input ports, pipeline stages that redirect their own stdin/stdout. The catalogue includes the editor's pure helpers (fake TTY) and store: on a real database file. " +
			"Every program runs on the real Evaler on its own goroutine under a watcher; results are rendered like the shell does. " +
			"Non-trivial = the program text is distinct and evaluation got past argument binding (ended ok or with an exception raised by the command's own code).",
		Assumptions: []string{
			"exit and exec are never called (replaced by stubs): ending or replacing the process is their specified behaviour.",
			"External commands cannot run: PATH is empty and no generated string contains an absolute path; epm (git/network via external commands) and readline-binding (needs a live editor) are not loaded.",
			"Resource policy of the property (memory/time exhaustion is not a crash): numeric arguments that only scale memory or time are capped for read-bytes, repeat, range, str:repeat, math:pow (exponent), sleep and benchmark (min-time/min-runs); " +
				"redirection destinations between 4097 and 2^60 are not generated (the port table is a slice indexed by fd; such a program dies by memory exhaustion, observed as 'fatal error: out of memory' for 99999999999>f). Evaluations that are still running when given up are counted inconclusive.",
			"Reading values from a *live* output channel (0<&1 while port 1 is a terminal/capture/pipe port, also through an intermediate duplicate such as 3>&1 0<&3) waits for the writer by design and is not generated; reading from a pipe whose write end stays open is not generated either. Reading from a port that has no value channel at all (closed with >&- or redirected to a file) is generated: it must not block for good.",
			"A producer that emits more values than the (unspecified) channel buffer into a consumer that reads only bytes waits for that consumer, which waits for the producer's end of file (language.md, Pipeline: 'Elvish may have internal buffering ... The exact buffer size is not specified'): such program-level deadlocks (repeat 40 x | slurp) are not generated, and an evaluation goroutine that waits in a read is never counted as a hang.",
			"A hang verdict needs either a goroutine of the evaluation in a state that can never be left (nil-channel operation) or two identical goroutine snapshots with no runnable Elvish goroutine and the evaluation goroutine waiting on a channel or lock (not on I/O).",
			"All programs of a child process share process-global state (cwd, environment, umask, wcwidth overrides, random seed); the work directory and the environment are rebuilt before every program.",
		},
		HangViolation: true,
		ChildSetup:    childSetup,
		ParentSetup:   parentSetup,
		Phases: []mon.Phase{
			{Name: "corpus", Quick: len(corpus), Thorough: len(corpus), Run: runCorpus, Timeout: 60 * time.Second},
			{Name: "calls", Quick: scale(30000), Thorough: scale(240000), Run: runCalls, Timeout: 60 * time.Second},
			{Name: "redir", Quick: scale(6000), Thorough: scale(40000), Run: runRedir, Timeout: 60 * time.Second},
			{Name: "lang", Quick: scale(8000), Thorough: scale(60000), Run: runLang, Timeout: 60 * time.Second},
			{Name: "ports", Quick: scale(480), Thorough: scale(6000), Run: runPorts, Timeout: 60 * time.Second},
		},
		Floors: map[string]int{
			"distinct_nontrivial": 6000, "callables_called": 150, "callables_body_reached": 140, "body_reached": 6000, "styles": 10,
			"corpus_programs": 100, "lang_templates": 60, "lang_evaluated": 1500, "redir_forms_ok": 200,
			"gen_redir-negative-dst": 100, "gen_redir-negative-src": 100, "gen_redir-huge-dst": 100,
			"gen_values-from-chanless-port": 30, "gen_value-to-input-port": 40, "gen_stage-stdin-redirected": 30,
			"outcome_ok": 5000, "outcome_exc_bad-value": 500,
		},
	}
}
