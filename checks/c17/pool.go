package c17

import (
	"math/rand"
	"strconv"
	"strings"

	"verifharness/internal/gen"
)

// A val is one member of the adversarial value pool: an Elvish expression
// (self-contained source text, so that every generated program can be pasted
// into a real elvish) plus what it needs in the prelude.
type val struct {
	Expr string
	Kind string // str num nil bool exc list map fn file styled ns struct
	// numeric magnitude class for the resource policy
	Mag int // 0 = not an integer-like number, 1 = small (|n| <= 300), 2 = mid, 3 = huge (>= 2^53 or non-int64)
}

const (
	magNone = iota
	magSmall
	magMid
	magHuge
)

// dq renders s as a double-quoted Elvish string with every non-printable or
// non-ASCII byte escaped, so that invalid UTF-8 survives the round trip.
func dq(s string) string {
	var sb strings.Builder
	sb.WriteByte('"')
	for i := 0; i < len(s); i++ {
		b := s[i]
		switch {
		case b == '"' || b == '\\':
			sb.WriteByte('\\')
			sb.WriteByte(b)
		case b >= 0x20 && b < 0x7f:
			sb.WriteByte(b)
		default:
			sb.WriteString(`\x`)
			sb.WriteString(strconv.FormatInt(int64(b)>>4, 16))
			sb.WriteString(strconv.FormatInt(int64(b)&15, 16))
		}
	}
	sb.WriteByte('"')
	return sb.String()
}

var strPool = []string{
	"", "a", "abc", "a b", "foo bar  baz", " ", "\t", "line1\nline2\n", "a\r\nb", "\x00", "a\x00b",
	"\xff", "a\xffb", "\xc0\x80", "\xe4\xb8", "\xed\xa0\x80", "\xf0\x9f\x98",
	"好", "世界好", "é", "e\u0301", "\U0001F600", "\ufffd", "\u200b", "\x1b[31m", "ß", "İ", "ǅ",
	"-", "--", "-1", "-a", "--long", "--long=x", "-ab", "--=x",
	"%s", "%d %v %q", "%!", "%[2]d", "%*d", "%5.2f|%-8s|", "%%", "%x %o %b %c %U", "%",
	"*", "**", "?", "[a-z]+", "(", ")", "(a)(b)", `\d+`, `\`, "a*", ".", "^", "$", "(?i)a", "(?P<n>a)", "[[:alpha:]]", "a{1000}", "a{2,1}", `\C`, "x*",
	"stdin", "stdout", "stderr", "true", "false", "nan", "NaN", "inf", "-inf", "+Inf", "0x10", "0b101", "0o17", "1/0", "1/3", "1e400", "1_000", "1e3", "-0", "0.0", "1.", ".5", "1e-400",
	"red", "bold", "bg-blue", "default", "#ff0000", "#fff", "color255", "color256", "bg-#00ff00", "no-bold", "toggle-inverse", "inverse", "bright-red", "fg-default",
	"..", "nonexistent", "d1", "f1", "d1/f2", "f1/x", "nonexistent/x", "a.txt", "a.b.c", ".hidden", "loop", "dangling", "d1/", "./f1", "d1/../f1",
	"1h", "1s", "-1s", "0s", "1ms", "1.5h30m", "1x",
	"start", "end", "current", "create", "error", "truncate", "append", "ignore", "setuid", "setgid", "sticky",
	`{"a":1}`, `[1,2`, `[1,2,[3,{"k":null}]]`, `"s"`, `1e999`, `{"a":{"a":{"a":{}}}}`, "nul\x00l",
	"x=y", "=", "a=", "put x", "fail y", "{", "nop |", "var a = 1", "use str", "}", "put $nonexistent", "echo >&-",
	"builtin:", "str:", "e:ls", "put~", "nop", "str:join", "edit:", ":", "a:b:c",
	"# Title\n\n- a\n- b\n\n```elvish\necho\n```\n", "*a* _b_ `c` [l](u) <http://x> &amp; &#0;", "> q\n> r\n\n1. x\n2. y\n", "{red}x", "foo\n***\n", "a\n{ $x", "[styled]\n",
	"PATHX", "VERIF_UNSET", "a b=c",
}

func init() {
	strPool = append(strPool, strings.Repeat("x", 300), strings.Repeat("ab ", 200), strings.Repeat("好", 90), strings.Repeat("\xff", 40),
		strings.Repeat("(", 50), strings.Repeat("a/", 20)+"b")
}

// safeRandom makes a random adversarial string harmless as a path: no '/'.
func safeRandom(r *rand.Rand) string {
	var s string
	switch r.Intn(3) {
	case 0:
		s = gen.BytesAdv(r, 8)
	case 1:
		s = gen.RandomBytes(r, 12)
	default:
		s = gen.ValidUTF8Adv(r, 10)
	}
	return strings.ReplaceAll(s, "/", "")
}

var numSmall = []string{"0", "1", "-1", "2", "3", "7", "10", "16", "36", "37", "64", "100", "255", "256", "-2", "-100", "(num 0)", "(num 1)", "(num -1)", "(num 5)", "(num 200)", "0x10", "0o17", "0b11", "1_0"}
var numCore = []string{"0", "1", "-1", "2", "-2", "(num 0)", "(num -1)", "(num -3)"}
var numMid = []string{"65536", "1000000", "-1000000", "2147483647", "2147483648", "-2147483649", "4294967296", "4294967297", "(num 1114111)", "(num 1114112)", "55296", "1099511627776"}
var numHuge = []string{"9007199254740992", "9007199254740993", "4611686018427387904", "9223372036854775807", "9223372036854775808", "-9223372036854775808", "-9223372036854775809",
	"18446744073709551615", "18446744073709551616", "1000000000000000000000000000000", "-1000000000000000000000000000000", "(num 100000000000000000000)", "(num 9223372036854775807)", "(* 9223372036854775807 9223372036854775807)"}
var numNonInt = []string{"(num 0.0)", "(num -0.0)", "(num 0.5)", "(num -1.5)", "(num 1e-320)", "(num 1e308)", "(num -1e308)", "(num 1e18)", "(num nan)", "(num inf)", "(num -inf)", "(num 2.5)", "(num 1e100)",
	"(num 1/2)", "(num -7/3)", "(num 1/1000000000000000000000)", "(num 100000000000000000000/3)", "(num 3/1)", "1.5", "1e3", "-0.0", "1/2", "(inexact-num 3)", "(exact-num 0.5)", "(num 4.0)", "(num 1e15)", "(num 9007199254740993.0)"}

var miscPool = []val{
	{"$nil", "nil", 0}, {"$true", "bool", 0}, {"$false", "bool", 0}, {"$ok", "exc", 0},
	{"?(fail x)", "exc", 0}, {"?(fail [a])", "exc", 0}, {"?(fail x | fail y)", "exc", 0}, {"?(return)", "exc", 0}, {"?(break)", "exc", 0},
	{"?(fail \"\\xff\")", "exc", 0}, {"?(put x >&-)", "exc", 0}, {"?(nop (num x))", "exc", 0}, {"?(fail $nil)", "exc", 0},
	{"?(fail x)[reason]", "struct", 0}, {"?(fail x | fail y)[reason]", "struct", 0}, {"?(return)[reason]", "struct", 0}, {"?(fail x | fail y)[reason][exceptions]", "list", 0},
	{"?(put x >&-)[reason]", "struct", 0}, {"?(+ 1 &x=y)[reason]", "struct", 0}, {"?(+ a)[reason]", "struct", 0}, {"?(fail x)[stack-trace]", "struct", 0},
	{"[]", "list", 0}, {"[a]", "list", 0}, {"[a b c]", "list", 0}, {"[(num 1) 2 3.5]", "list", 0}, {"[[a] [b [c]]]", "list", 0}, {"[$nil]", "list", 0}, {"[(range 100)]", "list", 0},
	{"[\"\\xff\" '']", "list", 0}, {"[1 2 3]", "list", 0}, {"[-a --long x]", "list", 0}, {"[-- -a]", "list", 0}, {"[a [b] [&k=v] $nil (num 1)]", "list", 0}, {"[b a c a]", "list", 0},
	{"[(num nan) 1 a]", "list", 0}, {"[[&short=a] [&long=abc &arg-required=$true]]", "list", 0}, {"[[&short=ab]]", "list", 0}, {"[[&long=''] [&short=a &arg-optional=$true &arg-required=$true]]", "list", 0},
	{"[[&short=\"\\xff\"]]", "list", 0}, {"[[a b] [c d]]", "list", 0}, {"[[a] [b c d]]", "list", 0}, {"[(range 40)][3..7]", "list", 0},
	{"[&]", "map", 0}, {"[&a=b]", "map", 0}, {"[&k=[&k2=v]]", "map", 0}, {"[&(num 1)=x &1=y]", "map", 0}, {"[&[a]=[&]]", "map", 0}, {"[&x=$nil &y=(num 1.5)]", "map", 0},
	{"[&short=a &long=abc &arg-optional=$true]", "map", 0}, {"[&r=$vnull]", "map", 0}, {"[&w=$vnull]", "map", 0}, {"[&r=x &w=(num 1)]", "map", 0}, {"[&bold=$true]", "map", 0},
	{"[&a=1 &b=2 &c=3 &d=4 &e=5 &f=6 &g=7 &h=8 &i=9 &j=10]", "map", 0},
	{"$nop~", "fn", 0}, {"$put~", "fn", 0}, {"$echo~", "fn", 0}, {"{|x| put $x }", "fn", 0}, {"{ }", "fn", 0}, {"{|@a| }", "fn", 0}, {"{|a b| put $a$b }", "fn", 0},
	{"{|x| fail $x }", "fn", 0}, {"{|x| break }", "fn", 0}, {"{|@a &o=1| put $o }", "fn", 0}, {"$'+~'", "fn", 0}, {"{|a b| < $a $b }", "fn", 0}, {"{|a b| put x }", "fn", 0},
	{"{|x| put >&- }", "fn", 0}, {"{|x| return }", "fn", 0}, {"{|x| put $x $x }", "fn", 0}, {"{|x| echo $x }", "fn", 0}, {"$str:to-upper~", "fn", 0}, {"{|x| put [$x] }", "fn", 0},
	{"{|x| put $true }", "fn", 0}, {"{|x| put (num nan) }", "fn", 0}, {"{|a b| put $nil }", "fn", 0}, {"{|a b| fail cmp }", "fn", 0}, {"{|m| put $m[text] }", "fn", 0},
	{"$vnull", "file", 0}, {"$vclosed", "file", 0}, {"$vpw", "struct", 0}, {"$vpw[w]", "file", 0}, {"$vpr", "struct", 0}, {"$vpr[r]", "file", 0}, {"$vrw", "file", 0},
	{"(styled a red)", "styled", 0}, {"(styled-segment a &bold)", "styled", 0}, {"(styled a red)(styled b blue)", "styled", 0}, {"(styled '' red)", "styled", 0},
	{"(styled \"\\xff\\n\" bg-green inverse)", "styled", 0}, {"(styled a red)x", "styled", 0}, {"(styled-segment (styled-segment a &fg-color=red) &bg-color='#00ff00')", "styled", 0},
	{"(ns [&a=b])", "ns", 0}, {"$str:", "ns", 0}, {"(ns [&])", "ns", 0}, {"$builtin:", "ns", 0},
	{"(os:stat .)", "struct", 0}, {"[(re:find . abc)][0]", "struct", 0}, {"(os:stat .)[perm]", "num", 0}, {"[(re:find '(a)(b)?' ab)][0][groups]", "list", 0},
}

// numVal picks a number expression of the given magnitude class.
func numVal(r *rand.Rand, mag int) val {
	switch mag {
	case magSmall:
		if r.Intn(2) == 0 {
			return val{numCore[r.Intn(len(numCore))], "num", magSmall}
		}
		return val{numSmall[r.Intn(len(numSmall))], "num", magSmall}
	case magMid:
		return val{numMid[r.Intn(len(numMid))], "num", magMid}
	case magHuge:
		return val{numHuge[r.Intn(len(numHuge))], "num", magHuge}
	}
	return val{numNonInt[r.Intn(len(numNonInt))], "num", magNone}
}

func anyNum(r *rand.Rand) val {
	switch k := r.Intn(10); {
	case k < 4:
		return numVal(r, magSmall)
	case k < 5:
		return numVal(r, magMid)
	case k < 7:
		return numVal(r, magHuge)
	}
	return numVal(r, magNone)
}

func strVal(r *rand.Rand) val {
	if r.Intn(4) == 0 {
		return val{dq(safeRandom(r)), "str", 0}
	}
	s := strPool[r.Intn(len(strPool))]
	return val{dq(s), "str", 0}
}

func kindVal(r *rand.Rand, kind string) val {
	var cands []val
	for _, v := range miscPool {
		if v.Kind == kind {
			cands = append(cands, v)
		}
	}
	if len(cands) == 0 {
		return strVal(r)
	}
	return cands[r.Intn(len(cands))]
}

// anyVal draws from the whole pool.
func anyVal(r *rand.Rand) val {
	if r.Intn(100) < 7 {
		return val{"$nil", "nil", 0}
	}
	switch k := r.Intn(10); {
	case k < 3:
		return strVal(r)
	case k < 6:
		return anyNum(r)
	}
	return miscPool[r.Intn(len(miscPool))]
}

// hinted draws a value that fits the documented parameter name most of the
// time, and anything at all otherwise.
func hinted(r *rand.Rand, param string) val {
	if r.Intn(100) < 30 {
		return anyVal(r)
	}
	p := strings.ToLower(strings.TrimSuffix(strings.TrimPrefix(param, "@"), "?"))
	if k := strings.Index(p, "="); k >= 0 {
		p = p[:k]
	}
	has := func(ss ...string) bool {
		for _, s := range ss {
			if p == s || strings.HasPrefix(p, s+"-") || strings.HasSuffix(p, "-"+s) {
				return true
			}
		}
		return false
	}
	switch {
	case has("n", "num", "number", "x", "y", "low", "high", "base", "exponent", "start", "end", "step", "size", "offset", "perm", "seed", "width", "max", "status", "string-or-number"):
		return anyNum(r)
	case has("f", "fn", "callable", "predicate", "less-than", "on-end", "on-run-end", "on-parse-error", "repl"):
		return kindVal(r, "fn")
	case has("inputs", "input", "list", "input-list", "args", "specs", "more", "queries"):
		return kindVal(r, "list")
	case has("map", "container", "opts"):
		if r.Intn(2) == 0 {
			return kindVal(r, "list")
		}
		return kindVal(r, "map")
	case has("file"):
		return kindVal(r, "file")
	case has("e", "exc"):
		return kindVal(r, "exc")
	case has("object"):
		if r.Intn(2) == 0 {
			return kindVal(r, "styled")
		}
		return strVal(r)
	}
	return strVal(r)
}
