package c17

import (
	"os"
	"path/filepath"
	"sync"

	"src.elv.sh/pkg/cli/clitest"
	"src.elv.sh/pkg/edit"
	"src.elv.sh/pkg/eval"
	storemod "src.elv.sh/pkg/mods/store"
	"src.elv.sh/pkg/store"
	"src.elv.sh/pkg/store/storedefs"
)

// Modules that the plain interpreter does not have but that the property
// names: the editor's pure helpers (installed as $edit: with a fake TTY, the
// way the shell installs the real editor) and store: on a real bbolt file.
var extraModules = []string{"edit", "store"}

func isExtra(m string) bool { return m == "edit" || m == "store" }

// The editor commands that do not need a running read loop.
var editPure = map[string]bool{
	"binding-table": true, "key": true, "wordify": true, "complete-getopt": true, "complete-filename": true,
	"complete-dirname": true, "complete-sudo": true, "complex-candidate": true, "match-prefix": true,
	"match-subseq": true, "match-substr": true, "command-history": true, "add-var": true, "add-vars": true,
	"del-var": true, "del-vars": true, "insert-at-dot": true, "replace-input": true,
}

var (
	storeOnce sync.Once
	theStore  storedefs.Store
)

func openStore() storedefs.Store {
	storeOnce.Do(func() {
		dir := ""
		if h != nil {
			dir = h.root
		}
		if dir == "" {
			dir, _ = os.MkdirTemp("", "c17-store-")
		}
		st, err := store.NewStore(filepath.Join(dir, "c17-store.db"))
		if err == nil {
			theStore = st
			st.AddCmd("echo first")
			st.AddCmd("put second")
			st.AddDir("/verif-dir", 1)
		}
	})
	return theStore
}

func addExtraModules(ev *eval.Evaler) {
	st := openStore()
	if st != nil {
		ev.AddModule("store", storemod.Ns(st))
	}
	tty, _ := clitest.NewFakeTTY()
	ed := edit.NewEditor(tty, ev, st)
	ev.ExtendBuiltin(eval.BuildNs().AddNs("edit", ed))
}
